/-
  Cello/IterMut.lean — containers that have been MUTATED before they are iterated (engine `iter`, property C11).

  Cello/Iter.lean models the iteration protocol over containers given by their contents.  Here the containers are the
  result of a HISTORY of mutations, and what iteration reads is the representation those mutations maintain:

    src/List.c   `LL`: `head`, `tail`, `nitems` and a heap of nodes with their `next` / `prev` link words.
                 List_Link, List_Unlink, List_At (the two-ended walk), List_Push, List_Pop, List_Push_At, List_Pop_At,
                 List_Rem, List_Set, List_Concat, List_Clear, List_Resize are mirrored statement by statement;
                 List_Iter_Init/Next/Last/Prev, List_Len, List_Get read `head` / `tail` / `nitems` and the link words
                 (`llI`).  The backward walk is therefore exactly as good as the `prev` words the mutations leave.
    src/Array.c  `AR`: the backing store (`nslots` cells, a cell never written is `none`) and `nitems`.
                 Array_Reserve_More / Array_Reserve_Less (realloc), the memmoves of Array_Push_At / Array_Pop_At,
                 Array_Push, Array_Pop, Array_Rem, Array_Set, Array_Concat, Array_Clear, Array_Resize;
                 iteration, Array_Len, Array_Get read cells `0 … nitems-1` of the store (`arI`).
    src/Table.c  through Cello/Table.lean (robin-hood insertion, back-shift on removal, rehash on growth / shrinking),
                 with the parameters regenerated from the source (CelloGen/Table.lean); iteration scans the slot array
                 and Table_Len answers the `nitems` FIELD (`tabI`).
    src/Tree.c   `MTree`: a binary-search shape with the comparison of Tree.c and the `nitems` FIELD (`rbI`); the shape
                 stands for ANY shape with the same in-order sequence (see `MTree`).

  Outcomes of a mutation: `ok`, a Cello exception (the object is left as it was), or `undef` — the C code would read or
  write through NULL / a freed node / outside the store (CelloProofs/Lemmas/IterMut*.lean: never from a reachable state).
  Core Lean only (the driver links against this file).
-/
import Cello.Iter
import Cello.Table
import CelloGen.Table

namespace Cello.Iter

/-- outcome of one mutation -/
inductive MOut where
  | ok
  | index     -- IndexOutOfBoundsError
  | value     -- ValueError
  | key       -- KeyError
  | format    -- FormatError
  | undef     -- the C code leaves the object (NULL / freed node / outside the store) or does not terminate
deriving DecidableEq, Repr

def MOut.char : MOut → String
  | .ok => "." | .index => "I" | .value => "V" | .key => "K" | .format => "F" | .undef => "U"

/-- mutations of a sequence container (Array, List) -/
inductive SOp (α : Type) where
  | push (v : α)                 -- push(x, v)
  | pop                          -- pop(x)
  | pushAt (v : α) (i : Int)     -- push_at(x, v, i)
  | popAt (i : Int)              -- pop_at(x, i)
  | rem (v : α)                  -- rem(x, v)
  | put (i : Int) (v : α)        -- set(x, i, v)
  | concat (vs : List α)         -- concat(x, <Array of vs>)
  | resize (n : Nat)             -- resize(x, n)
deriving Repr

/-- mutations of a keyed container (Table, Tree); the value stored with key `k` is `10 * k` -/
inductive KOp where
  | set (k : Int)
  | rem (k : Int)
  | resize (n : Nat)
deriving Repr

/-! ## List: nodes, link words, head and tail -/

/-- one `List_Alloc`ed block: the two link words in front of the element -/
structure LNode (α : Type) where
  val : α
  next : Option Nat     -- `*List_Next(l, item)`, `none` = NULL
  prev : Option Nat     -- `*List_Prev(l, item)`

/-- `struct List` and the heap its nodes live in (`mem a = none`: no live node at address `a`); `brk` = the next
    address `calloc` hands out (addresses are never reused in the model: a stale pointer stays stale) -/
structure LL (α : Type) where
  mem : Nat → Option (LNode α)
  head : Option Nat
  tail : Option Nat
  nitems : Nat
  brk : Nat

namespace LL
variable {α : Type}

/-- `List_New` before the arguments are pushed -/
def empty : LL α := ⟨fun _ => none, none, none, 0, 0⟩

def store (l : LL α) (a : Nat) (nd : Option (LNode α)) : LL α :=
  { l with mem := fun x => if x = a then nd else l.mem x }

/-- `*List_Next(l, a) = v` (writing in front of a block that is not live: `none`) -/
def setNext (l : LL α) (a : Nat) (v : Option Nat) : Option (LL α) :=
  match l.mem a with
  | none => none
  | some nd => some (l.store a (some { nd with next := v }))

/-- `*List_Prev(l, a) = v` -/
def setPrev (l : LL α) (a : Nat) (v : Option Nat) : Option (LL α) :=
  match l.mem a with
  | none => none
  | some nd => some (l.store a (some { nd with prev := v }))

/-- `List_Alloc` + `assign`: a zeroed block (both link words NULL) holding `v` -/
def alloc (l : LL α) (v : α) : Nat × LL α :=
  (l.brk, { (l.store l.brk (some ⟨v, none, none⟩)) with brk := l.brk + 1 })

/-- `destruct(item); List_Free(l, item)` -/
def free (l : LL α) (a : Nat) : LL α := l.store a none

/-- `List_Unlink(l, item)`:
    ```
    next = *List_Next(item); prev = *List_Prev(item);
    if (item is head and item is tail) { head = NULL; tail = NULL; }
    else if (item is head) { head = next; *List_Prev(next) = NULL; }
    else if (item is tail) { tail = prev; *List_Next(prev) = NULL; }
    else { *List_Next(prev) = next; *List_Prev(next) = prev; }
    ``` -/
def unlink (l : LL α) (item : Nat) : Option (LL α) :=
  match l.mem item with
  | none => none
  | some nd =>
    if l.head = some item ∧ l.tail = some item then some { l with head := none, tail := none }
    else if l.head = some item then
      match nd.next with
      | none => none
      | some nx => ({ l with head := some nx }).setPrev nx none
    else if l.tail = some item then
      match nd.prev with
      | none => none
      | some pv => ({ l with tail := some pv }).setNext pv none
    else
      match nd.prev, nd.next with
      | some pv, some nx =>
        match l.setNext pv (some nx) with
        | none => none
        | some l1 => l1.setPrev nx (some pv)
      | _, _ => none

/-- `if (prev is NULL) { l->head = item; } else { *List_Next(l, prev) = item; }` -/
def linkPrev (l : LL α) (item : Nat) : Option Nat → Option (LL α)
  | none => some { l with head := some item }
  | some p => l.setNext p (some item)

/-- `if (next is NULL) { l->tail = item; } else { *List_Prev(l, next) = item; }` -/
def linkNext (l : LL α) (item : Nat) : Option Nat → Option (LL α)
  | none => some { l with tail := some item }
  | some n => l.setPrev n (some item)

/-- `List_Link(l, item, prev, next)`:
    ```
    if (prev is NULL) { head = item; } else { *List_Next(prev) = item; }
    if (next is NULL) { tail = item; } else { *List_Prev(next) = item; }
    *List_Next(item) = next; *List_Prev(item) = prev;
    ``` -/
def link (l : LL α) (item : Nat) (prev next : Option Nat) : Option (LL α) :=
  match l.linkPrev item prev with
  | none => none
  | some l1 =>
    match l1.linkNext item next with
    | none => none
    | some l2 =>
      match l2.setNext item next with
      | none => none
      | some l3 => l3.setPrev item prev

/-- `while (i) { item = *List_Next(l, item); i--; }` — `none`: a link word in front of NULL / a dead block was read -/
def stepNext (l : LL α) : Nat → Option Nat → Option (Option Nat)
  | 0, c => some c
  | _ + 1, none => none
  | k + 1, some a =>
    match l.mem a with
    | none => none
    | some nd => stepNext l k nd.next

/-- `while (i) { item = *List_Prev(l, item); i--; }` -/
def stepPrev (l : LL α) : Nat → Option Nat → Option (Option Nat)
  | 0, c => some c
  | _ + 1, none => none
  | k + 1, some a =>
    match l.mem a with
    | none => none
    | some nd => stepPrev l k nd.prev

inductive At where
  | node (a : Nat)
  | oob          -- IndexOutOfBoundsError
  | undef        -- a walk through NULL / a dead block, or NULL returned as the item
deriving Repr, DecidableEq

/-- `List_At(l, i)`: `i = i < 0 ? nitems+i : i`; bound check; from `head` along `next` when `i <= nitems/2`, else from
    `tail` along `prev` (`nitems-i-1` steps) -/
def nodeAt (l : LL α) (i : Int) : At :=
  let j : Int := if i < 0 then (l.nitems : Int) + i else i
  if j < 0 ∨ j ≥ (l.nitems : Int) then .oob
  else
    let r := if j.toNat ≤ l.nitems / 2 then stepNext l j.toNat l.head
             else stepPrev l (l.nitems - j.toNat - 1) l.tail
    match r with
    | some (some a) => .node a
    | _ => .undef

/-- `List_Link(l, item, prev, next); l->nitems++` for a freshly allocated `item` holding `v` -/
def insert (l : LL α) (v : α) (prev next : LL α → Option Nat) : LL α × MOut :=
  let (a, l1) := l.alloc v
  match l1.link a (prev l1) (next l1) with
  | some l2 => ({ l2 with nitems := l2.nitems + 1 }, .ok)
  | none => (l, .undef)

/-- `List_Push`: `List_Link(l, item, l->tail, NULL)` -/
def push (l : LL α) (v : α) : LL α × MOut := l.insert v (fun l1 => l1.tail) (fun _ => none)

/-- `List_Unlink(l, item); destruct(item); List_Free(l, item); l->nitems--;` -/
def dropNode (l : LL α) (a : Nat) : LL α × MOut :=
  match l.unlink a with
  | some l1 => ({ (l1.free a) with nitems := l1.nitems - 1 }, .ok)
  | none => (l, .undef)

/-- `List_Pop` -/
def pop (l : LL α) : LL α × MOut :=
  if l.nitems = 0 then (l, .index)
  else match l.tail with
    | some a => l.dropNode a
    | none => (l, .undef)

/-- `List_Push_At`: key 0 links at the head; any other key goes through `List_At` and the new node is linked between
    `*List_Prev(curr)` and `curr` (index validated before the allocation, fix 4077d96) -/
def pushAt (l : LL α) (v : α) (i : Int) : LL α × MOut :=
  if i = 0 then l.insert v (fun _ => none) (fun l1 => l1.head)
  else match l.nodeAt i with
    | .oob => (l, .index)
    | .undef => (l, .undef)
    | .node c =>
      match l.mem c with
      | none => (l, .undef)
      | some nd => l.insert v (fun _ => nd.prev) (fun _ => some c)

/-- `List_Pop_At` -/
def popAt (l : LL α) (i : Int) : LL α × MOut :=
  match l.nodeAt i with
  | .oob => (l, .index)
  | .undef => (l, .undef)
  | .node a => l.dropNode a

/-- the walk of `List_Rem`: `while (item) { if (eq(item, obj)) …; item = *List_Next(l, item); }` —
    `some none`: reached NULL, `none`: a dead block was read or the fuel ran out (a cycle) -/
def findFrom [DecidableEq α] (l : LL α) (v : α) : Nat → Option Nat → Option (Option Nat)
  | _, none => some none
  | 0, some _ => none
  | k + 1, some a =>
    match l.mem a with
    | none => none
    | some nd => if nd.val = v then some (some a) else findFrom l v k nd.next

/-- `List_Rem` -/
def rem [DecidableEq α] (l : LL α) (v : α) : LL α × MOut :=
  match l.findFrom v (l.brk + 1) l.head with
  | none => (l, .undef)
  | some none => (l, .value)
  | some (some a) => l.dropNode a

/-- `List_Set`: `assign(List_At(l, i), val)` -/
def put (l : LL α) (i : Int) (v : α) : LL α × MOut :=
  match l.nodeAt i with
  | .oob => (l, .index)
  | .undef => (l, .undef)
  | .node a =>
    match l.mem a with
    | none => (l, .undef)
    | some nd => (l.store a (some { nd with val := v }), .ok)

/-- `List_Concat`: `foreach (item in obj) List_Push(self, item)` -/
def concat (l : LL α) : List α → LL α × MOut
  | [] => (l, .ok)
  | v :: vs =>
    match l.push v with
    | (l1, .ok) => l1.concat vs
    | r => r

/-- the loop of `List_Clear`: `while (item) { next = *List_Next(item); destruct(item); List_Free(item); item = next; }` -/
def clearLoop (l : LL α) : Nat → Option Nat → Option (LL α)
  | _, none => some l
  | 0, some _ => none
  | k + 1, some a =>
    match l.mem a with
    | none => none
    | some nd => clearLoop (l.free a) k nd.next

/-- `List_Clear` -/
def clear (l : LL α) : LL α × MOut :=
  match l.clearLoop (l.brk + 1) l.head with
  | some l1 => ({ l1 with head := none, tail := none, nitems := 0 }, .ok)
  | none => (l, .undef)

/-- `while (n < l->nitems) { item = l->tail; List_Unlink; destruct; List_Free; l->nitems--; }` (`k` rounds) -/
def shrink (l : LL α) : Nat → LL α × MOut
  | 0 => (l, .ok)
  | k + 1 =>
    match l.tail with
    | none => (l, .undef)
    | some a =>
      match l.dropNode a with
      | (l1, .ok) => l1.shrink k
      | r => r

/-- `while (n > l->nitems) { item = List_Alloc(l); List_Link(l, item, l->tail, NULL); l->nitems++; }` (`k` rounds; the
    new elements are zeroed memory: `z`) -/
def grow (l : LL α) (z : α) : Nat → LL α × MOut
  | 0 => (l, .ok)
  | k + 1 =>
    match l.push z with
    | (l1, .ok) => l1.grow z k
    | r => r

/-- `List_Resize` -/
def resize (l : LL α) (z : α) (n : Nat) : LL α × MOut :=
  if n = 0 then l.clear
  else match l.shrink (l.nitems - n) with
    | (l1, .ok) => l1.grow z (n - l1.nitems)
    | r => r

/-- one mutation; `z` = the element that zeroed memory represents -/
def step [DecidableEq α] (z : α) (l : LL α) : SOp α → LL α × MOut
  | .push v => l.push v
  | .pop => l.pop
  | .pushAt v i => l.pushAt v i
  | .popAt i => l.popAt i
  | .rem v => l.rem v
  | .put i v => l.put i v
  | .concat vs => l.concat vs
  | .resize n => l.resize z n

/-- a history: every operation is attempted; an exception leaves the list as it was and the history goes on; `undef`
    ends it -/
def run [DecidableEq α] (z : α) : LL α → List (SOp α) → LL α × List MOut
  | l, [] => (l, [])
  | l, op :: ops =>
    match step z l op with
    | (_, .undef) => (l, [.undef])
    | (l1, o) => let (l2, os) := run z l1 ops; (l2, o :: os)

/-- `new(List, T, v…)`: `List_New` pushes its arguments -/
def new (vs : List α) : LL α × MOut := (empty : LL α).concat vs

/-- hand out the node at `o` as an element (NULL or a dead block handed out: the caller dereferences it) -/
def cursor (l : LL α) : Option Nat → Option Nat × Res α
  | none => (none, .undef)
  | some a =>
    match l.mem a with
    | some nd => (some a, .item nd.val)
    | none => (none, .undef)

/-- `return curr ? curr : Terminal` -/
def follow (l : LL α) : Option Nat → Option Nat × Res α
  | none => (none, .term)
  | some a => l.cursor (some a)

/-- the chain from `head` along `next`, at most `fuel` nodes: (address, value, prev word) — for the white-box dump -/
def chain (l : LL α) : Nat → Option Nat → List (Nat × α × Option Nat)
  | 0, _ => []
  | _, none => []
  | k + 1, some a =>
    match l.mem a with
    | none => []
    | some nd => (a, nd.val, nd.prev) :: chain l k nd.next

end LL

/-- List iteration as the C code does it: `List_Iter_Init` = `nitems is 0 ? Terminal : head`, `List_Iter_Next` = the
    `next` word, `List_Iter_Last` = `nitems is 0 ? Terminal : tail`, `List_Iter_Prev` = the `prev` word; `List_Len` = the
    `nitems` field; `List_Get` = `List_At`.  `Terminal` as a cursor reads in front of a static object: `undef`. -/
def llI {α : Type} (l : LL α) : Iterable α where
  σ := Option Nat
  s0 := none
  init := fun _ => if l.nitems = 0 then (none, .term) else l.cursor l.head
  next := fun s => match s with
    | none => (none, .undef)
    | some a => match l.mem a with
      | none => (none, .undef)
      | some nd => l.follow nd.next
  last := fun _ => if l.nitems = 0 then (none, .term) else l.cursor l.tail
  prev := fun s => match s with
    | none => (none, .undef)
    | some a => match l.mem a with
      | none => (none, .undef)
      | some nd => l.follow nd.prev
  len := some l.nitems
  get := some (fun k => match l.nodeAt k with
    | .node a => (l.mem a).map (·.val)
    | _ => none)
  getCur := fun s k => match l.nodeAt k with
    | .node a => some a
    | _ => s

/-! ## Array: backing store and nitems -/

/-- `struct Array`: `store.length` = `nslots`; a cell that was never written (fresh from realloc) is `none` -/
structure AR (α : Type) where
  store : List (Option α)
  nitems : Nat

namespace AR
variable {α : Type}

def empty : AR α := ⟨[], 0⟩

/-- `realloc(data, step * n)`: the common prefix survives, new cells are indeterminate -/
def realloc (s : List (Option α)) (n : Nat) : List (Option α) := s.take n ++ List.replicate (n - s.length) none

/-- `Array_Reserve_More`: `if (nitems > nslots) { nslots = nitems + nitems/2; realloc }` -/
def reserveMore (a : AR α) : AR α :=
  if a.nitems > a.store.length then { a with store := realloc a.store (a.nitems + a.nitems / 2) } else a

/-- `Array_Reserve_Less`: `if (nslots > nitems + nitems/2) { nslots = nitems; realloc }` -/
def reserveLess (a : AR α) : AR α :=
  if a.store.length > a.nitems + a.nitems / 2 then { a with store := realloc a.store a.nitems } else a

/-- `Array_Alloc(a, i); assign(Array_Item(a, i), v)` — outside the store: `none` -/
def write (a : AR α) (i : Nat) (v : α) : Option (AR α) :=
  if i < a.store.length then some { a with store := a.store.set i (some v) } else none

/-- `memmove(data + (i+1), data + i, cnt)` (cells) -/
def moveUp (s : List (Option α)) (i cnt : Nat) : Option (List (Option α)) :=
  if i + 1 + cnt ≤ s.length then some (s.take (i + 1) ++ (s.drop i).take cnt ++ s.drop (i + 1 + cnt)) else none

/-- `memmove(data + i, data + (i+1), cnt)` -/
def moveDown (s : List (Option α)) (i cnt : Nat) : Option (List (Option α)) :=
  if i + 1 + cnt ≤ s.length then some (s.take i ++ (s.drop (i + 1)).take cnt ++ s.drop (i + cnt)) else none

/-- `Array_Push`: `nitems++; Array_Reserve_More; Array_Alloc(nitems-1); assign` -/
def push (a : AR α) (v : α) : AR α × MOut :=
  let a1 := reserveMore { a with nitems := a.nitems + 1 }
  match a1.write (a1.nitems - 1) v with
  | some a2 => (a2, .ok)
  | none => (a, .undef)

/-- `Array_Pop`: `nitems--; Array_Reserve_Less` -/
def pop (a : AR α) : AR α × MOut :=
  if a.nitems = 0 then (a, .index) else (reserveLess { a with nitems := a.nitems - 1 }, .ok)

/-- `Array_Push_At`: `i = i < 0 ? (nitems+1)+i : i`; check `0 <= i <= nitems` (before anything is changed, fix 1929a3d);
    `nitems++; Array_Reserve_More; memmove(i+1 ← i, (nitems-1)-i cells); Array_Alloc(i); assign` -/
def pushAt (a : AR α) (v : α) (i : Int) : AR α × MOut :=
  let j : Int := if i < 0 then ((a.nitems : Int) + 1) + i else i
  if j < 0 ∨ j > (a.nitems : Int) then (a, .index)
  else
    let k := j.toNat
    let a1 := reserveMore { a with nitems := a.nitems + 1 }
    match moveUp a1.store k (a1.nitems - 1 - k) with
    | none => (a, .undef)
    | some s =>
      match ({ a1 with store := s } : AR α).write k v with
      | some a2 => (a2, .ok)
      | none => (a, .undef)

/-- `Array_Pop_At`: `i = i < 0 ? nitems+i : i`; check `0 <= i < nitems`; `memmove(i ← i+1, (nitems-1)-i cells); nitems--;
    Array_Reserve_Less` -/
def popAt (a : AR α) (i : Int) : AR α × MOut :=
  let j : Int := if i < 0 then (a.nitems : Int) + i else i
  if j < 0 ∨ j ≥ (a.nitems : Int) then (a, .index)
  else
    let k := j.toNat
    match moveDown a.store k (a.nitems - 1 - k) with
    | none => (a, .undef)
    | some s => (reserveLess { store := s, nitems := a.nitems - 1 }, .ok)

/-- `Array_Rem`: `Array_Pop_At` of the first `i < nitems` with `eq(Array_Item(a, i), obj)` -/
def rem [DecidableEq α] (a : AR α) (v : α) : AR α × MOut :=
  match (a.store.take a.nitems).findIdx? (fun c => c = some v) with
  | some i => a.popAt (i : Int)
  | none => (a, .value)

/-- `Array_Set` -/
def put (a : AR α) (i : Int) (v : α) : AR α × MOut :=
  let j : Int := if i < 0 then (a.nitems : Int) + i else i
  if j < 0 ∨ j ≥ (a.nitems : Int) then (a, .index)
  else match a.write j.toNat v with
    | some a1 => (a1, .ok)
    | none => (a, .undef)

/-- the `foreach` of `Array_Concat`: cell `at + i` gets the `i`-th element -/
def writeAll (a : AR α) : Nat → List α → Option (AR α)
  | _, [] => some a
  | at_, v :: vs =>
    match a.write at_ v with
    | none => none
    | some a1 => writeAll a1 (at_ + 1) vs

/-- `Array_Concat`: `nitems += len(obj); Array_Reserve_More;` then the elements are assigned in place -/
def concat (a : AR α) (vs : List α) : AR α × MOut :=
  let a1 := reserveMore { a with nitems := a.nitems + vs.length }
  match a1.writeAll a.nitems vs with
  | some a2 => (a2, .ok)
  | none => (a, .undef)

/-- `Array_Resize`: 0 clears (`free(data)`, `nitems = nslots = 0`); otherwise the elements beyond `n` are destroyed and the
    store is reallocated to exactly `n` cells (a larger `n` only reserves) -/
def resize (a : AR α) (n : Nat) : AR α × MOut :=
  if n = 0 then (⟨[], 0⟩, .ok)
  else ({ store := realloc a.store n, nitems := if n < a.nitems then n else a.nitems }, .ok)

def step [DecidableEq α] (a : AR α) : SOp α → AR α × MOut
  | .push v => a.push v
  | .pop => a.pop
  | .pushAt v i => a.pushAt v i
  | .popAt i => a.popAt i
  | .rem v => a.rem v
  | .put i v => a.put i v
  | .concat vs => a.concat vs
  | .resize n => a.resize n

def run [DecidableEq α] : AR α → List (SOp α) → AR α × List MOut
  | a, [] => (a, [])
  | a, op :: ops =>
    match step a op with
    | (_, .undef) => (a, [.undef])
    | (a1, o) => let (a2, os) := run a1 ops; (a2, o :: os)

/-- a `push` per element -/
def pushAll (a : AR α) : List α → AR α × MOut
  | [] => (a, .ok)
  | v :: vs =>
    match a.push v with
    | (a1, .ok) => a1.pushAll vs
    | r => r

/-- `new(Array, T)` followed by a `push` per initial element -/
def new (vs : List α) : AR α × MOut := (empty : AR α).pushAll vs

/-- `Array_Item(a, i)` handed out as an element: a cell outside the store or never written is `undef` -/
def read (a : AR α) (i : Nat) : Option Nat × Res α :=
  match a.store[i]? with
  | some (some v) => (some i, .item v)
  | _ => (none, .undef)

end AR

/-- Array iteration over the store: Init / Last answer Terminal when `nitems is 0`, else cell 0 / `nitems-1`;
    Next: `curr >= Array_Item(a, nitems-1) ? Terminal : curr + step`; Prev: `curr <= Array_Item(a, 0) ? Terminal : curr - step`;
    `Array_Len` = `nitems`; `Array_Get` normalises and bound-checks against `nitems`. -/
def arI {α : Type} (a : AR α) : Iterable α where
  σ := Option Nat
  s0 := none
  init := fun _ => if a.nitems = 0 then (none, .term) else a.read 0
  next := fun s => match s with
    | none => (none, .undef)
    | some i => if i + 1 ≥ a.nitems then (none, .term) else a.read (i + 1)
  last := fun _ => if a.nitems = 0 then (none, .term) else a.read (a.nitems - 1)
  prev := fun s => match s with
    | none => (none, .undef)
    | some i => if i ≤ 0 then (none, .term) else a.read (i - 1)
  len := some a.nitems
  get := some (fun k =>
    let j : Int := if k < 0 then (a.nitems : Int) + k else k
    if j < 0 ∨ j ≥ (a.nitems : Int) then none
    else match a.store[j.toNat]? with
      | some (some v) => some v
      | _ => none)
  getCur := fun s k => match normIdx a.nitems k with
    | some i => some i
    | none => s

/-! ## Table: slot array and the `nitems` field -/

/-- Table iteration over a slot array with the `nitems` FIELD given separately (`tableI` is the case of a field that
    equals the number of occupied slots) -/
def tableNI {α : Type} (slots : List (Option α)) (nitems : Nat) : Iterable α where
  σ := Option Nat
  s0 := none
  init := fun _ => if nitems = 0 then (none, .term) else scanRes (scanUp slots 0)
  next := fun s => match s with
    | none => (none, .undef)
    | some i => scanRes (scanUp (slots.drop (i + 1)) (i + 1))
  last := fun _ => if nitems = 0 then (none, .term) else scanRes (scanDown slots slots.length)
  prev := fun s => match s with
    | none => (none, .undef)
    | some i => scanRes (scanDown slots i)
  len := some nitems
  get := none

abbrev MTab := Cello.Table.Tab Int Int

/-- the parameters of src/Table.c as they are now (regenerated on every run) -/
def tabCfg : Cello.Table.Cfg :=
  { ge := CelloGen.Table.tieGe, growEmpty := CelloGen.Table.setGrowsEmpty,
    ideal := Cello.Table.idealSize CelloGen.Table.primes CelloGen.Table.loadNum CelloGen.Table.loadDen }

/-- `Int_Hash`: `(uint64_t)c_int(self)` -/
def intHash (x : Int) : Nat := (x % 18446744073709551616).toNat

/-- one mutation of a `Table(Int, Int)`; `none` = the model of Table.c fails (division by zero, endless probing) -/
def tabStep (t : MTab) : KOp → Option (MTab × MOut)
  | .set k =>
    match Cello.Table.set tabCfg intHash t k (10 * k) with
    | .ok t' => some (t', .ok)
    | .error _ => none
  | .rem k =>
    match Cello.Table.rem tabCfg intHash t k with
    | .ok (t', .raised _) => some (t', .key)
    | .ok (t', _) => some (t', .ok)
    | .error _ => none
  | .resize n =>
    match Cello.Table.resize tabCfg intHash t n with
    | .ok (t', .raised _) => some (t', .format)
    | .ok (t', _) => some (t', .ok)
    | .error _ => none

def tabRun : MTab → List KOp → MTab × List MOut
  | t, [] => (t, [])
  | t, op :: ops =>
    match tabStep t op with
    | none => (t, [.undef])
    | some (t1, o) => let (t2, os) := tabRun t1 ops; (t2, o :: os)

/-- the keys in the slots, in slot order -/
def tabSlots (t : MTab) : List (Option Int) := t.slots.toList.map (fun o => o.map (·.key))

def tabI (t : MTab) : Iterable Int := tableNI (tabSlots t) t.nitems

/-! ## Tree: shape and the `nitems` field -/

/-- Tree iteration over a shape with the `nitems` FIELD given separately: Init / Last answer Terminal when the field
    is 0 and otherwise descend from `root` (a NULL root is dereferenced: `undef`) -/
def treeNI {α : Type} (t : T α) (nitems : Nat) : Iterable α where
  σ := Option (Loc α)
  s0 := none
  init := fun _ => if nitems = 0 then (none, .term) else match t with
    | .nil => (none, .undef)
    | .node l k r => locRes (some (leftmost l k r []))
  next := (treeI t).next
  last := fun _ => if nitems = 0 then (none, .term) else match t with
    | .nil => (none, .undef)
    | .node l k r => locRes (some (rightmost l k r []))
  prev := (treeI t).prev
  len := some nitems
  get := none

/-- `struct Tree` as far as iteration and `len` see it: the shape and the `nitems` field.  The shape is that of plain
    binary-search insertion / deletion with the comparison of Tree.c (greater keys to the LEFT); the rotations and
    recolourings of Tree_Set_Fix / Tree_Rem_Fix change the shape but not the in-order sequence, and `tree_lawfulAs` holds
    for EVERY shape (Tree.c's own shapes, colours and parent links are the subject of C03: Cello/RBTree.lean,
    harness/h_tree.c; harness/h_iter.c checks the child / parent links of the real tree after every history). -/
structure MTree where
  root : T Int
  nitems : Nat

def T.mem : T Int → Int → Bool
  | .nil, _ => false
  | .node l k r, x => if k < x then l.mem x else if x < k then r.mem x else true

/-- take out the first node of the in-order sequence -/
def T.removeFirst : T Int → Option (Int × T Int)
  | .nil => none
  | .node l k r =>
    match l.removeFirst with
    | some (m, l') => some (m, .node l' k r)
    | none => some (k, r)

/-- binary-search deletion (a node with two children is replaced by its in-order successor) -/
def T.remove : T Int → Int → T Int
  | .nil, _ => .nil
  | .node l k r, x =>
    if k < x then .node (l.remove x) k r
    else if x < k then .node l k (r.remove x)
    else match r.removeFirst with
      | none => l
      | some (m, r') => .node l m r'

/-- `Tree_Set`: a new node and `nitems++` only when the key is absent; `Tree_Rem`: KeyError for an absent key, else
    `nitems--`; `Tree_Resize`: only 0 is accepted (`Tree_Clear`) -/
def treeStep (m : MTree) : KOp → MTree × MOut
  | .set k => (⟨m.root.insert k, if m.root.mem k then m.nitems else m.nitems + 1⟩, .ok)
  | .rem k => if m.root.mem k then (⟨m.root.remove k, m.nitems - 1⟩, .ok) else (m, .key)
  | .resize n => if n = 0 then (⟨.nil, 0⟩, .ok) else (m, .format)

def treeRun : MTree → List KOp → MTree × List MOut
  | m, [] => (m, [])
  | m, op :: ops => let (m1, o) := treeStep m op; let (m2, os) := treeRun m1 ops; (m2, o :: os)

def rbI (m : MTree) : Iterable Int := treeNI m.root m.nitems

end Cello.Iter
