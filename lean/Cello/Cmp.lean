/-
  Engine `cmp` (property C09): executable model of Cello's comparison functions, as they are in /repo now.

    src/Cmp.c      cmp (dispatch to the type's `Cmp` instance; default: memcmp of two objects of one type; TypeError),
                   eq neq gt lt ge le            → generated: `CelloGen.Cmp.eq …` (translated from the source on every run)
    src/Num.c      Int_Cmp, Float_Cmp            → generated: `CelloGen.Cmp.intCmp`, `CelloGen.Cmp.floatCmp`
    src/String.c   String_Cmp  = strcmp          → `bytesCmp`
    src/Type.c     Type_Cmp    = strcmp of names → `bytesCmp`
    src/Array.c List.c Tuple.c   X_Cmp           → `lexCmp elemCmp` (parallel iteration; first difference decides by
                                                   sign; the one that ends first is smaller) on VALUES, and
                                                   `objCmpF D` on OBJECTS (Tuple slots are references: sharing, identity
                                                   walks; `D` = how each loop advances along self, read off the source)
    src/Tree.c     Tree_Cmp                      → `pairsCmp keyCmp valCmp` (per entry: key, then value; entries in the
                                                   Tree's iteration order, which is DESCENDING in the keys: `sortedInsert`)

  Core Lean only (the driver links this).  Values that `cmp` returns are modelled up to what the C standard fixes: for
  `strcmp` / `memcmp` only the sign (`bytesCmp` returns -1/0/1).
-/
import CelloGen.Cmp

namespace Cello.Cmp
open CelloGen.Cmp (FloatOps)

/-- sign of a C `int` result: -1, 0, 1 -/
def sgn (x : Int) : Int := if x < 0 then -1 else if 0 < x then 1 else 0

/-! ### the specification side: what "a consistent total order" means -/

/-- `c` is a consistent three-way comparison on the values satisfying `P`:
    antisymmetric in sign and transitive (`≤`); reflexivity, transitivity of `<` and of `= 0`, and congruence of `= 0`
    follow (CelloProofs/Lemmas/Cmp.lean). -/
structure LawfulCmpOn {α : Type} (P : α → Prop) (c : α → α → Int) : Prop where
  antisymm : ∀ a b, P a → P b → sgn (c a b) = - sgn (c b a)
  le_trans : ∀ a b d, P a → P b → P d → c a b ≤ 0 → c b d ≤ 0 → c a d ≤ 0

/-- … and `c a b = 0` only for equivalent values (`E` is equality, or equality of content for containers of different
    kinds, or numeric equality for doubles, where `-0.0 = 0.0`) -/
structure StrictCmpOn {α : Type} (P : α → Prop) (E : α → α → Prop) (c : α → α → Int) : Prop extends LawfulCmpOn P c where
  zero_iff : ∀ a b, P a → P b → (c a b = 0 ↔ E a b)

/-- two sequences of the same length whose elements are pairwise related -/
def Pointwise {α β : Type} (E : α → β → Prop) : List α → List β → Prop
  | [], [] => True
  | x :: xs, y :: ys => E x y ∧ Pointwise E xs ys
  | _, _ => False

abbrev LawfulCmp {α : Type} (c : α → α → Int) : Prop := LawfulCmpOn (fun _ => True) c
abbrev StrictCmp {α : Type} (c : α → α → Int) : Prop := StrictCmpOn (fun _ => True) Eq c

/-! ### Int (src/Num.c Int_Cmp, generated) -/

/-- `cmp` on two `Int` objects holding the 64-bit values `a`, `b` -/
def intCmp (a b : BitVec 64) : Int := (CelloGen.Cmp.intCmp a b).toInt

/-- the subtract-and-truncate `Int_Cmp` this tree had before commit 1403e2f (defect F04) -/
def intCmpTruncating (a b : BitVec 64) : Int := (CelloGen.Cmp.intCmpPreFix a b).toInt

/-! ### bytes: strcmp (String, Type names) and memcmp (plain structs) -/

/-- difference of two bytes compared as `unsigned char` -/
def byteCmp (x y : UInt8) : Int := (x.toNat : Int) - (y.toNat : Int)

/-- Array_Cmp / List_Cmp / Tuple_Cmp: both sequences are walked in parallel; the first element pair that does not compare
    equal decides (by sign); if one side ends first it is the smaller; `c` may relate two different element types
    (self's items against obj's items). -/
def lexCmp {α β : Type} (c : α → β → Int) : List α → List β → Int
  | [], [] => 0                                        -- item0 is Terminal and item1 is Terminal
  | [], _ :: _ => -1                                   -- item0 is Terminal
  | _ :: _, [] => 1                                    -- item1 is Terminal
  | x :: xs, y :: ys =>
    let r := c x y
    if r < 0 then -1 else if r > 0 then 1 else lexCmp c xs ys

/-- strcmp on NUL-free byte strings / memcmp on equally long blocks, reduced to its sign: the first differing byte,
    compared as unsigned char, decides; a proper prefix is smaller (its terminating NUL is the smaller byte). -/
def bytesCmp (a b : List UInt8) : Int := lexCmp byteCmp a b

/-! ### Tree: key, then value, entry by entry in iteration order -/

def pairsCmp {κ ν κ' ν' : Type} (ck : κ → κ' → Int) (cv : ν → ν' → Int) : List (κ × ν) → List (κ' × ν') → Int
  | [], [] => 0
  | [], _ :: _ => -1
  | _ :: _, [] => 1
  | (k, v) :: xs, (k', v') :: ys =>
    let c := ck k k'
    if c < 0 then -1 else if c > 0 then 1 else
    let c := cv v v'
    if c < 0 then -1 else if c > 0 then 1 else pairsCmp ck cv xs ys

/-- the comparison of one Tree entry with another, as the loop body performs it -/
def pairCmp {κ ν κ' ν' : Type} (ck : κ → κ' → Int) (cv : ν → ν' → Int) (p : κ × ν) (q : κ' × ν') : Int :=
  let c := ck p.1 q.1
  if c < 0 then -1 else if c > 0 then 1 else
  let c := cv p.2 q.2
  if c < 0 then -1 else if c > 0 then 1 else 0

/-- what `set` on a Tree does to the iteration sequence.  Tree_Set descends with `c = cmp(Tree_Key(node), key)`, going
    LEFT when `c < 0` (the node's key is the smaller one), and iteration starts at the leftmost node: a Tree iterates in
    DESCENDING key order.  An existing equal key is re-assigned (new key object, new value). -/
def sortedInsert {κ ν : Type} (c : κ → κ → Int) (k : κ) (v : ν) : List (κ × ν) → List (κ × ν)
  | [] => [(k, v)]
  | (k', v') :: rest =>
    let r := c k' k
    if r = 0 then (k, v) :: rest
    else if r < 0 then (k, v) :: (k', v') :: rest
    else (k', v') :: sortedInsert c k v rest

/-- strictly descending key sequence: every later key is smaller than every earlier one (so no key occurs twice) -/
def Descending {κ ν : Type} (c : κ → κ → Int) : List (κ × ν) → Prop
  | [] => True
  | p :: rest => (∀ q ∈ rest, c q.1 p.1 < 0) ∧ Descending c rest

def treeOf {κ ν : Type} (c : κ → κ → Int) (kvs : List (κ × ν)) : List (κ × ν) :=
  kvs.foldl (fun acc kv => sortedInsert c kv.1 kv.2 acc) []

/-! ### Float (src/Num.c Float_Cmp, generated over abstract double operations) -/

/-- doubles are carried as their 64 bits -/
def fIsNaN (b : UInt64) : Bool := (b &&& 0x7fffffffffffffff) > 0x7ff0000000000000

/-- the numeric order of non-NaN doubles as an integer key: sign-magnitude reading of the bits (so `-0.0` and `0.0`
    share key 0, infinities are the extremes, denormals sit next to zero) -/
def fkey (b : UInt64) : Int :=
  let m : Int := ((b &&& 0x7fffffffffffffff).toNat : Int)
  if b ≥ 0x8000000000000000 then -m else m

/-- the machine's double subtraction and `<`, through Lean's `Float` (opaque to the kernel: used by the driver only) -/
def hwFloatOps : FloatOps UInt64 where
  sub a b := (Float.ofBits a - Float.ofBits b).toBits
  lt a b := decide (Float.ofBits a < Float.ofBits b)
  zero := 0

/-- the hypothesis under which `Float_Cmp` is the numeric order: for non-NaN doubles the sign of `a - b` is the sign of
    the real difference (true of IEEE-754 binary64 with gradual underflow; *tested* on the grid by the harness, never proved) -/
structure SubSign (ops : FloatOps UInt64) : Prop where
  pos : ∀ a b, fIsNaN a = false → fIsNaN b = false → (ops.lt ops.zero (ops.sub a b) = true ↔ fkey b < fkey a)
  neg : ∀ a b, fIsNaN a = false → fIsNaN b = false → (ops.lt (ops.sub a b) ops.zero = true ↔ fkey a < fkey b)

def floatCmp (ops : FloatOps UInt64) (a b : UInt64) : Int := (CelloGen.Cmp.floatCmp ops a b).toInt

/-- a reference instance that satisfies `SubSign` by construction (shows the hypothesis is satisfiable; also the
    driver's reference order `R`) -/
def refFloatOps : FloatOps UInt64 where
  sub a b := if fkey b < fkey a then 0x3ff0000000000000 else if fkey a < fkey b then 0xbff0000000000000 else 0
  lt a b := decide (fkey a < fkey b)
  zero := 0

/-! #### IEEE-754 binary64 at the level of its three fields: what a bit pattern MEANS, and subtraction as "round the exact
    difference".  Nothing below mentions `fkey`: the order of the VALUES is defined from (sign, exponent, mantissa) by the
    standard's formula, and that it coincides with the sign-magnitude order of the bits is a theorem
    (CelloProofs/Lemmas/CmpFloat.lean `fval_lt_iff_fkey_lt`). -/

/-- biased exponent (11 bits) -/
def fExp (b : UInt64) : Nat := ((b >>> 52) &&& 0x7ff).toNat
/-- mantissa field (52 bits) -/
def fMant (b : UInt64) : Nat := (b &&& 0xfffffffffffff).toNat
/-- sign bit -/
def fNeg (b : UInt64) : Bool := b ≥ 0x8000000000000000
def fIsInf (b : UInt64) : Bool := (b &&& 0x7fffffffffffffff) == 0x7ff0000000000000

/-- the magnitude a (sign, exponent, mantissa) triple denotes, in units of 2^-1074 (the smallest denormal), so that every
    finite double is an INTEGER: denormals (`e = 0`) are `m`, normal numbers `(2^52 + m) · 2^(e-1)`.  The same formula at
    `e = 2047, m = 0` gives the infinities a magnitude above every finite one (`2^52 · 2^2046 > (2^53 - 1) · 2^2045`), which
    is all the extended reals need here. -/
def fmagOf (e m : Nat) : Nat := if e = 0 then m else (4503599627370496 + m) * 2 ^ (e - 1)

def fmag (b : UInt64) : Nat := fmagOf (fExp b) (fMant b)

/-- the VALUE of a non-NaN double (scaled by 2^1074): `(-1)^s · magnitude`; `-0.0` and `0.0` both have value 0 -/
def fval (b : UInt64) : Int := if fNeg b then -((fmag b : Nat) : Int) else ((fmag b : Nat) : Int)

/-- the default NaN x86-64 SSE produces for an invalid operation (`inf - inf`) -/
def fDefaultNaN : UInt64 := 0xfff8000000000000

/-- IEEE-754 subtraction and `<` on bit patterns, relative to a rounding function `rnd` from exact (scaled) values to doubles:
    `a - b` is NaN when an operand is NaN or both are the same infinity (invalid operation); an infinite operand otherwise
    decides the result by itself (`±inf - x = ±inf`, `x - ±inf = ∓inf`); for two finite operands it is the exact difference
    of the two values, rounded.  `<` is exact, and false whenever an operand is NaN.  Every finite double is an integer
    multiple of 2^-1074, so the exact difference of two of them is an integer in these units. -/
def roundedOps (rnd : Int → UInt64) : FloatOps UInt64 where
  sub a b :=
    if fIsNaN a || fIsNaN b then fDefaultNaN
    else if fIsInf a then (if fIsInf b && (fNeg a == fNeg b) then fDefaultNaN else a)
    else if fIsInf b then b + 0x8000000000000000          -- the other infinity (adding 2^63 modulo 2^64 flips the sign bit)
    else rnd (fval a - fval b)
  lt a b := !fIsNaN a && !fIsNaN b && decide (fval a < fval b)
  zero := 0

/-- what the theorems need of a rounding function: it is monotone, it never produces a NaN, and it leaves 0 and the two
    smallest denormals `± 2^-1074` as they are (they are representable: GRADUAL UNDERFLOW — a flush-to-zero unit violates
    `one`).  Every rounding-direction attribute of IEEE-754 (§4.3) has these properties; so has the trivial `signRound`
    below.  The order of the doubles in terms of their bits is NOT assumed here. -/
structure Rounding (rnd : Int → UInt64) : Prop where
  mono : ∀ x y : Int, x ≤ y → fval (rnd x) ≤ fval (rnd y)
  notNaN : ∀ x : Int, fIsNaN (rnd x) = false
  zero : fval (rnd 0) = 0
  one : fval (rnd 1) = 1
  negOne : fval (rnd (-1)) = -1

/-- the coarsest function with these properties: it keeps the sign of the exact difference and nothing else (`±2^-1074`, 0).
    `Float_Cmp` looks at nothing but the sign of the difference, so the driver runs the model with this one. -/
def signRound (x : Int) : UInt64 := if 0 < x then 0x0000000000000001 else if x < 0 then 0x8000000000000001 else 0

/-- round toward zero (IEEE-754 `roundTowardZero`), on magnitudes: the bits of the largest double not above `n · 2^-1074`.
    Below 2^53 (denormals and the first binade) the bits ARE the number; halving the number raises the exponent by one. -/
def truncBits (n : Nat) : Nat :=
  if n < 9007199254740992 then n else truncBits (n / 2) + 4503599627370496
termination_by n
decreasing_by omega

/-- … saturating at the largest finite double (what `roundTowardZero` does on overflow), with the sign put back -/
def truncRound (x : Int) : UInt64 :=
  let m := Nat.min (truncBits x.natAbs) 0x7fefffffffffffff
  UInt64.ofNat (if x < 0 then 0x8000000000000000 + m else m)

/-- the operations the driver runs `Float_Cmp` with -/
def ieeeOps : FloatOps UInt64 := roundedOps signRound

/-! ### the value universe of the op files and `cmp` on it -/

inductive SeqKind where
  | array | list | tuple
  deriving DecidableEq, Repr

inductive Val where
  | int (v : BitVec 64)
  | flt (bits : UInt64)
  | str (bs : List UInt8)
  | typ (name : List UInt8)
  | plain (tid : Nat) (bs : List UInt8)        -- a struct type without a Cmp instance: `tid` names the type
  | seq (k : SeqKind) (xs : List Val)
  | tree (kvs : List (Val × Val))              -- entries in iteration order (descending keys, see `treeOf`)
  deriving Repr

mutual
/-- `cmp(self, obj)` for two values of matching shape (the driver refuses other pairs: see `comparable`) -/
def valCmp (ops : FloatOps UInt64) : Val → Val → Int
  | .int a, .int b => intCmp a b
  | .flt a, .flt b => floatCmp ops a b
  | .str a, .str b => bytesCmp a b
  | .typ a, .typ b => bytesCmp a b
  | .plain _ a, .plain _ b => bytesCmp a b
  | .seq _ xs, .seq _ ys => seqCmp ops xs ys
  | .tree xs, .tree ys => entriesCmp ops xs ys
  | _, _ => 0
/-- `lexCmp (valCmp ops)` unfolded so that the recursion is structural -/
def seqCmp (ops : FloatOps UInt64) : List Val → List Val → Int
  | [], [] => 0
  | [], _ :: _ => -1
  | _ :: _, [] => 1
  | x :: xs, y :: ys =>
    let r := valCmp ops x y
    if r < 0 then -1 else if r > 0 then 1 else seqCmp ops xs ys
/-- `pairsCmp (valCmp ops) (valCmp ops)` unfolded -/
def entriesCmp (ops : FloatOps UInt64) : List (Val × Val) → List (Val × Val) → Int
  | [], [] => 0
  | [], _ :: _ => -1
  | _ :: _, [] => 1
  | (k, v) :: xs, (k', v') :: ys =>
    let c := valCmp ops k k'
    if c < 0 then -1 else if c > 0 then 1 else
    let c := valCmp ops v v'
    if c < 0 then -1 else if c > 0 then 1 else entriesCmp ops xs ys
end

/-- size in bytes of the plain struct types the harness declares (type 0 is declared with size 0) -/
def plainSize : Nat → Nat
  | 0 => 0 | 1 => 4 | 2 => 4 | 3 => 16 | _ => 0

/-! ### kinds of values, and "equal content" (used by the statement of C09 on the whole value universe) -/

/-- the kinds inside which `cmp` is claimed to be an order: both operands Int, both Float (no NaN), both String, both
    Type, both the same plain struct type of non-zero size (two objects of a size-0 type raise TypeError), both sequences (Array, List or Tuple — the container kinds may differ) with
    elements of one kind, both Trees with keys of one kind and values of one kind — and sequences with a kind PER SLOT
    (what a Tuple normally is, `tuple($I(1), $S("ab"), $F(2.0))`, and what Zip hands out): `nil` is the empty sequence,
    `cons h t` a sequence that is empty or whose first element has kind `h` and whose remaining elements form a sequence of
    kind `t` (so `cons .int (cons .str nil)` = "an Int, then a String, any prefix of that"; `cons .int (seq .str)` = "an Int,
    then Strings").  The kinds are prefix-closed: sequences of different lengths are inside one kind. -/
inductive Kind where
  | int | flt | str | typ
  | plain (tid : Nat)
  | seq (e : Kind)
  | tree (k v : Kind)
  | nil
  | cons (h t : Kind)

/-- the kind of heterogeneous Tuples with the given kinds slot by slot (and of every prefix of such a Tuple) -/
def Kind.tup : List Kind → Kind
  | [] => .nil
  | k :: ks => .cons k (Kind.tup ks)

/-- kinds that contain no Float at any level: for these nothing is assumed about floating point -/
def Kind.floatFree : Kind → Prop
  | .flt => False
  | .seq e => e.floatFree
  | .tree k v => k.floatFree ∧ v.floatFree
  | .cons h t => h.floatFree ∧ t.floatFree
  | _ => True

/-- a C string / a type name holds no NUL byte -/
def NulFree (bs : List UInt8) : Prop := ∀ x ∈ bs, x ≠ 0

def hasKind : Kind → Val → Prop
  | .int, .int _ => True
  | .flt, .flt b => fIsNaN b = false
  | .str, .str bs => NulFree bs
  | .typ, .typ bs => NulFree bs
  | .plain t, .plain t' _ => t' = t ∧ plainSize t ≠ 0        -- `cmp` of two objects of a size-0 type raises TypeError (Cmp.c)
  | .seq e, .seq _ xs => ∀ x ∈ xs, hasKind e x
  | .tree k v, .tree kvs => ∀ p ∈ kvs, hasKind k p.1 ∧ hasKind v p.2
  | .nil, .seq _ xs => xs = []
  | .cons _ _, .seq _ [] => True
  | .cons h t, .seq s (x :: xs) => hasKind h x ∧ hasKind t (.seq s xs)
  | _, _ => False

mutual
/-- the content of a value: container kinds erased (an Array, a List and a Tuple of the same elements have the same
    content) and `-0.0` identified with `0.0`; everything else is kept -/
def norm : Val → Val
  | .int v => .int v
  | .flt b => .flt (if fkey b = 0 then 0 else b)
  | .str s => .str s
  | .typ n => .typ n
  | .plain t bs => .plain t bs
  | .seq _ xs => .seq .array (normList xs)
  | .tree kvs => .tree (normPairs kvs)
def normList : List Val → List Val
  | [] => []
  | x :: xs => norm x :: normList xs
def normPairs : List (Val × Val) → List (Val × Val)
  | [] => []
  | (k, v) :: xs => (norm k, norm v) :: normPairs xs
end

def Val.intOf : Val → BitVec 64
  | .int v => v
  | _ => 0
def Val.bitsOf : Val → UInt64
  | .flt b => b
  | _ => 0
def Val.bytesOf : Val → List UInt8
  | .str b => b
  | .typ b => b
  | .plain _ b => b
  | _ => []
def Val.elems : Val → List Val
  | .seq _ xs => xs
  | _ => []
def Val.entries : Val → List (Val × Val)
  | .tree kvs => kvs
  | _ => []

/-! ### which op-file values the engine runs (the same rule is implemented in harness/h_cmp.c) -/

/-- C type of a value as far as container element types are concerned -/
def Val.ctype : Val → Nat
  | .int _ => 0 | .flt _ => 1 | .str _ => 2 | .typ _ => 3 | .plain .. => 4
  | .seq .array _ => 5 | .seq .list _ => 6 | .seq .tuple _ => 7 | .tree _ => 8

def allSame (ts : List Nat) : Bool :=
  match ts with
  | [] => true
  | t :: rest => rest.all (· == t)

/-- the element type a container is declared with: the C type, and for plain structs which one -/
def Val.etype : Val → Nat
  | .plain tid _ => 100 + tid
  | v => v.ctype

mutual
/-- a value the harness can build: Array/List elements all of one type among Int, Float, String, Array, List, Tuple and the
    plain struct types of non-zero size (elements of one and the same struct type); Tuple elements anything (also plain
    structs and Type objects — a Tuple holds references, and there is ONE object per Type: the same Type in two slots is the
    same object twice, known finding F13); Tree keys of one type among Int, Float, String, values of one type among those
    and Tuple -/
def Val.valid : Val → Bool
  | .int _ | .str _ | .typ _ => true
  | .flt b => !fIsNaN b
  | .plain tid bs => tid < 4 && bs.length == plainSize tid
  | .seq .tuple xs => validList xs
  | .seq _ xs => validList xs && allSame (xs.map Val.etype) &&
      (xs.all fun x => x.ctype ∈ [0, 1, 2, 5, 6, 7] || (x.ctype == 4 && x.etype != 100))
  | .tree kvs => validPairs kvs && allSame (kvs.map (·.1.ctype)) && allSame (kvs.map (·.2.ctype)) &&
      (kvs.all fun kv => kv.1.ctype ∈ [0, 1, 2] && kv.2.ctype ∈ [0, 1, 2, 7])
def validList : List Val → Bool
  | [] => true
  | x :: xs => x.valid && validList xs
def validPairs : List (Val × Val) → Bool
  | [] => true
  | (k, v) :: xs => k.valid && v.valid && validPairs xs
end

mutual
/-- two values whose comparison stays inside one kind at every level (Int with Int, …, two plain structs of one type of
    non-zero size, sequence with sequence of any container kind, Tree with Tree) -/
def comparable : Val → Val → Bool
  | .int _, .int _ | .flt _, .flt _ | .str _, .str _ | .typ _, .typ _ => true
  | .plain ta _, .plain tb _ => ta == tb && plainSize ta != 0          -- the default `memcmp` arm of `cmp`; anything else raises
  | .seq _ xs, .seq _ ys => comparableList xs ys
  | .tree xs, .tree ys => comparablePairs xs ys
  | _, _ => false
def comparableList : List Val → List Val → Bool
  | x :: xs, y :: ys => comparable x y && comparableList xs ys
  | _, _ => true
def comparablePairs : List (Val × Val) → List (Val × Val) → Bool
  | (k, v) :: xs, (k', v') :: ys => comparable k k' && comparable v v' && comparablePairs xs ys
  | _, _ => true
end

/-- may `cmp a b` be run at top level? (two plain structs may always be compared: different types raise TypeError) -/
def runnable (a b : Val) : Bool :=
  a.valid && b.valid && (comparable a b || (a.ctype == 4 && b.ctype == 4))

/-- outcome of `cmp` at top level -/
inductive Res where
  | ok (c : Int)
  | exc (name : String)
  | outside            -- the code goes through a conversion the model does not carry (`c_str` of a Type, a Tree walked as a sequence of its keys, operands that stop matching somewhere below the top): no claim
  deriving Repr, DecidableEq

/-- `cmp` of src/Cmp.c on two values: a plain struct as `self` has no `Cmp` instance — `memcmp` over the size for two objects
    of one type of non-zero size, otherwise `TypeError`; every other `self` goes to its type's own comparison, which is
    `valCmp` when the two operands match in shape at every level (`comparable`).  When they do not match at the top the
    type's comparison raises while converting `obj`: Int_Cmp / Float_Cmp / String_Cmp through `c_int` / `c_float` / `c_str`
    (ClassError: the class is not implemented), Type_Cmp through `cast(obj, Type)` (ValueError), the sequence and Tree
    loops through `iter_init(obj)` (ClassError).  Never the `0` that `valCmp`'s catch-all arm has. -/
def cmpTop (ops : FloatOps UInt64) (a b : Val) : Res :=
  match a, b with
  | .plain ta xs, .plain tb ys =>
    if ta = tb ∧ plainSize ta ≠ 0 then .ok (bytesCmp xs ys) else .exc "TypeError"
  | .plain _ _, _ => .exc "TypeError"
  | a, b =>
    if comparable a b then .ok (valCmp ops a b)
    else match a, b with
      | .typ _, _ => .exc "ValueError"
      | .str _, .typ _ => .outside
      | .seq _ _, .seq _ _ | .seq _ _, .tree _ | .tree _, .seq _ _ | .tree _, .tree _ => .outside
      | _, _ => .exc "ClassError"

/-! ### objects: identity, sharing, and how each comparison loop moves along its operands

  A Tuple holds REFERENCES: nothing stops one object being referenced from several slots (`tuple(one, one, two)`), from
  both operands, or an operand being compared with itself.  Array, List and Tree hold COPIES of what is put into them, so
  no two of THEIR slots ever share an object — but the copy of a Tuple (an Array / List with element type Tuple, a Tree with
  value type Tuple) is made by Tuple_Assign, which copies the item POINTERS: the embedded Tuple references the very objects
  the source Tuple references, twice if the source did.  So sharing reaches into containers through their Tuple elements
  (`Obj.cont`, `Obj.tree`).  The comparison loops of src/Array.c, List.c, Tuple.c advance along
  `self` either by slot index (`i++; item0 = t->items[i];`) or through the type's iterator
  (`item0 = X_Iter_Next(self, item0);`), and along `obj` always through `iter_next(obj, item1)`; Tree_Cmp walks both Trees
  through Tree_Iter_Next (the in-order successor: by position) and compares key, then value.  What the iterator does:

    Array_Iter_Next   the next address (`(char*)curr + Array_Step(a)`)           — by position
    List_Iter_Next    the node's next link                                         — by position
    Tuple_Iter_Next   searches `items[]` for the first slot that IS `curr` and returns the slot after it — by IDENTITY:
                      with one object in two slots the walk returns to the slot after the FIRST occurrence (defect F13)

  Which of the two each X_Cmp uses for `self` is read off the source on every run (`CelloGen.CmpLoops.sourceDiscipline`);
  the model below takes it as a parameter, so "Tuple_Cmp walks self by identity search" is a different, executable model. -/

open CelloGen.Cmp (Walk Discipline)

/-- an object as far as `cmp` can see it: a Tuple with its slots (object identity, object); an Array / List whose
    elements are objects with parts of their own (`cont`: the elements are the container's own copies, pairwise distinct
    objects — what THEY reference is shared with whatever they were copied from); a Tree whose values are such objects
    (`tree`: entries in iteration order; the keys the engine builds are scalars, copies without parts); or anything else —
    which has no shared parts (`.val (.seq .tuple xs)` is a Tuple whose slots are pairwise distinct objects, `.val (.seq
    .array xs)` an Array all of whose parts, at any depth, are objects of their own) -/
inductive Obj where
  | val (v : Val)
  | tuple (slots : List (Nat × Obj))
  | cont (k : SeqKind) (slots : List (Nat × Obj))
  | tree (ents : List (Val × Obj))

abbrev Slot := Nat × Obj

mutual
/-- the value of an object: identities erased -/
def Obj.content : Obj → Val
  | .val v => v
  | .tuple ss => .seq .tuple (contents ss)
  | .cont k ss => .seq k (contents ss)
  | .tree es => .tree (entContents es)
def contents : List (Nat × Obj) → List Val
  | [] => []
  | (_, o) :: rest => o.content :: contents rest
def entContents : List (Val × Obj) → List (Val × Val)
  | [] => []
  | (k, o) :: rest => (k, o.content) :: entContents rest
end

/-- the elements of an Array / List (copies: pairwise distinct objects), numbered from `n` -/
def enumSlots (n : Nat) : List Val → List Slot
  | [] => []
  | x :: xs => (n, .val x) :: enumSlots (n + 1) xs

/-- the entries of a Tree without shared parts -/
def valEnts : List (Val × Val) → List (Val × Obj)
  | [] => []
  | (k, v) :: rest => (k, .val v) :: valEnts rest

/-- the sequence type of an object and its slots -/
def Obj.seqView : Obj → Option (SeqKind × List Slot)
  | .tuple ss => some (.tuple, ss)
  | .cont k ss => some (k, ss)
  | .val (.seq k xs) => some (k, enumSlots 0 xs)
  | _ => none

/-- the entries of a Tree object -/
def Obj.treeView : Obj → Option (List (Val × Obj))
  | .tree es => some es
  | .val (.tree kvs) => some (valEnts kvs)
  | _ => none

/-- what is left of `items[]` after the first slot holding the object `id` (nothing when it is not there) -/
def afterFirst (id : Nat) : List Slot → List Slot
  | [] => []
  | s :: rest => if s.1 = id then rest else afterFirst id rest

/-- `X_Iter_Next(self, curr)`: a cursor is the list of slots from the current one on; `all` is the whole container -/
def iterNext (k : SeqKind) (all : List Slot) (cur : Slot) (rest : List Slot) : List Slot :=
  match k with
  | .array => rest                      -- Array_Iter_Next: the next address
  | .list => rest                       -- List_Iter_Next: the node's next link
  | .tuple => afterFirst cur.1 all      -- Tuple_Iter_Next: found again by pointer identity

/-- one step along an operand -/
def advance (w : Walk) (k : SeqKind) (all : List Slot) (cur : Slot) (rest : List Slot) : List Slot :=
  match w with
  | .byIndex => rest                    -- `i++; item0 = t->items[i];`
  | .byIterator => iterNext k all cur rest

def selfWalk (D : Discipline) : SeqKind → Walk
  | .array => D.arraySelf
  | .list => D.listSelf
  | .tuple => D.tupleSelf

mutual
/-- `cmp(self, obj)` on objects under the discipline `D`, with fuel: `none` = the loops did not come to an end within `fuel`
    steps (an identity walk over a repeated object never does).  Two sequences go through the loop of X_Cmp, two Trees
    through the loop of Tree_Cmp; other pairs have no shared parts that matter and go to `valCmp`. -/
def objCmpF (D : Discipline) (ops : FloatOps UInt64) : Nat → Obj → Obj → Option Int
  | 0, _, _ => none
  | f + 1, a, b =>
    match a.seqView, b.seqView with
    | some (k0, s0), some (k1, s1) => loopF D ops k0 k1 s0 s1 f s0 s1
    | _, _ =>
      match a.treeView, b.treeView with
      | some e0, some e1 => treeLoopF D ops f e0 e1
      | _, _ => some (valCmp ops a.content b.content)
/-- the `while (true)` loop of Array_Cmp / List_Cmp / Tuple_Cmp: `cur0`, `cur1` are the two cursors -/
def loopF (D : Discipline) (ops : FloatOps UInt64) (k0 k1 : SeqKind) (all0 all1 : List Slot) :
    Nat → List Slot → List Slot → Option Int
  | 0, _, _ => none
  | _ + 1, [], [] => some 0                              -- item0 is Terminal and item1 is Terminal
  | _ + 1, [], _ :: _ => some (-1)                       -- item0 is Terminal
  | _ + 1, _ :: _, [] => some 1                          -- item1 is Terminal
  | f + 1, s0 :: r0, s1 :: r1 =>
    match objCmpF D ops f s0.2 s1.2 with
    | none => none
    | some c =>
      if c < 0 then some (-1) else if c > 0 then some 1
      else loopF D ops k0 k1 all0 all1 f (advance (selfWalk D k0) k0 all0 s0 r0) (advance .byIterator k1 all1 s1 r1)
/-- the `while (true)` loop of Tree_Cmp: both Trees are walked by position (Tree_Iter_Next is the in-order successor);
    per entry `cmp(key0, key1)` — scalars — then `cmp(Tree_Get(self, key0), get(obj, key1))`, the two VALUE objects -/
def treeLoopF (D : Discipline) (ops : FloatOps UInt64) : Nat → List (Val × Obj) → List (Val × Obj) → Option Int
  | 0, _, _ => none
  | _ + 1, [], [] => some 0
  | _ + 1, [], _ :: _ => some (-1)
  | _ + 1, _ :: _, [] => some 1
  | f + 1, e0 :: r0, e1 :: r1 =>
    let c := valCmp ops e0.1 e1.1
    if c < 0 then some (-1) else if c > 0 then some 1 else
    match objCmpF D ops f e0.2 e1.2 with
    | none => none
    | some c =>
      if c < 0 then some (-1) else if c > 0 then some 1 else treeLoopF D ops f r0 r1
end

/-- the discipline that seeded change c09_c introduces: Tuple_Cmp walks `self` through Tuple_Iter_Next -/
def identityWalk (D : Discipline) : Discipline := { D with tupleSelf := .byIterator }

/-! sizes (fuel that suffices when `self` is walked by position) and "no object twice in one Tuple" -/

mutual
def Val.size : Val → Nat
  | .seq _ xs => 2 + Val.sizeList xs
  | .tree kvs => 2 + Val.sizePairs kvs
  | _ => 1
def Val.sizeList : List Val → Nat
  | [] => 0
  | x :: xs => x.size + 1 + Val.sizeList xs
def Val.sizePairs : List (Val × Val) → Nat
  | [] => 0
  | (_, v) :: xs => v.size + 1 + Val.sizePairs xs
end

mutual
def Obj.size : Obj → Nat
  | .val v => v.size
  | .tuple ss => 2 + slotsSize ss
  | .cont _ ss => 2 + slotsSize ss
  | .tree es => 2 + entsSize es
def slotsSize : List (Nat × Obj) → Nat
  | [] => 0
  | (_, o) :: rest => o.size + 1 + slotsSize rest
def entsSize : List (Val × Obj) → Nat
  | [] => 0
  | (_, o) :: rest => o.size + 1 + entsSize rest
end

def hasId (id : Nat) : List Slot → Bool
  | [] => false
  | s :: rest => s.1 == id || hasId id rest

/-- no object is referenced from two slots -/
def idsNodup : List Slot → Bool
  | [] => true
  | s :: rest => !hasId s.1 rest && idsNodup rest

mutual
/-- no Tuple inside the object, at any depth — also below an Array, a List, the values of a Tree — references one object from
    two slots.  (For `cont` the condition on the identities of its own slots is one of well-formedness, not a restriction:
    the elements of an Array / List are its own copies, pairwise distinct objects.) -/
def Obj.nodup : Obj → Bool
  | .val _ => true
  | .tuple ss => idsNodup ss && slotsNodup ss
  | .cont _ ss => idsNodup ss && slotsNodup ss
  | .tree es => entsNodup es
def slotsNodup : List (Nat × Obj) → Bool
  | [] => true
  | (_, o) :: rest => o.nodup && slotsNodup rest
def entsNodup : List (Val × Obj) → Bool
  | [] => true
  | (_, o) :: rest => o.nodup && entsNodup rest
end

/-! the territory of known finding KF-C09-tuple-dup-obj, EXACTLY: the walk along `obj` goes wrong only when Tuple_Iter_Next is
   called with a cursor whose object also sits in an EARLIER slot of that Tuple (it then returns the slot after the first
   occurrence).  The loop steps from slot `j` of `obj` only after `self` had an element `j` and the elements `0 … j` of both
   compared equal; a comparison that is decided before (by a difference, or because `self` ends) never makes that call.
   One such call is harmless: when `self` ends right after the step (`item0 is Terminal`) the loop only asks whether the
   cursor in `obj` is Terminal too; the misplaced cursor never is (it has the current slot still ahead of it), so the answer
   is right exactly when `obj` has further slots — `cmp(tuple(1,1), tuple(one,one,two)) = -1` is right, `cmp(tuple(1,1),
   tuple(one,one)) = -1` is not. -/

/-- is the iterator of this container kind an identity search (Tuple_Iter_Next) rather than positional? -/
def SeqKind.byIdentity : SeqKind → Bool
  | .tuple => true
  | _ => false

mutual
/-- `obj.walkClean ops self`: `cmp(self, obj)` never steps FROM a slot of a Tuple inside `obj` whose object already sits in an
    earlier slot of that Tuple — at the top, and in every comparison of parts that the loops actually perform (the pairs that
    are reached: position by position until the first pair that does not compare equal).  Decidable; `self` is unrestricted
    apart from what it forces the walk to do.  Whether two parts "compare equal" is taken from their contents: on the clean
    part of the walk that IS what the loops compute (`C09_tuple_walk_content_partial`). -/
def Obj.walkClean (ops : FloatOps UInt64) : Obj → Obj → Bool
  | .val _, _ => true                       -- no Tuple inside holds an object twice (slots of a plain value are distinct objects)
  | .tuple ss, a =>
    match a.seqView with
    | some (_, s0) => slotsClean ops true [] ss s0
    | none => true
  | .cont k ss, a =>
    match a.seqView with
    | some (_, s0) => slotsClean ops k.byIdentity [] ss s0       -- Array_Iter_Next / List_Iter_Next are positional
    | none => true
  | .tree es, a =>
    match a.treeView with
    | some e0 => entsClean ops es e0
    | none => true
/-- the loop of X_Cmp from the cursor pair (`cur1` in `obj`, `cur0` in `self`); `pre` = the slots of `obj` already passed
    (`all1 = pre ++ cur1`); `tup` = `obj` is a Tuple -/
def slotsClean (ops : FloatOps UInt64) (tup : Bool) (pre : List Slot) : List (Nat × Obj) → List Slot → Bool
  | [], _ => true
  | (i1, o1) :: r1, cur0 =>
    match cur0 with
    | [] => true                                                          -- item0 is Terminal: decided
    | s0 :: r0 =>
      o1.walkClean ops s0.2 &&
      (valCmp ops s0.2.content o1.content != 0 ||                          -- decided here: no step
        ((!tup || !hasId i1 pre ||                                         -- the step is from a first occurrence, or
            (r0.isEmpty && !r1.isEmpty)) &&                                -- `self` ends here and `obj` does not (see below)
          slotsClean ops tup (pre ++ [(i1, o1)]) r1 r0))
/-- the loop of Tree_Cmp: positional on both sides; the values are compared only when the keys compare equal -/
def entsClean (ops : FloatOps UInt64) : List (Val × Obj) → List (Val × Obj) → Bool
  | [], _ => true
  | (k1, o1) :: r1, e0 =>
    match e0 with
    | [] => true
    | q0 :: r0 =>
      valCmp ops q0.1 k1 != 0 ||
        (o1.walkClean ops q0.2 && (valCmp ops q0.2.content o1.content != 0 || entsClean ops r1 r0))
end

/-- fuel the driver gives a comparison: enough whenever the loops end at all (a walk that ends visits no slot twice) -/
def fuelFor (a b : Obj) : Nat := a.size + b.size + 8

/-- `cmp` of src/Cmp.c on objects -/
def cmpObj (D : Discipline) (ops : FloatOps UInt64) (a b : Obj) : Option Res :=
  match a, b with
  | .val (.plain ta xs), .val (.plain tb ys) => some (cmpTop ops (.plain ta xs) (.plain tb ys))
  | a, b => (objCmpF D ops (fuelFor a b) a b).map .ok

/-! ### Tree / Table keyed on boundary values, and sort -/

/-- index of the last key equal (under `c`) to `k` — what `get` returns after all `set (key i) := i` -/
def lastEqual {α : Type} (c : α → α → Int) (keys : List α) (k : α) : Option Nat :=
  (keys.zipIdx.foldl (fun acc (x, i) => if c k x = 0 then some i else acc) none)

/-- stable insertion sort by `c` (the order `sort`/Tree iteration must produce, up to elements that compare equal) -/
def insertSorted {α : Type} (c : α → α → Int) (x : α) : List α → List α
  | [] => [x]
  | y :: ys => if c x y < 0 then x :: y :: ys else y :: insertSorted c x ys

def sortBy {α : Type} (c : α → α → Int) (xs : List α) : List α :=
  xs.foldl (fun acc x => insertSorted c x acc) []

end Cello.Cmp
