/-
  Cello/Exn.lean — executable model of Cello's exception machinery (src/Exception.c + the try/catch/throw
  macros of include/Cello.h), and the reference semantics it is proved against (CelloProofs/Props/C07.lean).

  Mirrors:
    #define try { jmp_buf __env; exception_try(&__env); if (!setjmp(__env))
    #define catch_in(X, ...) else { exception_try_fail(); } exception_try_end(); }
        for (var X = exception_catch(tuple(__VA_ARGS__)); X isnt NULL; X = NULL)
    #define throw(E, F, ...) exception_throw(E, F, tuple(__VA_ARGS__))
    exception_try / exception_try_fail / exception_try_end / exception_throw / exception_catch
    and the filter walk of exception_catch: by index since fix a0ef2da
      `size_t nargs = len(args); for (size_t i = 0; i < nargs; i++) { if (eq(get(args, $I(i)), e->obj)) {…`
    (`catchDecision`, machine `run`).  The walk of the code before that fix — `foreach(arg in args)` over the Tuple, i.e.
    Tuple_Iter_Init / Tuple_Iter_Next — is kept as an explicit OLD variant (`catchDecisionOld`, machine `runOld`): it is
    what the theorems `C07_foreach_walk_…` of CelloProofs/Props/C07.lean are about, and what the driver runs when the
    translator finds the `foreach` loop in the source again (`runCfg`).

  Objects are addresses (`Nat`); address 0 is NULL.  The exception objects of the harness (kind k of harness/h_exn.c)
  are the addresses k+1; `eq` on them is identity (they are Type objects with distinct names).

  Exception objects of ANY type (second-round audit, item 1): what lives at an address is given by a `World`
  (address ↦ run-time type + value).  `exception_catch` tests `eq(get(args,$I(i)), e->obj)`, i.e. `cmp` through the `Cmp`
  instance of the FILTER ENTRY (`cmpObj`): Type_Cmp casts the exception to Type (ValueError when it is not one),
  String_Cmp takes `c_str` of it, Int_Cmp takes `c_int` of it (ClassError when the class is missing).  The machine
  `runW w` walks the filter with that comparison (`walkIdxW`, `catchDecisionW`); a comparison that raises replaces the
  pending exception (finding KF-C07-filter-eq-raises).  `run` is the instance `runW idWorld` (every address a Type object
  with a name of its own: `run_eq_runW_idWorld`), `evalW w` the reference with the match relation "the filter lists an
  object of equal value".
-/
namespace Cello.Exn

/-- NULL -/
def nullObj : Nat := 0
/-- `ValueError` (harness kind 1): what `eq(arg, NULL)` raises (`cast` → `type_of(NULL)`) -/
def valueErr : Nat := 2
/-- `FormatError` (harness kind 4): what `print_to_with` raises on a message format with too few arguments -/
def fmtErr : Nat := 5

/-- `ClassError` (harness kind index 6; no program names it): what `c_str(obj)` / `c_int(obj)` raise when the type of
    `obj` does not implement the class (`Type_Method_At_Offset`) -/
def classErr : Nat := 7

/-- try/throw/catch program trees.
    * `throw e` is `throw(e, "…", enough arguments)`; `throw 0` is `throw(NULL, …)`.
    * `throwBad e` is `throw(e, "%i")` — a message format with fewer arguments than specifications.
    * `rethrow` is `throw(x, …)` where `x` is the variable bound by the innermost enclosing handler (at top level:
      the argument `x` the program is run with — a function parameter holding an exception object).
    * `call p` is `p` executed in a callee frame (dynamic nesting); the bound variable is passed along as an argument.
      The machinery does not distinguish it from inline code, which is the point. -/
inductive Prog where
  | stmt (tag : Nat)
  | throw (e : Nat)
  | throwBad (e : Nat)
  | rethrow
  | seq (p q : Prog)
  | tryCatch (body : Prog) (filter : List Nat) (handler : Prog)
  | call (p : Prog)
deriving Repr, Inhabited

/-- observable events: a statement ran; a handler was entered with object `e` bound -/
inductive Ev where
  | stmt (tag : Nat)
  | handler (e : Nat)
deriving Repr, DecidableEq, Inhabited

/-- the filter of the specification: an empty filter matches everything, otherwise membership -/
def fmatch (f : List Nat) (e : Nat) : Bool := f.isEmpty || f.contains e

/-- Reference (specification): structured exceptions, big-step. `x` is the object bound by the innermost enclosing
    handler. Returns the trace and the exception that leaves the program, if any. The object raised by a `throw` is
    the object named in it — also for `throw 0` and `throwBad e`: that is the property's reading; the machine departs
    from it there (`C07_throw_null_refuted`, `C07_bad_message_refuted`). -/
def eval : Prog → Nat → List Ev × Option Nat
  | .stmt t, _ => ([.stmt t], none)
  | .throw e, _ => ([], some e)
  | .throwBad e, _ => ([], some e)
  | .rethrow, x => ([], some x)
  | .seq p q, x =>
    match eval p x with
    | (t1, some e) => (t1, some e)
    | (t1, none) => let (t2, r) := eval q x; (t1 ++ t2, r)
  | .call p, x => eval p x
  | .tryCatch b f h, x =>
    match eval b x with
    | (t, none) => (t, none)
    | (t, some e) =>
      if fmatch f e then
        let (th, r) := eval h e
        (t ++ [.handler e] ++ th, r)
      else (t, some e)

/-- lexical/dynamic nesting depth of try blocks a program can reach -/
def nest : Prog → Nat
  | .stmt _ => 0
  | .throw _ => 0
  | .throwBad _ => 0
  | .rethrow => 0
  | .seq p q => max (nest p) (nest q)
  | .call p => nest p
  | .tryCatch b _ h => max (nest b + 1) (nest h)

/-- **The nesting bound of the property** ("for all try/throw/catch program trees up to a size and nesting bound"):
    2048 try blocks open at the same time in one thread — lexically or dynamically, e.g. a recursive function with a
    try/catch per level — is what the library's jump-buffer stack (`jmp_buf* buffers[EXCEPTION_MAX_DEPTH]` in the
    per-thread `struct Exception`) holds on the tree the property was written for. A FIXED number, not the generated
    `CelloGen.Exn.maxDepth`: the theorems of CelloProofs/Props/C07.lean whose hypothesis is `s.depth + nest p ≤ nestBound`
    (`C07_within_nesting_bound…`) need `C07_depth_capacity : nestBound ≤ CelloGen.Exn.maxDepth`, which stops checking when
    the source's capacity shrinks; harness/h_exn.c judges every program whose nesting stays within this bound by the
    reference interpreter WITHOUT capacity, and lean/Driver/Exn.lean compares machine and reference on exactly those.
    Nesting beyond it is outside the property's quantifier (what the code does there — `exception_try` prints
    "Exception Buffer Overflow" and aborts — is modelled: `runWith`'s first test, `C07_overflow_aborts`). -/
def nestBound : Nat := 2048

/-- **Object domain** of the property: every `throw` names a non-NULL object and has a well-formed message, and no
    filter lists NULL. (That thrown objects outlive the jump and that `eq` on them cannot raise is built into the
    representation: objects are plain addresses compared by identity.) -/
def inDomain : Prog → Bool
  | .stmt _ => true
  | .throw e => e != 0
  | .throwBad _ => false
  | .rethrow => true
  | .seq p q => inDomain p && inDomain q
  | .call p => inDomain p
  | .tryCatch b f h => inDomain b && !f.contains 0 && inDomain h

/-- every catch filter lists pairwise distinct objects. No hypothesis of the theorems about the current machine any
    more (fix a0ef2da); it is the hypothesis under which the OLD foreach walk (`runOld`) behaved by the reference. -/
def nodupFilters : Prog → Bool
  | .seq p q => nodupFilters p && nodupFilters q
  | .call p => nodupFilters p
  | .tryCatch b f h => nodupFilters b && decide f.Nodup && nodupFilters h
  | _ => true

/-- `throwBad e` behaves as `throw FormatError` (`C07_bad_message_as_format_error`) -/
def normalizeMsg : Prog → Prog
  | .throwBad _ => .throw fmtErr
  | .seq p q => .seq (normalizeMsg p) (normalizeMsg q)
  | .call p => .call (normalizeMsg p)
  | .tryCatch b f h => .tryCatch (normalizeMsg b) f (normalizeMsg h)
  | p => p

/-- `struct Exception` without the message: `depth`, `active`, `obj` (0 = NULL, its initial value). The jump buffers
    themselves are represented by their indices: the buffer pushed by a `try` entered at depth `d` has index `d`. -/
structure St where
  depth : Nat
  active : Bool
  obj : Nat
deriving Repr, DecidableEq, Inhabited

/-- how a piece of code ends -/
inductive Sig where
  | normal
  | jump (target : Nat)  -- `longjmp(*buffers[target])`, target = depth-1 at the time of the throw
  | fatal                -- uncaught: Exception_Error → diagnostic, exit(EXIT_FAILURE)
  | abort                -- "Exception Buffer Overflow/Underflow" → abort()
  | ub                   -- longjmp to a buffer whose block has been left: undefined behaviour
  | hang                 -- the filter walk of exception_catch never terminates (OLD variant `runOld` only:
                         -- `run` never ends this way, `C07_no_undefined_jump`)
deriving Repr, DecidableEq, Inhabited

/-! ### the filter walk of `exception_catch` -/

inductive Walk where
  | matched   -- `eq(arg, e->obj)` held for some visited `arg`
  | exhausted -- every item was visited, none matched
  | hang      -- (OLD foreach walk only) out of fuel: the walk cycles (`CelloProofs.Lemmas.ExnWalk`: for every fuel)
  | nullCmp   -- `eq(arg, NULL)`: `Type_Cmp` casts its argument, `type_of(NULL)` raises ValueError; `eq(NULL, obj)`:
              -- `instance(NULL, Cmp)` → `type_of(NULL)` raises ValueError
  | cmpRaises (exc : Nat) -- `eq(arg, e->obj)` raised `exc`: the `Cmp` instance of `arg` cannot look at an object of that type
deriving Repr, DecidableEq, Inhabited

/-- **current code** — `size_t nargs = len(args); for (size_t i = 0; i < nargs; i++) { if (eq(get(args, $I(i)), e->obj)) … }`:
    the argument is the items `items[i], …, items[nargs-1]` still to be visited (`get(args, $I(i))` is `Tuple_Get`, which
    returns `items[i]`; `i < nargs = Tuple_Len(args)`, so its bound check passes). A `for` over a range: structural
    recursion, no fuel — the loop ends after `nargs` iterations whatever the items are.
    A filter entry that is NULL (`catch (e in NULL, …)`, excluded by `inDomain`): `eq(NULL, obj)` = `cmp(NULL, obj)` starts
    with `instance(NULL, Cmp)`, whose `type_of(NULL)` raises ValueError — the same outcome as `eq(arg, NULL)`.
    Comparison by identity: every object is a Type object with a name of its own (`walkIdx_eq_walkIdxW`). -/
def walkIdx (obj : Nat) : List Nat → Walk
  | [] => .exhausted
  | a :: rest =>
    if obj = 0 then .nullCmp
    else if a = 0 then .nullCmp
    else if a = obj then .matched
    else walkIdx obj rest

/-- **current code** — `exception_catch` after the `active` test: `len(args) is 0` → catch all; otherwise the walk by
    index. -/
def catchDecision (f : List Nat) (obj : Nat) : Walk :=
  if f.isEmpty then .matched else walkIdx obj f

/-! ### exception objects of any type: what `eq(arg, e->obj)` does -/

/-- `type_of(obj)` for the objects the model knows: a Type object (the library's `…Error`s), a String, an Int -/
inductive Cls where
  | type | str | int
deriving Repr, DecidableEq, Inhabited

/-- what `eq` looks at in an object: its run-time type and its value — for a Type the id of its name, for a String
    the id of its text (names and texts share one id space: `c_str` of a Type is its name), for an Int the integer -/
structure Obj where
  cls : Cls
  val : Nat
deriving Repr, DecidableEq, Inhabited

/-- which object lives at an address (address 0 = NULL is never looked up) -/
abbrev World := Nat → Obj

/-- every address is a Type object with a name of its own: `eq` is identity (the world of `run`) -/
def idWorld : World := fun a => ⟨.type, a⟩

inductive CmpRes where
  | eq | ne
  | raises (exc : Nat)
deriving Repr, DecidableEq, Inhabited

/-- `cmp(a, obj)` for non-NULL `a`, `obj` (src/Cmp.c: `instance(a, Cmp)->cmp(a, obj)`; all three types have one):
    * `Type_Cmp`:   `cast(obj, Type)` — ValueError unless `type_of(obj) is Type` — then `strcmp` of the names;
    * `String_Cmp`: `strcmp(String_C_Str(a), c_str(obj))` — `c_str` exists for String and for Type (its name), for an
                    Int `method_at_offset` raises ClassError;
    * `Int_Cmp`:    compares `Int_C_Int(a)` with `c_int(obj)` — only Int implements `C_Int`: ClassError otherwise. -/
def cmpObj (w : World) (a obj : Nat) : CmpRes :=
  match (w a).cls, (w obj).cls with
  | .type, .type => if (w a).val = (w obj).val then .eq else .ne
  | .type, _ => .raises valueErr
  | .str, .int => .raises classErr
  | .str, _ => if (w a).val = (w obj).val then .eq else .ne
  | .int, .int => if (w a).val = (w obj).val then .eq else .ne
  | .int, _ => .raises classErr

/-- **current code**, objects of any type — the loop of `walkIdx` with `eq` = `cmp … is 0` through the filter entry's
    `Cmp` instance; a comparison that raises leaves `exception_catch` by `exception_throw` (the rest of the filter is
    not looked at). -/
def walkIdxW (w : World) (obj : Nat) : List Nat → Walk
  | [] => .exhausted
  | a :: rest =>
    if obj = 0 then .nullCmp
    else if a = 0 then .nullCmp
    else match cmpObj w a obj with
      | .eq => .matched
      | .ne => walkIdxW w obj rest
      | .raises exc => .cmpRaises exc

def catchDecisionW (w : World) (f : List Nat) (obj : Nat) : Walk :=
  if f.isEmpty then .matched else walkIdxW w obj f

/-! #### specification side: when does a filter entry *list* an exception object -/

/-- the value of an object, as the property reads "matches its filter": a text (Type: its name, String: its
    characters) or a number -/
inductive Val where
  | text (id : Nat)
  | num (n : Nat)
deriving Repr, DecidableEq, Inhabited

def Obj.value (o : Obj) : Val :=
  match o.cls with
  | .int => .num o.val
  | _ => .text o.val

/-- the entry `a` lists the object `e`: equal values (the library's `eq` wherever `eq` is defined — two distinct
    String objects with the same characters are equal; `$S("TypeError")` lists the Type `TypeError`) -/
def specEq (w : World) (a e : Nat) : Bool := decide ((w a).value = (w e).value)

/-- the filter of the specification: an empty filter matches everything, otherwise some entry lists the object -/
def fmatchW (w : World) (f : List Nat) (e : Nat) : Bool := f.isEmpty || f.any (fun a => specEq w a e)

/-- the `Cmp` instance of an entry of type `ca` can look at an object of type `ce` (no run-time type check fails) -/
def comparable (ca ce : Cls) : Bool :=
  match ca, ce with
  | .type, .type => true
  | .str, .str => true
  | .str, .type => true
  | .int, .int => true
  | _, _ => false

/-- **The territory of finding KF-C07-filter-eq-raises**, exactly: walking the filter `f` for the exception `e`, an
    entry whose type cannot be compared with `e`'s is reached before an entry that lists `e`. -/
def clash (w : World) (e : Nat) : List Nat → Bool
  | [] => false
  | a :: rest =>
    if !comparable (w a).cls (w e).cls then true
    else if specEq w a e then false
    else clash w e rest

/-- Reference (specification) for exception objects of any type: `eval` with the match relation `m`
    (`evalM fmatch` is `eval`, `evalM_fmatch`; `evalW w` = `evalM (fmatchW w)`). -/
def evalM (m : List Nat → Nat → Bool) : Prog → Nat → List Ev × Option Nat
  | .stmt t, _ => ([.stmt t], none)
  | .throw e, _ => ([], some e)
  | .throwBad e, _ => ([], some e)
  | .rethrow, x => ([], some x)
  | .seq p q, x =>
    match evalM m p x with
    | (t1, some e) => (t1, some e)
    | (t1, none) => let (t2, r) := evalM m q x; (t1 ++ t2, r)
  | .call p, x => evalM m p x
  | .tryCatch b f h, x =>
    match evalM m b x with
    | (t, none) => (t, none)
    | (t, some e) =>
      if m f e then
        let (th, r) := evalM m h e
        (t ++ [.handler e] ++ th, r)
      else (t, some e)

def evalW (w : World) : Prog → Nat → List Ev × Option Nat := evalM (fmatchW w)

/-- **Hypothesis of the theorems about objects of any type** (decidable; follows the reference run): no filter walk
    that the reference run of `p` performs meets a clash. A program may well contain a Type entry and a thrown String —
    as long as that String does not arrive at that filter (or an entry listing it comes first). -/
def noClash (w : World) : Prog → Nat → Bool
  | .seq p q, x =>
    noClash w p x && (match (evalW w p x).2 with | none => noClash w q x | some _ => true)
  | .call p, x => noClash w p x
  | .tryCatch b f h, x =>
    noClash w b x &&
      (match (evalW w b x).2 with
       | none => true
       | some e => !clash w e f && (!fmatchW w f e || noClash w h e))
  | _, _ => true

/-- every object the program names (thrown or listed) is a Type object — then `noClash` holds whatever happens,
    provided the variable bound at the start is one too (`noClash_of_allTypes`, CelloProofs/Lemmas/ExnWorld.lean) -/
def allTypes (w : World) : Prog → Bool
  | .throw e => (w e).cls == .type
  | .throwBad e => (w e).cls == .type
  | .seq p q => allTypes w p && allTypes w q
  | .call p => allTypes w p
  | .tryCatch b f h => allTypes w b && f.all (fun a => (w a).cls == .type) && allTypes w h
  | _ => true

/-! #### OLD variant (before fix a0ef2da): `foreach(arg in args) { if (eq(arg, e->obj)) … }` over `tuple(__VA_ARGS__)` -/

/-- `Tuple_Iter_Next(self, curr)`: scan from the start for the first item that *is* `curr` (pointer identity) and
    return the item after it; `none` is `Terminal`. -/
def tupleNext : List Nat → Nat → Option Nat
  | [], _ => none
  | x :: xs, c => if x = c then xs.head? else tupleNext xs c

/-- OLD: the loop `for (arg = iter_init(args); arg isnt Terminal; arg = iter_next(args, arg))`, `cur` = `arg` -/
def walkFrom (f : List Nat) (obj : Nat) : Nat → Option Nat → Walk
  | 0, _ => .hang
  | _+1, none => .exhausted
  | n+1, some a =>
    if obj = 0 then .nullCmp
    else if a = obj then .matched
    else walkFrom f obj n (tupleNext f a)

/-- OLD: `len(args) is 0` → catch all; otherwise the foreach walk (`Tuple_Iter_Init` = first item). Fuel `length + 1`
    is exactly what a duplicate-free tuple needs. -/
def catchDecisionOld (f : List Nat) (obj : Nat) : Walk :=
  if f.isEmpty then .matched else walkFrom f obj (f.length + 1) f.head?

/-- `exception_try_end(); exception_catch(filter)` and the handler, given the state after the body/else-branch.
    `dec` = the filter walk (`catchDecision` now, `catchDecisionOld` before fix a0ef2da); `consume` = whether
    `exception_catch` clears `active` when it returns the object (read from the source by the translator:
    CelloGen.Exn.catchConsumes). `runH x` runs the handler with `x` bound. -/
def catchPhase (dec : List Nat → Nat → Walk) (consume : Bool) (runH : Nat → St → St × List Ev × Sig) (f : List Nat)
    (s3 : St) (t : List Ev) : St × List Ev × Sig :=
  -- exception_try_end
  if s3.depth = 0 then (s3, t, .abort) else
  let s4 : St := { s3 with depth := s3.depth - 1 }
  -- exception_catch
  if !s4.active then (s4, t, .normal)
  else match dec f s4.obj with
    | .matched =>
      let s5 : St := if consume then { s4 with active := false } else s4
      -- `for (var X = exception_catch(…); X isnt NULL; X = NULL)`: a NULL object is returned, the handler is skipped
      if s4.obj = 0 then (s5, t, .normal)
      else
        let (s6, th, g) := runH s4.obj s5
        (s6, t ++ [.handler s4.obj] ++ th, g)
    | .exhausted => if s4.depth ≥ 1 then (s4, t, .jump (s4.depth - 1)) else (s4, t, .fatal)
    | .hang => (s4, t, .hang)
    | .nullCmp =>
      -- exception_throw(ValueError, …) from inside exception_catch, at the outer depth
      let s5 : St := { s4 with obj := valueErr }
      if s5.depth ≥ 1 then (s5, t, .jump (s5.depth - 1)) else (s5, t, .fatal)
    | .cmpRaises exc =>
      -- the `Cmp` instance of a filter entry raised `exc` (cast / c_str / c_int on the pending object): again an
      -- exception_throw from inside exception_catch, at the outer depth; the pending object is overwritten
      let s5 : St := { s4 with obj := exc }
      if s5.depth ≥ 1 then (s5, t, .jump (s5.depth - 1)) else (s5, t, .fatal)

/-- `exception_throw`: `e->obj = obj; print_to_with(e->msg, …)`; longjmp to the innermost buffer or Exception_Error -/
def throwObj (e : Nat) (s : St) : St × List Ev × Sig :=
  let s := { s with obj := e }
  if s.depth ≥ 1 then (s, [], .jump (s.depth - 1)) else (s, [], .fatal)

/-- The machine: what the macros and Exception.c do, for a given filter walk `dec`. `x` = the C variable bound by the
    innermost enclosing handler. -/
def runWith (dec : List Nat → Nat → Walk) (consume : Bool) (maxDepth : Nat) : Prog → Nat → St → St × List Ev × Sig
  | .stmt t, _, s => (s, [.stmt t], .normal)
  | .throw e, _, s => throwObj e s
  | .throwBad e, _, s =>
    -- `e->obj = obj;` then print_to_with finds too few arguments and itself throws FormatError (a nested
    -- exception_throw: `e->obj = FormatError`, message formatted, jump)
    throwObj fmtErr { s with obj := e }
  | .rethrow, x, s => throwObj x s
  | .seq p q, x, s =>
    match runWith dec consume maxDepth p x s with
    | (s1, t1, .normal) =>
      let (s2, t2, g) := runWith dec consume maxDepth q x s1
      (s2, t1 ++ t2, g)
    | r => r
  | .call p, x, s => runWith dec consume maxDepth p x s
  | .tryCatch b f h, x, s =>
    -- exception_try: overflow check, depth++, active = false, buffers[depth-1] = env  (index = s.depth)
    if s.depth = maxDepth then (s, [], .abort) else
    let s1 : St := { s with depth := s.depth + 1, active := false }
    match runWith dec consume maxDepth b x s1 with
    | (s2, t, .normal) => catchPhase dec consume (runWith dec consume maxDepth h) f s2 t
    | (s2, t, .jump tgt) =>
      if tgt = s.depth then
        -- lands in this block's else-branch: exception_try_fail
        catchPhase dec consume (runWith dec consume maxDepth h) f { s2 with active := true } t
      else if tgt < s.depth then (s2, t, .jump tgt)   -- an outer block's buffer: this block's end code is skipped
      else (s2, t, .ub)                               -- a buffer of a block already left
    | r => r

/-- **The machine of the code as it is now**: filter walk by index. -/
def run (consume : Bool) (maxDepth : Nat) : Prog → Nat → St → St × List Ev × Sig :=
  runWith catchDecision consume maxDepth

/-- the machine of the code before fix a0ef2da: filter walk with `foreach` -/
def runOld (consume : Bool) (maxDepth : Nat) : Prog → Nat → St → St × List Ev × Sig :=
  runWith catchDecisionOld consume maxDepth

/-- **The machine of the code as it is now, exception objects of any type** (`w` says what lives where) -/
def runW (w : World) (consume : Bool) (maxDepth : Nat) : Prog → Nat → St → St × List Ev × Sig :=
  runWith (catchDecisionW w) consume maxDepth

/-- … selected by the translator's flags. (The OLD foreach walk is modelled for Type objects only: it compares by
    identity.) -/
def runCfgW (w : World) (foreachWalk consume : Bool) (maxDepth : Nat) : Prog → Nat → St → St × List Ev × Sig :=
  runWith (if foreachWalk then catchDecisionOld else catchDecisionW w) consume maxDepth

/-- the machine selected by what the translator reads from the source (`foreachWalk` =
    CelloGen.Exn.catchWalksFilterWithForeachEq, `consume` = CelloGen.Exn.catchConsumes, `maxDepth` = CelloGen.Exn.maxDepth) -/
def runCfg (foreachWalk consume : Bool) (maxDepth : Nat) : Prog → Nat → St → St × List Ev × Sig :=
  runWith (if foreachWalk then catchDecisionOld else catchDecision) consume maxDepth

def St.init : St := ⟨0, false, 0⟩

/-- statements executed one after another (a history of constructs) on the machine `M`, as `seq` does it -/
def runSeq (M : Prog → Nat → St → St × List Ev × Sig) : List Prog → Nat → St → St × List Ev × Sig
  | [], _, s => (s, [], .normal)
  | p :: ps, x, s =>
    match M p x s with
    | (s1, t1, .normal) =>
      let (s2, t2, g) := runSeq M ps x s1
      (s2, t1 ++ t2, g)
    | r => r

/-- `n` try blocks around `p` (catch-all handlers that do nothing observable) -/
def tower : Nat → Prog → Prog
  | 0, p => p
  | n+1, p => .tryCatch (tower n p) [] (.stmt 0)

/-! ### text protocol (shared with harness/h_exn.c)

  program ::= (s N) | (t K) | (g N) | (k N) | (n) | (m K) | (r) | (q P P) | (c P (K*) P) | (f P) | (d N P)
  `(k N)` = `raise` of signal N % 6 (SIGABRT SIGFPE SIGILL SIGINT SIGSEGV SIGTERM) after `exception_signals()`;
  `(g N)` = a library function raises (N even: KeyError from `get` on a Table, N odd: ValueError from `rem` on an Array);
  kinds K < 100 are mapped to objects K % 6 + 1, kinds 100 + j to the non-Type objects 8 + j (`kindObj`); `(n)` = throw NULL; `(m K)` = throw kind K with a malformed message;
  `(r)` = rethrow the bound object; `(d N P)` = P called through N frames.
-/

inductive Tok | lp | rp | num (n : Nat) | sym (c : Char)
deriving Repr, DecidableEq

def tokenize (s : String) : List Tok :=
  let rec go (cs : List Char) (acc : List Tok) (cur : Option Nat) : List Tok :=
    let flush (acc : List Tok) : List Tok := match cur with | some n => .num n :: acc | none => acc
    match cs with
    | [] => (flush acc).reverse
    | c :: rest =>
      if c.isDigit then go rest acc (some ((cur.getD 0) * 10 + (c.toNat - '0'.toNat)))
      else if c = '(' then go rest (.lp :: flush acc) none
      else if c = ')' then go rest (.rp :: flush acc) none
      else if c = ' ' then go rest (flush acc) none
      else go rest (.sym c :: flush acc) none
  go s.toList [] none

/-- number of exception kinds of the harness; kind `k < 100` is the object `k % nKinds + 1` (a Type object);
    address `nKinds + 1` = 7 is `ClassError` (only ever raised by the library); kinds `100 + j` are the harness's
    objects that are not Types (`j` modulo `nExtra`), at the addresses `8 + j`. -/
def nKinds : Nat := 6
def nExtra : Nat := 7
def kindObj (k : Nat) : Nat := if k ≥ 100 then 8 + (k - 100) % nExtra else k % nKinds + 1

/-- the objects of harness/h_exn.c: addresses 1…7 the Type objects TypeError, ValueError, KeyError, IOError,
    FormatError, BusyError, ClassError (name ids 0…6); 8, 9, 10 the Strings "A", "B", "A" (text ids 100, 101, 100 — two
    distinct objects of equal value); 11 the String "TypeError" (text id 0 = the name of address 1); 12, 13, 14 the Ints
    5, 7, 5. Any other address: a Type object with a name of its own. -/
def harnessWorld : World := fun a =>
  match a with
  | 8 => ⟨.str, 100⟩ | 9 => ⟨.str, 101⟩ | 10 => ⟨.str, 100⟩ | 11 => ⟨.str, 0⟩
  | 12 => ⟨.int, 5⟩ | 13 => ⟨.int, 7⟩ | 14 => ⟨.int, 5⟩
  | a => if a ≤ 7 then ⟨.type, a - 1⟩ else ⟨.type, a + 1000⟩

def callN : Nat → Prog → Prog
  | 0, p => p
  | n+1, p => .call (callN n p)

/-- parse one program; fuel = token count -/
def parseProg : Nat → List Tok → Option (Prog × List Tok)
  | 0, _ => none
  | _+1, .lp :: .sym 's' :: .num n :: .rp :: r => some (.stmt n, r)
  | _+1, .lp :: .sym 't' :: .num n :: .rp :: r => some (.throw (kindObj n), r)
  | _+1, .lp :: .sym 'm' :: .num n :: .rp :: r => some (.throwBad (kindObj n), r)
  | _+1, .lp :: .sym 'n' :: .rp :: r => some (.throw 0, r)
  -- an exception raised by a library function called in the body: `get` of a missing Table key throws KeyError (kind
  -- 2), `rem` of an object that is not in an Array throws ValueError (kind 1) — for the machinery a `throw` like any other
  | _+1, .lp :: .sym 'g' :: .num n :: .rp :: r => some (.throw (if n % 2 = 0 then kindObj 2 else kindObj 1), r)
  -- `raise(SIG…)` with exception_signals() installed: `Exception_Signal` throws the object its table names (address 15 + N % 6,
  -- Cello/ExnSignal.lean `sigObj`; each signal at most once per program: the driver checks `sigsOnce`)
  | _+1, .lp :: .sym 'k' :: .num n :: .rp :: r => some (.throw (15 + n % 6), r)
  | _+1, .lp :: .sym 'r' :: .rp :: r => some (.rethrow, r)
  | fuel+1, .lp :: .sym 'q' :: r =>
    match parseProg fuel r with
    | some (p, r1) => match parseProg fuel r1 with
      | some (q, .rp :: r2) => some (.seq p q, r2)
      | _ => none
    | none => none
  | fuel+1, .lp :: .sym 'f' :: r =>
    match parseProg fuel r with
    | some (p, .rp :: r1) => some (.call p, r1)
    | _ => none
  | fuel+1, .lp :: .sym 'd' :: .num n :: r =>
    match parseProg fuel r with
    | some (p, .rp :: r1) => if n ≤ 4096 then some (callN n p, r1) else none
    | _ => none
  | fuel+1, .lp :: .sym 'c' :: r =>
    match parseProg fuel r with
    | some (b, .lp :: r1) =>
      let nums := r1.takeWhile (fun t => match t with | .num _ => true | _ => false)
      let r2 := r1.dropWhile (fun t => match t with | .num _ => true | _ => false)
      match r2 with
      | .rp :: r3 => match parseProg fuel r3 with
        | some (h, .rp :: r4) =>
          -- the harness has one `catch` arm per filter arity 0…4
          if nums.length ≤ 4 then
            some (.tryCatch b (nums.filterMap (fun t => match t with | .num n => some (kindObj n) | _ => none)) h, r4)
          else none
        | _ => none
      | _ => none
    | _ => none
  | _, _ => none

def parse (s : String) : Option Prog :=
  let toks := tokenize s
  match parseProg (toks.length + 1) toks with
  | some (p, []) => some p
  | _ => none

def Ev.show : Ev → String
  | .stmt t => s!"s{t}"
  | .handler e => if e = 0 then "hNULL" else s!"h{e - 1}"

def showTrace (t : List Ev) : String := ",".intercalate (t.map Ev.show)

def Sig.show : Sig → String
  | .normal => "normal"
  | .jump t => s!"jump{t}"
  | .fatal => "fatal"
  | .abort => "abort"
  | .ub => "ub"
  | .hang => "hang"

end Cello.Exn
