/-
  Cello/Exn.lean — executable model of Cello's exception machinery (src/Exception.c + the try/catch/throw
  macros of include/Cello.h), and the reference semantics it is proved against (CelloProofs/Props/C07.lean).

  Mirrors:
    #define try { jmp_buf __env; exception_try(&__env); if (!setjmp(__env))
    #define catch_in(X, ...) else { exception_try_fail(); } exception_try_end(); }
        for (var X = exception_catch(tuple(__VA_ARGS__)); X isnt NULL; X = NULL)
    exception_try / exception_try_fail / exception_try_end / exception_throw / exception_catch
-/
namespace Cello.Exn

/-- try/throw/catch program trees. `call p` is `p` executed in a callee frame (dynamic nesting); the machinery
    does not distinguish it from inline code, which is the point. -/
inductive Prog where
  | stmt (tag : Nat)
  | throw (e : Nat)
  | seq (p q : Prog)
  | tryCatch (body : Prog) (filter : List Nat) (handler : Prog)
  | call (p : Prog)
deriving Repr, Inhabited

/-- observable events: a statement ran; a handler was entered with object `e` bound -/
inductive Ev where
  | stmt (tag : Nat)
  | handler (e : Nat)
deriving Repr, DecidableEq, Inhabited

/-- `exception_catch`: an empty filter matches everything, otherwise `eq` against each argument -/
def fmatch (f : List Nat) (e : Nat) : Bool := f.isEmpty || f.contains e

/-- Reference (specification): structured exceptions, big-step. Returns the trace and the exception that
    leaves the program, if any. -/
def eval : Prog → List Ev × Option Nat
  | .stmt t => ([.stmt t], none)
  | .throw e => ([], some e)
  | .seq p q =>
    match eval p with
    | (t1, some e) => (t1, some e)
    | (t1, none) => let (t2, r) := eval q; (t1 ++ t2, r)
  | .call p => eval p
  | .tryCatch b f h =>
    match eval b with
    | (t, none) => (t, none)
    | (t, some e) =>
      if fmatch f e then
        let (th, r) := eval h
        (t ++ [.handler e] ++ th, r)
      else (t, some e)

/-- lexical/dynamic nesting depth of try blocks a program can reach -/
def nest : Prog → Nat
  | .stmt _ => 0
  | .throw _ => 0
  | .seq p q => max (nest p) (nest q)
  | .call p => nest p
  | .tryCatch b _ h => max (nest b + 1) (nest h)

/-- `struct Exception` without the message: `depth`, `active`, `obj`. The jump buffers themselves are
    represented by their indices: the buffer pushed by a `try` entered at depth `d` has index `d`. -/
structure St where
  depth : Nat
  active : Bool
  obj : Nat
deriving Repr, DecidableEq, Inhabited

/-- how a piece of code ends -/
inductive Sig where
  | normal
  | jump (target : Nat)  -- `longjmp(*buffers[target])`, target = depth-1 at the time of the throw
  | fatal                -- uncaught: Exception_Error → diagnostic, exit(EXIT_FAILURE)
  | abort                -- "Exception Buffer Overflow/Underflow" → abort()
  | ub                   -- longjmp to a buffer whose block has been left: undefined behaviour
deriving Repr, DecidableEq, Inhabited

/-- `exception_try_end(); exception_catch(filter)` and the handler, given the state after the body/else-branch.
    `consume` = whether `exception_catch` clears `active` when it returns the object (read from the source by
    the translator: CelloGen.Exn.catchConsumes). -/
def catchPhase (consume : Bool) (runH : St → St × List Ev × Sig) (f : List Nat)
    (s3 : St) (t : List Ev) : St × List Ev × Sig :=
  -- exception_try_end
  if s3.depth = 0 then (s3, t, .abort) else
  let s4 : St := { s3 with depth := s3.depth - 1 }
  -- exception_catch
  if !s4.active then (s4, t, .normal)
  else if fmatch f s4.obj then
    let s5 : St := if consume then { s4 with active := false } else s4
    let (s6, th, g) := runH s5
    (s6, t ++ [.handler s4.obj] ++ th, g)
  else if s4.depth ≥ 1 then (s4, t, .jump (s4.depth - 1)) else (s4, t, .fatal)

/-- The machine: what the macros and Exception.c do. -/
def run (consume : Bool) (maxDepth : Nat) : Prog → St → St × List Ev × Sig
  | .stmt t, s => (s, [.stmt t], .normal)
  | .throw e, s =>
    -- exception_throw: e->obj = obj; longjmp to the innermost buffer or Exception_Error
    let s := { s with obj := e }
    if s.depth ≥ 1 then (s, [], .jump (s.depth - 1)) else (s, [], .fatal)
  | .seq p q, s =>
    match run consume maxDepth p s with
    | (s1, t1, .normal) =>
      let (s2, t2, g) := run consume maxDepth q s1
      (s2, t1 ++ t2, g)
    | r => r
  | .call p, s => run consume maxDepth p s
  | .tryCatch b f h, s =>
    -- exception_try: overflow check, depth++, active = false, buffers[depth-1] = env  (index = s.depth)
    if s.depth = maxDepth then (s, [], .abort) else
    let s1 : St := { s with depth := s.depth + 1, active := false }
    match run consume maxDepth b s1 with
    | (s2, t, .normal) => catchPhase consume (run consume maxDepth h) f s2 t
    | (s2, t, .jump tgt) =>
      if tgt = s.depth then
        -- lands in this block's else-branch: exception_try_fail
        catchPhase consume (run consume maxDepth h) f { s2 with active := true } t
      else if tgt < s.depth then (s2, t, .jump tgt)   -- an outer block's buffer: this block's end code is skipped
      else (s2, t, .ub)                               -- a buffer of a block already left
    | r => r

def St.init : St := ⟨0, false, 0⟩

/-! ### text protocol (shared with harness/h_exn.c)

  program ::= (s N) | (t N) | (q P P) | (c P (N*) P) | (f P)
-/

inductive Tok | lp | rp | num (n : Nat) | sym (c : Char)
deriving Repr, DecidableEq

def tokenize (s : String) : List Tok :=
  let rec go (cs : List Char) (acc : List Tok) (cur : Option Nat) : List Tok :=
    let flush (acc : List Tok) : List Tok := match cur with | some n => .num n :: acc | none => acc
    match cs with
    | [] => (flush acc).reverse
    | c :: rest =>
      if c.isDigit then go rest acc (some ((cur.getD 0) * 10 + (c.toNat - '0'.toNat)))
      else if c = '(' then go rest (.lp :: flush acc) none
      else if c = ')' then go rest (.rp :: flush acc) none
      else if c = ' ' then go rest (flush acc) none
      else go rest (.sym c :: flush acc) none
  go s.toList [] none

/-- parse one program; fuel = token count -/
def parseProg : Nat → List Tok → Option (Prog × List Tok)
  | 0, _ => none
  | fuel+1, .lp :: .sym 's' :: .num n :: .rp :: r => some (.stmt n, r)
  | fuel+1, .lp :: .sym 't' :: .num n :: .rp :: r => some (.throw n, r)
  | fuel+1, .lp :: .sym 'q' :: r =>
    match parseProg fuel r with
    | some (p, r1) => match parseProg fuel r1 with
      | some (q, .rp :: r2) => some (.seq p q, r2)
      | _ => none
    | none => none
  | fuel+1, .lp :: .sym 'f' :: r =>
    match parseProg fuel r with
    | some (p, .rp :: r1) => some (.call p, r1)
    | _ => none
  | fuel+1, .lp :: .sym 'c' :: r =>
    match parseProg fuel r with
    | some (b, .lp :: r1) =>
      let nums := r1.takeWhile (fun t => match t with | .num _ => true | _ => false)
      let r2 := r1.dropWhile (fun t => match t with | .num _ => true | _ => false)
      match r2 with
      | .rp :: r3 => match parseProg fuel r3 with
        | some (h, .rp :: r4) =>
          some (.tryCatch b (nums.filterMap (fun t => match t with | .num n => some n | _ => none)) h, r4)
        | _ => none
      | _ => none
    | _ => none
  | _, _ => none

def parse (s : String) : Option Prog :=
  let toks := tokenize s
  match parseProg (toks.length + 1) toks with
  | some (p, []) => some p
  | _ => none

def Ev.show : Ev → String
  | .stmt t => s!"s{t}"
  | .handler e => s!"h{e}"

def showTrace (t : List Ev) : String := ",".intercalate (t.map Ev.show)

def Sig.show : Sig → String
  | .normal => "normal"
  | .jump t => s!"jump{t}"
  | .fatal => "fatal"
  | .abort => "abort"
  | .ub => "ub"

end Cello.Exn
