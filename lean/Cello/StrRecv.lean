import Cello.Str
/-!
# Receivers that are not heap Strings (`CELLO_ALLOC_CHECK` of src/String.c)

A String made with `$S("…")` lives on the stack (header class `AllocStack`), a String declared at file scope is
`AllocStatic`; its `val` points to memory that did not come from `malloc`.  Every function of src/String.c that passes `s->val` to
`realloc` (or `free`) therefore starts with

    if (header(self)->alloc is (var)AllocStack or header(self)->alloc is (var)AllocStatic) {
      throw(ValueError, "Cannot reallocate String, not on heap!"); }

`String_Rem` edits the buffer in place and has no such test; in `String_Assign` the `if (val is s->val) { return; }` of fix 744a45f
stands before it.  Whether each test is there and stands BEFORE the `realloc` / `free` is read from the source on every run
(`CelloGen.Str.guardParams`); the model below says what a call on a receiver of each class does.
-/
namespace Cello.Str

/-- `header(self)->alloc`: a String of its own on the heap, one that lives inside a container (`AllocData`), a stack String, a static one -/
inductive Cls where
  | heap | data | stack | static
deriving Repr, DecidableEq, Inhabited

/-- the classes the alloc checks of src/String.c name -/
def Cls.nonHeap : Cls → Bool
  | .stack => true
  | .static => true
  | _ => false

/-- per function: the alloc check is present and stands before the first `realloc(` / `free(` of the body -/
structure GuardParams where
  assign : Bool
  clear : Bool
  concat : Bool
  resize : Bool
  format : Bool
  del : Bool
  /-- String_Assign: `if (val is s->val) { return; }` stands before the alloc check -/
  assignSelfFirst : Bool
deriving Repr, DecidableEq, Inhabited

def GuardParams.modelled : GuardParams := ⟨true, true, true, true, true, true, true⟩

/-- String_Concat without its alloc check (a variant to refute) -/
def GuardParams.concatUnguarded : GuardParams := { GuardParams.modelled with concat := false }

def GuardParams.Lawful (G : GuardParams) : Prop := G = GuardParams.modelled

instance (G : GuardParams) : Decidable G.Lawful := inferInstanceAs (Decidable (G = _))

/-- does the function behind the operation pass `s->val` to `realloc`? (`String_Rem`: `memmove` in place) -/
def Op.reallocs : Op → Bool
  | .rem _ => false
  | _ => true

def GuardParams.guards (G : GuardParams) : Op → Bool
  | .assign _ => G.assign
  | .concat _ => G.concat
  | .append _ => G.concat
  | .resize _ => G.resize
  | .clear => G.clear
  | .rem _ => true
  | .format _ _ => G.format

/-- a call on a receiver of some class -/
inductive ROut where
  /-- the body ran as on a heap String -/
  | ran (r : Res)
  /-- ValueError "Cannot reallocate String, not on heap!" before anything was read or written -/
  | refused
  /-- `realloc` / `free` of a pointer that did not come from `malloc`: undefined (ISO C 7.22.3.5) -/
  | badRealloc

/-- one operation of the property on a receiver of class `c` holding the buffer `s` -/
def recvStep (G : GuardParams) (P : Params) (J : Nat → Byte) (c : Cls) (s : Str) (op : Op) : ROut :=
  if !op.reallocs then .ran (step P J s op)
  else if c.nonHeap then (if G.guards op then .refused else .badRealloc)
  else .ran (step P J s op)

/-- `assign(s, s)` on a receiver of class `c`: the early return of 744a45f comes first -/
def recvAssignSelf (G : GuardParams) (c : Cls) (s : Str) : ROut :=
  if G.assignSelfFirst then .ran ⟨s, .ok 0, []⟩
  else if c.nonHeap then (if G.assign then .refused else .badRealloc)
  else .ran ⟨s, .ok 0, []⟩

/-- `del` / destructor on a receiver of class `c`: `free(s->val)` -/
def recvDel (G : GuardParams) (c : Cls) : ROut :=
  if c.nonHeap then (if G.del then .refused else .badRealloc) else .ran ⟨⟨[]⟩, .ok 0, []⟩

end Cello.Str
