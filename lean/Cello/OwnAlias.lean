/-
  Cello/OwnAlias.lean — ALIASED arguments of the container operations (engine `own`, property C05; second layer on top of
  Cello/Own.lean, whose `Op` / `step` stay as they are; proofs: CelloProofs/Lemmas/OwnAlias.lean).

  In Cello/Own.lean the element / key / value argument of a call is a payload: a fresh object the caller built for the
  call.  Real programs also pass objects that LIVE INSIDE A CONTAINER:

      set(t, k, get(t, k))            the fetch / modify / store-back idiom: the value argument IS the stored value
      foreach (key in t) rem(t, key)  the key argument IS the stored key object
      push(l, get(l, 0))              an element of the list pushed onto the same list
      set(a, i, get(a, j))            one record of an array assigned onto another (or onto itself, i = j)
      set(t, key_from_iteration, get(u, other))

  Such an argument is a *reference into a container's storage* (`Ref`: container name + selector).  It is resolved to an
  object by the caller before the call; what the called function then READS through the pointer is whatever the storage
  holds AT THE MOMENT THE CODE READS IT — for a reference into the receiver itself that may be after the receiver has
  already been changed by the very call.  The model functions below therefore take the argument as a `Src` and perform
  the read where the C code performs it:

      Array_Set / List_Set            bounds check (List_At), then `assign(item, val)`: one read, nothing changed before it
      List_Push / List_Push_At        List_Alloc of an unlinked node (List_At first), `assign(item, obj)`, List_Link: one
                                      read, the list's nodes never move
      Array_Rem / List_Rem            `eq(item, obj)` along the scan; at the match the element is destructed and `obj` is
                                      not read again
      Table_Set_Move(move = false)    `assign(sspace0.key, key); assign(sspace0.val, val)` — BOTH arguments are copied into
                                      the swap space first, then the probing loop destructs the resident pair
      Tree_Set, existing key          `assign(Tree_Key(node), key)`, THEN `assign(Tree_Val(node), val)`: the value argument
                                      is read after the key was assigned in place (`treeSetSrc`)
      Table_Rem / Tree_Rem            `cast`, the comparisons of the lookup, then `destruct` of the found pair: no read after
      Array_Push / Array_Push_At      of an element OF THE SAME ARRAY: the argument is read after Array_Reserve_More
                                      (realloc) and, for push_at, after the memmove and the zero-fill of record i — the
                                      territory of KF-C04-push-own-element (C04): not executed here (`bad`, like concat(x, x))

  On the code as it is every in-contract aliased call therefore equals the plain call with the payloads the references
  resolve to in the state before the call (`lowerCall`; theorem `stepAliased_lower`, Props/C05.lean `C05_aliased_as_resolved`),
  so conservation, the invariant and the history theorems carry over (`runA`).  `treeSetDestructFirstSrc` is the order
  "destruct the old value, zero it, assign the new one" (what Table does — but Table copies the arguments first): with the
  stored value as argument it finalises a contained element and reads zeroed bytes (`C05_tree_set_destruct_first_refuted`).

  Core Lean only.
-/
import Cello.Own

namespace Cello.Own

/-- selector of one object in a container's storage -/
inductive Sel where
  | elem (i : Int)      -- `get(seq, i)`: the record (Array) / node (List) at position i (negative: from the end)
  | key (k : Nat)       -- the stored key object whose payload is `k` (what iterating over a Table / Tree yields)
  | val (k : Nat)       -- `get(map, key k)`: the stored value object
deriving DecidableEq, Repr, Inhabited

/-- a reference into the storage of container `c` -/
structure Ref where
  c : Nat
  sel : Sel
deriving DecidableEq, Repr, Inhabited

/-- argument of a map call: a fresh object with payload `p`, or a stored object -/
inductive RArg where
  | pay (p : Nat)
  | ref (r : Ref)
deriving DecidableEq, Repr, Inhabited

/-- `i < 0 ? n + i : i`, in range -/
def normIdx (n : Nat) (i : Int) : Option Nat :=
  let j : Int := if i < 0 then (n : Int) + i else i
  if j < 0 ∨ j ≥ (n : Int) then none else some j.toNat

/-- the object a selector designates in a container as it is now.  A zero-filled record of a sequence is not an object
    (only `List_Resize` beyond the length makes one: known finding); containers of Box are not addressed this way. -/
def Cont.pick : Cont → Sel → Option Tok
  | .seq _ .probe xs, .elem i =>
    match normIdx xs.length i with
    | some j => (xs[j]?).filter (fun t => t.id != 0)
    | none => none
  | .map _ kvs, .key k => (kvs.find? (keyIs k)).map (·.1)
  | .map _ kvs, .val k => (kvs.find? (keyIs k)).map (·.2)
  | _, _ => none

/-- where an argument object lives, seen from the receiver of the call -/
inductive Src where
  | obj (p : Nat)       -- outside the receiver (a fresh object, an element of ANOTHER container): the call does not touch it
  | own (s : Sel)       -- inside the receiver's own storage: its bytes are what the receiver holds there WHEN THEY ARE READ
deriving DecidableEq, Repr, Inhabited

/-- the payload the code reads through the argument pointer while the receiver is `cur` -/
def Src.read (cur : Cont) : Src → Option Nat
  | .obj p => some p
  | .own s => (cur.pick s).map (·.pay)

/-- operations whose only read of the argument precedes their first change of the receiver's contents -/
def readFirst {α : Type} (cur : Cont) (a : Src) (f : Nat → Res α) : Option (Res α) := (a.read cur).map f

/-! ## Maps -/

/-- Table_Set = Table_Set_Move(move = false): key and value are assigned into the swap space — both arguments read while
    the table is as it was — before the probing loop meets (and destructs) a resident pair with an equal key. -/
def tableSetSrc (next : Nat) (kvs : List KV) (ka va : Src) : Option (Res (List KV)) :=
  match ka.read (.map .table kvs), va.read (.map .table kvs) with
  | some k, some v => some (tableSet next kvs k v)
  | _, _ => none

/-- Tree_Set: the descent compares with `key`; on an equal key `assign(Tree_Key(m, node), key)` runs first and
    `assign(Tree_Val(m, node), val)` reads `val` from the tree as it is THEN; a new key gets a fresh node (nothing stored
    has changed when the two arguments are read). -/
def treeSetSrc (next : Nat) (kvs : List KV) (ka va : Src) : Option (Res (List KV)) :=
  match ka.read (.map .tree kvs) with
  | none => none
  | some k =>
    match takeFirst (keyIs k) kvs with
    | some (old, rest) =>
      let r1 := assignProbe next old.1 k
      let cur := mapInsert (r1.val, old.2) rest
      match va.read (.map .tree cur) with
      | none => none
      | some v =>
        let r2 := assignProbe (next + r1.issued.length) old.2 v
        some { val := mapInsert (r1.val, r2.val) rest, issued := r1.issued ++ r2.issued,
               updated := r1.updated ++ r2.updated }
    | none =>
      match va.read (.map .tree kvs) with
      | none => none
      | some v =>
        let kt : Tok := ⟨next, k⟩
        let vt : Tok := ⟨next + 1, v⟩
        some { val := mapInsert (kt, vt) kvs, issued := [kt, vt] }

/-- NOT the code that exists — the order of seeded change c05_l, kept for `C05_tree_set_destruct_first_refuted`: on an equal
    key `destruct(Tree_Val(m, node)); memset(Tree_Val(m, node), 0, vsize); assign(Tree_Val(m, node), val)` (the key is left
    alone).  Fine for a fresh argument; with the stored value itself as argument the read finds zeroed bytes. -/
def treeSetDestructFirstSrc (next : Nat) (kvs : List KV) (ka va : Src) : Option (Res (List KV)) :=
  match ka.read (.map .tree kvs) with
  | none => none
  | some k =>
    match takeFirst (keyIs k) kvs with
    | some (old, rest) =>
      let cur := mapInsert (old.1, Tok.raw) rest
      match va.read (.map .tree cur) with
      | none => none
      | some v =>
        let r2 := assignProbe next Tok.raw v
        some { val := mapInsert (old.1, r2.val) rest, issued := r2.issued, retired := [old.2] }
    | none =>
      match va.read (.map .tree kvs) with
      | none => none
      | some v =>
        let kt : Tok := ⟨next, k⟩
        let vt : Tok := ⟨next + 1, v⟩
        some { val := mapInsert (kt, vt) kvs, issued := [kt, vt] }

def mapSetSrc (mk : MapKind) := match mk with | .table => tableSetSrc | .tree => treeSetSrc

/-- Table_Rem / Tree_Rem: `cast(key)`, the comparisons of the lookup read `key`; the found pair is destructed afterwards
    and `key` is not read again (the KeyError message is built only when nothing was found, hence nothing destructed). -/
def mapRemSrc (mk : MapKind) (kvs : List KV) (ka : Src) : Option (Res (List KV)) :=
  readFirst (.map mk kvs) ka (mapRem kvs)

/-! ## Operands of `concat` and of the constructors

`concat(c, tuple(a…))` and `new(T, …, a…)` take SEVERAL objects at once, each of which may be a stored object.

    List_Concat      `foreach (item in obj) List_Push(self, item)`: item i is read by ITS push — when the items before it
                     are already constructed and linked at the tail.  An operand that is a node of the receiving List was
                     resolved to a pointer by the caller's `get` before the call (`CSrc.node j`: absolute position; the
                     nodes of a List never move and a push changes no existing element)
    Array_Concat     `nitems += len(obj)`, Array_Reserve_More (realloc), then Array_Alloc + assign per item: an operand
                     that is a record of the receiving Array is read after the realloc — KF-C04-push-own-element: not
                     executed (`bad`); operands stored in OTHER containers are read from storage the call does not touch
    (both)           the operands travel in a Tuple: the same stored object twice makes `foreach` over it diverge
                     (KF-C04-tuple-dup-iter): not executed (`bad`, `dupOperands`)
    Array_New / List_New / Table_New / Tree_New
                     the receiver is being constructed: every operand lives in another container -/

/-- an operand of `concat` seen from the receiving List -/
inductive CSrc where
  | obj (p : Nat)       -- a fresh object or an element / key / value of ANOTHER container
  | node (j : Nat)      -- the node at (absolute) position `j` of the receiving List itself
deriving DecidableEq, Repr, Inhabited

/-- the payload `assign(item, obj)` reads through the operand pointer while the List holds `cur` -/
def CSrc.read (cur : List Tok) : CSrc → Option Nat
  | .obj p => some p
  | .node j => ((cur[j]?).filter (fun t => t.id != 0)).map (·.pay)

/-- List_Concat from a Tuple of operands: one List_Push per item, in order; `acc` = the elements the earlier pushes have
    constructed and linked at the tail (operand i is read from `xs ++ acc`); identities in construction order -/
def listConcatSrc (next : Nat) (xs : List Tok) : List Tok → List CSrc → Option (Res (List Tok))
  | acc, [] => some { val := xs ++ acc, issued := acc }
  | acc, a :: rest =>
    match a.read (xs ++ acc) with
    | none => none
    | some p => listConcatSrc next xs (acc ++ [⟨next + acc.length, p⟩]) rest

/-- does the operand lie in the storage of container `c`? -/
def RArg.inside (c : Nat) : RArg → Bool
  | .pay _ => false
  | .ref r => r.c == c

/-! ## The world -/

/-- a call with at least one argument that is a stored object -/
inductive ACall where
  | push (a : Ref)                    -- push / append
  | pushAt (i : Int) (a : Ref)
  | set (i : Int) (a : Ref)
  | rem (a : Ref)
  | mset (k v : RArg)
  | mrem (k : Ref)
  | concat (items : List RArg)                          -- concat(c, tuple(items…)), at least one item a stored object
  | newSeq (k : SeqKind) (items : List RArg)            -- new(Array / List, Probe, items…)
  | newMap (k : MapKind) (pairs : List (RArg × RArg))   -- new(Table / Tree, Probe, Probe, k1, v1, …)
deriving Repr, Inhabited

/-- the object a reference designates in world `w` (what the caller's `get` / iteration hands over) -/
def resolve (w : World) (r : Ref) : Option Tok := (lookup w.objs r.c).bind (fun x => x.pick r.sel)

def resolveArg (w : World) : RArg → Option Nat
  | .pay p => some p
  | .ref r => (resolve w r).map (·.pay)

/-- the argument as the receiver `c` sees it; `none` = the reference designates nothing (no call is made) -/
def toSrc (w : World) (c : Nat) (r : Ref) : Option Src :=
  (resolve w r).map (fun t => if r.c = c then Src.own r.sel else Src.obj t.pay)

def toSrcArg (w : World) (c : Nat) : RArg → Option Src
  | .pay p => some (.obj p)
  | .ref r => toSrc w c r

/-- every operand resolved in world `w` (all or nothing: one reference that designates nothing and no call is made) -/
def resolveArgs (w : World) : List RArg → Option (List Nat)
  | [] => some []
  | a :: rest =>
    match resolveArg w a, resolveArgs w rest with
    | some p, some ps => some (p :: ps)
    | _, _ => none

def resolvePairs (w : World) : List (RArg × RArg) → Option (List (Nat × Nat))
  | [] => some []
  | (k, v) :: rest =>
    match resolveArg w k, resolveArg w v, resolvePairs w rest with
    | some k, some v, some ps => some ((k, v) :: ps)
    | _, _, _ => none

/-- an operand of `concat` as the receiving List `c` (holding `xs`) sees it: `get(c, i)` normalises the index against the
    length BEFORE the call and hands over that node -/
def toCSrc (w : World) (c : Nat) (xs : List Tok) : RArg → Option CSrc
  | .pay p => some (.obj p)
  | .ref r =>
    if r.c = c then
      match r.sel with
      | .elem i =>
        match normIdx xs.length i with
        | some j => ((xs[j]?).filter (fun t => t.id != 0)).map (fun _ => CSrc.node j)
        | none => none
      | _ => none
    else (resolve w r).map (fun t => CSrc.obj t.pay)

def toCSrcs (w : World) (c : Nat) (xs : List Tok) : List RArg → Option (List CSrc)
  | [] => some []
  | a :: rest =>
    match toCSrc w c xs a, toCSrcs w c xs rest with
    | some s, some ss => some (s :: ss)
    | _, _ => none

/-- identities of the stored objects among the operands -/
def refIds (w : World) : List RArg → List Nat
  | [] => []
  | .pay _ :: rest => refIds w rest
  | .ref r :: rest => ((resolve w r).map (·.id)).toList ++ refIds w rest

def hasDup : List Nat → Bool
  | [] => false
  | x :: xs => xs.contains x || hasDup xs

/-- the same stored object twice among the operands of `concat`: the operands travel in a Tuple, and `foreach` over a Tuple
    that holds one pointer twice never reaches Terminal (Tuple_Iter_Next finds its place by pointer identity:
    KF-C04-tuple-dup-iter / KF-C11-tuple-dup) — not executed (`bad`).  The constructors fetch their arguments by index. -/
def dupOperands (w : World) (items : List RArg) : Bool := hasDup (refIds w items)

def orBad (w : World) (r : Option (World × Obs)) : World × Obs := r.getD (badOp w)

/-- One aliased call on container `c`.  Mirrors harness/h_own.c (`bind_ref` + the plain operation with the stored object as
    argument): same admissibility — the receiver is a container of probe elements, every reference designates an element,
    an Array is not pushed an element of itself. -/
def stepAliased (w : World) (c : Nat) : ACall → World × Obs
  | .push a =>
    match lookup w.objs c, toSrc w c a with
    | some (.seq .list .probe xs), some s =>
      orBad w ((readFirst (.seq .list .probe xs) s (seqPush w.next xs)).map (fun r => commitSeq w c .list .probe r [c]))
    | some (.seq .array .probe xs), some (.obj p) => commitSeq w c .array .probe (seqPush w.next xs p) [c]
    | _, _ => badOp w
  | .pushAt i a =>
    match lookup w.objs c, toSrc w c a with
    | some (.seq .list .probe xs), some s =>
      orBad w ((readFirst (.seq .list .probe xs) s (listPushAt w.next xs i)).map (fun r => commitSeq w c .list .probe r [c]))
    | some (.seq .array .probe xs), some (.obj p) => commitSeq w c .array .probe (arrayPushAt w.next xs i p) [c]
    | _, _ => badOp w
  | .set i a =>
    match lookup w.objs c, toSrc w c a with
    | some (.seq k .probe xs), some s =>
      orBad w ((readFirst (.seq k .probe xs) s (seqSetProbe w.next xs i)).map (fun r => commitSeq w c k .probe r [c]))
    | _, _ => badOp w
  | .rem a =>
    match lookup w.objs c, toSrc w c a with
    | some (.seq k .probe xs), some s =>
      orBad w ((readFirst (.seq k .probe xs) s (seqRem xs)).map (fun r => commitSeq w c k .probe r [c]))
    | _, _ => badOp w
  | .mset ka va =>
    match lookup w.objs c, toSrcArg w c ka, toSrcArg w c va with
    | some (.map mk kvs), some sk, some sv =>
      orBad w ((mapSetSrc mk w.next kvs sk sv).map (fun r => commitMap w c mk r [c]))
    | _, _, _ => badOp w
  | .mrem ka =>
    match lookup w.objs c, toSrc w c ka with
    | some (.map mk kvs), some sk =>
      orBad w ((mapRemSrc mk kvs sk).map (fun r => commitMap w c mk r [c]))
    | _, _ => badOp w
  | .concat items =>
    if dupOperands w items then badOp w else
    match lookup w.objs c with
    | some (.seq .list .probe xs) =>
      orBad w (((toCSrcs w c xs items).bind (listConcatSrc w.next xs [])).map (fun r => commitSeq w c .list .probe r [c]))
    | some (.seq .array .probe xs) =>
      if items.any (RArg.inside c) then badOp w
      else orBad w ((resolveArgs w items).map (fun ps =>
        commitSeq w c .array .probe (arrayConcatArgs w.next xs (ps.map Arg.pay)) [c]))
    | _ => badOp w
  | .newSeq k items =>
    if c ≥ maxConts ∨ (lookup w.objs c).isSome then badOp w
    else orBad w ((resolveArgs w items).map (fun ps =>
      commitSeq w c k .probe { val := mkFresh w.next ps, issued := mkFresh w.next ps } [c]))
  | .newMap k pairs =>
    if c ≥ maxConts ∨ (lookup w.objs c).isSome then badOp w
    else orBad w ((resolvePairs w pairs).map (fun kvs => commitMap w c k (mapSetMany k w.next [] kvs) [c]))

/-- the plain operation an aliased call amounts to on the code as it is: the references replaced by the payloads they
    resolve to in the state BEFORE the call; `none` where the call is not executed -/
def lowerCall (w : World) (c : Nat) : ACall → Option Op
  | .push a =>
    match lookup w.objs c with
    | some (.seq .list .probe _) => (resolve w a).map (fun t => .push c t.pay)
    | some (.seq .array .probe _) => if a.c = c then none else (resolve w a).map (fun t => .push c t.pay)
    | _ => none
  | .pushAt i a =>
    match lookup w.objs c with
    | some (.seq .list .probe _) => (resolve w a).map (fun t => .pushAt c i t.pay)
    | some (.seq .array .probe _) => if a.c = c then none else (resolve w a).map (fun t => .pushAt c i t.pay)
    | _ => none
  | .set i a =>
    match lookup w.objs c with
    | some (.seq _ .probe _) => (resolve w a).map (fun t => .set c i t.pay)
    | _ => none
  | .rem a =>
    match lookup w.objs c with
    | some (.seq _ .probe _) => (resolve w a).map (fun t => .rem c t.pay)
    | _ => none
  | .mset ka va =>
    match lookup w.objs c with
    | some (.map _ _) =>
      match resolveArg w ka, resolveArg w va with
      | some k, some v => some (.mset c k v)
      | _, _ => none
    | _ => none
  | .mrem ka =>
    match lookup w.objs c with
    | some (.map _ _) => (resolve w ka).map (fun t => .mrem c t.pay)
    | _ => none
  | .concat items =>
    if dupOperands w items then none else
    match lookup w.objs c with
    | some (.seq .list .probe _) => (resolveArgs w items).map (fun ps => .typed c (.concat (ps.map Arg.pay)))
    | some (.seq .array .probe _) =>
      if items.any (RArg.inside c) then none
      else (resolveArgs w items).map (fun ps => .typed c (.concat (ps.map Arg.pay)))
    | _ => none
  | .newSeq k items => (resolveArgs w items).map (fun ps => .newSeq c k ps)
  | .newMap k pairs => (resolvePairs w pairs).map (fun kvs => .newMap c k kvs)

/-- operations of an op file: the plain ones of Cello/Own.lean and the aliased calls -/
inductive AOp where
  | base (op : Op)
  | aliased (c : Nat) (t : ACall)
deriving Repr, Inhabited

def stepA (w : World) : AOp → World × Obs
  | .base op => step w op
  | .aliased c t => stepAliased w c t

def runA : World → List AOp → World × List Obs
  | w, [] => (w, [])
  | w, op :: ops =>
    let (w1, o) := stepA w op
    let (w2, os) := runA w1 ops
    (w2, o :: os)

def AOp.lower (w : World) : AOp → Option Op
  | .base op => some op
  | .aliased c t => lowerCall w c t

/-- in contract: a plain operation as before; an aliased call when it is executed at all (a receiver that is not a
    container of probe elements, a reference that designates nothing, an Array pushed an element of itself —
    KF-C04-push-own-element — are answered `bad` by harness and model alike and are outside) -/
def inContractA (w : World) : AOp → Bool
  | .base op => inContract w op
  | .aliased c t => !(stepAliased w c t).2.bad

def allInContractA : World → List AOp → Prop
  | _, [] => True
  | w, op :: ops => inContractA w op = true ∧ allInContractA (stepA w op).1 ops

/-- the plain history an aliased history amounts to (operations that are not executed are dropped) -/
def lowerRun : World → List AOp → List Op
  | _, [] => []
  | w, op :: ops =>
    match op.lower w with
    | some o => o :: lowerRun (step w o).1 ops
    | none => lowerRun w ops

end Cello.Own
