import Cello.Fmt
/-
  Cello/FmtSize.lean — second layer of the `fmt` engine (C14): the sink methods at the level of the heap block.

  `String_Format_To` (src/String.c, generic branch) for a call libc ACCEPTS, statement by statement over the statement list AND the two size
  expressions the translator reads from the source (the size handed to `realloc`, the offset of the `vsprintf` destination):
      int size = vsnprintf(NULL, 0, fmt, va_tmp);            -- `measure`: size := length of what libc formats
      if (size < 0) { return size; }                          -- `guard`
      s->val = realloc(s->val, pos + size + 1);               -- `realloc`: the block becomes `eval reallocSize` bytes (old bytes kept, new ones indeterminate)
      return vsprintf(s->val + pos, fmt, va);                 -- `write`: text and terminator at offset `eval writeOff`; outside the block = undefined
  libc's formatter is the parameter `t` (the text of the call).  The block is a list of cells (`none` = indeterminate byte) whose length is the
  allocated size.  `File_Format_To` (src/File.c) likewise over its statement list.  What each conversion makes libc read from the varargs
  (`printfReads`) against what `print_to_with` passes (`passedSlot`, from the declared result types of `c_int` / `c_float` / `c_str` / `var`).
  Core Lean only.
-/
namespace Cello.Fmt

/-- one byte of a heap block: `none` = indeterminate (fresh from `realloc`) -/
abbrev Cell := Option Char

inductive SzAtom where
  | pos | size | lit (n : Nat)
deriving DecidableEq, Repr, Inhabited

def SzAtom.ofCode : Nat × Nat → SzAtom
  | (0, _) => .pos
  | (1, _) => .size
  | (_, n) => .lit n

def SzAtom.eval (pos size : Nat) : SzAtom → Nat
  | .pos => pos
  | .size => size
  | .lit n => n

/-- a sum of atoms, as written in the source -/
def szEval (t : List SzAtom) (pos size : Nat) : Nat := t.foldr (fun a acc => a.eval pos size + acc) 0

/-- `String_Format_To` as read from the source: statements, `realloc` size, `vsprintf` offset -/
structure SftProg where
  steps : List SStep
  reallocSize : List SzAtom
  writeOff : List SzAtom
deriving DecidableEq, Repr, Inhabited

def SftProg.ofGen (steps : List Nat) (rs wo : List (Nat × Nat)) : SftProg :=
  { steps := steps.map SStep.ofCode, reallocSize := rs.map SzAtom.ofCode, writeOff := wo.map SzAtom.ofCode }

/-- result of one `String_Format_To` call: the block afterwards and what comes back -/
inductive SfRes where
  | ret (blk : List Cell) (n : Nat)     -- returned the count `n`
  | raised (blk : List Cell) (e : Exc)
  | ub (blk : List Cell)                -- undefined behaviour: a write outside the block, `size` read before it is set, no `return`
deriving DecidableEq, Repr, Inhabited

/-- `realloc(p, m)`: the first `min m old` bytes kept, the rest indeterminate (`m = 0` frees: NULL = the empty block) -/
def reallocBlk (b : List Cell) (m : Nat) : List Cell := b.take m ++ List.replicate (m - b.length) none

/-- bytes stored at `off`; `none` when they do not fit the block -/
def writeAt (b : List Cell) (off : Nat) (bytes : Str) : Option (List Cell) :=
  if off + bytes.length ≤ b.length then some (b.take off ++ bytes.map some ++ b.drop (off + bytes.length)) else none

/-- the statements of `String_Format_To` for a call whose text (what libc formats) is `t`; `sz` = the local `size` -/
def sftAccept (p : SftProg) (t : Str) (pos : Nat) : List SStep → List Cell → Option Nat → SfRes
  | [], b, _ => .ub b
  | s :: r, b, sz =>
    match s with
    | .measure => sftAccept p t pos r b (some t.length)
    | .guard => sftAccept p t pos r b sz                       -- size ≥ 0 here
    | .allocCheck => sftAccept p t pos r b sz                  -- heap Strings only
    | .realloc =>
      match sz with
      | none => .ub b
      | some n => sftAccept p t pos r (reallocBlk b (szEval p.reallocSize pos n)) sz
    | .memCheck => if b = [] then .raised b .OutOfMemoryError else sftAccept p t pos r b sz
    | .write =>
      match sz with
      | none => .ub b
      | some n =>
        match writeAt b (szEval p.writeOff pos n) (t ++ [NUL]) with
        | some b' => .ret b' t.length                          -- vsprintf returns the characters written, terminator not counted
        | none => .ub b
    | .other => .ub b

/-- one accepted `format_to` call on a heap String whose block is `b` -/
def SftProg.run (p : SftProg) (b : List Cell) (pos : Nat) (t : Str) : SfRes := sftAccept p t pos p.steps b none

/-- the C string a block holds: the bytes before the first NUL; `none` when an indeterminate byte or the end of the block comes first -/
def cstrCells : List Cell → Option Str
  | [] => none
  | none :: _ => none
  | some c :: r => if c = NUL then some [] else (cstrCells r).map (c :: ·)

/-- the block `new_raw(String, $S(v))` starts with: `malloc(strlen(v) + 1)` -/
def blockOf (v : Str) : List Cell := (v ++ [NUL]).map some

/-- the whole run of one `print_to_with` at block level: the logged calls replayed in order from the start position; stops at the call libc
    rejected (the guard returned before anything was touched) and at undefined behaviour.  Result: block, position, went well -/
def replayBlock (p : SftProg) (prim : Prim) : List Call → List Cell → Nat → List Cell × Nat × Bool
  | [], b, pos => (b, pos, true)
  | c :: r, b, pos =>
    if prim.rej c.frag c.val then (b, pos, true)
    else
      match p.run b pos (prim.text c.frag c.val) with
      | .ret b' n => replayBlock p prim r b' (pos + n)
      | .raised b' _ => (b', pos, false)
      | .ub b' => (b', pos, false)

/-! ## `File_Format_To` -/

inductive FStep where
  | nullCheck    -- if (f->file is NULL) { throw(IOError, …); }
  | write        -- return vfprintf(f->file, fmt, va);
  | other
deriving DecidableEq, Repr, Inhabited

def FStep.ofCode : Nat → FStep
  | 0 => .nullCheck | 1 => .write | _ => .other

/-- a `File` object: `none` = no stream open (`f->file` is NULL), else the content of the stream, positioned at its end -/
abbrev FileSt := Option Str

inductive FfRes where
  | ret (f : FileSt) (n : Nat)
  | ioError (f : FileSt)
  | ub (f : FileSt)
deriving DecidableEq, Repr, Inhabited

/-- the statements of `File_Format_To` for a call whose text is `t` (`pos` is not an input: the function never mentions it) -/
def fftAccept (t : Str) : List FStep → FileSt → FfRes
  | [], f => .ub f
  | .nullCheck :: r, f => if f.isNone then .ioError f else fftAccept t r f
  | .write :: _, f =>
    match f with
    | none => .ub f                                            -- vfprintf(NULL, …)
    | some c => .ret (some (c ++ t)) t.length
  | .other :: _, f => .ub f

/-! ## the C type each specification reads, and the one `print_to_with` passes -/

/-- x86-64 SysV classes of a variadic argument -/
inductive VaCls where
  | gpr    -- INTEGER class: integers and pointers, one 64-bit slot each
  | sse    -- SSE class: double
deriving DecidableEq, Repr, Inhabited

/-- what the C standard (7.21.6.1) makes `printf` fetch with `va_arg` for conversion `c` under length modifier `lm` on LP64:
    (class, bits read, C type name).  `hh` / `h` arguments are promoted: an `int` is fetched. -/
def printfReads (lm : Str) (c : Char) : Option (VaCls × Nat × String) :=
  if c ∈ ['d', 'i'] then
    if lm = [] ∨ lm = ['h', 'h'] ∨ lm = ['h'] then some (.gpr, 32, "int")
    else if lm = ['l'] then some (.gpr, 64, "long")
    else if lm = ['l', 'l'] then some (.gpr, 64, "long long")
    else if lm = ['j'] then some (.gpr, 64, "intmax_t")
    else if lm = ['z'] then some (.gpr, 64, "ssize_t")
    else if lm = ['t'] then some (.gpr, 64, "ptrdiff_t")
    else none
  else if c ∈ ['u', 'o', 'x', 'X'] then
    if lm = [] ∨ lm = ['h', 'h'] ∨ lm = ['h'] then some (.gpr, 32, "unsigned int")
    else if lm = ['l'] then some (.gpr, 64, "unsigned long")
    else if lm = ['l', 'l'] then some (.gpr, 64, "unsigned long long")
    else if lm = ['j'] then some (.gpr, 64, "uintmax_t")
    else if lm = ['z'] then some (.gpr, 64, "size_t")
    else if lm = ['t'] then some (.gpr, 64, "unsigned ptrdiff_t")
    else none
  else if c = 'c' then (if lm = [] then some (.gpr, 32, "int") else none)
  else if c ∈ fltConvs then (if lm = [] ∨ lm = ['l'] then some (.sse, 64, "double") else none)
  else if c = 's' then (if lm = [] then some (.gpr, 64, "char*") else none)
  else if c = 'p' then (if lm = [] then some (.gpr, 64, "void*") else none)
  else none

/-- class and width of a C type name as it stands in include/Cello.h -/
def slotOfType (ty : String) : Option (VaCls × Nat) :=
  if ty = "int64_t" then some (.gpr, 64)
  else if ty = "double" then some (.sse, 64)
  else if ty = "char*" ∨ ty = "void*" then some (.gpr, 64)
  else if ty = "int" ∨ ty = "int32_t" then some (.gpr, 32)
  else if ty = "float" then none      -- (a float vararg is promoted to double; as a declared result type it would lose precision first)
  else none

/-- the cast a dispatch arm applies to the argument object before `format_to` -/
def Kind.castName : Kind → Option String
  | .cint => some "c_int"
  | .cfloat => some "c_float"
  | .cstr => some "c_str"
  | .obj => some "var"
  | .show => none

/-- what `print_to_with` puts into the varargs for an arm of kind `k`, given the declared result types -/
def passedSlot (types : List (String × String)) (k : Kind) : Option (VaCls × Nat) :=
  match k.castName with
  | none => none
  | some nm => (types.lookup nm).bind slotOfType

/-- the value `printf` sees when it fetches `bits` bits from a 64-bit INTEGER slot holding `v` (two's complement, low bits) -/
def lowBits (bits : Nat) (v : Int) : Nat := (v % (2 ^ bits : Nat)).toNat

end Cello.Fmt
