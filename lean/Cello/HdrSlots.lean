/-
  Cello/HdrSlots.lean — the slot level of Array (engine `hdr`, property C19) and the block arithmetic of the birth and
  release places.

  `Cello/Hdr.lean` keeps an Array as the list of its elements, each built with its header by `seqElem`: that every element
  *has* a header is built into that representation.  Here the storage of an Array is what src/Array.c works on: `nslots`
  slots of `sizeof(struct Header) + tsize` bytes, of which the first `nitems` are elements.  A slot holds what was last
  written there: nothing since the storage was obtained (`Slot.junk`: `malloc`, the tail a `realloc` adds) or the three header
  words some `Array_Alloc` wrote — possibly long ago (the header of a popped element stays behind; a `memmove` duplicates
  headers).  An element comes into being *only* through `Array_Alloc(a, i)` (zero the slot, `header_init(head, a->type,
  AllocData)`), and `assign(Array_Item(a, i), ..)` / `destruct(Array_Item(a, i))` start with `type_of`, which needs the magic
  number in the slot.

  The size-changing functions of Array.c are **not transcribed here**: the translator (translate/g_hdr.py, `gen_array_progs`)
  turns their statements, in text order, into the event lists `CelloGen.Hdr.arrayProgs`, and this file is the machine that
  runs such lists (`stepEv`, `runEvs`, the two loop forms).  `Array_Reserve_More` / `Array_Reserve_Less` arrive as (condition,
  new size) terms, `Array_Alloc` as its three statements.  Props/C19.lean proves, for the programs that are in /repo now and
  every history of operations, that every element slot carries the header `Array_Alloc` writes (`C19_array_slots_carry_headers`).

  Core Lean only.
-/
import Cello.Hdr

namespace Cello.HdrSlots
open Cello.Hdr CelloGen.Hdr

/-! ## slots -/

inductive Slot where
  | junk                  -- never written since the storage was obtained
  | hdr (h : Header)      -- the header words as they were last written (of a live element, or stale)
deriving DecidableEq, Repr, Inhabited

/-- would `type_of` accept an object in this slot? -/
def Slot.valid (magic : Nat) : Slot → Bool
  | .junk => false
  | .hdr h => h.magic == magic

structure Arr where
  nitems : Nat
  nslots : Nat
  slot : Nat → Slot     -- meaningful below `nslots`

/-- `a->data = NULL; a->nitems = 0; a->nslots = 0` -/
def Arr.empty : Arr := { nitems := 0, nslots := 0, slot := fun _ => .junk }

/-- `malloc(n * Array_Step(a))` with `nitems = nslots = n` (Array_New, Array_Assign) -/
def Arr.fresh (n : Nat) : Arr := { nitems := n, nslots := n, slot := fun _ => .junk }

/-- `a->data = realloc(a->data, Array_Step(a) * m)`: the common prefix is kept, the rest is new storage -/
def Arr.realloc (a : Arr) (m : Nat) : Arr :=
  { a with nslots := m, slot := fun j => if j < a.nslots ∧ j < m then a.slot j else .junk }

def polCond (c : PolCond) (a : Arr) : Bool :=
  match c with
  | .gtSlots => decide (a.nitems > a.nslots)
  | .slotsGtItemsPlusHalf => decide (a.nslots > a.nitems + a.nitems / 2)

def polSize (s : PolSize) (a : Arr) : Nat :=
  match s with
  | .itemsPlusHalf => a.nitems + a.nitems / 2
  | .items => a.nitems

/-- `Array_Reserve_More` / `Array_Reserve_Less` with the (condition, size) the source has -/
def Arr.reserve (p : PolCond × PolSize) (a : Arr) : Arr :=
  if polCond p.1 a then a.realloc (polSize p.2 a) else a

def Arr.set (a : Arr) (k : Nat) (s : Slot) : Arr := { a with slot := fun j => if j = k then s else a.slot j }

/-- are the first `nitems` slots acceptable to `type_of`? (Array_Clear / Array_Del destruct every element) -/
def Arr.allValid (magic : Nat) (a : Arr) : Bool := (List.range a.nitems).all (fun j => (a.slot j).valid magic)

/-! ## the machine -/

inductive Res where
  | ok
  | raised (e : String)
  | badHeader           -- `type_of` on a slot without the magic number: ValueError at best
  | ub                  -- out of the storage, or `size_t` arithmetic that wraps
deriving DecidableEq, Repr, Inhabited

structure M where
  a : Arr
  i : Int               -- the C variable `i`
  key : Int             -- `c_int(key)`
  olen : Nat            -- `len(obj)`
  n : Nat               -- the argument of Array_Resize
  want : Option Nat     -- `a->nslots = n` was executed, the storage has not followed yet

inductive R where
  | cont (m : M)
  | stop (a : Arr) (r : Res)

def evalIdx (m : M) : AIdx → Int
  | .i => m.i
  | .last => (m.a.nitems : Int) - 1
  | .tail => (m.a.nitems : Int) - m.olen + m.i

/-- what `Array_Alloc(a, k)` leaves in slot `k`, statement by statement: the slot is zeroed (`zeroSlot`), `head` points at its
    start (`headAtSlot`), `header_init` writes `g` there (`init`).  Without `init` the slot holds zero words, which `type_of`
    rejects; without `headAtSlot` the header goes somewhere else. -/
def allocSlot (g : Header) (evs : List AllocEv) : Slot → Slot :=
  fun old =>
    let z : Slot := if evs.contains .zeroSlot then .hdr { ty := none, alloc := 0, magic := 0 } else old
    if evs.contains .headAtSlot && evs.contains .init then .hdr g else z

def chkFails (c : AChk) (m : M) : Bool :=
  match c with
  | .ins => decide (m.i < 0 ∨ m.i > (m.a.nitems : Int))
  | .rem => decide (m.i < 0 ∨ m.i ≥ (m.a.nitems : Int))
  | .empty => m.a.nitems == 0

/-- one statement.  `g` = the header `Array_Alloc` writes, `magic` = what `type_of` looks for. -/
def stepEv (g : Header) (magic : Nat) (m : M) : AEv → R
  | .idx => .cont { m with i := m.key }
  | .zeroCounter => .cont { m with i := 0 }
  | .olen => .cont m
  | .norm plusOne => .cont { m with i := if m.i < 0 then ((m.a.nitems : Int) + (if plusOne then 1 else 0)) + m.i else m.i }
  | .chk c exc => if chkFails c m then .stop m.a (.raised exc) else .cont m
  | .inc => .cont { m with a := { m.a with nitems := m.a.nitems + 1 } }
  | .dec => if m.a.nitems = 0 then .stop m.a .ub else .cont { m with a := { m.a with nitems := m.a.nitems - 1 } }
  | .add => .cont { m with a := { m.a with nitems := m.a.nitems + m.olen } }
  | .next => .cont { m with i := m.i + 1 }
  | .more => .cont { m with a := m.a.reserve arrayReserveMore }
  | .less => .cont { m with a := m.a.reserve arrayReserveLess }
  | .up =>
    -- memmove(slot i+1 ← slot i, (nitems-1) - i slots)
    let cnt : Int := ((m.a.nitems : Int) - 1) - m.i
    if m.i < 0 ∨ cnt < 0 ∨ m.i + 1 + cnt > (m.a.nslots : Int) then .stop m.a .ub
    else
      let i := m.i.toNat
      .cont { m with a := { m.a with slot := fun j => if i + 1 ≤ j ∧ j < i + 1 + cnt.toNat then m.a.slot (j - 1) else m.a.slot j } }
  | .down =>
    -- memmove(slot i ← slot i+1, (nitems-1) - i slots)
    let cnt : Int := ((m.a.nitems : Int) - 1) - m.i
    if m.i < 0 ∨ cnt < 0 ∨ m.i + 1 + cnt > (m.a.nslots : Int) then .stop m.a .ub
    else
      let i := m.i.toNat
      .cont { m with a := { m.a with slot := fun j => if i ≤ j ∧ j < i + cnt.toNat then m.a.slot (j + 1) else m.a.slot j } }
  | .alloc ix =>
    let k := evalIdx m ix
    if k < 0 ∨ k ≥ (m.a.nslots : Int) then .stop m.a .ub
    else .cont { m with a := m.a.set k.toNat (allocSlot g arrayAllocEvents (m.a.slot k.toNat)) }
  | .assign ix =>
    let k := evalIdx m ix
    if k < 0 ∨ k ≥ (m.a.nslots : Int) then .stop m.a .ub
    else if (m.a.slot k.toNat).valid magic then .cont m else .stop m.a .badHeader
  | .destruct ix =>
    let k := evalIdx m ix
    if k < 0 ∨ k ≥ (m.a.nslots : Int) then .stop m.a .ub
    else if (m.a.slot k.toNat).valid magic then .cont m else .stop m.a .badHeader
  | .clearIfZero =>
    if m.n = 0 then (if m.a.allValid magic then .stop Arr.empty .ok else .stop m.a .badHeader) else .cont m
  | .setSlots => .cont { m with want := some m.n }
  | .realloc =>
    match m.want with
    | some w => .cont { m with a := m.a.realloc w, want := none }
    | none => .cont { m with a := m.a.realloc m.a.nslots }
  | .oom => .cont m

def runEvs (g : Header) (magic : Nat) : List AEv → M → R
  | [], m => .cont m
  | e :: es, m =>
    match stepEv g magic m e with
    | .cont m' => runEvs g magic es m'
    | r => r

/-- `foreach (item in obj) { body }` over `k` items; `for (i = 0; i < nitems; i++) { body }` is `body ++ [.next]` -/
def repeatBody (g : Header) (magic : Nat) (body : List AEv) : Nat → M → R
  | 0, m => .cont m
  | k + 1, m =>
    match runEvs g magic body m with
    | .cont m' => repeatBody g magic body k m'
    | r => r

/-- `while (n < a->nitems) { body }`; out of fuel = the loop does not end -/
def whileBody (g : Header) (magic : Nat) (body : List AEv) : Nat → M → R
  | 0, m => if m.n < m.a.nitems then .stop m.a .ub else .cont m
  | f + 1, m =>
    if m.n < m.a.nitems then
      match runEvs g magic body m with
      | .cont m' => whileBody g magic body f m'
      | r => r
    else .cont m

def prog (name : String) : List AEv := (arrayProgs.lookup name).getD []

/-- the size-changing operations of an Array -/
inductive AOp where
  | push
  | pushAt (key : Int)
  | pop
  | popAt (key : Int)
  | concat (olen : Nat)
  | resize (n : Nat)
  | fill (n : Nat)         -- Array_Assign from an object of `n` items (`copy`), Array_New with `n` items
deriving DecidableEq, Repr, Inhabited

def M.start (a : Arr) (key : Int) (olen n : Nat) : M := { a := a, i := 0, key := key, olen := olen, n := n, want := none }

def finish : R → Arr × Res
  | .cont m => (m.a, .ok)
  | .stop a r => (a, r)

/-- one operation: the new storage and how the call ended -/
def runOp (g : Header) (magic : Nat) (a : Arr) : AOp → Arr × Res
  | .push => finish (runEvs g magic (prog "Array_Push") (M.start a 0 0 0))
  | .pushAt key => finish (runEvs g magic (prog "Array_Push_At") (M.start a key 0 0))
  | .pop => finish (runEvs g magic (prog "Array_Pop") (M.start a 0 0 0))
  | .popAt key => finish (runEvs g magic (prog "Array_Pop_At") (M.start a key 0 0))
  | .concat olen =>
    match runEvs g magic (prog "Array_Concat.pre") (M.start a 0 olen 0) with
    | .cont m =>
      (match repeatBody g magic (prog "Array_Concat.body") olen m with
       | .cont m' => finish (runEvs g magic (prog "Array_Concat.post") m')
       | r => finish r)
    | r => finish r
  | .resize n =>
    match runEvs g magic (prog "Array_Resize.pre") (M.start a 0 0 n) with
    | .cont m =>
      (match whileBody g magic (prog "Array_Resize.body") m.a.nitems m with
       | .cont m' => finish (runEvs g magic (prog "Array_Resize.post") m')
       | r => finish r)
    | r => finish r
  | .fill n =>
    -- Array_Clear (every element is destructed), `nitems = nslots = n`, `malloc`, the fill loop
    if a.allValid magic then
      finish (repeatBody g magic (prog "Array_Assign.fill" ++ [.next]) n (M.start (Arr.fresh n) 0 0 0))
    else (a, .badHeader)

def runOps (g : Header) (magic : Nat) (a : Arr) : List AOp → Arr
  | [] => a
  | op :: r => runOps g magic (runOp g magic a op).1 r

/-- number of element slots `type_of` would reject -/
def Arr.badCount (magic : Nat) (a : Arr) : Nat := ((List.range a.nitems).filter (fun j => !(a.slot j).valid magic)).length

/-- the header `Array_Alloc` writes for an Array of `ety` under `cfg` -/
def arrayHeader (cfg : Config) (ety : Ty) : Header := headerInit cfg ety cfg.bArray

/-! ## block arithmetic -/

/-- bytes of one size term: `sizeof(struct Header)` is one pointer per header field of the default build -/
def SzTerm.eval (structT sizeOfType : Nat) : SzTerm → Nat
  | .header => 8 * headerFields.length
  | .structT => structT
  | .sizeOfType => sizeOfType

def szSum (structT sizeOfType : Nat) (l : List SzTerm) : Nat := (l.map (SzTerm.eval structT sizeOfType)).foldl (· + ·) 0

/-- index of the header field `f` as a word of the block -/
def headerWord (f : String) : Option Nat := headerFields.findIdx? (· == f)

/-- `$(T, ..)`: the bytes `memcpy` writes, as an interval of the compound literal of `alloc_stack(T)` -/
def dollarWrites (structT : Nat) : Nat × Nat :=
  (szSum structT 0 headerInitReturns, szSum structT 0 headerInitReturns + szSum structT 0 dollarCopies)

/-- `dealloc(self)` of an object `alloc_by` made for a type of size `sz`: number of words filled, counted from the start of
    the block (`header(self)` = `self - headerBack`, `self` = block + `headerInitReturns`) -/
def deallocFillWords (sz : Nat) : Nat := szSum 0 sz deallocFillBytes / 8

/-- offset, from the start of the block, of the pointer `dealloc` gives to `free` -/
def deallocFreeOffset : Int := (szSum 0 0 headerInitReturns : Int) - szSum 0 0 deallocFreeBack

end Cello.HdrSlots
