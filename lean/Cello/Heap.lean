/-
  Cello/Heap.lean — executable model of the mark and sweep phases of Cello's collector (src/GC.c: GC_Mark,
  GC_Mark_Item, GC_Recurse, GC_Mark_And_Recurse, GC_Sweep; the `Mark` instances of Array, List, Table, Tree, Tuple,
  Thread) and the specification it is proved against (graph reachability, CelloProofs/Props/C01.lean).

  Core Lean only.  The parts of the C code that are tables or one-token decisions are read from the current source
  by translate/g_gcmark.py (CelloGen/GcMark.lean) and enter the model through `Cfg.current`.

  Two layers.  (1) `dfs` / `gcMark` / `sweep` / `collect` / `HState.run`: the mark phase and the unlink phase of the sweep on a
  registry whose mark bits are clear (also imported by the C18 engine).  (2) at the end of the file, the whole collector:
  `gcMarkFrom` (the mark phase from bits that are already set — the `marked` field survives when an exception leaves `GC_Mark`),
  `release` (the release loop of `GC_Sweep`: destructors, `Box_Del` → `del` → `GC_Rem_Ptr`), `collectAll`, and `GState.run`
  (histories whose state includes the mark bits, with collections that are left by an exception and registry rehashes).
  Since fix d8f0c4f `GC_Mark` begins with `GC_Unmark` (every bit cleared): `clearFirstNow` / `startBits` / `collectWhole`; the
  collector before the fix is the explicit OLD variant `clearFirst := false`.

  Object representations (what the collector sees when it is handed a pointer to the object):
    raw  ty ws      a struct whose `size(type)/8` words are `ws` (plain structs, Ref, Box, Int, String, …)
    cont ty elems   a container whose Mark instance hands a pointer to every *embedded* element (Array, List; Table and
                    Tree hand key, value, key, value, …): the elements live inside the container's own malloc block,
                    have their own header and are not registered
    tup  ty items   a type whose Mark instance hands stored *pointers* (heap Tuple: `items[i]` up to Terminal)
    thr  ty tls     Thread: its Mark instance calls `mark(t->tls, gc, f)` for EVERY Thread object the marker meets — `viaMark` is the
                    call on `current(Thread)` (the thread-local-storage phase of `GC_Mark`), `fields` is `GC_Recurse` on a Thread
                    object found in the registry, which is never `current(Thread)` of the marking thread (the main thread's is
                    `new_raw`, a worker's was allocated by — and registered with the collector of — the thread that created it):
                    objects stored with `set(t, key, obj)` in such a Thread object are reachable through it.  The repair 80c795e,
                    which guarded the call by `self is current(Thread)`, was withdrawn (0a0ad73): variant `Cfg.threadGuarded`.
-/
import CelloGen.GcMark

namespace Cello.Heap

abbrev Addr := Nat
abbrev Word := Nat

inductive Obj where
  | raw  (ty : String) (ws : List Word)
  | cont (ty : String) (elems : List Obj)
  | tup  (ty : String) (items : List Word)
  | thr  (ty : String) (tls : Obj)
deriving Repr, Inhabited

def Obj.ty : Obj → String
  | .raw ty _ => ty
  | .cont ty _ => ty
  | .tup ty _ => ty
  | .thr ty _ => ty

/-- The source-derived parameters of the mark phase. -/
structure Cfg where
  /-- types on which `GC_Recurse` returns at once -/
  leaf : List String
  /-- types that declare a (non-NULL) `Mark` instance -/
  mark : List String
  /-- `GC_Mark_And_Recurse` is `if (GC_Mem_Ptr) GC_Mark_Item else GC_Recurse` (true) or `GC_Mark_Item; GC_Recurse` (false) -/
  guarded : Bool
  /-- `GC_Mark` hands thread-local storage to `GC_Mark_And_Recurse` (true) or to `GC_Mark_Item` (false) -/
  tlsCallback : Bool
  /-- the conservative scan runs while `i+8 <= size` (true) or `i+8 < size` (false) -/
  scanInclusive : Bool
  /-- `Thread_Mark` walks the table of EVERY Thread object the marker reaches (true: the unguarded `mark(t->tls, gc, f)` of the
      source as it is) or only of the marking thread's own (false: `if (self is current(Thread)) { … }`, the withdrawn repair 80c795e) -/
  foreignTls : Bool
deriving Repr

/-- probe types of harness/h_gcmark.c that declare their own Mark instance (a user-defined container) -/
def userMarkTypes : List String := ["ProbeM"]

/-- the collector as it is in /repo now.  A type's `Mark` instance enters the model only if the translator found that
    it hands EVERY occupied element to the callback: no `return` before or inside its loop other than the modelled
    ones, the loop bound the modelled one (all items / all slots / up to Terminal), and no struct member read that the
    model does not know (a cached flag such as "this container holds no references" would be such a member).  A Mark
    function that can return early is treated as tracing nothing — `C01_tables` then fails for that type. -/
def Cfg.current : Cfg :=
  { leaf := CelloGen.GcMark.gcLeafTypes
    mark := CelloGen.GcMark.markTypes.filter CelloGen.GcMark.markVisitsAll ++ userMarkTypes
    guarded := CelloGen.GcMark.callbackGuarded
    tlsCallback := CelloGen.GcMark.tlsViaCallback
    scanInclusive := CelloGen.GcMark.scanInclusive
    foreignTls := !CelloGen.GcMark.threadMarkOwnOnly }

/-- variant: the collector with the WITHDRAWN repair 80c795e (`Thread_Mark` guarded by `self is current(Thread)`) -/
def Cfg.threadGuarded : Cfg := { Cfg.current with foreignTls := false }

def Cfg.isLeaf (c : Cfg) (ty : String) : Bool := c.leaf.contains ty
def Cfg.hasMark (c : Cfg) (ty : String) : Bool := c.mark.contains ty

/-- the words the loop `for (i = 0; i+sizeof(var) <= size(type); i += sizeof(var))` presents to `GC_Mark_Item` -/
def scanWords (c : Cfg) (ws : List Word) : List Word := if c.scanInclusive then ws else ws.dropLast

mutual
/-- `GC_Recurse(gc, ptr)` on an object with this representation: every word that reaches `GC_Mark_Item`, in order.
    (Pointers to embedded elements go through `GC_Mark_And_Recurse`, are not registered, and are traced by
    `GC_Recurse` in turn; stored pointers of a Tuple go through `GC_Mark_And_Recurse` to `GC_Mark_Item`.) -/
def fields (c : Cfg) : Obj → List Word
  | .raw ty ws => if c.isLeaf ty then [] else if c.hasMark ty then [] else scanWords c ws
  | .cont ty es => if c.isLeaf ty then [] else if c.hasMark ty then fieldsL c es else []
  | .tup ty items => if c.isLeaf ty then [] else if c.hasMark ty then items else []
  | .thr ty tls => if c.isLeaf ty then [] else if c.hasMark ty then (if c.foreignTls then viaMark c tls else []) else []
/-- `mark(obj, gc, GC_Mark_And_Recurse)`: the type's Mark instance, if it has one (no leaf test on this path); called on
    `current(Thread)` by the thread-local-storage phase, so for a Thread object `self is current(Thread)` holds here (which
    matters only in the variant `Cfg.threadGuarded`) -/
def viaMark (c : Cfg) : Obj → List Word
  | .raw _ _ => []
  | .cont ty es => if c.hasMark ty then fieldsL c es else []
  | .tup ty items => if c.hasMark ty then items else []
  | .thr ty tls => if c.hasMark ty then viaMark c tls else []
def fieldsL (c : Cfg) : List Obj → List Word
  | [] => []
  | o :: os => fields c o ++ fieldsL c os
end

/-- `mark(obj, gc, GC_Mark_Item)` (the un-repaired TLS phase): pointers to embedded elements are handed to
    `GC_Mark_Item`, which ignores them because they are not registered; only stored pointers get through. -/
def viaMarkItemOnly (c : Cfg) : Obj → List Word
  | .raw _ _ => []
  | .cont _ _ => []
  | .tup ty items => if c.hasMark ty then items else []
  | .thr ty tls => if c.hasMark ty then viaMarkItemOnly c tls else []

/-- the words presented by the thread-local-storage phase of `GC_Mark` -/
def tlsWords (c : Cfg) (thread : Obj) : List Word :=
  if c.tlsCallback then viaMark c thread else viaMarkItemOnly c thread

/-- a registry entry: the object behind the pointer and its root flag (the mark bit lives in the marked set) -/
structure Entry where
  obj : Obj
  root : Bool
deriving Repr, Inhabited

/-- The registered heap: a finite map from addresses to entries (`regs` lists its domain), and the pointer bounds
    `GC_Set` maintains. -/
structure Heap where
  lookup : Addr → Option Entry
  regs : List Addr
  minptr : Nat
  maxptr : Nat
  complete : ∀ a e, lookup a = some e → a ∈ regs

/-- the three early-outs of `GC_Mark_Item` followed by the registry lookup -/
def Heap.accepts (h : Heap) (w : Word) : Bool :=
  w % 8 == 0 && decide (h.minptr ≤ w) && decide (w ≤ h.maxptr) && (h.lookup w).isSome

def Heap.fieldsAt (c : Cfg) (h : Heap) (a : Addr) : List Word :=
  match h.lookup a with
  | some e => fields c e.obj
  | none => []

/-- the set of mark bits, abstractly (a list for the proofs by evaluation, a hash set in the driver) -/
structure MarkSet (σ : Type) where
  empty : σ
  mem : Addr → σ → Bool
  insert : Addr → σ → σ
  mem_empty : ∀ a, mem a empty = false
  mem_insert : ∀ a b s, mem a (insert b s) = (a == b || mem a s)

def listSet : MarkSet (List Addr) where
  empty := []
  mem a s := s.contains a
  insert a s := a :: s
  mem_empty := by intro a; rfl
  mem_insert := by intro a b s; exact List.contains_cons

section dfs
variable {σ : Type} (S : MarkSet σ)

def unmarked (m : σ) : Addr → Bool := fun a => !S.mem a m
def unm (regs : List Addr) (m : σ) : Nat := regs.countP (unmarked S m)

theorem unm_le (regs : List Addr) (m : σ) (a : Addr) : unm S regs (S.insert a m) ≤ unm S regs m := by
  unfold unm
  apply List.countP_mono_left
  intro x _ hx
  simp only [unmarked, S.mem_insert, Bool.not_or, Bool.and_eq_true] at hx
  simpa [unmarked] using hx.2

theorem unm_lt (regs : List Addr) (m : σ) (a : Addr) (ha : a ∈ regs) (hm : S.mem a m = false) :
    unm S regs (S.insert a m) < unm S regs m := by
  induction regs with
  | nil => cases ha
  | cons x xs ih =>
    have hle := unm_le S xs m a
    unfold unm at *
    by_cases h1 : x = a
    · subst h1
      have p1 : ¬ (unmarked S (S.insert x m) x = true) := by simp [unmarked, S.mem_insert]
      have p2 : unmarked S m x = true := by simp [unmarked, hm]
      rw [List.countP_cons_of_neg p1, List.countP_cons_of_pos p2]; omega
    · have hx : a ∈ xs := by
        cases ha with
        | head => exact absurd rfl h1
        | tail _ h => exact h
      have := ih hx
      by_cases h2 : S.mem x m = true
      · have p1 : ¬ (unmarked S (S.insert a m) x = true) := by simp [unmarked, S.mem_insert, h2]
        have p2 : ¬ (unmarked S m x = true) := by simp [unmarked, h2]
        rw [List.countP_cons_of_neg p1, List.countP_cons_of_neg p2]; exact this
      · have h2' : S.mem x m = false := by simpa using h2
        have p1 : unmarked S (S.insert a m) x = true := by simp [unmarked, S.mem_insert, h1, h2']
        have p2 : unmarked S m x = true := by simp [unmarked, h2']
        rw [List.countP_cons_of_pos p1, List.countP_cons_of_pos p2]; omega

set_option linter.unusedVariables false in
/-- **The marker.** `GC_Mark_Item` / `GC_Recurse` as a worklist: `stack` = the words still to be presented to
    `GC_Mark_Item` (depth first: the words of a newly marked object go in front, which is the order of the C
    recursion), `m` = the mark bits.  A word is accepted when it is 8-aligned, within `[minptr, maxptr]` and
    registered; an accepted, unmarked entry is marked and traced, exactly once. -/
def dfs (c : Cfg) (h : Heap) (stack : List Word) (m : σ) : σ :=
  match stack with
  | [] => m
  | w :: st =>
    if hw : h.accepts w = true ∧ S.mem w m = false then dfs c h (h.fieldsAt c w ++ st) (S.insert w m)
    else dfs c h st m
termination_by (unm S h.regs m, stack.length)
decreasing_by
  · apply Prod.Lex.left
    apply unm_lt S _ _ _ _ hw.2
    have hacc := hw.1
    simp only [Heap.accepts, Bool.and_eq_true] at hacc
    have hs := hacc.2
    cases hl : h.lookup w with
    | none => simp [hl] at hs
    | some e => exact h.complete w e hl
  · exact Prod.Lex.right _ (by simp)

/-- the addresses of the root-flagged entries (the entries the root loop of `GC_Mark` starts from) -/
def rootAddrs (h : Heap) : List Addr :=
  h.regs.filter (fun a => match h.lookup a with | some e => e.root | none => false)

/-- **`GC_Mark`**: thread-local storage, then the root-flagged entries, then the stack words. -/
def gcMark (c : Cfg) (h : Heap) (thread : Obj) (stack : List Word) : σ :=
  let m1 := dfs S c h (tlsWords c thread) S.empty
  let m2 := dfs S c h (rootAddrs h) m1
  dfs S c h stack m2

/-- is the entry at `a` put on the free list by `GC_Sweep`?  (occupied, not marked, not root) -/
def sweeps (h : Heap) (m : σ) (a : Addr) : Bool :=
  match h.lookup a with
  | some e => !e.root && !S.mem a m
  | none => false

/-- **`GC_Sweep`**: unmarked non-root entries leave the registry and form the pending (free) list; all mark bits are
    cleared (the marked set is dropped); the pointer bounds stay. -/
def sweep (h : Heap) (m : σ) : Heap × List Addr :=
  ({ lookup := fun a => if sweeps S h m a then none else h.lookup a
     regs := h.regs.filter (fun a => !sweeps S h m a)
     minptr := h.minptr
     maxptr := h.maxptr
     complete := by
       intro a e he
       by_cases hs : sweeps S h m a = true
       · simp [hs] at he
       · simp only [hs] at he
         exact List.mem_filter.mpr ⟨h.complete a e he, by simpa using hs⟩ },
   h.regs.filter (fun a => sweeps S h m a))

/-- one collection: `GC_Mark(gc); GC_Sweep(gc);` -/
def collect (c : Cfg) (h : Heap) (thread : Obj) (stack : List Word) : Heap × List Addr :=
  sweep S h (gcMark S c h thread stack)

end dfs


/-! ### typed containers: the element / key / value types of a container are part of its CURRENT value

  `Array_Alloc`, `List_Alloc`, `Table_Set_Move`, `Tree_Node_Alloc` build every embedded element with
  `header_init(…, <the container's type field NOW>, AllocData)`: an element carries the element type the container had
  when the element was created, and `X_Assign` (which re-defines `a->type` / `t->ktype, t->vtype`) first destroys every
  element and then re-creates all of them with the new types.  So at every moment all embedded elements of a container
  carry its current element types, and what `fields` yields for the container depends on those types (leaf or not). -/

/-- the embedded elements of an Array / List whose current element type is `ety`, one payload (the words of the
    element's struct) per element -/
def seqElems (ety : String) (vals : List (List Word)) : List Obj := vals.map (Obj.raw ety)

/-- the embedded keys and values of a Table / Tree whose current key type is `kty` and value type `vty` -/
def mapElems (kty vty : String) (kvs : List (List Word × List Word)) : List Obj :=
  kvs.flatMap fun kv => [Obj.raw kty kv.1, Obj.raw vty kv.2]

/-- types with a `Pointer` instance that has `deref` (src/Pointer.c): `Ref_Assign(self, obj)` stores `deref(obj)` for
    these and `obj` itself for every other type -/
def pointerTypes : List String := ["Ref", "Box"]

/-- what `Ref_Assign(elem, item)` stores when `item` is the word `w` (a stored pointer of a heap Tuple) -/
def Heap.derefIfPtr (h : Heap) (w : Word) : Word :=
  match h.lookup w with
  | some e =>
    match e.obj with
    | .raw ty (v :: _) => if pointerTypes.contains ty then v else w
    | _ => w
  | none => w

/-- **`assign(dst, src)` between containers** (`Array_Assign`, `List_Assign`, `Table_Assign`, `Tree_Assign`,
    `Tuple_Assign`): the target is cleared, TAKES OVER THE SOURCE'S ELEMENT / KEY / VALUE TYPES and is filled with
    copies of the source's elements (an embedded element is copied by `assign(elem, srcElem)`: same type, same words).
    Sequence from sequence (Array, List), map from map (Table, Tree), Tuple from Tuple (the stored pointers), and
    Array / List from a heap Tuple (`iter_type` is not declared by Tuple: the element type becomes Ref, each element is
    `Ref_Assign`ed from the stored pointer).  The type of the target object itself never changes. -/
def Obj.assignFrom (h : Heap) (dst src : Obj) : Obj :=
  match dst, src with
  | .cont ty _, .cont _ es => .cont ty es
  | .cont ty _, .tup _ items => .cont ty (seqElems "Ref" (items.map fun w => [h.derefIfPtr w]))
  | .tup ty _, .tup _ items => .tup ty items
  | d, _ => d

/-- `resize(obj, 0)` / `X_Clear`: every element destroyed, the types stay; also what `alloc` hands to `assign` in `copy` -/
def Obj.cleared : Obj → Obj
  | .cont ty _ => .cont ty []
  | .tup ty _ => .tup ty []
  | o => o

/-- `copy(src)` = `assign(alloc(type_of(src)), src)` (none of the containers declares `Copy`) -/
def Obj.copyOf (h : Heap) (src : Obj) : Obj := src.cleared.assignFrom h src

/-! ### histories: the mutator's operations between collections -/

/-- `alloc` → `GC_Set`: a new entry; the pointer bounds widen; an address that is already registered is left alone
    (`GC_Set_Ptr` returns when it finds the pointer) -/
def Heap.register (h : Heap) (a : Addr) (e : Entry) : Heap :=
  if (h.lookup a).isSome then h else
  { lookup := fun x => if x = a then some e else h.lookup x
    regs := a :: h.regs
    minptr := min h.minptr a
    maxptr := max h.maxptr a
    complete := by
      intro x e' he
      by_cases hx : x = a
      · simp [hx]
      · simp only [hx, if_false] at he
        exact List.mem_cons_of_mem _ (h.complete x e' he) }

/-- a store into a registered object (pointer store, container insert / remove / rehash): new contents, same entry -/
def Heap.write (h : Heap) (a : Addr) (o : Obj) : Heap :=
  { lookup := fun x => if x = a then (h.lookup a).map (fun e => { e with obj := o }) else h.lookup x
    regs := h.regs
    minptr := h.minptr
    maxptr := h.maxptr
    complete := by
      intro x e' he
      by_cases hx : x = a
      · subst hx
        simp only [if_true] at he
        cases hl : h.lookup x with
        | none => simp [hl] at he
        | some e0 => exact h.complete x e0 hl
      · simp only [hx, if_false] at he
        exact h.complete x e' he }

/-- explicit `del` → `GC_Rem`: the entry leaves the registry -/
def Heap.remove (h : Heap) (a : Addr) : Heap :=
  { lookup := fun x => if x = a then none else h.lookup x
    regs := h.regs.filter (· ≠ a)
    minptr := h.minptr
    maxptr := h.maxptr
    complete := by
      intro x e' he
      by_cases hx : x = a
      · simp [hx] at he
      · simp only [hx, if_false] at he
        exact List.mem_filter.mpr ⟨h.complete x e' he, by simpa using hx⟩ }

inductive HOp where
  | alloc (a : Addr) (e : Entry)
  | write (a : Addr) (o : Obj)
  | del (a : Addr)
  | assign (a b : Addr)            -- assign(a, b) between registered containers: a is re-typed with b's element types
  | copyTo (a b : Addr)            -- a = copy(b): a fresh entry of b's type, then assign
  | clear (a : Addr)               -- resize(a, 0)
  | setThread (t : Obj)            -- set / rem on current(Thread)
  | setStack (ws : List Word)      -- whatever the stack and registers hold at the next collection
  | collect                        -- threshold-triggered or forced: GC_Mark; GC_Sweep

structure HState where
  heap : Heap
  thread : Obj
  stack : List Word

/-- one collection of a history: the state it ran on and the pending list it produced -/
structure Event where
  before : HState
  pending : List Addr

def HState.step {σ : Type} (S : MarkSet σ) (c : Cfg) (s : HState) : HOp → HState × Option Event
  | .alloc a e => ({ s with heap := s.heap.register a e }, none)
  | .write a o => ({ s with heap := s.heap.write a o }, none)
  | .del a => ({ s with heap := s.heap.remove a }, none)
  | .assign a b =>
    match s.heap.lookup a, s.heap.lookup b with
    | some ea, some eb => ({ s with heap := s.heap.write a (ea.obj.assignFrom s.heap eb.obj) }, none)
    | _, _ => (s, none)
  | .copyTo a b =>
    match s.heap.lookup b with
    | some eb => ({ s with heap := s.heap.register a ⟨eb.obj.copyOf s.heap, false⟩ }, none)
    | none => (s, none)
  | .clear a =>
    match s.heap.lookup a with
    | some ea => ({ s with heap := s.heap.write a ea.obj.cleared }, none)
    | none => (s, none)
  | .setThread t => ({ s with thread := t }, none)
  | .setStack ws => ({ s with stack := ws }, none)
  | .collect =>
    let r := collect S c s.heap s.thread s.stack
    ({ s with heap := r.1 }, some ⟨s, r.2⟩)

def HState.run {σ : Type} (S : MarkSet σ) (c : Cfg) : List HOp → HState → HState × List Event
  | [], s => (s, [])
  | op :: ops, s =>
    let (s1, ev) := s.step S c op
    let (s2, evs) := HState.run S c ops s1
    (s2, match ev with | some e => e :: evs | none => evs)

/-- what `alloc` returns is 8-aligned (calloc + a header of whole words) -/
def HOp.ok : HOp → Prop
  | .alloc a _ => a % 8 = 0
  | .copyTo a _ => a % 8 = 0
  | _ => True

/-! ### specification: graph reachability -/

/-- `b` is referenced by the registered object at `a`: one of the words the collector reads when it traces `a`
    (a word of a plain struct / Ref / Box, a word of an element embedded in an Array / List, of a key or value of a
    Table / Tree, a pointer stored in a heap Tuple, a word of a thread-local entry) is the address `b`. -/
def Points (c : Cfg) (h : Heap) (a b : Addr) : Prop := ∃ e, h.lookup a = some e ∧ b ∈ fields c e.obj

/-- **Specification.** Graph reachability over the registered heap: from a root word that is the address of a
    registered object, along `Points`, to registered objects.  Cycles, sharing and self references are just graphs. -/
inductive Reachable (c : Cfg) (h : Heap) (roots : List Word) : Addr → Prop
  | root {a} : a ∈ roots → (h.lookup a).isSome = true → Reachable c h roots a
  | step {a b} : Reachable c h roots a → Points c h a b → (h.lookup b).isSome = true → Reachable c h roots b

/-! ### the mark bits are part of the collector's state

  `marked` is a field of `struct GCEntry`.  It is set by `GC_Mark_Item` / the root loop of `GC_Mark`, cleared by the second
  loop of `GC_Sweep`, and a new entry starts with it clear (`GC_Set_Ptr`: `{ ptr, ihash, root, 0 }` — also on every
  re-insertion by `GC_Rehash`).  `GC_Set` runs `GC_Mark(gc); GC_Sweep(gc);`: when an exception leaves the mark phase
  (a Mark instance that throws; `type_of` on a block freed by hand, KF-C01-dangling-tuple-item) the sweep does not run and
  the bits set so far STAY.  Before fix d8f0c4f the next mark phase started from them: the root loop skips marked entries and
  `GC_Mark_Item` traces an entry only when it finds it unmarked (`gcMarkFrom` with the stale bits).  Since the fix `GC_Mark` begins
  with `GC_Unmark(gc)` — every bit cleared — (and so does `GC_Del` before its sweep): `startBits true`, whatever bits were set. -/

section marks
variable {σ : Type} (S : MarkSet σ)

/-- the mark bits in which exactly the entries listed in `stale` are set -/
def seed (stale : List Addr) : σ := stale.foldr S.insert S.empty

/-- **`GC_Mark` on a registry whose bits `m0` are already set**: the same three phases, starting from `m0` -/
def gcMarkFrom (c : Cfg) (h : Heap) (thread : Obj) (stack : List Word) (m0 : σ) : σ :=
  let m1 := dfs S c h (tlsWords c thread) m0
  let m2 := dfs S c h (rootAddrs h) m1
  dfs S c h stack m2

/-- `GC_Mark(gc); GC_Sweep(gc);` on a registry whose bits `m0` are already set (mark and unlink phases of the sweep) -/
def collectFrom (c : Cfg) (h : Heap) (thread : Obj) (stack : List Word) (m0 : σ) : Heap × List Addr :=
  sweep S h (gcMarkFrom S c h thread stack m0)

/-- does `GC_Mark` of the source as it is now clear every mark bit before its first phase?  (`GC_Unmark`, fix d8f0c4f;
    re-extracted on every run) -/
def clearFirstNow : Bool := CelloGen.GcMark.markClearsFirst

/-- the bits the three phases of `GC_Mark` start from when the bits `m0` are set at its entry: none after `GC_Unmark`
    (`clearFirst = true`, the source as it is), `m0` itself in the OLD variant (`clearFirst = false`, before fix d8f0c4f) -/
def startBits (clearFirst : Bool) (m0 : σ) : σ := if clearFirst then S.empty else m0

end marks

/-- the marking events of a mark phase that starts with the entries `stale` marked, oldest first (with the bits kept as
    the list of marking events, `dfs listSet` returns the newest event first and `stale` at the end; the worklist visits
    words in the order of the C recursion, `C01_rec_agrees`) -/
def markEvents (c : Cfg) (h : Heap) (thread : Obj) (stack : List Word) (stale : List Addr) : List Addr :=
  let l := gcMarkFrom listSet c h thread stack stale
  (l.take (l.length - stale.length)).reverse

/-! ### the release loop of `GC_Sweep`: destructors

  After the unmarked entries have left the registry for `gc->freelist` and the mark bits have been cleared, `GC_Sweep` runs
  `dealloc(destruct(item))` for every item still on the list.  `Box_Del` is `if (obj) { del(obj); }`: `del` → `GC_Rem` →
  `GC_Rem_Ptr`, which finalises the target if it finds it on the free list (striking it) or IN THE REGISTRY (erasing the
  entry) — a Box owns its target.  The destructors of Array, List, Table and Tree `destruct` every embedded element, key and
  value, so an embedded Box deletes its target in the same way.  `Tuple_Del` frees the pointer array only. -/

mutual
/-- the pointers the destructor of an object hands to `del` -/
def owns : Obj → List Word
  | .raw ty ws =>
    if ty = "Box" then (ws.take 1).filter (· ≠ 0)
    else if ty = "ProbeD" then [0]      -- a user destructor that deletes an optional member which is NULL: `del(NULL)`
    else []
  | .cont _ es => ownsL es
  | .tup _ _ => []
  | .thr _ _ => []
def ownsL : List Obj → List Word
  | [] => []
  | o :: os => owns o ++ ownsL os
end

def Heap.ownsAt (h : Heap) (a : Addr) : List Word :=
  match h.lookup a with
  | some e => owns e.obj
  | none => []

/-- the collector while the release loop runs -/
structure RState where
  heap : Heap                     -- the registry
  pending : List (Option Addr)    -- `gc->freelist[0 .. freenum)`; `none` = an item struck by `GC_Rem_Ptr` or already released
  finalised : List Addr           -- every `dealloc(destruct(·))`, newest first
  exhausted : Bool                -- the nesting budget ran out (never, `C01_release_bounded`)

/-- `gc->freelist[i] = NULL` for the first slot that holds `x` -/
def strike (x : Addr) : List (Option Addr) → List (Option Addr)
  | [] => []
  | o :: p => if o = some x then none :: p else o :: strike x p

/-- `GC_Rem_Ptr(gc, v)` after its early-out: on the free list → struck and finalised; in the registry → erased and
    finalised; otherwise nothing.  `fin` is `dealloc(destruct(·))`. -/
def remPtrBody (fin : RState → Addr → RState) (st : RState) (v : Word) : RState :=
  if st.pending.contains (some v) then fin { st with pending := strike v st.pending } v
  else if (st.heap.lookup v).isSome then fin { st with heap := st.heap.remove v } v
  else st

/-- **`GC_Rem_Ptr(gc, v)`** (what `del(v)` comes to) as it is now: `if (gc->nslots is 0 or ptr is NULL) { return; }` (fix d3e4e44:
    `del(NULL)` is a no-op everywhere, also from a destructor during a sweep), then the free list, then the registry. -/
def remPtr (fin : RState → Addr → RState) (st : RState) (v : Word) : RState :=
  if v = 0 then st else remPtrBody fin st v

/-- OLD variant: `GC_Rem_Ptr` before fix d3e4e44 (early-out `gc->nslots is 0` only).  The free-list loop compares
    `gc->freelist[i] is ptr`, and a slot that was struck (or whose item the release loop is finalising right now) holds NULL:
    `del(NULL)` from a destructor during a sweep matched it and ran `dealloc(destruct(NULL))` — recorded here as the
    finalisation of address 0 (in C: a NULL dereference in `destruct`). -/
def remPtrPre (fin : RState → Addr → RState) (st : RState) (v : Word) : RState :=
  if v = 0 then (if st.pending.contains none then fin st 0 else st) else remPtrBody fin st v

/-- **`dealloc(destruct(a))`**: the destructor `del`s what the object owns (contents as they were when the sweep began: `h0`).
    `fuel` bounds the nesting of destructors; every nested call is preceded by the removal of one item from the free list or
    of one entry from the registry. -/
def finaliseAt (h0 : Heap) : Nat → RState → Addr → RState
  | 0, st, _ => { st with exhausted := true }
  | fuel + 1, st, a => (h0.ownsAt a).foldl (remPtr (finaliseAt h0 fuel)) { st with finalised := a :: st.finalised }

/-- `for (i = 0; i < freenum; i++) { item = freelist[i]; if (item) { freelist[i] = NULL; dealloc(destruct(item)); } }`
    (the items of the free list are distinct: they were distinct registry keys) -/
def releaseLoop (h0 : Heap) (fuel : Nat) : List Addr → RState → RState
  | [], st => st
  | a :: rest, st =>
    if st.pending.contains (some a) then
      releaseLoop h0 fuel rest (finaliseAt h0 fuel { st with pending := strike a st.pending } a)
    else releaseLoop h0 fuel rest st

/-- the release loop on the registry `h1` and the pending list the first two phases of the sweep produced from `h0` -/
def release (h0 h1 : Heap) (pending : List Addr) : RState :=
  releaseLoop h0 (pending.length + h1.regs.length + 1) pending
    { heap := h1, pending := pending.map some, finalised := [], exhausted := false }

/-- the result of one whole collection -/
structure Collected where
  heap : Heap               -- the registry afterwards
  pending : List Addr       -- what the sweep put on the free list
  finalised : List Addr     -- what the release loop finalised and freed
  exhausted : Bool

/-- **one whole collection**: `GC_Mark` from the bits `m0`, `GC_Sweep` including its release loop -/
def collectAll {σ : Type} (S : MarkSet σ) (c : Cfg) (h : Heap) (thread : Obj) (stack : List Word) (m0 : σ) : Collected :=
  let r := collectFrom S c h thread stack m0
  let st := release h r.1 r.2
  { heap := st.heap, pending := r.2, finalised := st.finalised, exhausted := st.exhausted }

/-- **`GC_Mark(gc); GC_Sweep(gc);` as the source has it** when the bits `m0` are set at its entry: `GC_Unmark` (iff `clearFirst`),
    the three phases, the sweep including its release loop -/
def collectWhole {σ : Type} (S : MarkSet σ) (c : Cfg) (clearFirst : Bool) (h : Heap) (thread : Obj) (stack : List Word) (m0 : σ) :
    Collected :=
  collectAll S c h thread stack (startBits S clearFirst m0)

/-- does an entry that the sweep (with the final bits `m`) puts on the free list own an entry that stays registered?
    (a garbage Box — or a garbage container with an embedded Box — whose target is marked or root-registered) -/
def ownsSurvivor {σ : Type} (S : MarkSet σ) (h : Heap) (m : σ) : Bool :=
  h.regs.any fun b => sweeps S h m b && (h.ownsAt b).any fun v => ((sweep S h m).1.lookup v).isSome

/-- **Box's ownership contract, as far as a collection depends on it**: no object that stays registered (reachable from the
    roots, or root-registered) is owned by an object the sweep frees -/
def boxExclusive {σ : Type} (S : MarkSet σ) (c : Cfg) (h : Heap) (thread : Obj) (stack : List Word) (m0 : σ) : Bool :=
  !ownsSurvivor S h (gcMarkFrom S c h thread stack m0)

/-! ### histories with the mark bits in the state -/

/-- the collector and the mutator between two operations; `stale` = the entries whose `marked` field is set -/
structure GState where
  heap : Heap
  thread : Obj
  stack : List Word
  stale : List Addr

inductive GOp where
  | base (op : HOp)    -- a mutator operation, or (`HOp.collect`) a collection that runs to completion
  | raise (k : Nat)    -- a collection whose mark phase is left by an exception after `k` marking events: no sweep
  | rehash             -- `GC_Rehash` (`GC_Resize_More` in `GC_Set`, `GC_Resize_Less` in `GC_Rem`): every entry re-inserted unmarked

def GOp.ok : GOp → Prop
  | .base op => op.ok
  | _ => True

/-- no exception leaves a mark phase -/
def GOp.completes : GOp → Bool
  | .raise _ => false
  | _ => true

/-- one completed collection of a history -/
structure GEvent where
  before : GState
  started : List Addr       -- the entries whose bit was set when the mark phase began
  pending : List Addr
  finalised : List Addr
  after : Heap

def GState.hstate (s : GState) : HState := { heap := s.heap, thread := s.thread, stack := s.stack }

/-- `clearFirst`: does `GC_Mark` clear every mark bit before it starts?  (`clearFirstNow` = CelloGen.GcMark.markClearsFirst for the
    source as it is: `true` since fix d8f0c4f; `false` is the explicit OLD variant) -/
def GState.step {σ : Type} (S : MarkSet σ) (c : Cfg) (clearFirst : Bool) (s : GState) : GOp → GState × Option GEvent
  | .base .collect =>
    let started := if clearFirst then [] else s.stale
    let r := collectAll S c s.heap s.thread s.stack (seed S started)
    -- the second loop of GC_Sweep clears every bit
    ({ s with heap := r.heap, stale := [] }, some ⟨s, started, r.pending, r.finalised, r.heap⟩)
  | .base op =>
    let t := (s.hstate.step S c op).1
    -- a mark bit lives in its entry: it goes with the entry (`del`), and a new entry starts unmarked
    ({ heap := t.heap, thread := t.thread, stack := t.stack,
       stale := s.stale.filter fun a => (s.heap.lookup a).isSome && (t.heap.lookup a).isSome }, none)
  | .raise k =>
    let started := if clearFirst then [] else s.stale
    ({ s with stale := (markEvents c s.heap s.thread s.stack started).take k ++ started }, none)
  | .rehash => ({ s with stale := [] }, none)

def GState.run {σ : Type} (S : MarkSet σ) (c : Cfg) (clearFirst : Bool) : List GOp → GState → GState × List GEvent
  | [], s => (s, [])
  | op :: ops, s =>
    let (s1, ev) := s.step S c clearFirst op
    let (s2, evs) := GState.run S c clearFirst ops s1
    (s2, match ev with | some e => e :: evs | none => evs)

/-- reachability along entries whose mark bit is clear: what a mark phase that starts with the bits `marked` set can still find -/
inductive ReachableUnmarked (c : Cfg) (h : Heap) (marked : Addr → Bool) (roots : List Word) : Addr → Prop
  | root {a} : a ∈ roots → (h.lookup a).isSome = true → marked a = false → ReachableUnmarked c h marked roots a
  | step {a b} : ReachableUnmarked c h marked roots a → Points c h a b → (h.lookup b).isSome = true → marked b = false →
      ReachableUnmarked c h marked roots b

end Cello.Heap
