/-
  Cello/OwnConc.lean — the ownership events of Cello/Own.lean on the *concrete* container representations
  (engine `own`, property C05; proofs: CelloProofs/Lemmas/OwnCompose.lean).

  Cello/Own.lean describes a Table / Tree as a key-sorted association list of token pairs and says that byte-wise moves
  "neither issue nor retire".  Here the same operations run on the structural models that the C02 / C03 engines validate
  slot by slot / node by node against the C code:

    * `Cello.Table.Tab Nat KV`  (Cello/Table.lean): the robin-hood slot array of src/Table.c — probing with displacement
      through the two swap spaces (`setLoop`), backward shift (`shiftBack`), `Table_Rehash` as a fold of re-insertions,
      `Table_Resize_More/Less` — instantiated with key = the payload the probe element hashes and compares by, and
      value = the pair (token of the stored key object, token of the stored value object), i.e. the bytes of one record;
    * `Cello.RB.Tree Tok Tok`   (Cello/RBTree.lean): the red-black tree of src/Tree.c — descent, `Tree_Set_Fix` /
      `Tree_Rem_Fix` rotations and recolourings, the predecessor `memcpy` of `Tree_Rem` on the node's words — with key
      and value = the tokens of the stored key / value object (two 8-byte words each: payload, owned pointer).

  An operation returns the new concrete container and the same `issued / retired / updated` events as Own.lean, produced
  where the C code produces them: the pair that `Table_Set_Move` destructs is the resident the probing loop meets with an
  equal key; `Tree_Set` assigns in place onto the node its descent stops at; `rem` destructs the pair it found.  Nothing
  here says what a move does to the tokens: that the stored tokens after an operation are the stored tokens before it,
  plus the issued, minus the retired ones — over rehash, displacement, back-shift, rotation and predecessor copy — is a
  *theorem* about these definitions (OwnCompose.lean), as is the fact that they compute `tableSet / treeSet / mapRem /
  mapResize / mapSetMany` of Own.lean on the association list the representation stands for.

  Core Lean only.
-/
import Cello.Own
import Cello.Table
import Cello.RBTree

namespace Cello.Own.Conc
open Cello.Own

/-! ## Table -/

/-- a Table of probe elements: key payload ↦ (key token, value token) -/
abbrev CTab := Cello.Table.Tab Nat KV

/-- first payload of the boundary-hash keys -/
def bhBase : Nat := 1000

/-- keys per boundary hash value (they collide with each other in every table size) -/
def bhPer : Nat := 8

/-- product of the table sizes 5 · 11 · 23 · 53 · 101 · 197 · 389 · 683 · 1259 of `Table_Primes`: a hash that is a multiple
    of it has home slot 0 in every table of up to 1259 slots, one less has home slot `nslots - 1` in every one of them -/
def bhL : Nat := 446221025714877545

/-- the boundary values of a 64-bit hash the probe key type can take (`BH[]` of harness/h_own.c, same order): what `Int_Hash`
    gives for the keys -1, 0, 1, -2, INT64_MIN, INT64_MAX, INT64_MIN+1, 2^32, 2^32-1, 2^32+1, -2^32, 2^33; what `Float_Hash`
    (the bit pattern) gives for the quiet NaNs of both signs, +inf, 1.0 (and -0.0 = the pattern of INT64_MIN, the all-ones
    NaN = the pattern of -1); and the residues 0 / nslots-1 / 1 modulo every table size at once. -/
def bhTable : List Nat :=
  [0xFFFFFFFFFFFFFFFF, 0, 1, 0xFFFFFFFFFFFFFFFE, 0x8000000000000000, 0x7FFFFFFFFFFFFFFF, 0x8000000000000001,
   0x0000000100000000, 0x00000000FFFFFFFF, 0x0000000100000001, 0xFFFFFFFF00000000, 0x0000000200000000,
   0x7FF8000000000000, 0xFFF8000000000000, 0x7FF0000000000000, 0x3FF0000000000000,
   bhL, bhL - 1, bhL + 1, 41 * bhL, 41 * bhL - 1, 2 * bhL - 1]

/-- `Probe_Hash` of harness/h_own.c: the payloads `bhBase + bhPer·b + r` (r < bhPer) hash to the `b`-th boundary value,
    every other payload to `(p mod 16) · 37` (six-fold clusters in every table size) -/
def probeHash (p : Nat) : Nat :=
  if bhBase ≤ p ∧ p < bhBase + bhPer * bhTable.length then bhTable.getD ((p - bhBase) / bhPer) 0
  else (p % 16) * 37

/-- the stored pairs in slot order (what a white-box walk of the slot array sees) -/
def slotKVs (t : CTab) : List KV := t.slots.toList.filterMap (fun o => o.map (·.val))

/-- the tokens a table holds -/
def tabToks (t : CTab) : List Tok := kvToks (slotKVs t)

def retiredOf : Option KV → List Tok
  | some o => [o.1, o.2]
  | none => []

/-- the resident pair whose key equals `k`: what the probing loop (shared by `Table_Set_Move`, `Table_Get`, `Table_Rem`)
    meets — the record `Table_Set_Move` destructs in its equal-key branch, the record `Table_Rem` destructs -/
def resident (hash : Nat → Nat) (t : CTab) (k : Nat) : Except Cello.Table.Fail (Option KV) :=
  match Cello.Table.get hash t k with
  | .error f => .error f
  | .ok (.val kv) => .ok (some kv)
  | .ok _ => .ok none

/-- `Table_Set`: key and value are constructed in sspace0 (two fresh tokens), then `Table_Set_Move` (after a possible
    first growth, before a possible `Table_Resize_More`): on the equal-key branch the resident pair is destructed and
    overwritten; otherwise the new record is stored and residents are displaced byte-wise. -/
def tableSetC (cfg : Cello.Table.Cfg) (hash : Nat → Nat) (next : Nat) (t : CTab) (k v : Nat) :
    Except Cello.Table.Fail (Res CTab) :=
  let kt : Tok := ⟨next, k⟩
  let vt : Tok := ⟨next + 1, v⟩
  match resident hash t k with
  | .error f => .error f
  | .ok old =>
    match Cello.Table.set cfg hash t k (kt, vt) with
    | .error f => .error f
    | .ok t' => .ok { val := t', issued := [kt, vt], retired := retiredOf old }

/-- `Table_Set` refused by the `cast` at the top of `Table_Set_Move` (wrong-typed key or value): nothing is constructed and
    no record moves into or out of the table, but `Table_Set` has already grown a table without slots to
    `Table_Ideal_Size(0)` (`Table_Rehash` of no records: the only thing that changes is `nslots`). -/
def tableSetRefusedC (cfg : Cello.Table.Cfg) (hash : Nat → Nat) (t : CTab) : Except Cello.Table.Fail (Res CTab) :=
  match (if t.n = 0 ∧ cfg.growEmpty then Cello.Table.rehash cfg hash t (cfg.ideal 0) else .ok t) with
  | .error f => .error f
  | .ok t' => .ok { val := t', out := .raised .valueError }

/-- `Table_Rem`: KeyError when the probing loop finds nothing; otherwise the found key and value are destructed, the
    following records are shifted back, and `Table_Resize_Less` may rehash into a smaller array. -/
def tableRemC (cfg : Cello.Table.Cfg) (hash : Nat → Nat) (t : CTab) (k : Nat) : Except Cello.Table.Fail (Res CTab) :=
  match resident hash t k with
  | .error f => .error f
  | .ok old =>
    match Cello.Table.rem cfg hash t k with
    | .error f => .error f
    | .ok (t', .raised _) => .ok { val := t', out := .raised .keyError }
    | .ok (t', _) => .ok { val := t', retired := retiredOf old }

/-- `Table_Resize`: 0 = `Table_Clear` (every occupied slot destructed, in slot order); fewer slots than items =
    FormatError; else `Table_Rehash` into `Table_Ideal_Size(n)` slots (moves only). -/
def tableResizeC (cfg : Cello.Table.Cfg) (hash : Nat → Nat) (t : CTab) (n : Nat) : Except Cello.Table.Fail (Res CTab) :=
  if n = 0 then .ok { val := Cello.Table.clear t, retired := tabToks t }
  else
    match Cello.Table.resize cfg hash t n with
    | .error f => .error f
    | .ok (t', .raised _) => .ok { val := t', out := .raised .formatError }
    | .ok (t', _) => .ok { val := t' }

/-- the insertion loop of `Table_New` (initial pairs) and of `Table_Assign`: per pair, construct key and value in
    sspace0 and `Table_Set_Move` — no resize in between; a repeated key takes the replace branch -/
def tableFillC (cfg : Cello.Table.Cfg) (hash : Nat → Nat) : Nat → CTab → List (Nat × Nat) → Except Cello.Table.Fail (Res CTab)
  | _, t, [] => .ok { val := t }
  | next, t, (k, v) :: rest =>
    let kt : Tok := ⟨next, k⟩
    let vt : Tok := ⟨next + 1, v⟩
    match resident hash t k with
    | .error f => .error f
    | .ok old =>
      match Cello.Table.setMove cfg hash t k (kt, vt) with
      | .error f => .error f
      | .ok t1 =>
        match tableFillC cfg hash (next + 2) t1 rest with
        | .error f => .error f
        | .ok r => .ok { val := r.val, issued := kt :: vt :: r.issued, retired := retiredOf old ++ r.retired, updated := r.updated }

/-- `Table_New` with initial pairs: an array of `Table_Ideal_Size(npairs)` zeroed slots, then the insertion loop -/
def tableNewC (cfg : Cello.Table.Cfg) (hash : Nat → Nat) (next : Nat) (ps : List (Nat × Nat)) :
    Except Cello.Table.Fail (Res CTab) :=
  if cfg.ideal ps.length = 0 then .ok { val := Cello.Table.Tab.empty 0 }
  else tableFillC cfg hash next (Cello.Table.Tab.empty (cfg.ideal ps.length)) ps

/-- `Table_Assign(self, obj)` for another map `obj` whose iteration yields the payload pairs `ps`: `Table_Clear`, then as
    the constructor -/
def tableAssignC (cfg : Cello.Table.Cfg) (hash : Nat → Nat) (next : Nat) (t : CTab) (ps : List (Nat × Nat)) :
    Except Cello.Table.Fail (Res CTab) :=
  match tableNewC cfg hash next ps with
  | .error f => .error f
  | .ok r => .ok { r with retired := tabToks t ++ r.retired }

/-! ## Tree -/

/-- a Tree of probe elements: the node holds the key object and the value object -/
abbrev CTree := Cello.RB.Tree Tok Tok

/-- `Probe_Cmp`: by payload -/
def tokCmp (a b : Tok) : Ordering := compare a.pay b.pay

/-- the bytes of a probe element as the tree's node stores them: payload, owned pointer (= identity) -/
instance : Cello.RB.Packed Tok where
  words t := [.int t.pay, .int t.id]
  ofWords
    | [.int p, .int i] => some ⟨i.toNat, p.toNat⟩
    | _ => none

/-- `size(Probe)` in the model's 8-byte words × 8 -/
def probeSize : Nat := 16

/-- `new(Tree, Probe, Probe)` -/
def treeEmpty : CTree := Cello.RB.Tree.mk0 probeSize probeSize

/-- the argument object of `set` / `rem`: a stack probe with payload `k` that was never constructed -/
def argTok (k : Nat) : Tok := ⟨0, k⟩

/-- the descent shared by `Tree_Set`, `Tree_Get`, `Tree_Rem` (`c = cmp(nodeKey, key)`, `c < 0` → left): the node whose
    key compares equal, with the key and value objects it holds -/
def findKV : Cello.RB.T Tok Tok → Nat → Option KV
  | .nil, _ => none
  | .node _ l nk nv r, k =>
    match compare nk.pay k with
    | .eq => some (nk, nv)
    | .lt => findKV l k
    | .gt => findKV r k

/-- the stored pairs in order (left → right) -/
def treeKVs (m : CTree) : List KV := Cello.RB.toList m.root

def treeToks (m : CTree) : List Tok := kvToks (treeKVs m)

/-- `Tree_Set`: when the descent stops at a node with an equal key, `assign(Tree_Key(node), key); assign(Tree_Val(node),
    val)` run on the stored objects (in place: they keep their identity); otherwise a zero-filled node gets two
    constructions and is linked in, followed by `Tree_Set_Fix` (recolouring, rotations).  `none` = NULL dereference. -/
def treeSetC (next : Nat) (m : CTree) (k v : Nat) : Option (Res CTree) :=
  match findKV m.root k with
  | some (ok, ov) =>
    let r1 := assignProbe next ok k
    let r2 := assignProbe (next + r1.issued.length) ov v
    (m.set tokCmp r1.val r2.val).map (fun m' =>
      { val := m', issued := r1.issued ++ r2.issued, updated := r1.updated ++ r2.updated })
  | none =>
    let kt : Tok := ⟨next, k⟩
    let vt : Tok := ⟨next + 1, v⟩
    (m.set tokCmp kt vt).map (fun m' => { val := m', issued := [kt, vt] })

/-- `Tree_Rem`: KeyError when the descent finds nothing; otherwise the found key and value are destructed; a node with
    two children receives the predecessor's block (`memcpy` of header + key + header + value) and the predecessor is
    unlinked instead; `Tree_Rem_Fix` repairs the colours. -/
def treeRemC (m : CTree) (k : Nat) : Option (Res CTree) :=
  match m.rem tokCmp (argTok k) with
  | none => none
  | some (m', .raised _) => some { val := m', out := .raised .keyError }
  | some (m', .ok _) => some { val := m', retired := retiredOf (findKV m.root k) }

/-- `Tree_Resize`: 0 = `Tree_Clear` (every node's key and value destructed), anything else FormatError -/
def treeResizeC (m : CTree) (n : Nat) : Res CTree :=
  if n = 0 then { val := m.clear, retired := treeToks m }
  else { val := m, out := .raised .formatError }

/-- a run of `Tree_Set`s: `Tree_New` with initial pairs, the loop of `Tree_Assign` -/
def treeFillC : Nat → CTree → List (Nat × Nat) → Option (Res CTree)
  | _, m, [] => some { val := m }
  | next, m, (k, v) :: rest =>
    match treeSetC next m k v with
    | none => none
    | some r =>
      match treeFillC (next + r.issued.length) r.val rest with
      | none => none
      | some r2 =>
        some { val := r2.val, issued := r.issued ++ r2.issued, retired := r.retired ++ r2.retired,
               updated := r.updated ++ r2.updated }

/-- `Tree_Assign(self, obj)` for another map `obj` whose iteration yields the payload pairs `ps`: `Tree_Clear`, the types
    (sizes) of `obj`, then `Tree_Set` per pair -/
def treeAssignC (next : Nat) (m : CTree) (ps : List (Nat × Nat)) : Option (Res CTree) :=
  (treeFillC next treeEmpty ps).map (fun r => { r with retired := treeToks m ++ r.retired })

/-! ## histories of one map container -/

/-- the operations on one Table / Tree: `set`, `rem`, `resize`, and `assign` from another map holding `src` -/
inductive MOp where
  | set (k v : Nat)
  | rem (k : Nat)
  | resize (n : Nat)
  | assign (src : List KV)
deriving Repr

def pays (src : List KV) : List (Nat × Nat) := src.map (fun kv => (kv.1.pay, kv.2.pay))

/-- the step of Cello/Own.lean -/
def absStep (mk : MapKind) (next : Nat) (kvs : List KV) : MOp → Res (List KV)
  | .set k v => mapSet mk next kvs k v
  | .rem k => mapRem kvs k
  | .resize n => mapResize mk kvs n
  | .assign src => mapAssign mk next kvs src

def absRun (mk : MapKind) : Nat → List KV → List MOp → List (Res (List KV))
  | _, _, [] => []
  | next, kvs, op :: ops =>
    let r := absStep mk next kvs op
    r :: absRun mk (next + r.issued.length) r.val ops

def tableStepC (cfg : Cello.Table.Cfg) (hash : Nat → Nat) (next : Nat) (t : CTab) : MOp → Except Cello.Table.Fail (Res CTab)
  | .set k v => tableSetC cfg hash next t k v
  | .rem k => tableRemC cfg hash t k
  | .resize n => tableResizeC cfg hash t n
  | .assign src => tableAssignC cfg hash next t (pays src)

def tableRunC (cfg : Cello.Table.Cfg) (hash : Nat → Nat) : Nat → CTab → List MOp → Except Cello.Table.Fail (List (Res CTab))
  | _, _, [] => .ok []
  | next, t, op :: ops =>
    match tableStepC cfg hash next t op with
    | .error f => .error f
    | .ok r =>
      match tableRunC cfg hash (next + r.issued.length) r.val ops with
      | .error f => .error f
      | .ok rs => .ok (r :: rs)

def treeStepC (next : Nat) (m : CTree) : MOp → Option (Res CTree)
  | .set k v => treeSetC next m k v
  | .rem k => treeRemC m k
  | .resize n => some (treeResizeC m n)
  | .assign src => treeAssignC next m (pays src)

def treeRunC : Nat → CTree → List MOp → Option (List (Res CTree))
  | _, _, [] => some []
  | next, m, op :: ops =>
    match treeStepC next m op with
    | none => none
    | some r =>
      match treeRunC (next + r.issued.length) r.val ops with
      | none => none
      | some rs => some (r :: rs)

end Cello.Own.Conc
