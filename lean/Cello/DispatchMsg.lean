/-
  C08, extension round: the TEXT of the ClassError raised by `Type_Method_At_Offset`, and the cells `Type_Builtin_Name` /
  `Type_Builtin_Size` read.

  `throw(E, fmt, a, b, …)` formats `fmt` with `print_to_with`: a `%s` directive shows its argument — a type object shows as its
  name (`Type_Show` = `print_to(out, pos, "%s", self)`, `c_str(self)` = `Type_Builtin_Name(self)`), a String as its characters.
  The translator cuts every format of Type_Method_At_Offset at its `%s` directives (`CelloGen.Disp.methodAtThrows`);
  `render` puts the shown arguments between the pieces.
-/
import Cello.DispatchShared

namespace Cello.Dispatch

/-- `fmt` cut at its `%s` directives, the shown arguments put back in between (missing arguments show as nothing) -/
def render : List String → List String → String
  | [], _ => ""
  | [s], _ => s
  | s :: rest, [] => s ++ render rest []
  | s :: rest, a :: as => s ++ a ++ render rest as

/-- which argument texts of the source a throw site shows, given what `self`, `cls` and the method name show as -/
def showArg (tname cname mname : String) (arg : String) : String :=
  if arg = "self" then tname else if arg = "cls" then cname
  else if arg = "$(String, (char*)method_name)" then mname else "?"

/-- the message of the `i`-th throw site of `Type_Method_At_Offset` (0: class absent, 1: member NULL) -/
def methodAtMsg (throws : List (String × List String × List String)) (i : Nat) (tname cname mname : String) : Option (String × String) :=
  match throws[i]? with
  | none => none
  | some (e, segs, args) => some (e, render segs (args.map (showArg tname cname mname)))

/-- what `type_method_at_offset(T, C, k·sizeof(var), "m")` reports: the instance, or the exception and its message -/
inductive MethRes where
  | ok (inst : Inst)
  | raised (exc : String) (msg : String)
  | ub
deriving DecidableEq, Repr, Inhabited

/-- `Type_Method_At_Offset` with its messages: `methodAt` for the control flow, the extracted throw sites for the texts -/
def methodAtText (throws : List (String × List String × List String)) (slots : List (Nat × Cls)) (t : TypeRec)
    (tname : String) (cls : Cls) (k : Nat) (mname : String) : TypeRec × MethRes :=
  match instanceOf slots t cls with
  | (t1, .ok none) =>
    match methodAtMsg throws 0 tname cls.name mname with
    | some (e, m) => (t1, .raised e m)
    | none => (t1, .ub)
  | (t1, .ok (some inst)) =>
    match memberAt inst k with
    | .ok true => (t1, .ok inst)
    | .ok false =>
      match methodAtMsg throws 1 tname cls.name mname with
      | some (e, m) => (t1, .raised e m)
      | none => (t1, .ub)
    | _ => (t1, .ub)
  | (t1, _) => (t1, .ub)

/-- the word `Type_Builtin_Name` reads: `t[(CELLO_CACHE_NUM / a)+b].inst` -/
def builtinWord (cacheNum : Nat) (ab : Nat × Nat) (mem : List Word) : Option Word := mem[3 * (cacheNum / ab.1 + ab.2) + 2]?

end Cello.Dispatch
