/-
  Cello/IterExpr.lean — the expression language of the op files of engine `iter` (C11) and the model object (`denote`) that
  stands for the object the harness constructs from the real library: containers given by their contents
  (Cello/Iter.lean), containers given by a HISTORY of mutations (Cello/IterMut.lean), Range, and the views over them.
  Core Lean only (the driver links against this file).
-/
import Cello.Iter
import Cello.IterMut

namespace Cello.Iter

/-! ## Universal values and the expression language of the op files -/

/-- what the harness prints for an element: an Int, or a tuple of elements (Zip) -/
inductive Val where
  | int (i : Int)
  | tup (l : List Val)
deriving Repr

mutual
/-- the number a test predicate / function sees: the Int itself, or the sum over a tuple -/
def Val.key : Val → Int
  | .int i => i
  | .tup l => Val.keyList l
def Val.keyList : List Val → Int
  | [] => 0
  | v :: t => v.key + Val.keyList t
end

mutual
def Val.show : Val → String
  | .int i => toString i
  | .tup l => "(" ++ Val.showList l ++ ")"
def Val.showList : List Val → String
  | [] => ""
  | [v] => v.show
  | v :: t => v.show ++ "," ++ Val.showList t
end

/-- iterable expressions (one per `W` line of an op file) -/
inductive Expr where
  | array (vs : List Int)
  | list (vs : List Int)
  | tuple (ids : List Nat)
  | table (slots : List (Option Int))
  | tree (t : T Int)
  | rtree (ks : List Int)
  | range (args : List (Option Int))
  | slice (e : Expr) (args : List (Option Int))
  | zip (es : List Expr)
  | enum (e : Expr)
  | filter (e : Expr) (m r : Int)
  | map (e : Expr) (a b : Int)
  | mlist (init : List Int) (ops : List (SOp Int))      -- new(List, Int, init…), then the mutations
  | marray (init : List Int) (ops : List (SOp Int))     -- new(Array, Int), push per init, then the mutations
  | mtable (init : List Int) (ops : List KOp)           -- new(Table, Int, Int), set(k, 10k) per init, then the mutations
  | mtree (init : List Int) (ops : List KOp)            -- new(Tree, Int, Int), likewise
deriving Repr

/-- fuel given to Filter loops by the driver (larger than any walk the harness performs) -/
def filterFuel : Nat := 100000

/-- test predicate `key(x) mod m == r` (mathematical mod; `m = 0` accepts nothing) -/
def testPred (m r : Int) (v : Val) : Bool := m ≠ 0 && v.key % m == r
/-- test function `x ↦ Int(a * key(x) + b)` -/
def testFun (a b : Int) (v : Val) : Val := .int (a * v.key + b)

/-- the List after `new(List, Int, init…)` and the history `ops` (an operation that raises leaves it as it was);
    `none`: the model of List.c leaves the object somewhere on the way -/
def mlistOf (init : List Int) (ops : List (SOp Int)) : Option (LL Int) :=
  match LL.new init with
  | (l0, .ok) =>
    let (l, os) := LL.run 0 l0 ops
    if os.contains .undef then none else some l
  | _ => none

def marrayOf (init : List Int) (ops : List (SOp Int)) : Option (AR Int) :=
  match AR.new init with
  | (a0, .ok) =>
    let (a, os) := AR.run a0 ops
    if os.contains .undef then none else some a
  | _ => none

def mtableOf (init : List Int) (ops : List KOp) : Option MTab :=
  let (t, os) := tabRun (Cello.Table.new tabCfg) (init.map KOp.set ++ ops)
  if os.contains .undef then none else some t

def mtreeOf (init : List Int) (ops : List KOp) : MTree := (treeRun ⟨.nil, 0⟩ (init.map KOp.set ++ ops)).1

mutual
/-- the model of the object the harness constructs for an expression; `.error` = the constructor raises -/
def denote : Expr → Except String (Iterable Val)
  | .array vs => .ok (arrayI (vs.map Val.int))
  | .list vs => .ok (listI (vs.map Val.int))
  | .tuple ids => .ok (embI (tupleI ids) (fun i => Val.int i))
  | .table slots => .ok (tableI (slots.map (fun o => o.map Val.int)))
  | .tree t => .ok (embI (treeI t) Val.int)
  | .rtree ks => .ok (embI (treeI (ks.foldl T.insert .nil)) Val.int)
  | .range args => match rangeStack args with
    | some (a, b, c) => .ok (embI (rangeI a b c) Val.int)
    | none => .error "range-args"
  | .slice e args => match denote e with
    | .ok I => match I.len with
      | some n => match sliceStack n args with
        | some (a, b, c) => .ok (sliceI I n a b c)
        | none => .error "slice-args"
      | none => .error "no-len"
    | .error m => .error m
  | .zip es => match denoteList es with
    | .ok Is => .ok (embI (zipI Is) Val.tup)
    | .error m => .error m
  | .enum e => match denote e with
    | .ok I => match I.len with
      | some n => .ok (embI (enumI I n Val.int) Val.tup)
      | none => .error "no-len"
    | .error m => .error m
  | .filter e m r => match denote e with
    | .ok I => .ok (filterI I (testPred m r) filterFuel)
    | .error m => .error m
  | .map e a b => match denote e with
    | .ok I => .ok (mapI I (testFun a b))
    | .error m => .error m
  | .mlist init ops => match mlistOf init ops with
    | some l => .ok (embI (llI l) Val.int)
    | none => .error "mut-undef"
  | .marray init ops => match marrayOf init ops with
    | some a => .ok (embI (arI a) Val.int)
    | none => .error "mut-undef"
  | .mtable init ops => match mtableOf init ops with
    | some t => .ok (embI (tabI t) Val.int)
    | none => .error "mut-undef"
  | .mtree init ops => .ok (embI (rbI (mtreeOf init ops)) Val.int)
def denoteList : List Expr → Except String (List (Iterable Val))
  | [] => .ok []
  | e :: es => match denote e, denoteList es with
    | .ok I, .ok Is => .ok (I :: Is)
    | .error m, _ => .error m
    | _, .error m => .error m
end

/-! ## `mem(obj, $I(k))` for the objects whose Get instance lives in src/Iter.c -/

/-- every element the object hands out is an Int (a Zip / enumerate hands out Tuples: `eq(tuple, $I(k))` is not modelled) -/
def Expr.intElems : Expr → Bool
  | .zip _ => false
  | .enum _ => false
  | .slice e _ => e.intElems
  | .filter e _ _ => e.intElems
  | .map _ _ _ => true
  | _ => true

/-- `eq(item, $I(k))` on the universal values -/
def eqKey (k : Int) : Val → Bool
  | .int i => i == k
  | .tup _ => false

/-- `mem(obj, $I(k))`: Range_Mem (arithmetic on the fields), Slice_Mem (`while (curr)`), Filter_Mem / Map_Mem (`foreach`);
    `none`: not an op of this engine (the containers' own `mem` belongs to C02 / C03 / C04; Zip elements are Tuples) -/
def memOf (e : Expr) (k : Int) (fuel : Nat) : Option (Except String MemRes) :=
  if !e.intElems then none else
  match e with
  | .range args => match rangeStack args with
    | some (a, b, c) => some (.ok (if rangeMem a b c k then .yes else .no))
    | none => some (.error "range-args")
  | .slice _ _ => match denote e with
    | .ok I => some (.ok (I.memWhileCurr (eqKey k) fuel))
    | .error m => some (.error m)
  | .filter _ _ _ => match denote e with
    | .ok I => some (.ok (I.memForeach (eqKey k) fuel))
    | .error m => some (.error m)
  | .map _ _ _ => match denote e with
    | .ok I => some (.ok (I.memForeach (eqKey k) fuel))
    | .error m => some (.error m)
  | _ => none

end Cello.Iter
