import Cello.Config
import CelloGen.Cfg
/-!
  C18 (extension round) — objects that cross the END of a collector.

  Every thread has its own collector (`Thread_Init_Run`: `new_raw(GC, …)` before the thread function runs, `del_raw(gc)` after it,
  both `#ifndef CELLO_NGC`; the main thread's is made by the `main` wrapper and deleted by `Cello_Exit`).  `GC_Del` runs the phases
  `CelloGen.Cfg.gcDelCalls` (`GC_Unmark; GC_Sweep` — NO mark phase) on the registry of that collector.  Whether a block survives the
  end of the collector it was registered with is therefore decided by the scanning loop of `GC_Sweep` ALONE, on an entry whose mark
  bit is clear: this file evaluates that loop as it is regenerated from src/GC.c (`CelloGen.Cfg.gcSweepLoop`, a decision list over
  the members of `struct GCEntry`), on the entry `GC_Set_Ptr`'s initialiser builds (`Keep.entryInitExpr`: which item feeds which
  member).  A build with CELLO_NGC has no registry and no teardown: every block lives until the program frees it.

  * `E` — the two bits of a registry entry that vary (root ARGUMENT it was registered with, mark bit now); `E.member` = what a test
    of member `m` reads;  `sweepFrees` = does the scanning loop put the entry on the free list;
  * `unmark` / `mark` / `sweep` / `phases` — the collector phases on a registry, `collection` = `gcSetCalls`, `teardown` = `gcDelCalls`;
  * `WEv` / `workerRun` — the life of a worker thread: allocations by `new` / `new_raw` / `new_root`, threshold collections (with any
    set of blocks reached), the end of the thread; `freed` = the blocks destructed and freed in that configuration;
  * `stepJoined` — what the joiner holds afterwards (the workload model of lean/Driver/Cfg.lean: op-file prefix `w`).

  Theorems: CelloProofs/Lemmas/CfgThread.lean, CelloProofs/Props/C18.lean (`C18_teardown_spares_roots`, …).
-/
namespace Cello.Config.Thr
open CelloGen.Cfg

/-- a registry entry of an occupied slot: the root argument it was registered with, and its mark bit now -/
structure E where
  root : Bool
  marked : Bool
deriving DecidableEq, Repr, Inhabited

/-- the member `GC_Mark` sets on what it reaches (its root loop: `entries[i].<gcMarkRootSets> = true`) -/
def markMember : String := gcMarkRootSets

/-- what a test of member `m` of the entry reads: `ptr` and `hash` of an occupied slot are non-zero (`GC_Hash` never yields 0);
    the mark member is the mark bit; any other member holds what the initialiser of `GC_Set_Ptr` put there — the root argument,
    a constant, or zero (`Keep.entryInitExpr` resolves positional items through the declaration order of `struct GCEntry`) -/
def E.member (e : E) (m : String) : Bool :=
  if m = "ptr" || m = "hash" then true
  else if m = markMember then e.marked
  else Keep.evalFlag e.root (Keep.entryInitExpr m)

def litHolds (e : E) (l : Bool × String) : Bool := e.member l.2 == l.1

/-- the scanning loop of `GC_Sweep` on one occupied slot: the first statement whose condition holds decides — `true`: the entry
    goes onto the free list (its block is destructed and freed by the release loop), `false`: `i++` -/
def decideLoop : List (String × List (Bool × String)) → E → Bool
  | [], _ => false
  | (a, c) :: rest, e => if c.all (litHolds e) then a == "free" else decideLoop rest e

def sweepFrees (e : E) : Bool := decideLoop gcSweepLoop e

/-- the collector's registry: block number ↦ entry -/
abbrev Reg := List (Nat × E)

def unmarkE (e : E) : E := if gcUnmarkClears.contains markMember then { e with marked := false } else e

/-- `GC_Unmark` -/
def unmark (r : Reg) : Reg := r.map (fun p => (p.1, unmarkE p.2))

/-- `GC_Mark`: (prologue) then every entry whose member `gcMarkRootTest` is set, and every block the scan of stack and thread-local
    storage reaches, gets the mark bit -/
def mark (reached : Nat → Bool) (r : Reg) : Reg :=
  (if gcMarkPrologue.contains "GC_Unmark" then unmark r else r).map
    (fun p => if p.2.member gcMarkRootTest || reached p.1 then (p.1, { p.2 with marked := true }) else p)

/-- `GC_Sweep`: (entries kept — their mark bits cleared by the second loop; blocks released) -/
def sweep (r : Reg) : Reg × List Nat :=
  ((r.filter (fun p => !sweepFrees p.2)).map (fun p => (p.1, { p.2 with marked := false })),
   (r.filter (fun p => sweepFrees p.2)).map (·.1))

def runPhase (reached : Nat → Bool) (acc : Reg × List Nat) (call : String) : Reg × List Nat :=
  if call = "GC_Unmark" then (unmark acc.1, acc.2)
  else if call = "GC_Mark" then (mark reached acc.1, acc.2)
  else if call = "GC_Sweep" then ((sweep acc.1).1, acc.2 ++ (sweep acc.1).2)
  else acc

def phases (reached : Nat → Bool) (calls : List String) (r : Reg) : Reg × List Nat :=
  calls.foldl (runPhase reached) (r, [])

/-- a threshold collection: what `GC_Set` runs when the registry is over `mitems` -/
def collection (reached : Nat → Bool) (r : Reg) : Reg × List Nat := phases reached gcSetCalls r

/-- **the end of a collector** (`GC_Del`): nothing is reached, nothing is marked -/
def teardown (r : Reg) : Reg × List Nat := phases (fun _ => false) gcDelCalls r

/-! ### a worker thread -/

/-- what the thread function does, as far as its collector is concerned -/
inductive WEv where
  | alloc (m : AMode)                 -- `new` / `new_raw` / `new_root`: the block gets the next number
  | collect (reached : List Nat)      -- a threshold collection at which the scan reaches these blocks
deriving Repr, Inhabited

structure WSt where
  next : Nat := 0
  reg : Reg := []
  freed : List Nat := []              -- blocks destructed and freed so far
  safe : List Nat := []               -- (ghost) blocks made with `new_root` / `new_raw`: not the collector's to release
deriving Repr, Inhabited

def wstep (cfg : Cfg) (s : WSt) : WEv → WSt
  | .alloc m =>
    let s' := { s with next := s.next + 1 }
    match m with
    | .standard => if cfg.gc then { s' with reg := (s.next, ⟨false, false⟩) :: s.reg } else s'
    | .root => if cfg.gc then { s' with reg := (s.next, ⟨true, false⟩) :: s.reg, safe := s.next :: s.safe } else { s' with safe := s.next :: s.safe }
    | .raw => { s' with safe := s.next :: s.safe }
  | .collect reached =>
    if cfg.gc then
      let r := collection (fun i => reached.contains i) s.reg
      { s with reg := r.1, freed := s.freed ++ r.2 }
    else s

/-- the thread function has returned: `del_raw(gc)` (`#ifndef CELLO_NGC`) -/
def threadEnd (cfg : Cfg) (s : WSt) : WSt :=
  if cfg.gc then { s with reg := [], freed := s.freed ++ (teardown s.reg).2 } else s

def workerRun (cfg : Cfg) (evs : List WEv) : WSt := threadEnd cfg (evs.foldl (wstep cfg) {})

/-- **the started thread, statement by statement** (`CelloGen.Cfg.threadRunEvents`, regenerated from Thread_Init_Run): the statements
    inside `#ifndef CELLO_NGC` exist only in a build with the collector.  `gcNew` makes the thread's collector, `call` runs the thread
    function — every allocation of which asks `current(GC)`: without a collector in a build that has one, undefined (`none`) —
    `gcDel` tears the collector down; anything the thread function allocates after that point would again find none. -/
structure TSt where
  w : WSt := {}
  hasGc : Bool := false
  called : Bool := false
deriving Repr, Inhabited

def threadEvent (cfg : Cfg) (evs : List WEv) (acc : Option TSt) (ev : ThreadEv × Bool) : Option TSt :=
  match acc with
  | none => none
  | some t =>
    if ev.2 && !cfg.gc then some t                       -- compiled out
    else match ev.1 with
      | .gcNew => if t.called || t.hasGc then none else some { t with hasGc := true }
      | .call => if t.called || (cfg.gc && !t.hasGc) then none else some { t with w := evs.foldl (wstep cfg) t.w, called := true }
      | .gcDel => if !t.called || !t.hasGc then none else some { t with w := threadEnd cfg t.w, hasGc := false }
      | _ => some t

/-- the whole life of the started thread as the source orders it; `none`: the thread function runs without a collector in a build
    that has one, or not exactly once, or the collector is torn down before it ran -/
def runThread (cfg : Cfg) (evs : List WEv) : Option WSt :=
  match threadRunEvents.foldl (threadEvent cfg evs) (some {}) with
  | some t => if t.called && !t.hasGc then some t.w else none
  | none => none

/-- may the joiner still read block `i` after `join` -/
def aliveAfterJoin (cfg : Cfg) (evs : List WEv) (i : Nat) : Bool := !(workerRun cfg evs).freed.contains i

/-- the collector's tests as they have to be for a root to outlive its collector (decidable over the regenerated tables) -/
def SweepWired : Prop :=
  (∀ r ∈ [true, false], ∀ mk ∈ [true, false], sweepFrees ⟨r, mk⟩ = (!r && !mk)) ∧
  (∀ r ∈ [true, false], ∀ mk ∈ [true, false], (⟨r, mk⟩ : E).member gcMarkRootTest = r)

instance : Decidable SweepWired := by unfold SweepWired; exact inferInstance

/-! ### the joiner's side of the workload model (op-file prefix `w`): `w nvo d v` = a worker thread runs `d = new_root(…)`, stores the
    pointer in a C global and ends; the main thread joins.  In the joiner's state the object is a block NO collector manages (the one
    it was registered with is gone): exactly what `new_raw` leaves — provided the worker's teardown spared it. -/

/-- the worker's allocation as the joiner's state sees it -/
def asJoined : Op → Option Op
  | .nvm .root d v => some (.nvm .raw d v)
  | .nseq k d ty vs => some (.nseq k d ty vs)
  | .nmap k d kt vt => some (.nmap k d kt vt)
  | _ => none

/-- does a block made with `new_root` by a thread that then ends survive that end, in configuration `cfg` -/
def rootOutlivesThread (cfg : Cfg) : Bool := aliveAfterJoin cfg [.alloc .root] 0

/-- one `w <creating op>` line: the creating operation in the joiner's terms; if the worker's teardown released the object the
    handle is left dangling (the block is gone, the variable still points to it) -/
def stepJoined (cfg : Cfg) (op : Op) (s : St) : St × Outcome Out :=
  match asJoined op with
  | none => (s, .ub)
  | some op' =>
    let r := step cfg op' s
    if rootOutlivesThread cfg then r
    else ({ r.1 with heap := r.1.heap.filter (fun o => !(o.id == s.next)) }, r.2)

/-- the step of the workload model: plain, or made by a worker thread that has ended -/
def stepW (cfg : Cfg) (joined : Bool) (op : Op) (s : St) : St × Outcome Out :=
  if joined then stepJoined cfg op s else step cfg op s

end Cello.Config.Thr
