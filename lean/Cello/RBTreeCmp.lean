/-
  Cello/RBTreeCmp.lean — third model layer of engine `tree` (C03): `Tree_Cmp` and `Tree_Hash` of src/Tree.c, core Lean only.

      Tree_Cmp   ↦ cmpLoop / Tree.cmpTree      two cursors advanced in lock step (`Tree_Iter_Init` / `Tree_Iter_Next` = the
                                               parent-link walks `iterInit` / `iterNext` of Cello/RBTree.lean), the keys compared
                                               with the key type's `cmp`, then the VALUES looked up again by key
                                               (`Tree_Get(self, item0)`, `get(obj, item1)`: one descent each) and compared
      Tree_Hash  ↦ hashLoop / Tree.hashTree    `h = h ^ hash(Tree_Key(m, node)) ^ hash(Tree_Val(m, node))` along the same walk

  Both are what `cmp(t, s)` / `eq(t, s)` / `hash(t)` of the public API run for two Trees.  They change no state; what they
  return depends on the SHAPE of the trees only through the walks and the descents, and the theorems of
  CelloProofs/Lemmas/RBCmp.lean say that for valid trees it does not depend on the shape at all: the result is the
  lexicographic comparison / the xor-fold of the two in-order sequences (`Spec.cmpList`, `Spec.hashList`).

  Histories: `BOp` = the operations of the second layer (`AOp`) plus `cmp t s` and `hash t`; `stepB` / `runB` and their
  specification `Spec.stepB` / `Spec.runB` on strictly sorted association lists.  (`Op`, `AOp`, `Obs` of Cello/RBTree.lean
  are left as they are: other engines match on them.)

  Fuel: each loop gets `size + 1` steps per tree; running out (`none`) means the walk did not reach Terminal — excluded for
  trees whose `nitems` is their node count (`cmpTree_eq`, `hashTree_eq`).
-/
import Cello.RBTree
namespace Cello.RB

variable {α β : Type}

/-- the loop of `Tree_Cmp(self, obj)` for a Tree `obj`; `.lt` / `.eq` / `.gt` = the C results -1 / 0 / 1.
    `m`, `s` = the two Tree objects (for the value look-ups), `c0`, `c1` = `item0`, `item1`.
    `none` = out of fuel;  `.raised KeyError` = a look-up of a key the iteration has just handed out fails. -/
def cmpLoop (cmp : α → α → Ordering) (vcmp : β → β → Ordering) (m s : Tree α β) :
    Nat → Cursor α β → Cursor α β → Option (Outcome Ordering)
  | _, none, none => some (.ok .eq)                          -- both Terminal: return 0
  | _, none, some _ => some (.ok .lt)                        -- item0 is Terminal: return -1
  | _, some _, none => some (.ok .gt)                        -- item1 is Terminal: return 1
  | 0, some _, some _ => none
  | n + 1, some x, some y =>
    match cmp x.k y.k with                                   -- c = cmp(item0, item1)
    | .lt => some (.ok .lt)
    | .gt => some (.ok .gt)
    | .eq =>
      match m.get cmp x.k, s.get cmp y.k with                -- c = cmp(Tree_Get(self, item0), get(obj, item1))
      | .ok a, .ok b =>
        match vcmp a b with
        | .lt => some (.ok .lt)
        | .gt => some (.ok .gt)
        | .eq => cmpLoop cmp vcmp m s n (iterNext x) (iterNext y)
      | .raised e, _ => some (.raised e)
      | _, .raised e => some (.raised e)

/-- `Tree_Cmp(self, obj)`; outer `none` = NULL dereference in `Tree_Iter_Init` or no Terminal within the fuel -/
def Tree.cmpTree (cmp : α → α → Ordering) (vcmp : β → β → Ordering) (m s : Tree α β) : Option (Outcome Ordering) :=
  match m.iterInit, s.iterInit with
  | some c0, some c1 => cmpLoop cmp vcmp m s (size m.root + size s.root + 1) c0 c1
  | _, _ => none

/-- the loop of `Tree_Hash`: `h = h ^ hash(key) ^ hash(val); curr = Tree_Iter_Next(self, curr)` -/
def hashLoop (hk : α → UInt64) (hv : β → UInt64) : Nat → Cursor α β → UInt64 → Option UInt64
  | _, none, h => some h
  | 0, some _, _ => none
  | n + 1, some x, h => hashLoop hk hv n (iterNext x) (h ^^^ hk x.k ^^^ hv x.v)

/-- `Tree_Hash(self)`: starts from 0 -/
def Tree.hashTree (hk : α → UInt64) (hv : β → UInt64) (m : Tree α β) : Option UInt64 :=
  match m.iterInit with
  | some c => hashLoop hk hv (size m.root + 1) c 0
  | none => none

/-! ## histories -/

/-- operations of the third layer -/
inductive BOp (α β : Type) where
  | a (op : AOp α β)
  | cmp (t s : Nat)                       -- `cmp(t, s)` for two Trees
  | hash (t : Nat)                        -- `hash(t)`

/-- what an operation of the third layer lets the program see -/
inductive BObs (α β : Type) where
  | base (o : Obs α β)
  | ord (o : Ordering)                    -- -1 / 0 / 1
  | word (h : UInt64)
  | err (e : Exc)

/-- the comparisons and hashes of the element types: `vcmp` = the sign of `cmp` on two values, `hk` / `hv` = `hash` of a key /
    of a value -/
structure Elem (α β : Type) where
  vcmp : β → β → Ordering
  hk : α → UInt64
  hv : β → UInt64

/-- one operation of the third layer; `none` = undefined behaviour / no Terminal -/
def stepB [Packed α] [Packed β] (g : Bool) (cmp : α → α → Ordering) (E : Elem α β) (st : Store (Tree α β)) :
    BOp α β → Option (Store (Tree α β) × BObs α β)
  | .a op => (stepA g cmp st op).map (fun r => (r.1, .base r.2))
  | .cmp t s =>
    match st.get? t, st.get? s with
    | some m, some m2 =>
      (m.cmpTree cmp E.vcmp m2).map (fun r => (st, match r with | .ok o => .ord o | .raised e => .err e))
    | _, _ => some (st, .base .noobj)
  | .hash t =>
    match st.get? t with
    | some m => (m.hashTree E.hk E.hv).map (fun h => (st, .word h))
    | none => some (st, .base .noobj)

def runB [Packed α] [Packed β] (g : Bool) (cmp : α → α → Ordering) (E : Elem α β) :
    Store (Tree α β) → List (BOp α β) → Option (Store (Tree α β) × List (BObs α β))
  | st, [] => some (st, [])
  | st, op :: ops =>
    match stepB g cmp E st op with
    | none => none
    | some (st', o) =>
      match runB g cmp E st' ops with
      | none => none
      | some (st'', os) => some (st'', o :: os)

namespace Spec

/-- two maps compared as their key sequences with the values beside them: the first difference decides, a proper prefix is
    smaller -/
def cmpList (cmp : α → α → Ordering) (vcmp : β → β → Ordering) : List (α × β) → List (α × β) → Ordering
  | [], [] => .eq
  | [], _ :: _ => .lt
  | _ :: _, [] => .gt
  | a :: l, b :: l' =>
    match cmp a.1 b.1 with
    | .lt => .lt
    | .gt => .gt
    | .eq =>
      match vcmp a.2 b.2 with
      | .lt => .lt
      | .gt => .gt
      | .eq => cmpList cmp vcmp l l'

/-- xor of the hashes of all keys and values -/
def hashList (hk : α → UInt64) (hv : β → UInt64) (l : List (α × β)) : UInt64 :=
  l.foldl (fun h e => h ^^^ hk e.1 ^^^ hv e.2) 0

def stepB (cmp : α → α → Ordering) (E : Elem α β) (st : Store (List (α × β))) : BOp α β → Store (List (α × β)) × BObs α β
  | .a op => let r := stepA cmp st op; (r.1, .base r.2)
  | .cmp t s =>
    match st.get? t, st.get? s with
    | some l, some l' => (st, .ord (cmpList cmp E.vcmp l l'))
    | _, _ => (st, .base .noobj)
  | .hash t =>
    match st.get? t with
    | some l => (st, .word (hashList E.hk E.hv l))
    | none => (st, .base .noobj)

def runB (cmp : α → α → Ordering) (E : Elem α β) : Store (List (α × β)) → List (BOp α β) → Store (List (α × β)) × List (BObs α β)
  | st, [] => (st, [])
  | st, op :: ops =>
    let r := stepB cmp E st op
    let r' := runB cmp E r.1 ops
    (r'.1, r.2 :: r'.2)

end Spec

/-! ## the element types of the op files -/

/-- the eight bytes of an `int64_t`, lowest first (the machine is little-endian) -/
def leBytes (n : Int) : List UInt8 :=
  let u := (n % 18446744073709551616).toNat
  (List.range 8).map (fun i => UInt8.ofNat (u / 256 ^ i % 256))

/-- `memcmp` on two byte strings of the same length: the first differing byte decides (as `unsigned char`) -/
def memcmpB : List UInt8 → List UInt8 → Ordering
  | a :: l, b :: l' => if a < b then .lt else if b < a then .gt else memcmpB l l'
  | _, _ => .eq

/-- `cmp` on two VALUES of the op files: `Int_Cmp`, `String_Cmp` (= strcmp), and for the plain structs `V3` / `V5`, which have
    no `Cmp` instance, the default of `cmp`: `memcmp(self, obj, size)` over the little-endian words -/
def Val.cmpC : Val → Val → Ordering
  | .w a b r, .w a' b' r' => memcmpB ((a :: b :: r).flatMap leBytes) ((a' :: b' :: r').flatMap leBytes)
  | x, y => Key.cmp x y

/-- the raw bytes of an object of the op files that has no `Hash` instance (the structs): `hash` = `hash_data(self, size)` -/
def Key.rawBytes : Key → List UInt8
  | .i n => leBytes n
  | .s x => x.toUTF8.toList
  | .w a b r => (a :: b :: r).flatMap leBytes

/-- `hash` of a key / value of the op files, given `hash_data`: `Int_Hash` = the value, `String_Hash` = `hash_data` of the
    characters, structs = `hash_data` of their bytes -/
def Key.hashC (hashData : List UInt8 → UInt64) : Key → UInt64
  | .i n => UInt64.ofInt n
  | k => hashData k.rawBytes

end Cello.RB
