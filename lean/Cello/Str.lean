/-
  Cello/Str.lean — executable model of the heap `String` of src/String.c (as it is in /repo now, after fix 62eac2a),
  and the specification it is proved against (CelloProofs/Props/C16.lean): the abstract byte string `List UInt8`
  without NUL, manipulated with list functions.

  A `String` object is `struct String { char* val; }`: ONE heap allocation holding the characters and the
  terminator, reallocated on every size change.  The model keeps the allocation itself — `buf : List UInt8`, whose
  length is the size passed to the last `realloc`/`calloc` — not just the characters, so that "NUL-terminated inside
  its own allocation" and "every access index < size of the allocation" are statements about the model.

  Each operation mirrors the C function call by call: the libc calls it makes (`strlen`, `realloc`, `strcpy`,
  `strcat`, `memset`, `memmove`, `strstr`, `strcmp`, `vsnprintf`/`vsprintf`) are modelled by their ISO C
  specification over the buffer, with explicit offsets, and every access to the String's own allocation is recorded
  in an access log `(read|write, offset, length, size of the allocation at that moment)`.

  * `realloc` keeps the first `min old new` bytes; the bytes it adds are indeterminate: they come from a junk
    function `J : Nat → UInt8` (index ↦ byte) over which every theorem is universally quantified (the harness
    fills them with 0xA5 so that whole allocations can be compared).
  * The allocation sizes and the `memmove` byte count of `String_Rem` are *parameters* (`Params`): the translator
    regenerates them from src/String.c on every run (CelloGen/Str.lean), `Params.modelled` is what this model was
    written against, and the theorems are proved for every `Params` that satisfies `Params.Lawful`.
  * Operands are C strings passed by value (`c_str(obj)` of another object): `List UInt8` without NUL.
    Aliased operands (`concat(s, s)`) are outside the property and outside the model.
-/
namespace Cello.Str

abbrev Byte := UInt8

/-! ## parameters extracted from the source -/

/-- the straight-line size arithmetic of src/String.c (`size_t` modelled as `Nat`; the subtraction in `remCount`
    cannot wrap when `strstr` found the operand, see `C16_terminated`). -/
structure Params where
  /-- `String_New` without arguments: `calloc(1, 1)` → nmemb * size -/
  newEmptySize : Nat
  /-- `String_Assign`: `realloc(s->val, strlen(val) + 1)` as a function of `strlen(val)` -/
  assignSize : Nat → Nat
  /-- `String_Clear`: `realloc(s->val, 1)` -/
  clearSize : Nat
  /-- `String_Concat`: `realloc(s->val, strlen(s->val) + strlen(c_str(obj)) + 1)` -/
  concatSize : Nat → Nat → Nat
  /-- `String_Resize`: `realloc(s->val, n+1)` -/
  resizeSize : Nat → Nat
  /-- `String_Format_To`: `realloc(s->val, pos + size + 1)` -/
  formatSize : Nat → Nat → Nat
  /-- `String_Rem`: `count = strlen(pos) - strlen(c->c_str(obj)) + 1` as a function of
      `strlen(self)`, `strlen(pos)`, `strlen(obj)` (the pre-fix formula also used `strlen(self)`) -/
  remCount : Nat → Nat → Nat → Nat

/-- the arithmetic this model was written against (src/String.c after 62eac2a) -/
def Params.modelled : Params where
  newEmptySize := 1
  assignSize lv := lv + 1
  clearSize := 1
  concatSize ls lo := ls + lo + 1
  resizeSize n := n + 1
  formatSize pos size := pos + size + 1
  remCount _ lp lo := lp - lo + 1

/-- the byte count of `String_Rem` before fix 62eac2a: `strlen(self) - strlen(pos) - strlen(obj) + 1` -/
def Params.preFix : Params := { Params.modelled with remCount := fun ls lp lo => ls - lp - lo + 1 }

/-- what the theorems need of the parameters -/
structure Params.Lawful (P : Params) : Prop where
  newEmpty : P.newEmptySize = 1
  assign : ∀ lv, P.assignSize lv = lv + 1
  clear : P.clearSize = 1
  concat : ∀ ls lo, P.concatSize ls lo = ls + lo + 1
  resize : ∀ n, P.resizeSize n = n + 1
  format : ∀ pos size, P.formatSize pos size = pos + size + 1
  rem : ∀ ls lp lo, lo ≤ lp → P.remCount ls lp lo = lp - lo + 1

theorem Params.modelled_lawful : Params.modelled.Lawful :=
  ⟨rfl, fun _ => rfl, rfl, fun _ _ => rfl, fun _ => rfl, fun _ _ => rfl, fun _ _ _ _ => rfl⟩

/-! ## libc over a buffer -/

/-- the characters of the NUL-terminated string that starts at offset `off` of `buf` (what the `str*` functions
    see); runs to the end of the allocation when there is no terminator -/
def cstrAt (buf : List Byte) (off : Nat) : List Byte := (buf.drop off).takeWhile (· != 0)

/-- `strlen(buf + off)` -/
def strlen (buf : List Byte) (off : Nat) : Nat := (cstrAt buf off).length

/-- bytes `J i` for `i` in `[from, from + n)` -/
def junk (J : Nat → Byte) (start n : Nat) : List Byte := (List.range n).map (fun i => J (start + i))

/-- `realloc(buf, n)`: the first `min |buf| n` bytes are kept, added bytes are indeterminate (`J`) -/
def realloc (J : Nat → Byte) (buf : List Byte) (n : Nat) : List Byte :=
  (buf ++ junk J buf.length (n - buf.length)).take n

/-- store `bs` at offsets `[off, off + |bs|)`; an out-of-bounds store is dropped here and shows in the access log -/
def writeAt (buf : List Byte) (off : Nat) (bs : List Byte) : List Byte :=
  if off + bs.length ≤ buf.length then buf.take off ++ bs ++ buf.drop (off + bs.length) else buf

/-- load `n` bytes at offset `off` (fewer if out of bounds; shows in the access log) -/
def readAt (buf : List Byte) (off n : Nat) : List Byte := (buf.drop off).take n

/-- the same store as the byte loop `for (i = 0; i < n; i++) buf[off + i] = bs[i];` — explicit index per byte
    (`storeBytes_eq_writeAt`: equal to `writeAt` whenever the block is in bounds) -/
def storeBytes (buf : List Byte) (off : Nat) : List Byte → List Byte
  | [] => buf
  | b :: bs => storeBytes (buf.set off b) (off + 1) bs

/-- `strlen` as the loop `while (buf[off + i] != 0) i++;` with an explicit index per byte read; `fuel` = bytes left in
    the allocation, running out of it = reading past the allocation (`strlenLoop_eq`: equal to `strlen`) -/
def strlenLoop (buf : List Byte) (off : Nat) : Nat → Nat
  | 0 => 0
  | fuel + 1 =>
    match buf[off]? with
    | some b => if b == 0 then 0 else 1 + strlenLoop buf (off + 1) fuel
    | none => 0

/-- `strstr`: offset of the first occurrence of `x` in `l` -/
def findSub (x : List Byte) : List Byte → Option Nat
  | [] => if x = [] then some 0 else none
  | a :: t => if x.isPrefixOf (a :: t) then some 0 else (findSub x t).map (· + 1)

/-- `strcmp` on two NUL-terminated buffers, unsigned bytes; only the sign is specified by ISO C, so the result is
    normalised to -1 / 0 / 1.  Running off either buffer (no terminator) gives 0 here; `Str.WF` excludes it. -/
def strcmpZ : List Byte → List Byte → Int
  | a :: as, b :: bs =>
    if a < b then -1 else if b < a then 1 else if a == 0 then 0 else strcmpZ as bs
  | _, _ => 0

/-! ## access log -/

/-- one access to the String's own allocation: `len` bytes at `off`, when the allocation was `cap` bytes -/
structure Acc where
  write : Bool
  off : Nat
  len : Nat
  cap : Nat
deriving Repr, DecidableEq, Inhabited

/-- the access lies inside the allocation: every index touched is `< cap` -/
def Acc.inBounds (a : Acc) : Bool := a.off + a.len ≤ a.cap

def Acc.rd (off len cap : Nat) : Acc := ⟨false, off, len, cap⟩
def Acc.wr (off len cap : Nat) : Acc := ⟨true, off, len, cap⟩

/-! ## the object and the result of an operation -/

/-- `struct String { char* val; }`: `buf` is the allocation `val` points to -/
structure Str where
  buf : List Byte
deriving Repr, DecidableEq, Inhabited

/-- size of the allocation -/
def Str.cap (s : Str) : Nat := s.buf.length

inductive Exc where
  | ValueError
deriving Repr, DecidableEq, Inhabited

inductive Outcome where
  | ok (ret : Nat)          -- normal return (`ret`: the `int` returned by `format_to`, 0 for `void`)
  | raised (e : Exc)
deriving Repr, DecidableEq, Inhabited

structure Res where
  st : Str                  -- the object afterwards (also when an exception leaves)
  out : Outcome
  log : List Acc            -- accesses to the allocation, in order
deriving Repr, Inhabited

/-- no access of the operation left the allocation (otherwise: undefined behaviour in C) -/
def Res.safe (r : Res) : Bool := r.log.all Acc.inBounds

/-! ## the operations of src/String.c -/

/-- `String_Assign(self, obj)` with `val = c_str(obj) = x`:
    `s->val = realloc(s->val, strlen(val) + 1); strcpy(s->val, val);` -/
def assign (P : Params) (J : Nat → Byte) (s : Str) (x : List Byte) : Res :=
  let b1 := realloc J s.buf (P.assignSize x.length)
  let b2 := writeAt b1 0 (x ++ [0])                                   -- strcpy: the characters and the terminator
  { st := ⟨b2⟩, out := .ok 0, log := [.wr 0 (x.length + 1) b1.length] }

/-- `String_New(self, args)`: `val` is NULL in the zeroed object; with an argument it is `String_Assign`
    (`realloc(NULL, n)` = `malloc(n)`), without it is `calloc(1, 1)` -/
def new (P : Params) (J : Nat → Byte) (x : Option (List Byte)) : Res :=
  match x with
  | some x => assign P J ⟨[]⟩ x
  | none => { st := ⟨List.replicate P.newEmptySize 0⟩, out := .ok 0, log := [] }

/-- `String_Clear`: `s->val = realloc(s->val, 1); s->val[0] = '\0';` -/
def clear (P : Params) (J : Nat → Byte) (s : Str) : Res :=
  let b1 := realloc J s.buf P.clearSize
  let b2 := writeAt b1 0 [0]
  { st := ⟨b2⟩, out := .ok 0, log := [.wr 0 1 b1.length] }

/-- `String_Concat(self, obj)` (also the `append` member) with `c_str(obj) = x`:
    `s->val = realloc(s->val, strlen(s->val) + strlen(c_str(obj)) + 1); strcat(s->val, c_str(obj));` -/
def concat (P : Params) (J : Nat → Byte) (s : Str) (x : List Byte) : Res :=
  let ls := strlen s.buf 0                                            -- strlen(s->val)
  let b1 := realloc J s.buf (P.concatSize ls x.length)
  let l := strlen b1 0                                                -- strcat: find the end of dst …
  let b2 := writeAt b1 l (x ++ [0])                                   -- … copy src and its terminator there
  { st := ⟨b2⟩, out := .ok 0,
    log := [.rd 0 (ls + 1) s.buf.length, .rd 0 (l + 1) b1.length, .wr l (x.length + 1) b1.length] }

/-- `String_Resize(self, n)`:
    `m = String_Len(self); s->val = realloc(s->val, n+1);
     if (n > m) memset(&s->val[m], 0, n - m); else s->val[n] = '\0';`
    (growing keeps the text and zero-fills `[m, n)`; byte `n` of the new allocation is never written) -/
def resize (P : Params) (J : Nat → Byte) (s : Str) (n : Nat) : Res :=
  let m := strlen s.buf 0
  let b1 := realloc J s.buf (P.resizeSize n)
  if n > m then
    { st := ⟨writeAt b1 m (List.replicate (n - m) 0)⟩, out := .ok 0,
      log := [.rd 0 (m + 1) s.buf.length, .wr m (n - m) b1.length] }
  else
    { st := ⟨writeAt b1 n [0]⟩, out := .ok 0,
      log := [.rd 0 (m + 1) s.buf.length, .wr n 1 b1.length] }

/-- `String_Rem(self, obj)` with `c_str(obj) = x`:
    `pos = strstr(val, x); if (pos is NULL) throw(ValueError …);
     count = strlen(pos) - strlen(x) + 1; memmove(pos, pos + strlen(x), count);`   (no reallocation) -/
def rem (P : Params) (s : Str) (x : List Byte) : Res :=
  let hay := cstrAt s.buf 0
  match findSub x hay with                                            -- strstr reads up to the terminator
  | none => { st := s, out := .raised .ValueError, log := [.rd 0 (hay.length + 1) s.buf.length] }
  | some p =>
    let lp := strlen s.buf p                                          -- strlen(pos)
    let count := P.remCount hay.length lp x.length
    let moved := readAt s.buf (p + x.length) count                    -- memmove: load …
    let b1 := writeAt s.buf p moved                                   -- … then store (overlap is fine)
    { st := ⟨b1⟩, out := .ok 0,
      log := [.rd 0 (hay.length + 1) s.buf.length, .rd p (lp + 1) s.buf.length,
              .rd (p + x.length) count s.buf.length, .wr p count s.buf.length] }

/-- `String_Format_To(self, pos, fmt, va)` (the non-Windows, non-Mac branch) where the formatted text is `f`:
    `size = vsnprintf(NULL, 0, fmt, va); s->val = realloc(s->val, pos + size + 1);
     return vsprintf(s->val + pos, fmt, va);` -/
def formatTo (P : Params) (J : Nat → Byte) (s : Str) (pos : Nat) (f : List Byte) : Res :=
  let size := f.length
  let b1 := realloc J s.buf (P.formatSize pos size)
  let b2 := writeAt b1 pos (f ++ [0])
  { st := ⟨b2⟩, out := .ok size, log := [.wr pos (size + 1) b1.length] }

/-! ## observers -/

/-- `String_Len`: `strlen(s->val)` -/
def len (s : Str) : Nat := strlen s.buf 0
/-- `String_C_Str` read as a C string -/
def cstr (s : Str) : List Byte := cstrAt s.buf 0
/-- `String_Cmp(self, obj)`: `strcmp(s->val, c_str(obj))`, sign only -/
def cmp (s : Str) (x : List Byte) : Int := strcmpZ s.buf (x ++ [0])
/-- `eq` of src/Cmp.c: `cmp(self, obj) is 0` -/
def eq (s : Str) (x : List Byte) : Bool := cmp s x == 0
/-- `String_Mem`: `strstr(s->val, c_str(obj)) != NULL` -/
def mem (s : Str) (x : List Byte) : Bool := (findSub x (cstrAt s.buf 0)).isSome
/-- `String_Hash`: `hash_data(s->val, strlen(s->val))` for an arbitrary function `H` of the bytes hashed -/
def hash {α : Type} (H : List Byte → α) (s : Str) : α := H ((readAt s.buf 0 (strlen s.buf 0)))
/-- accesses of the observers: they read the string and its terminator -/
def observeLog (s : Str) : List Acc := [.rd 0 (strlen s.buf 0 + 1) s.buf.length]

/-! ## histories -/

/-- mutating operations of the property (append is the same C function as concat) -/
inductive Op where
  | assign (x : List Byte)
  | concat (x : List Byte)
  | append (x : List Byte)
  | resize (n : Nat)
  | clear
  | rem (x : List Byte)
  | format (pos : Nat) (f : List Byte)
deriving Repr, DecidableEq, Inhabited

def step (P : Params) (J : Nat → Byte) (s : Str) : Op → Res
  | .assign x => assign P J s x
  | .concat x => concat P J s x
  | .append x => concat P J s x
  | .resize n => resize P J s n
  | .clear => clear P J s
  | .rem x => rem P s x
  | .format pos f => formatTo P J s pos f

/-- run a history; an exception (`rem` of an absent text) is caught by the caller and the history goes on.
    Returns the final object and the result of every step. -/
def run (P : Params) (J : Nat → Byte) : Str → List Op → Str × List Res
  | s, [] => (s, [])
  | s, op :: ops =>
    let r := step P J s op
    let (s', rs) := run P J r.st ops
    (s', r :: rs)

/-- `print_to(s, pos, fmt, …)`: `print_to_with` cuts the format into fragments and calls `format_to` once per fragment,
    advancing `pos` by each return value. `frags` are the formatted fragments. Returns the final `pos`. -/
def printTo (P : Params) (J : Nat → Byte) : Str → Nat → List (List Byte) → Str × Nat × List Acc
  | s, pos, [] => (s, pos, [])
  | s, pos, f :: fs =>
    let r := formatTo P J s pos f
    let (s', pos', lg) := printTo P J r.st (pos + f.length) fs
    (s', pos', r.log ++ lg)

/-- `String_Show`: `"` + each character (escaped per the switch table, otherwise `%c`) + `"`, one `print_to` each -/
def showFrags (x : List Byte) : List (List Byte) :=
  let esc (b : Byte) : List Byte :=
    if b == 7 then [92, 97] else if b == 8 then [92, 98] else if b == 12 then [92, 102]
    else if b == 10 then [92, 110] else if b == 13 then [92, 114] else if b == 9 then [92, 116]
    else if b == 11 then [92, 118] else if b == 92 then [92, 92] else if b == 39 then [92, 39]
    else if b == 34 then [92, 34] else if b == 63 then [92, 63] else [b]
  [[34]] ++ x.map esc ++ [[34]]

/-! ## specification: the abstract byte string -/

/-- the abstract string a String object holds -/
def Str.abs (s : Str) : List Byte := cstrAt s.buf 0

/-- well-formed: there is a terminator inside the allocation -/
def Str.WF (s : Str) : Prop := (0 : Byte) ∈ s.buf

instance (s : Str) : Decidable s.WF := inferInstanceAs (Decidable ((0 : Byte) ∈ s.buf))

/-- executable invariant evaluated by the driver on every state: NUL at `len`, `len < cap` -/
def Str.wfb (s : Str) : Bool := strlen s.buf 0 < s.buf.length && s.buf[strlen s.buf 0]? == some 0

/-- C-string operands: no NUL -/
def NulFree (x : List Byte) : Prop := (0 : Byte) ∉ x

def Op.NulFree : Op → Prop
  | .assign x | .concat x | .append x | .rem x => Cello.Str.NulFree x
  | .format _ f => Cello.Str.NulFree f
  | .resize _ | .clear => True

instance (x : List Byte) : Decidable (NulFree x) := inferInstanceAs (Decidable ((0 : Byte) ∉ x))

instance (op : Op) : Decidable op.NulFree := by
  cases op <;> simp only [Op.NulFree] <;> infer_instance

/-- delete the first occurrence of `x` (none when `x` does not occur) -/
def removeFirst (x : List Byte) : List Byte → Option (List Byte)
  | [] => if x = [] then some [] else none
  | a :: t => if x.isPrefixOf (a :: t) then some ((a :: t).drop x.length) else (removeFirst x t).map (a :: ·)

/-- lexicographic three-way comparison of byte strings by unsigned byte value (what `strcmp` computes) -/
def lexCmp : List Byte → List Byte → Int
  | [], [] => 0
  | [], _ :: _ => -1
  | _ :: _, [] => 1
  | a :: as, b :: bs => if a < b then -1 else if b < a then 1 else lexCmp as bs

namespace Spec

/-- the abstract effect of each operation; `rem` of an absent text leaves the string (and raises);
    a formatted write at `pos ≤ len` replaces everything from `pos` on by the formatted text.
    (`pos > len` is outside the property; the code then writes behind the terminator and the text is unchanged.) -/
def step (a : List Byte) : Op → List Byte
  | .assign x => x
  | .concat x => a ++ x
  | .append x => a ++ x
  | .resize n => a.take n
  | .clear => []
  | .rem x => (removeFirst x a).getD a
  | .format pos f => if pos ≤ a.length then a.take pos ++ f else a

/-- does the operation raise? -/
def raises (a : List Byte) : Op → Bool
  | .rem x => (removeFirst x a).isNone
  | _ => false

def run (a : List Byte) : List Op → List Byte
  | [] => a
  | op :: ops => run (step a op) ops

end Spec

/-! ## helpers for the driver (canonical dump) -/

def hexDigit (n : Nat) : Char := if n < 10 then Char.ofNat (48 + n) else Char.ofNat (87 + n)
def hexByte (b : Byte) : String := String.ofList [hexDigit (b.toNat / 16), hexDigit (b.toNat % 16)]
def hexOf (l : List Byte) : String := if l.isEmpty then "-" else String.join (l.map hexByte)

/-- FNV-1a, 64 bit, over a byte list (digest of whole allocations in the dump) -/
def fnv64 (l : List Byte) : UInt64 :=
  l.foldl (fun h b => (h ^^^ b.toUInt64) * 0x100000001b3) 0xcbf29ce484222325

def hex64 (v : UInt64) : String :=
  String.ofList ((List.range 16).map (fun i => hexDigit ((v.toNat >>> (4 * (15 - i))) % 16)))

end Cello.Str
