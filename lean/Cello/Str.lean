/-
  Cello/Str.lean — executable model of the heap `String` of src/String.c (as it is in /repo now, after fixes 62eac2a,
  e60e6ec `String_Rem` takes `c_str(obj)` first, a626877 `String_Format_To` returns a negative size untouched,
  744a45f `String_Assign` returns at once when `c_str(obj)` is `s->val`, 63509f2 `String_Resize` tests the result of
  `realloc` before writing through it — both read from the source: `Params.assignSelfReturns`, `Params.resizeChecksFirst`),
  and the specification it is proved against (CelloProofs/Props/C16.lean): the abstract byte string `List UInt8`
  without NUL, manipulated with list functions.

  A `String` object is `struct String { char* val; }`: ONE heap allocation holding the characters and the
  terminator, reallocated on every size change.  The model keeps the allocation itself — `buf : List UInt8`, whose
  length is the size passed to the last `realloc`/`calloc` — not just the characters, so that "NUL-terminated inside
  its own allocation" and "every access index < size of the allocation" are statements about the model.

  Each operation mirrors the C function call by call: the libc calls it makes (`strlen`, `realloc`, `strcpy`,
  `strcat`, `memset`, `memmove`, `strstr`, `strcmp`, `vsnprintf`/`vsprintf`) are modelled by their ISO C
  specification over the buffer, with explicit offsets, and every access to the String's own allocation is recorded
  in an access log `(read|write, offset, length, size of the allocation at that moment)`.

  * `realloc` keeps the first `min old new` bytes; the bytes it adds are indeterminate: they come from a junk
    function `J : Nat → UInt8` (index ↦ byte) over which every theorem is universally quantified (the harness
    fills them with 0xA5 so that whole allocations can be compared).
  * The allocation sizes and the `memmove` byte count of `String_Rem` are *parameters* (`Params`): the translator
    regenerates them from src/String.c on every run (CelloGen/Str.lean), `Params.modelled` is what this model was
    written against, and the theorems are proved for every `Params` that satisfies `Params.Lawful`.
  * Operands: `assign / concat / append / rem / format` take the C string `c_str(obj)` by value (`List UInt8` without
    NUL) — the case in which the operand's bytes do not lie in the target's allocation.  The operand forms that DO point
    into the target's allocation (`Src.self`: `obj` is the target; `Src.view off`: `obj` is e.g. `$S(c_str(s) + off)`) are
    modelled by `assignA / concatA / formatA / remA` and the histories `AOp / stepA / runA`: `realloc` may move the block
    (`mv`), the old block is then freed and a read through the stale pointer is the outcome `ub` (known finding
    KF-C16-alias-operand; CelloProofs/Props/C16.lean `C16_alias_*`).  Which of these calls the code defines is the decidable
    predicate `AOp.InContract` (everything but the finding's territory); histories of such calls: `HistOK`, `Spec.runA`.
  * Allocation failure is an outcome for `String_Resize` (`resizeFail`, `resizeR`): OutOfMemoryError, `val == NULL` afterwards.
-/
namespace Cello.Str

abbrev Byte := UInt8

/-! ## parameters extracted from the source -/

/-- the straight-line size arithmetic of src/String.c (`size_t` modelled as `Nat`; the subtraction in `remCount`
    cannot wrap when `strstr` found the operand, see `C16_terminated`). -/
structure Params where
  /-- `String_New` without arguments: `calloc(1, 1)` → nmemb * size -/
  newEmptySize : Nat
  /-- `String_Assign`: `realloc(s->val, strlen(val) + 1)` as a function of `strlen(val)` -/
  assignSize : Nat → Nat
  /-- `String_Clear`: `realloc(s->val, 1)` -/
  clearSize : Nat
  /-- `String_Concat`: `realloc(s->val, strlen(s->val) + strlen(c_str(obj)) + 1)` -/
  concatSize : Nat → Nat → Nat
  /-- `String_Resize`: `realloc(s->val, n+1)` -/
  resizeSize : Nat → Nat
  /-- `String_Format_To`: `realloc(s->val, pos + size + 1)` -/
  formatSize : Nat → Nat → Nat
  /-- `String_Rem`: `count = strlen(pos) - strlen(c->c_str(obj)) + 1` as a function of
      `strlen(self)`, `strlen(pos)`, `strlen(obj)` (the pre-fix formula also used `strlen(self)`) -/
  remCount : Nat → Nat → Nat → Nat
  /-- `String_Assign`: does `if (val is s->val) { return; }` stand between `char* val = c_str(obj);` and the `realloc`
      (fix 744a45f)?  Then an operand whose C string IS the target's buffer leaves the call before anything is touched. -/
  assignSelfReturns : Bool
  /-- `String_Resize`: does the `CELLO_MEMORY_CHECK` test `if (s->val is NULL) throw(OutOfMemoryError, …)` stand directly
      after the `realloc`, before the `memset` / terminator store (fix 63509f2)? -/
  resizeChecksFirst : Bool

/-- the arithmetic this model was written against (src/String.c after 62eac2a, 744a45f, 63509f2) -/
def Params.modelled : Params where
  newEmptySize := 1
  assignSize lv := lv + 1
  clearSize := 1
  concatSize ls lo := ls + lo + 1
  resizeSize n := n + 1
  formatSize pos size := pos + size + 1
  remCount _ lp lo := lp - lo + 1
  assignSelfReturns := true
  resizeChecksFirst := true

/-- `String_Assign` before 744a45f: no early return — `assign(s, s)` reallocates and then copies from the old pointer -/
def Params.assignUnguarded : Params := { Params.modelled with assignSelfReturns := false }

/-- `String_Resize` before 63509f2: the NULL test came after the `memset` / terminator store -/
def Params.resizeChecksLate : Params := { Params.modelled with resizeChecksFirst := false }

/-- the byte count of `String_Rem` before fix 62eac2a: `strlen(self) - strlen(pos) - strlen(obj) + 1` -/
def Params.preFix : Params := { Params.modelled with remCount := fun ls lp lo => ls - lp - lo + 1 }

/-- what the theorems need of the parameters -/
structure Params.Lawful (P : Params) : Prop where
  newEmpty : P.newEmptySize = 1
  assign : ∀ lv, P.assignSize lv = lv + 1
  clear : P.clearSize = 1
  concat : ∀ ls lo, P.concatSize ls lo = ls + lo + 1
  resize : ∀ n, P.resizeSize n = n + 1
  format : ∀ pos size, P.formatSize pos size = pos + size + 1
  rem : ∀ ls lp lo, lo ≤ lp → P.remCount ls lp lo = lp - lo + 1
  assignSelf : P.assignSelfReturns = true
  resizeCheck : P.resizeChecksFirst = true

theorem Params.modelled_lawful : Params.modelled.Lawful :=
  ⟨rfl, fun _ => rfl, rfl, fun _ _ => rfl, fun _ => rfl, fun _ _ => rfl, fun _ _ _ _ => rfl, rfl, rfl⟩

/-! ## libc over a buffer -/

/-- the characters of the NUL-terminated string that starts at offset `off` of `buf` (what the `str*` functions
    see); runs to the end of the allocation when there is no terminator -/
def cstrAt (buf : List Byte) (off : Nat) : List Byte := (buf.drop off).takeWhile (· != 0)

/-- `strlen(buf + off)` -/
def strlen (buf : List Byte) (off : Nat) : Nat := (cstrAt buf off).length

/-- bytes `J i` for `i` in `[from, from + n)` -/
def junk (J : Nat → Byte) (start n : Nat) : List Byte := (List.range n).map (fun i => J (start + i))

/-- `realloc(buf, n)`: the first `min |buf| n` bytes are kept, added bytes are indeterminate (`J`) -/
def realloc (J : Nat → Byte) (buf : List Byte) (n : Nat) : List Byte :=
  (buf ++ junk J buf.length (n - buf.length)).take n

/-- store `bs` at offsets `[off, off + |bs|)`; an out-of-bounds store is dropped here and shows in the access log -/
def writeAt (buf : List Byte) (off : Nat) (bs : List Byte) : List Byte :=
  if off + bs.length ≤ buf.length then buf.take off ++ bs ++ buf.drop (off + bs.length) else buf

/-- load `n` bytes at offset `off` (fewer if out of bounds; shows in the access log) -/
def readAt (buf : List Byte) (off n : Nat) : List Byte := (buf.drop off).take n

/-- the same store as the byte loop `for (i = 0; i < n; i++) buf[off + i] = bs[i];` — explicit index per byte
    (`storeBytes_eq_writeAt`: equal to `writeAt` whenever the block is in bounds) -/
def storeBytes (buf : List Byte) (off : Nat) : List Byte → List Byte
  | [] => buf
  | b :: bs => storeBytes (buf.set off b) (off + 1) bs

/-- `strlen` as the loop `while (buf[off + i] != 0) i++;` with an explicit index per byte read; `fuel` = bytes left in
    the allocation, running out of it = reading past the allocation (`strlenLoop_eq`: equal to `strlen`) -/
def strlenLoop (buf : List Byte) (off : Nat) : Nat → Nat
  | 0 => 0
  | fuel + 1 =>
    match buf[off]? with
    | some b => if b == 0 then 0 else 1 + strlenLoop buf (off + 1) fuel
    | none => 0

/-- `strstr`: offset of the first occurrence of `x` in `l` -/
def findSub (x : List Byte) : List Byte → Option Nat
  | [] => if x = [] then some 0 else none
  | a :: t => if x.isPrefixOf (a :: t) then some 0 else (findSub x t).map (· + 1)

/-- `strcmp` on two NUL-terminated buffers, unsigned bytes; only the sign is specified by ISO C, so the result is
    normalised to -1 / 0 / 1.  Running off either buffer (no terminator) gives 0 here; `Str.WF` excludes it. -/
def strcmpZ : List Byte → List Byte → Int
  | a :: as, b :: bs =>
    if a < b then -1 else if b < a then 1 else if a == 0 then 0 else strcmpZ as bs
  | _, _ => 0

/-! ## access log -/

/-- one access to the String's own allocation: `len` bytes at `off`, when the allocation was `cap` bytes -/
structure Acc where
  write : Bool
  off : Nat
  len : Nat
  cap : Nat
deriving Repr, DecidableEq, Inhabited

/-- the access lies inside the allocation: every index touched is `< cap` -/
def Acc.inBounds (a : Acc) : Bool := a.off + a.len ≤ a.cap

def Acc.rd (off len cap : Nat) : Acc := ⟨false, off, len, cap⟩
def Acc.wr (off len cap : Nat) : Acc := ⟨true, off, len, cap⟩

/-! ## the object and the result of an operation -/

/-- `struct String { char* val; }`: `buf` is the allocation `val` points to -/
structure Str where
  buf : List Byte
deriving Repr, DecidableEq, Inhabited

/-- size of the allocation -/
def Str.cap (s : Str) : Nat := s.buf.length

inductive Exc where
  | ValueError
  | ClassError      -- `c_str(obj)` on an object whose type has no C_Str instance (`String_Rem` after e60e6ec)
  | FormatError     -- `print_to_with`: a `format_to` returned a negative value
  | OutOfMemoryError -- `realloc` returned NULL (`CELLO_MEMORY_CHECK`)
deriving Repr, DecidableEq, Inhabited

/-- why a call has undefined behaviour -/
inductive UB where
  | useAfterFree            -- a read through a pointer into the block that `realloc` has freed
  | overlap                 -- `strcpy` / `strcat` / `vsprintf` between overlapping objects (ISO C 7.24.2.3, 7.24.3.1, 7.21.6.6)
  | outOfBounds             -- a read or a write outside the allocation current at that moment
  | nullDeref               -- a write through the NULL pointer a failed `realloc` returned
deriving Repr, DecidableEq, Inhabited

inductive Outcome where
  | ok (ret : Nat)          -- normal return (`ret`: the `int` returned by `format_to`, 0 for `void`)
  | raised (e : Exc)
  | rejected                -- `format_to` returned a negative value: libc rejects the format (`String_Format_To` after a626877)
  | ub (why : UB)           -- undefined behaviour in C: what follows is not determined by the source (operands that alias the target)
deriving Repr, DecidableEq, Inhabited

structure Res where
  st : Str                  -- the object afterwards (also when an exception leaves)
  out : Outcome
  log : List Acc            -- accesses to the allocation, in order
deriving Repr, Inhabited

/-- no access of the operation left the allocation (otherwise: undefined behaviour in C) -/
def Res.safe (r : Res) : Bool := r.log.all Acc.inBounds

/-- the outcome is one of the undefined ones -/
def Outcome.isUB : Outcome → Bool
  | .ub _ => true
  | _ => false

/-- the call is defined: no access left the allocation and nothing else undefined happened -/
def Res.defined (r : Res) : Bool := r.safe && !r.out.isUB

/-! ## the operations of src/String.c -/

/-- `String_Assign(self, obj)` with `val = c_str(obj) = x`:
    `s->val = realloc(s->val, strlen(val) + 1); strcpy(s->val, val);` -/
def assign (P : Params) (J : Nat → Byte) (s : Str) (x : List Byte) : Res :=
  let b1 := realloc J s.buf (P.assignSize x.length)
  let b2 := writeAt b1 0 (x ++ [0])                                   -- strcpy: the characters and the terminator
  { st := ⟨b2⟩, out := .ok 0, log := [.wr 0 (x.length + 1) b1.length] }

/-- `String_New(self, args)`: `val` is NULL in the zeroed object; with an argument it is `String_Assign`
    (`realloc(NULL, n)` = `malloc(n)`), without it is `calloc(1, 1)` -/
def new (P : Params) (J : Nat → Byte) (x : Option (List Byte)) : Res :=
  match x with
  | some x => assign P J ⟨[]⟩ x
  | none => { st := ⟨List.replicate P.newEmptySize 0⟩, out := .ok 0, log := [] }

/-- `String_Clear`: `s->val = realloc(s->val, 1); s->val[0] = '\0';` -/
def clear (P : Params) (J : Nat → Byte) (s : Str) : Res :=
  let b1 := realloc J s.buf P.clearSize
  let b2 := writeAt b1 0 [0]
  { st := ⟨b2⟩, out := .ok 0, log := [.wr 0 1 b1.length] }

/-- `String_Concat(self, obj)` (also the `append` member) with `c_str(obj) = x`:
    `s->val = realloc(s->val, strlen(s->val) + strlen(c_str(obj)) + 1); strcat(s->val, c_str(obj));` -/
def concat (P : Params) (J : Nat → Byte) (s : Str) (x : List Byte) : Res :=
  let ls := strlen s.buf 0                                            -- strlen(s->val)
  let b1 := realloc J s.buf (P.concatSize ls x.length)
  let l := strlen b1 0                                                -- strcat: find the end of dst …
  let b2 := writeAt b1 l (x ++ [0])                                   -- … copy src and its terminator there
  { st := ⟨b2⟩, out := .ok 0,
    log := [.rd 0 (ls + 1) s.buf.length, .rd 0 (l + 1) b1.length, .wr l (x.length + 1) b1.length] }

/-- `String_Resize(self, n)`:
    `m = String_Len(self); s->val = realloc(s->val, n+1);
     if (n > m) memset(&s->val[m], 0, n - m); else s->val[n] = '\0';`
    (growing keeps the text and zero-fills `[m, n)`; byte `n` of the new allocation is never written) -/
def resize (P : Params) (J : Nat → Byte) (s : Str) (n : Nat) : Res :=
  let m := strlen s.buf 0
  let b1 := realloc J s.buf (P.resizeSize n)
  if n > m then
    { st := ⟨writeAt b1 m (List.replicate (n - m) 0)⟩, out := .ok 0,
      log := [.rd 0 (m + 1) s.buf.length, .wr m (n - m) b1.length] }
  else
    { st := ⟨writeAt b1 n [0]⟩, out := .ok 0,
      log := [.rd 0 (m + 1) s.buf.length, .wr n 1 b1.length] }

/-- `String_Resize(self, n)` when `realloc` returns NULL (ISO C 7.22.3.5: the old block is then NOT freed).  The statement is
    `s->val = realloc(s->val, n+1);` — the result goes straight into `s->val`, so the only pointer to the old block is
    overwritten with NULL before anything is tested.  After 63509f2 the next statement is
    `if (s->val is NULL) { throw(OutOfMemoryError, …); }`: the exception leaves, nothing was written; the object is left with
    `val == NULL` (`buf = []`, the state of a zeroed object: not a C string — a later `len` / `c_str` / `cmp` would read
    through NULL) and the old block, still allocated, is unreachable (leaked).  Before the fix (`resizeChecksFirst = false`)
    the `memset(&s->val[m], 0, n - m)` / `s->val[n] = '\0'` came first: a write through NULL + offset. -/
def resizeFail (P : Params) (s : Str) (n : Nat) : Res :=
  let m := strlen s.buf 0                                             -- `size_t m = String_Len(self);` ran before the realloc
  let lg := [Acc.rd 0 (m + 1) s.buf.length]
  if P.resizeChecksFirst then { st := ⟨[]⟩, out := .raised .OutOfMemoryError, log := lg }
  else { st := ⟨[]⟩, out := .ub .nullDeref, log := lg ++ [if n > m then .wr m (n - m) 0 else .wr n 1 0] }

/-- `String_Resize` for both results of its `realloc`: `fails` = it returned NULL -/
def resizeR (P : Params) (J : Nat → Byte) (s : Str) (n : Nat) (fails : Bool) : Res :=
  if fails then resizeFail P s n else resize P J s n

/-- `String_Rem(self, obj)` with `sub = c_str(obj) = x`:
    `pos = strstr(val, sub); if (pos is NULL) throw(ValueError …);
     count = strlen(pos) - strlen(sub) + 1; memmove(pos, pos + strlen(sub), count);`   (no reallocation) -/
def rem (P : Params) (s : Str) (x : List Byte) : Res :=
  let hay := cstrAt s.buf 0
  match findSub x hay with                                            -- strstr reads up to the terminator
  | none => { st := s, out := .raised .ValueError, log := [.rd 0 (hay.length + 1) s.buf.length] }
  | some p =>
    let lp := strlen s.buf p                                          -- strlen(pos)
    let count := P.remCount hay.length lp x.length
    let moved := readAt s.buf (p + x.length) count                    -- memmove: load …
    let b1 := writeAt s.buf p moved                                   -- … then store (overlap is fine)
    { st := ⟨b1⟩, out := .ok 0,
      log := [.rd 0 (hay.length + 1) s.buf.length, .rd p (lp + 1) s.buf.length,
              .rd (p + x.length) count s.buf.length, .wr p count s.buf.length] }

/-- `String_Rem(self, obj)` from its first statement `char* sub = c_str(obj);` (e60e6ec): `arg` = the C string of the
    operand, `none` = the operand has no C_Str instance — `c_str` raises ClassError before anything is read or written.
    (Before the fix such an operand was silently ignored: `remArgOld`.) -/
def remArg (P : Params) (s : Str) (arg : Option (List Byte)) : Res :=
  match arg with
  | none => { st := s, out := .raised .ClassError, log := [] }
  | some x => rem P s x

/-- `String_Rem` before e60e6ec: `c = instance(obj, C_Str); if (c and c->c_str) { … }` — no C string, no effect, no exception -/
def remArgOld (P : Params) (s : Str) (arg : Option (List Byte)) : Res :=
  match arg with
  | none => { st := s, out := .ok 0, log := [] }
  | some x => rem P s x

/-- `String_Format_To(self, pos, fmt, va)` (the non-Windows, non-Mac branch) where the formatted text is `f`:
    `size = vsnprintf(NULL, 0, fmt, va); s->val = realloc(s->val, pos + size + 1);
     return vsprintf(s->val + pos, fmt, va);` -/
def formatTo (P : Params) (J : Nat → Byte) (s : Str) (pos : Nat) (f : List Byte) : Res :=
  let size := f.length
  let b1 := realloc J s.buf (P.formatSize pos size)
  let b2 := writeAt b1 pos (f ++ [0])
  { st := ⟨b2⟩, out := .ok size, log := [.wr pos (size + 1) b1.length] }

/-- `String_Format_To` from its measuring call (a626877): `size = vsnprintf(NULL, 0, fmt, va); if (size < 0) { return size; }`
    — `f = none`: libc rejects the format (e.g. `%lc` with a wide character the locale cannot encode); the negative value is
    returned and the String is not touched.  Otherwise as `formatTo`. -/
def formatToR (P : Params) (J : Nat → Byte) (s : Str) (pos : Nat) (f : Option (List Byte)) : Res :=
  match f with
  | none => { st := s, out := .rejected, log := [] }
  | some f => formatTo P J s pos f

/-- `String_Format_To` before a626877: the negative size went into `realloc(s->val, pos + size + 1)` = `realloc(val, pos)`
    (size = -1) and `vsprintf` wrote nothing: the allocation is cut to `pos` bytes — for `pos ≤ len` the terminator is gone -/
def formatToROld (P : Params) (J : Nat → Byte) (s : Str) (pos : Nat) (f : Option (List Byte)) : Res :=
  match f with
  | none => { st := ⟨realloc J s.buf pos⟩, out := .rejected, log := [] }
  | some f => formatTo P J s pos f

/-! ## observers -/

/-- `String_Len`: `strlen(s->val)` -/
def len (s : Str) : Nat := strlen s.buf 0
/-- `String_C_Str` read as a C string -/
def cstr (s : Str) : List Byte := cstrAt s.buf 0
/-- `String_Cmp(self, obj)`: `strcmp(s->val, c_str(obj))`, sign only -/
def cmp (s : Str) (x : List Byte) : Int := strcmpZ s.buf (x ++ [0])
/-- `eq` of src/Cmp.c: `cmp(self, obj) is 0` -/
def eq (s : Str) (x : List Byte) : Bool := cmp s x == 0
/-- `String_Mem`: `strstr(s->val, c_str(obj)) != NULL` -/
def mem (s : Str) (x : List Byte) : Bool := (findSub x (cstrAt s.buf 0)).isSome
/-- `String_Hash`: `hash_data(s->val, strlen(s->val))` for an arbitrary function `H` of the bytes hashed -/
def hash {α : Type} (H : List Byte → α) (s : Str) : α := H ((readAt s.buf 0 (strlen s.buf 0)))
/-- accesses of the observers: they read the string and its terminator -/
def observeLog (s : Str) : List Acc := [.rd 0 (strlen s.buf 0 + 1) s.buf.length]

/-! ## histories -/

/-- mutating operations of the property (append is the same C function as concat) -/
inductive Op where
  | assign (x : List Byte)
  | concat (x : List Byte)
  | append (x : List Byte)
  | resize (n : Nat)
  | clear
  | rem (x : List Byte)
  | format (pos : Nat) (f : List Byte)
deriving Repr, DecidableEq, Inhabited

def step (P : Params) (J : Nat → Byte) (s : Str) : Op → Res
  | .assign x => assign P J s x
  | .concat x => concat P J s x
  | .append x => concat P J s x
  | .resize n => resize P J s n
  | .clear => clear P J s
  | .rem x => rem P s x
  | .format pos f => formatTo P J s pos f

/-- run a history; an exception (`rem` of an absent text) is caught by the caller and the history goes on.
    Returns the final object and the result of every step. -/
def run (P : Params) (J : Nat → Byte) : Str → List Op → Str × List Res
  | s, [] => (s, [])
  | s, op :: ops =>
    let r := step P J s op
    let (s', rs) := run P J r.st ops
    (s', r :: rs)

/-! ## operands that alias the target (known finding KF-C16-alias-operand)

  `c_str(obj)` of the operand of `assign / concat / append / rem` and of a `%s` argument of a formatted write is a POINTER.
  Above it is taken by value, which is what the C code does whenever the bytes it points to lie outside the target's
  allocation.  When they lie inside it — `assign(s, s)`, `concat(s, $S(c_str(s) + 2))`, `print_to(s, 3, "%s", s)` — the
  pointer's fate depends on `realloc`: the block may move (`mv = true`; the old block is freed, the new one holds a copy
  of its first `min old new` bytes) or stay where it is (`mv = false`; a pointer into it keeps pointing at the same
  offset of the now resized block).  The functions below mirror src/String.c statement by statement for such operands:
  which pointer is computed when, what it points to at the moment libc reads through it. -/

/-- the operand `obj` as `c_str(obj)` sees it -/
inductive Src where
  /-- a C string whose bytes do not lie in the target's allocation -/
  | val (x : List Byte)
  /-- `obj` IS the target object: `c_str(obj)` is `s->val` — the one current at the moment `c_str` is called -/
  | self
  /-- another object (e.g. the stack String `$S(c_str(s) + off)`) whose `val` was set to `s->val + off` before the call:
      a pointer into the target's allocation that does not follow a `realloc` -/
  | view (off : Nat)
deriving Repr, DecidableEq, Inhabited

/-- the operand's bytes do not lie in the target's allocation (the hypothesis of the history theorems is `AOp.InContract`,
    which asks this of `concat` / `append` / `%s` operands only) -/
def Src.Disjoint : Src → Prop
  | .val _ => True
  | _ => False

instance (src : Src) : Decidable src.Disjoint := by cases src <;> simp only [Src.Disjoint] <;> infer_instance

/-- offset of the operand's pointer in the target's allocation at the moment the call is made (`self`: 0) -/
def Src.off : Src → Nat
  | .view off => off
  | _ => 0

/-- the bytes `c_str(obj)` denotes at the moment the call is made (before anything is reallocated or written) -/
def Src.read (s : Str) : Src → List Byte
  | .val x => x
  | .self => cstrAt s.buf 0
  | .view off => cstrAt s.buf off

/-- the C string that starts at offset `o` ends (has its terminator) inside the block -/
def inBlock (buf : List Byte) (o : Nat) : Bool := o + strlen buf o + 1 ≤ buf.length

/-- the byte ranges `[a, a + la)` and `[b, b + lb)` do not meet -/
def disjointRanges (a la b lb : Nat) : Bool := a + la ≤ b || b + lb ≤ a

/-- `String_Assign(self, obj)` when `val = c_str(obj)` is `s->val + off`:
    `char* val = c_str(obj); … s->val = realloc(s->val, strlen(val) + 1); strcpy(s->val, val);`
    — `val` is computed BEFORE the `realloc` and not again. -/
def assignAt (P : Params) (J : Nat → Byte) (mv : Bool) (s : Str) (off : Nat) : Res :=
  if !inBlock s.buf off then { st := s, out := .ub .outOfBounds, log := [] }          -- not a string inside the block
  else
    let n := strlen s.buf off                                         -- strlen(val): the block is still there
    let b1 := realloc J s.buf (P.assignSize n)
    let lg := [Acc.rd off (n + 1) s.buf.length]
    if mv then
      { st := ⟨b1⟩, out := .ub .useAfterFree, log := lg }             -- strcpy reads `val`: the block it points into was freed
    else                                                              -- same address: `val` is offset `off` of the resized block
      let n' := strlen b1 off
      if !inBlock b1 off then
        { st := ⟨b1⟩, out := .ub .outOfBounds, log := lg ++ [.rd off (n' + 1) b1.length] }   -- the terminator was cut off
      else if !disjointRanges off (n' + 1) 0 (n' + 1) then
        { st := ⟨b1⟩, out := .ub .overlap, log := lg ++ [.rd off (n' + 1) b1.length] }       -- strcpy of overlapping objects
      else
        { st := ⟨writeAt b1 0 (cstrAt b1 off ++ [0])⟩, out := .ok 0,
          log := lg ++ [.rd off (n' + 1) b1.length, .wr 0 (n' + 1) b1.length] }

/-- `String_Assign(self, obj)` for every operand form:
    `char* val = c_str(obj);  if (val is s->val) { return; }  … realloc … strcpy(s->val, val);`
    — since 744a45f an operand whose C string starts at the first byte of the target's buffer (`obj` is the target itself, or
    a view at offset 0: `$S(c_str(s))`) leaves the call at once: nothing is reallocated, read or written.  A view at an
    offset > 0 is a different pointer: it goes on to the `realloc` as before (`assignAt`). -/
def assignA (P : Params) (J : Nat → Byte) (mv : Bool) (s : Str) : Src → Res
  | .val x => assign P J s x
  | src =>
    if P.assignSelfReturns && src.off == 0 then { st := s, out := .ok 0, log := [] }
    else assignAt P J mv s src.off

/-- `strcat(buf, buf + o)` inside ONE block: destination string at 0, source string at `o`; the source (with its
    terminator) must not overlap the resulting destination string (ISO C 7.24.3.1) -/
def strcatWithin (buf : List Byte) (o : Nat) (lg : List Acc) : Res :=
  let l := strlen buf 0                                               -- the end of the destination
  let n := strlen buf o
  if !inBlock buf 0 || !inBlock buf o then
    { st := ⟨buf⟩, out := .ub .outOfBounds, log := lg ++ [.rd 0 (l + 1) buf.length, .rd o (n + 1) buf.length] }
  else if !disjointRanges o (n + 1) 0 (l + n + 1) then
    { st := ⟨buf⟩, out := .ub .overlap, log := lg ++ [.rd 0 (l + 1) buf.length, .rd o (n + 1) buf.length] }
  else
    { st := ⟨writeAt buf l (cstrAt buf o ++ [0])⟩, out := .ok 0,
      log := lg ++ [.rd 0 (l + 1) buf.length, .rd o (n + 1) buf.length, .wr l (n + 1) buf.length] }

/-- `String_Concat(self, obj)` (also `append`) for every operand form:
    `s->val = realloc(s->val, strlen(s->val) + strlen(c_str(obj)) + 1); strcat(s->val, c_str(obj));`
    — `c_str(obj)` is called twice: for the size before the `realloc`, for the copy after it.  When `obj` is the target
    itself the second call returns the NEW `s->val` (so it is `strcat(p, p)` whether the block moved or not); a view keeps
    the pointer it was built with. -/
def concatA (P : Params) (J : Nat → Byte) (mv : Bool) (s : Str) : Src → Res
  | .val x => concat P J s x
  | .self =>
    let ls := strlen s.buf 0
    let b1 := realloc J s.buf (P.concatSize ls ls)
    strcatWithin b1 0 [.rd 0 (ls + 1) s.buf.length, .rd 0 (ls + 1) s.buf.length]
  | .view off =>
    if !inBlock s.buf off then { st := s, out := .ub .outOfBounds, log := [] }
    else
      let ls := strlen s.buf 0
      let lo := strlen s.buf off
      let b1 := realloc J s.buf (P.concatSize ls lo)
      let lg := [Acc.rd 0 (ls + 1) s.buf.length, .rd off (lo + 1) s.buf.length]
      if mv then { st := ⟨b1⟩, out := .ub .useAfterFree, log := lg }  -- strcat reads the view: its block was freed
      else strcatWithin b1 off lg

/-- `String_Format_To(self, pos, fmt, va)` when the argument of the format's one `%s` is `s->val + off` — what
    `print_to(s, pos, "%s", obj)` arrives at: `print_to_with` calls `format_to(out, pos, fmt_buf, c_str(a))`, the pointer is
    computed once, before `String_Format_To` runs.  `render x` = what libc prints for `fmt` when the argument reads `x`.
    `size = vsnprintf(NULL, 0, fmt, va); s->val = realloc(s->val, pos + size + 1); return vsprintf(s->val + pos, fmt, va);` -/
def formatAt (P : Params) (J : Nat → Byte) (mv : Bool) (s : Str) (pos : Nat) (render : List Byte → List Byte) (off : Nat) : Res :=
  if !inBlock s.buf off then { st := s, out := .ub .outOfBounds, log := [] }
  else
    let x := cstrAt s.buf off                                         -- vsnprintf measures: the block is still there
    let size := (render x).length
    let b1 := realloc J s.buf (P.formatSize pos size)
    let lg := [Acc.rd off (x.length + 1) s.buf.length]
    if mv then { st := ⟨b1⟩, out := .ub .useAfterFree, log := lg }    -- vsprintf reads the argument: its block was freed
    else
      let x' := cstrAt b1 off
      if !inBlock b1 off then
        { st := ⟨b1⟩, out := .ub .outOfBounds, log := lg ++ [.rd off (x'.length + 1) b1.length] }
      else if !disjointRanges off (x'.length + 1) pos ((render x').length + 1) then
        { st := ⟨b1⟩, out := .ub .overlap, log := lg ++ [.rd off (x'.length + 1) b1.length] }   -- ISO C 7.21.6.6
      else
        { st := ⟨writeAt b1 pos (render x' ++ [0])⟩, out := .ok (render x').length,
          log := lg ++ [.rd off (x'.length + 1) b1.length, .wr pos ((render x').length + 1) b1.length] }

/-- a formatted write with one `%s` whose argument is `src` -/
def formatA (P : Params) (J : Nat → Byte) (mv : Bool) (s : Str) (pos : Nat) (render : List Byte → List Byte) : Src → Res
  | .val x => formatTo P J s pos (render x)
  | .self => formatAt P J mv s pos render 0
  | .view off => formatAt P J mv s pos render off

/-- `String_Rem(self, obj)` for every operand form: there is no `realloc`, and every read of `sub = c_str(obj)`
    (`strstr`, `strlen(sub)` in `count` and in the argument list of `memmove`) happens before the one write (`memmove`, for
    which overlap is defined) — so an aliased operand is read as the bytes it denotes when the call is made -/
def remA (P : Params) (s : Str) (src : Src) : Res :=
  match src with
  | .val x => rem P s x
  | .self => rem P s (cstrAt s.buf 0)
  | .view off => if inBlock s.buf off then rem P s (cstrAt s.buf off) else { st := s, out := .ub .outOfBounds, log := [] }

/-- mutating operations with every operand form -/
inductive AOp where
  | assign (src : Src)
  | concat (src : Src)
  | append (src : Src)
  | resize (n : Nat)
  | clear
  | rem (src : Src)
  | format (pos : Nat) (f : List Byte)        -- a formatted write none of whose arguments points into the target
  | formatS (pos : Nat) (src : Src)           -- `format_to(s, pos, "%s", c_str(obj))`: the `%s` step of `print_to(s, pos, …, obj)`
deriving Repr, DecidableEq, Inhabited

/-- no operand of the operation points into the target's allocation (every operand by value: the state-independent special
    case of `AOp.InContract`, `histOK_of_noAlias`) -/
def AOp.NoAlias : AOp → Prop
  | .assign src | .concat src | .append src | .rem src | .formatS _ src => src.Disjoint
  | _ => True

instance (op : AOp) : Decidable op.NoAlias := by
  cases op <;> simp only [AOp.NoAlias] <;> infer_instance

/-- the same operation with its operand taken by value: the bytes it denotes when the call is made -/
def AOp.toOp (s : Str) : AOp → Op
  | .assign src => .assign (src.read s)
  | .concat src => .concat (src.read s)
  | .append src => .append (src.read s)
  | .resize n => .resize n
  | .clear => .clear
  | .rem src => .rem (src.read s)
  | .format pos f => .format pos f
  | .formatS pos src => .format pos (src.read s)

/-- for operands given by value the target plays no part in `toOp` -/
def AOp.plain (op : AOp) : Op := op.toOp ⟨[]⟩

/-- the bytes the operand denotes, in terms of the target's TEXT `a` (for a view: `off ≤ |a|`) -/
def Src.readAbs (a : List Byte) : Src → List Byte
  | .val x => x
  | .self => a
  | .view off => a.drop off

/-- the same operation with its operand by value, read from the target's text `a` -/
def AOp.absOp (a : List Byte) : AOp → Op
  | .assign src => .assign (src.readAbs a)
  | .concat src => .concat (src.readAbs a)
  | .append src => .append (src.readAbs a)
  | .resize n => .resize n
  | .clear => .clear
  | .rem src => .rem (src.readAbs a)
  | .format pos f => .format pos f
  | .formatS pos src => .format pos (src.readAbs a)

/-- **the decidable hypothesis of the history theorems**, given the target's text `a` when the call is made: the call is not
    in the territory of known finding KF-C16-alias-operand, and a view used as an operand points into the text.
    * `assign`: the operand is by value, the target itself, or a view at offset 0 (`val is s->val`: early return, 744a45f) —
      excluded: a view at an offset > 0;
    * `concat` / `append` / a `%s` write: the operand is by value — excluded: the target itself and every view;
    * `rem`: ANY operand form (no `realloc`, all reads before the one `memmove`); a view must start inside the text or at its
      terminator (`off ≤ len`; behind that it is not a C string inside the block);
    * `resize`, `clear`, a formatted write without aliasing arguments: always.
    `C16_contract_is_exact`: what this excludes is undefined for every allocator behaviour, what it allows is defined. -/
def AOp.InContract (a : List Byte) : AOp → Prop
  | .assign src => src.Disjoint ∨ src.off = 0
  | .concat src | .append src | .formatS _ src => src.Disjoint
  | .rem src => src.off ≤ a.length
  | _ => True

instance (a : List Byte) (op : AOp) : Decidable (op.InContract a) := by
  cases op <;> simp only [AOp.InContract] <;> infer_instance

/-- one step; `mv` = does `realloc` move the block in this call (the allocator's choice) -/
def stepA (P : Params) (J : Nat → Byte) (mv : Bool) (s : Str) : AOp → Res
  | .assign src => assignA P J mv s src
  | .concat src => concatA P J mv s src
  | .append src => concatA P J mv s src
  | .resize n => resize P J s n
  | .clear => clear P J s
  | .rem src => remA P s src
  | .format pos f => formatTo P J s pos f
  | .formatS pos src => formatA P J mv s pos id src

/-- a history; `mv i` = the allocator's choice in the `i`-th call.  Like `run`, it goes on after an exception; after an
    undefined call nothing that follows means anything (the theorems are about histories without one). -/
def runA (P : Params) (J : Nat → Byte) (mv : Nat → Bool) : Nat → Str → List AOp → Str × List Res
  | _, s, [] => (s, [])
  | i, s, op :: ops =>
    let r := stepA P J (mv i) s op
    let (s', rs) := runA P J mv (i + 1) r.st ops
    (s', r :: rs)

/-! ### the repair proposed for KF-C16-alias-operand (not in /repo)

  `String_Assign`:    `size_t n = strlen(val);
                       if (s->val and val >= s->val and val <= s->val + strlen(s->val)) { memmove(s->val, val, n + 1); val = NULL; }
                       s->val = realloc(s->val, n + 1);  if (val) { strcpy(s->val, val); }`
  `String_Concat`:    `char* arg = c_str(obj); size_t n = strlen(s->val), m = strlen(arg);
                       ptrdiff_t off = (arg >= s->val and arg <= s->val + n) ? arg - s->val : -1;
                       s->val = realloc(s->val, n + m + 1);
                       memmove(s->val + n, off >= 0 ? s->val + off : arg, m);  s->val[n + m] = '\0';`
  `String_Format_To`: `char* tmp = malloc(size + 1); vsprintf(tmp, fmt, va);
                       s->val = realloc(s->val, pos + size + 1); memcpy(s->val + pos, tmp, size + 1); free(tmp); return size;` -/

/-- `String_Assign` as repaired: an operand inside the target is moved to the front first, then the block is shrunk;
    no pointer into the old block is used after the `realloc`, so `mv` plays no part -/
def assignFix (P : Params) (J : Nat → Byte) (s : Str) : Src → Res
  | .val x => assign P J s x
  | src =>
    let off := src.off
    if !inBlock s.buf off then { st := s, out := .ub .outOfBounds, log := [] }
    else
      let n := strlen s.buf off
      let b0 := writeAt s.buf 0 (readAt s.buf off (n + 1))              -- memmove(s->val, val, n + 1)
      let b1 := realloc J b0 (P.assignSize n)
      { st := ⟨b1⟩, out := .ok 0,
        log := [.rd off (n + 1) s.buf.length, .rd 0 (strlen s.buf 0 + 1) s.buf.length, .rd off (n + 1) s.buf.length,
                .wr 0 (n + 1) s.buf.length] }

/-- `String_Concat` as repaired: lengths first, the operand's offset in the old block remembered, the operand re-derived
    from the NEW block after the `realloc`, `memmove` + explicit terminator instead of `strcat` -/
def concatFix (P : Params) (J : Nat → Byte) (s : Str) : Src → Res
  | .val x => concat P J s x
  | src =>
    let off := src.off
    if !inBlock s.buf off then { st := s, out := .ub .outOfBounds, log := [] }
    else
      let n := strlen s.buf 0
      let m := strlen s.buf off
      let b1 := realloc J s.buf (P.concatSize n m)
      let b2 := writeAt b1 n (readAt b1 off m)                          -- memmove(s->val + n, s->val + off, m)
      let b3 := writeAt b2 (n + m) [0]                                  -- s->val[n + m] = '\0'
      { st := ⟨b3⟩, out := .ok 0,
        log := [.rd 0 (n + 1) s.buf.length, .rd off (m + 1) s.buf.length, .rd off m b1.length, .wr n m b1.length,
                .wr (n + m) 1 b1.length] }

/-- `String_Format_To` as repaired: the text is formatted into a temporary BEFORE the `realloc` (the arguments are read
    while the block they may point into is still there), then copied: by value for every operand form -/
def formatFix (P : Params) (J : Nat → Byte) (s : Str) (pos : Nat) (render : List Byte → List Byte) (src : Src) : Res :=
  if !inBlock s.buf src.off && !(src matches .val _) then { st := s, out := .ub .outOfBounds, log := [] }
  else formatTo P J s pos (render (src.read s))

/-- one step of the code with the three repairs -/
def stepFix (P : Params) (J : Nat → Byte) (_mv : Bool) (s : Str) : AOp → Res
  | .assign src => assignFix P J s src
  | .concat src => concatFix P J s src
  | .append src => concatFix P J s src
  | .resize n => resize P J s n
  | .clear => clear P J s
  | .rem src => remA P s src
  | .format pos f => formatTo P J s pos f
  | .formatS pos src => formatFix P J s pos id src

/-- a view used as an operand points into the TEXT of the target (`off ≤ len`: at a character or at the terminator) -/
def AOp.InText (s : Str) : AOp → Prop
  | .assign src | .concat src | .append src | .rem src | .formatS _ src => src.off ≤ (cstrAt s.buf 0).length
  | _ => True

instance (s : Str) (op : AOp) : Decidable (op.InText s) := by
  cases op <;> simp only [AOp.InText] <;> infer_instance

/-- `print_to(s, pos, fmt, …)`: `print_to_with` cuts the format into fragments and calls `format_to` once per fragment,
    advancing `pos` by each return value. `frags` are the formatted fragments. Returns the final `pos`. -/
def printTo (P : Params) (J : Nat → Byte) : Str → Nat → List (List Byte) → Str × Nat × List Acc
  | s, pos, [] => (s, pos, [])
  | s, pos, f :: fs =>
    let r := formatTo P J s pos f
    let (s', pos', lg) := printTo P J r.st (pos + f.length) fs
    (s', pos', r.log ++ lg)

/-- `String_Show`: `"` + each character (escaped per the switch table, otherwise `%c`) + `"`, one `print_to` each -/
def showFrags (x : List Byte) : List (List Byte) :=
  let esc (b : Byte) : List Byte :=
    if b == 7 then [92, 97] else if b == 8 then [92, 98] else if b == 12 then [92, 102]
    else if b == 10 then [92, 110] else if b == 13 then [92, 114] else if b == 9 then [92, 116]
    else if b == 11 then [92, 118] else if b == 92 then [92, 92] else if b == 39 then [92, 39]
    else if b == 34 then [92, 34] else if b == 63 then [92, 63] else [b]
  [[34]] ++ x.map esc ++ [[34]]

/-! ## specification: the abstract byte string -/

/-- the abstract string a String object holds -/
def Str.abs (s : Str) : List Byte := cstrAt s.buf 0

/-- well-formed: there is a terminator inside the allocation -/
def Str.WF (s : Str) : Prop := (0 : Byte) ∈ s.buf

instance (s : Str) : Decidable s.WF := inferInstanceAs (Decidable ((0 : Byte) ∈ s.buf))

/-- executable invariant evaluated by the driver on every state: NUL at `len`, `len < cap` -/
def Str.wfb (s : Str) : Bool := strlen s.buf 0 < s.buf.length && s.buf[strlen s.buf 0]? == some 0

/-- C-string operands: no NUL -/
def NulFree (x : List Byte) : Prop := (0 : Byte) ∉ x

def Op.NulFree : Op → Prop
  | .assign x | .concat x | .append x | .rem x => Cello.Str.NulFree x
  | .format _ f => Cello.Str.NulFree f
  | .resize _ | .clear => True

instance (x : List Byte) : Decidable (NulFree x) := inferInstanceAs (Decidable ((0 : Byte) ∉ x))

instance (op : Op) : Decidable op.NulFree := by
  cases op <;> simp only [Op.NulFree] <;> infer_instance

/-- the operand's bytes (read when the call is made) are a C string -/
def AOp.NulFree (s : Str) (op : AOp) : Prop := (op.toOp s).NulFree

instance (s : Str) (op : AOp) : Decidable (op.NulFree s) := inferInstanceAs (Decidable (op.toOp s).NulFree)

/-- delete the first occurrence of `x` (none when `x` does not occur) -/
def removeFirst (x : List Byte) : List Byte → Option (List Byte)
  | [] => if x = [] then some [] else none
  | a :: t => if x.isPrefixOf (a :: t) then some ((a :: t).drop x.length) else (removeFirst x t).map (a :: ·)

/-- lexicographic three-way comparison of byte strings by unsigned byte value (what `strcmp` computes) -/
def lexCmp : List Byte → List Byte → Int
  | [], [] => 0
  | [], _ :: _ => -1
  | _ :: _, [] => 1
  | a :: as, b :: bs => if a < b then -1 else if b < a then 1 else lexCmp as bs

namespace Spec

/-- the abstract effect of each operation; `rem` of an absent text leaves the string (and raises);
    a formatted write at `pos ≤ len` replaces everything from `pos` on by the formatted text.
    (`pos > len` is outside the property; the code then writes behind the terminator and the text is unchanged.) -/
def step (a : List Byte) : Op → List Byte
  | .assign x => x
  | .concat x => a ++ x
  | .append x => a ++ x
  | .resize n => a.take n
  | .clear => []
  | .rem x => (removeFirst x a).getD a
  | .format pos f => if pos ≤ a.length then a.take pos ++ f else a

/-- does the operation raise? -/
def raises (a : List Byte) : Op → Bool
  | .rem x => (removeFirst x a).isNone
  | _ => false

def run (a : List Byte) : List Op → List Byte
  | [] => a
  | op :: ops => run (step a op) ops

/-- the abstract effect of an operation whose operand may be the target itself or a view into it: the operand is the text
    (or its suffix from `off`) at the moment of the call -/
def runA (a : List Byte) : List AOp → List Byte
  | [] => a
  | op :: ops => runA (step a (op.absOp a)) ops

end Spec

/-- every call of the history is in contract (`AOp.InContract`) for the text the target holds when the call is made
    (computed by the specification, not by the code) -/
def HistOK : List Byte → List AOp → Prop
  | _, [] => True
  | a, op :: ops => op.InContract a ∧ HistOK (Spec.step a (op.absOp a)) ops

instance : (a : List Byte) → (ops : List AOp) → Decidable (HistOK a ops)
  | _, [] => isTrue trivial
  | a, op :: ops =>
    have := instDecidableHistOK (Spec.step a (op.absOp a)) ops
    inferInstanceAs (Decidable (op.InContract a ∧ HistOK (Spec.step a (op.absOp a)) ops))

/-! ## formatted writes through `print_to_with` / `show_to` (src/Show.c): the position bookkeeping

  `print_to(out, pos, fmt, …)` is `print_to_with(out, pos, fmt, tuple(…))`.  Seen from a String target, `print_to_with`
  is a sequence of steps of two kinds:
    * `int off = format_to(out, pos, frag, val); … pos += off;`   in one of seven places (`Branch`), and
    * `pos = show_to(a, out, pos);`   for `%$`, where the Show instance of `a` makes further `print_to` calls.
  Nothing else ties the position to the bytes `String_Format_To` wrote, so the position updates are *parameters*
  (`PosParams`), regenerated from src/Show.c on every run (CelloGen/Str.lean `posParams`); `PosParams.modelled` is the
  arithmetic this model was written against and the theorems hold for every `PosParams.Lawful` set. -/

/-- the places of `print_to_with` that call `format_to` and then move the position -/
inductive Branch where
  | lit   -- a literal run
  | pct   -- `%%`
  | str   -- `%s`           → `c_str(a)`
  | int   -- `%d %i %o %u %x %X` → `c_int(a)`
  | flt   -- `%f %e %g %a …` → `c_float(a)`
  | chr   -- `%c`           → `c_int(a)`
  | ptr   -- `%p`           → the object
deriving Repr, DecidableEq, Inhabited

/-- the position arithmetic of `print_to_with` -/
structure PosParams where
  /-- the new `pos` after `int off = format_to(out, pos, …)` in a branch, as a function of the old `pos`, of `off`, and of
      `width` = the number of characters of the format the branch consumed (`fmt - start`, 2 for `%%`) -/
  adv : Branch → Nat → Nat → Nat → Nat
  /-- the new `pos` after `show_to(a, out, pos)` returned `ret` in the `%$` branch, as a function of old `pos` and `ret` -/
  shw : Nat → Nat → Nat

/-- the arithmetic this model was written against: `pos += off;` everywhere, `pos = show_to(a, out, pos);` -/
def PosParams.modelled : PosParams := { adv := fun _ pos off _ => pos + off, shw := fun _ ret => ret }

/-- what the theorems need: the position moves by exactly what `format_to` reported.  A literal run is printed verbatim
    (`off = width`), `%%` prints one character for two of the format (`off = 1`, `width = 2`) — so e.g. `pos += fmt - start`
    is lawful for literals and `pos += 2` is not lawful for `%%`. -/
structure PosParams.Lawful (Q : PosParams) : Prop where
  lit : ∀ pos off, Q.adv .lit pos off off = pos + off
  pct : ∀ pos, Q.adv .pct pos 1 2 = pos + 1
  spec : ∀ br, br ≠ .lit → br ≠ .pct → ∀ pos off width, Q.adv br pos off width = pos + off
  shw : ∀ pos ret, Q.shw pos ret = ret

theorem PosParams.modelled_lawful : PosParams.modelled.Lawful :=
  ⟨fun _ _ => rfl, fun _ => rfl, fun _ _ _ _ _ _ => rfl, fun _ _ => rfl⟩

/-- one step of `print_to_with` as the target sees it -/
inductive Item where
  /-- `int off = format_to(out, pos, frag, val); pos += off;` in branch `br`, having consumed `width` characters of the
      format; `txt` = what libc prints for `frag` and `val` -/
  | call (br : Branch) (width : Nat) (txt : List Byte)
  /-- `show_to(a, out, pos)` is entered from the `%$` branch: the caller's `pos` is kept … -/
  | enter
  /-- … and it returns `ret`: `pos = show_to(a, out, pos);` -/
  | leave
  /-- `format_to` in branch `br` returned a negative value (libc rejects the specification; the String is untouched,
      `formatToR`): `if (off < 0) { throw(FormatError, …); }` — the exception leaves `print_to_with` -/
  | rejected (br : Branch)
deriving Repr, DecidableEq, Inhabited

def Item.text : Item → List Byte
  | .call _ _ t => t
  | _ => []

/-- the text of all `format_to` calls, in order (up to the first one that fails, if any) -/
def textOf : List Item → List Byte
  | [] => []
  | .rejected _ :: _ => []
  | it :: r => it.text ++ textOf r

/-- the texts of the `format_to` calls -/
def callTexts : List Item → List (List Byte)
  | [] => []
  | .call _ _ t :: r => t :: callTexts r
  | .rejected _ :: _ => []
  | _ :: r => callTexts r

/-- does a `format_to` fail, so that `print_to_with` raises FormatError (after the calls before it were made)? -/
def raisesFormat : List Item → Bool
  | [] => false
  | .rejected _ :: _ => true
  | _ :: r => raisesFormat r

/-- a step as `print_to_with` can produce it: the text is a C string; a literal run is its own text, `%%` prints `%` -/
def Item.OK : Item → Prop
  | .call br w t => NulFree t ∧ (br = .lit → w = t.length) ∧ (br = .pct → w = 2 ∧ t = [37])
  | .rejected _ => False      -- libc accepts every specification (otherwise FormatError leaves: `C16_rejected_format`)
  | _ => True

/-- the same, executable (evaluated by the driver on every step list it runs) -/
def Item.okb : Item → Bool
  | .call br w t => !t.contains 0 && (br != .lit || w == t.length) && (br != .pct || (w == 2 && t == [37]))
  | .rejected _ => false
  | _ => true

/-- `print_to_with` on a String target: every `format_to` is `String_Format_To` at the current `pos` (one `realloc`, one
    `vsprintf` each), `pos` moves as the source says (`Q`); `stk` = the positions of the callers of the `show_to`s that are
    running.  Returns the object, the returned position and the access log. -/
def emit (P : Params) (Q : PosParams) (J : Nat → Byte) : Str → Nat → List Nat → List Item → Str × Nat × List Acc
  | s, pos, _, [] => (s, pos, [])
  | s, pos, stk, .call br w t :: r =>
    let res := formatTo P J s pos t
    let off := match res.out with | .ok n => n | _ => 0
    let (s', pos', lg) := emit P Q J res.st (Q.adv br pos off w) stk r
    (s', pos', res.log ++ lg)
  | s, pos, stk, .enter :: r => emit P Q J s pos (pos :: stk) r
  | s, pos, [], .leave :: r => emit P Q J s pos [] r
  | s, pos, p0 :: stk, .leave :: r => emit P Q J s (Q.shw p0 pos) stk r
  | s, pos, _, .rejected _ :: _ => ((formatToR P J s pos none).st, pos, [])     -- FormatError leaves; nothing more is written

/-- the same formatted writes as operations of a history: one `format_to` per call, at positions advancing by the length
    of what was written -/
def asFormats : Nat → List Item → List Op
  | _, [] => []
  | pos, .call _ _ t :: r => .format pos t :: asFormats (pos + t.length) r
  | _, .rejected _ :: _ => []
  | pos, _ :: r => asFormats pos r

/-! ### the format string -/

/-- segments of a format -/
inductive Seg where
  | lit (t : List Byte)                     -- maximal run without `%`
  | pct                                     -- `%%`
  | spec (body : List Byte) (conv : Byte)   -- `%` body conv
deriving Repr, DecidableEq, Inhabited

/-- `"diuoxXfFeEgGaAxcsp$"`: the characters that end a specification in `print_to_with` -/
def convSet : List Byte := [100, 105, 117, 111, 120, 88, 102, 70, 101, 69, 103, 71, 97, 65, 120, 99, 115, 112, 36]

/-- cut a format (a C string: no NUL) into segments the way `print_to_with` scans it; `none` = a `%` that no conversion
    character follows (the C scanner then leaves the format: outside "well-formed") -/
def parseSegs (conv : List Byte) : Nat → List Byte → Option (List Seg)
  | 0, _ => none
  | _ + 1, [] => some []
  | fuel + 1, c :: r =>
    if c = 37 then
      match r with
      | 37 :: r' => (parseSegs conv fuel r').map (Seg.pct :: ·)
      | _ =>
        match r.dropWhile (fun x => !conv.contains x) with
        | [] => none
        | d :: r' => (parseSegs conv fuel r').map (Seg.spec (r.takeWhile fun x => !conv.contains x) d :: ·)
    else
      (parseSegs conv fuel ((c :: r).dropWhile (· != 37))).map (Seg.lit ((c :: r).takeWhile (· != 37)) :: ·)

def parseFmt (fmt : List Byte) : Option (List Seg) := parseSegs convSet (fmt.length + 1) fmt

/-- which branch of `print_to_with` serves a conversion character (`$` is `show_to`, not a branch) -/
def branchOf (c : Byte) : Option Branch :=
  if c = 115 then some .str
  else if [100, 105, 111, 117, 120, 88].contains c then some .int
  else if [102, 70, 101, 69, 103, 71, 97, 65].contains c then some .flt
  else if c = 99 then some .chr
  else if c = 112 then some .ptr
  else none

/-- the steps `print_to_with` makes for a segmented format and an argument list: one `format_to` per literal run and per
    `%%`, one per specification with the next argument (`prim body conv a` = what libc prints for `%` body conv with the C
    value of `a`; `none` = `a` has no such C value — an exception, outside), `show_to` for `%$` (`shw a` = the steps the
    Show instance of `a` makes).  `none` also when the arguments run out (FormatError, C14). -/
def plan {α : Type} (prim : List Byte → Byte → α → Option (List Byte)) (shw : α → List Item) :
    List Seg → List α → Option (List Item)
  | [], _ => some []
  | .lit t :: r, as => (plan prim shw r as).map (Item.call .lit t.length t :: ·)
  | .pct :: r, as => (plan prim shw r as).map (Item.call .pct 2 [37] :: ·)
  | .spec _ _ :: _, [] => none
  | .spec b c :: r, a :: as =>
    if c = 36 then (plan prim shw r as).map (fun l => Item.enter :: shw a ++ Item.leave :: l)
    else
      match branchOf c, prim b c a with
      | some br, some t => (plan prim shw r as).map (Item.call br (b.length + 2) t :: ·)
      | _, _ => none

/-- `print_to_with(s, pos, fmt, args)` on a String target; `none` = the format is not well-formed or an argument is
    missing / of the wrong class -/
def printFmt {α : Type} (P : Params) (Q : PosParams) (J : Nat → Byte)
    (prim : List Byte → Byte → α → Option (List Byte)) (shw : α → List Item)
    (s : Str) (pos : Nat) (fmt : List Byte) (args : List α) : Option (Str × Nat × List Acc) :=
  match parseFmt fmt with
  | none => none
  | some segs => (plan prim shw segs args).map (emit P Q J s pos [])

/-! ### the built-in arguments the correspondence uses: Int, String, Tuple -/

inductive Val where
  | int (v : Int)
  | str (t : List Byte)
  | tup (items : List Val)
deriving Repr, Inhabited

mutual
/-- the Strings inside are C strings -/
def Val.nulFree : Val → Bool
  | .int _ => true
  | .str t => !t.contains 0
  | .tup vs => Val.nulFreeAll vs
def Val.nulFreeAll : List Val → Bool
  | [] => true
  | v :: r => v.nulFree && Val.nulFreeAll r
end

/-- `String_Show`'s `switch`: the characters that are written as a backslash and a second character -/
def escTable : List (Byte × Byte) :=
  [(7, 97), (8, 98), (12, 102), (10, 110), (13, 114), (9, 116), (11, 118), (92, 92), (39, 39), (34, 34), (63, 63)]

/-- the second character of the escape, if the character has one -/
def escOf (b : Byte) : Option Byte := (escTable.find? fun p => p.1 == b).map (·.2)

/-- the character of one digit -/
def digitByte (upper : Bool) (d : Nat) : Byte :=
  if d < 10 then (48 + d).toUInt8 else if d < 16 then ((if upper then 55 else 87) + d).toUInt8 else 42

def digitsAux (base : Nat) (upper : Bool) : Nat → Nat → List Byte → List Byte
  | 0, _, acc => acc
  | fuel + 1, n, acc =>
    let acc' := digitByte upper (n % base) :: acc
    if n / base = 0 then acc' else digitsAux base upper fuel (n / base) acc'

/-- the digits of `n` in base 2 … 16, most significant first -/
def digitsOf (base : Nat) (upper : Bool) (n : Nat) : List Byte := digitsAux base upper (n + 1) n []

/-- what `%li` prints -/
def decimal (v : Int) : List Byte := (if v < 0 then [45] else []) ++ digitsOf 10 false v.natAbs

/-- one character of `String_Show`: `print_to(out, pos, "\\a")` … or `print_to(out, pos, "%c", $I(*v))` -/
def showChar (b : Byte) : Item :=
  match escOf b with
  | some e => .call .lit 2 [92, e]
  | none => .call .chr 2 [b]

mutual
/-- the steps of `show_to(a, out, pos)` for the built-in Show instances: `Int_Show` (`print_to(out, pos, "%li", self)`),
    `String_Show` (quote, one `print_to` per character, quote), `Tuple_Show` (`"tuple("`, `print_to(out, pos, "%$", item)`
    and `", "` between items, `")"`) — each `pos = print_to(…)` of a Show instance is a `print_to_with` of its own,
    whose steps follow in line -/
def showVal : Val → List Item
  | .int v => [.call .int 3 (decimal v)]
  | .str t => .call .lit 1 [34] :: (t.map showChar ++ [.call .lit 1 [34]])
  | .tup vs => .call .lit 6 [116, 117, 112, 108, 101, 40] :: (showTupItems vs ++ [.call .lit 1 [41]])
def showTupItems : List Val → List Item
  | [] => []
  | [v] => .enter :: (showVal v ++ [.leave])
  | v :: w :: r => .enter :: (showVal v ++ .leave :: .call .lit 2 [44, 32] :: showTupItems (w :: r))
end

/-! ### `show_to(s, s, pos)`: String_Show into the String it shows (known finding KF-C16-alias-operand, site String_Show)

  `pos = print_to(out, pos, "\""); char* v = s->val; while (*v) { pos = print_to(out, pos, <escape | "%c">, …); v++; }
   return print_to(out, pos, "\"");` — with `out == self` the cursor `v` walks the very block that every `print_to`
  reallocates: once a `realloc` has moved it, `*v` reads freed memory; as long as none does, the text grows at least as
  fast as `v` advances and the walk never reaches a terminator. -/

/-- the walk: `i` = number of the `print_to` about to be made (for the allocator's choice `mv i`), `voff` = offset of `v` in the
    block it was taken from, `stale` = that block has been freed since; `none` = out of fuel, still walking -/
def showSelfLoop (P : Params) (J : Nat → Byte) (mv : Nat → Bool) :
    Nat → Nat → Str → Nat → Nat → Bool → List Acc → Option Res
  | 0, _, _, _, _, _, _ => none
  | fuel + 1, i, s, pos, voff, stale, lg =>
    if stale then some { st := s, out := .ub .useAfterFree, log := lg }            -- `*v`: the block `v` points into was freed
    else
      match s.buf[voff]? with
      | none => some { st := s, out := .ub .outOfBounds, log := lg }
      | some b =>
        if b == 0 then                                                              -- the walk is over: the closing quote
          let r := formatTo P J s pos [34]
          some { st := r.st, out := .ok (pos + 1), log := lg ++ [.rd voff 1 s.buf.length] ++ r.log }
        else
          let t := (showChar b).text
          let r := formatTo P J s pos t                                             -- reallocates the block `v` points into
          showSelfLoop P J mv fuel (i + 1) r.st (pos + t.length) (voff + 1) (mv i) (lg ++ [.rd voff 1 s.buf.length] ++ r.log)

/-- `show_to(s, s, pos)`: the opening quote is printed first (the text is already cut at `pos` when `v` is taken) -/
def showSelf (P : Params) (J : Nat → Byte) (mv : Nat → Bool) (fuel : Nat) (s : Str) (pos : Nat) : Option Res :=
  let r0 := formatTo P J s pos [34]
  showSelfLoop P J mv fuel 1 r0.st (pos + 1) 0 false r0.log

/-- flags, width, precision and `l` of a specification (the part of the printf grammar the correspondence renders) -/
structure SpecF where
  left : Bool := false
  zero : Bool := false
  plus : Bool := false
  width : Nat := 0
  prec : Option Nat := none
  long : Bool := false
deriving Repr, DecidableEq, Inhabited

def isDigit (b : Byte) : Bool := 48 ≤ b && b ≤ 57

/-- a decimal number of one or two digits -/
def takeNum : List Byte → Nat × List Byte
  | a :: b :: r => if isDigit a && isDigit b then ((a.toNat - 48) * 10 + (b.toNat - 48), r)
                   else if isDigit a then (a.toNat - 48, b :: r) else (0, a :: b :: r)
  | [a] => if isDigit a then (a.toNat - 48, []) else (0, [a])
  | [] => (0, [])

/-- body ::= ('-' | '0' | '+')* ([1-9][0-9]?)? ('.' [0-9][0-9]?)? 'l'? -/
def parseSpec (body : List Byte) : Option SpecF :=
  let fl := body.takeWhile fun b => b == 45 || b == 48 || b == 43
  let r := body.dropWhile fun b => b == 45 || b == 48 || b == 43
  let sp : SpecF := { left := fl.contains 45, zero := fl.contains 48, plus := fl.contains 43 }
  let (w, r) := match r with
    | a :: _ => if isDigit a then takeNum r else (0, r)
    | [] => (0, r)
  let sp := { sp with width := w }
  let (sp, r) := match r with
    | 46 :: a :: r' => if isDigit a then let (p, r'') := takeNum (a :: r'); ({ sp with prec := some p }, r'') else (sp, r)
    | _ => (sp, r)
  match r with
  | [] => some sp
  | [108] => some { sp with long := true }
  | _ => none

def padTo (sp : SpecF) (sign digits : List Byte) : List Byte :=
  let fill := sp.width - (sign.length + digits.length)
  if sp.left then sign ++ digits ++ List.replicate fill 32
  else if sp.zero then sign ++ List.replicate fill 48 ++ digits
  else List.replicate fill 32 ++ sign ++ digits

/-- what libc prints for `%` body conv with the C value of `v` (the `int64_t` of an Int read as `int` / `unsigned` without
    `l`, the `char*` of a String), for the part of the printf grammar the correspondence exercises:
    `%s` (`-`, width, precision), `%c` (`-`, width; not the NUL character), `%d %i` (`-`, `0`, `+`, width, `l`),
    `%u %x %X %o` (`-`, `0`, width, `l`).  `none` = outside that part. -/
def renderSpec (body : List Byte) (conv : Byte) (v : Val) : Option (List Byte) :=
  match parseSpec body, v with
  | some sp, .str t =>
    if conv = 115 && !sp.zero && !sp.plus && !sp.long then
      some (padTo sp [] (match sp.prec with | some p => t.take p | none => t))
    else none
  | some sp, .int n =>
    if sp.prec.isSome then none
    else if conv = 99 then
      let b := (n % 256).toNat.toUInt8
      if !sp.zero && !sp.plus && !sp.long && b != 0 then some (padTo sp [] [b]) else none
    else if conv = 100 || conv = 105 then
      let m := if sp.long then n else Int.bmod n (2 ^ 32)
      some (padTo sp (if m < 0 then [45] else if sp.plus then [43] else []) (digitsOf 10 false m.natAbs))
    else if sp.plus then none
    else
      let m := (n % (if sp.long then 2 ^ 64 else 2 ^ 32)).toNat
      if conv = 117 then some (padTo sp [] (digitsOf 10 false m))
      else if conv = 120 then some (padTo sp [] (digitsOf 16 false m))
      else if conv = 88 then some (padTo sp [] (digitsOf 16 true m))
      else if conv = 111 then some (padTo sp [] (digitsOf 8 false m))
      else none
  | _, _ => none

/-! ### reading from a String: `scan_from(s, pos, "%s", word)` -/

/-- `isspace` in the C locale -/
def isSpace (b : Byte) : Bool := b == 32 || (9 ≤ b && b ≤ 13)

/-- `String_Format_From(s, pos, "%s%n", buf, &off)` = `vsscanf(s->val + pos, …)` for `pos ≤ len`: skip white space, take
    the characters up to the next white space; `none` = input failure (nothing but white space: `scan_from` raises
    FormatError).  Returns the word and the new position `pos + off`. -/
def scanWord (s : Str) (pos : Nat) : Option (List Byte × Nat) :=
  let rest := cstrAt s.buf pos                      -- the C string that starts at `s->val + pos`
  let sp := rest.takeWhile isSpace
  let w := (rest.dropWhile isSpace).takeWhile (fun b => !isSpace b)
  if w.isEmpty then none else some (w, pos + sp.length + w.length)

/-! ## helpers for the driver (canonical dump) -/

def hexDigit (n : Nat) : Char := if n < 10 then Char.ofNat (48 + n) else Char.ofNat (87 + n)
def hexByte (b : Byte) : String := String.ofList [hexDigit (b.toNat / 16), hexDigit (b.toNat % 16)]
def hexOf (l : List Byte) : String := if l.isEmpty then "-" else String.join (l.map hexByte)

/-- FNV-1a, 64 bit, over a byte list (digest of whole allocations in the dump) -/
def fnv64 (l : List Byte) : UInt64 :=
  l.foldl (fun h b => (h ^^^ b.toUInt64) * 0x100000001b3) 0xcbf29ce484222325

def hex64 (v : UInt64) : String :=
  String.ofList ((List.range 16).map (fun i => hexDigit ((v.toNat >>> (4 * (15 - i))) % 16)))

end Cello.Str
