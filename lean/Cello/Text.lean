import CelloGen.Text
/-
  Cello/Text.lean — executable model of the text round trip of Cello values (property C15):

    src/String.c  String_Show / String_Look          (escape-aware writer and `%c`-by-`%c` reader)
    src/Num.c     Int_Show "%li" / Int_Look "%li",  Float_Show "%f" / Float_Look "%lf"
    src/Show.c    print_to_with / scan_from_with     (literal runs, `%%`, `%$`, numeric specifications, `%n` position accounting)
    src/String.c  String_Format_To / String_Format_From   (write at `val+pos`, truncating; every directive re-reads at `val+pos`)
    src/File.c    File_Format_To / File_Format_From       (`pos` ignored: the stream position decides)

  Bytes are `Nat`s (a C `char` is a value < 256; nothing here needs the bound, so the theorems hold a fortiori).
  The escape tables, delimiter bytes and the "does the escape arm `continue`" flag are *parameters* (`LookCfg`, `esc`): the
  instances used by the driver and by the theorems are the ones the translator extracts from the source (CelloGen/Text.lean).

  What libc does is modelled, not verified (see Props/C15.lean, trusted base): the integer conversions of printf and scanf
  (`printIntSpec`, `scanNumber`: every length modifier and `d i o u x X`), `%f` `%e` `%g` of printf (`printF` `printE` `printG`,
  exact, round-half-even) and the floating conversions of scanf into a `double` or a `float` (`scanFloating`, exact,
  round-half-even).  What `scan_from_with` does around them — which object it has scanf store into for which specification and
  how that becomes the `Int` / `Float` (commit 9114264) — is a parameter read from the source (`Cfg.intArms`, `intSigned`, `floatWide`).
-/
namespace Cello.Text


inductive Exc where
  | FormatError
deriving DecidableEq, Repr, Inhabited

def Exc.name : Exc → String
  | .FormatError => "FormatError"

/-- how a reading step ends -/
inductive Res (α : Type) where
  | ok (a : α)
  | raised (e : Exc)
  | ub                 -- a directive would read beyond the terminating NUL of a C string (`s->val + pos` with pos > strlen)
  | unmodelled         -- libc behaviour this model does not cover (hexadecimal floats, "inf"/"nan" text)
deriving Repr, DecidableEq, Inhabited

/-! ## The writer: `String_Show` -/

/-- one iteration of `while (*v) { switch (*v) {…} v++; }`: the table text, or `"%c"` of the byte itself -/
def showByte (esc : List (Nat × List Nat)) (b : Nat) : List Nat :=
  match esc.lookup b with
  | some t => t
  | none => [b]

/-- all the text `String_Show` writes for the C string `s` -/
def showString (esc : List (Nat × List Nat)) (opn cls : List Nat) (s : List Nat) : List Nat :=
  opn ++ s.flatMap (showByte esc) ++ cls

/-! ## Integers: the specifications `%[hh|h|l|ll|j|z|t|q][d|i|o|u|x|X]` of printf -/

/-- decimal digits of a natural number, most significant first; `"0"` for 0 -/
def natDigits (n : Nat) : List Nat :=
  if h : n < 10 then [48 + n] else natDigits (n / 10) ++ [48 + n % 10]
decreasing_by omega

/-- `"%li"` / `"%ld"` of printf for an `int64_t` -/
def printInt (n : Int) : List Nat :=
  if n < 0 then 45 :: natDigits n.natAbs else natDigits n.natAbs

/-- the character printf writes for the digit `d`: `0-9`, then `a-f` (`%x`, `%o` never gets there) or `A-F` (`%X`) -/
def digitChar (upper : Bool) (d : Nat) : Nat := if d < 10 then 48 + d else if upper then 55 + d else 87 + d

/-- digits of `n` in base `base` (8 or 16 here), most significant first; `"0"` for 0 -/
def digitsB (base : Nat) (upper : Bool) (n : Nat) : List Nat :=
  if h : n < base ∨ base < 2 then [digitChar upper n] else digitsB base upper (n / base) ++ [digitChar upper (n % base)]
termination_by n
decreasing_by exact Nat.div_lt_self (by omega) (by omega)

/-- length modifiers of an integer specification -/
inductive IMod where
  | none | hh | h | l | ll | j | z | t | q
deriving DecidableEq, Repr, Inhabited

/-- integer conversions -/
inductive IConv where
  | d | i | o | u | x | X
deriving DecidableEq, Repr, Inhabited

def IMod.text : IMod → List Nat
  | .none => [] | .hh => [104, 104] | .h => [104] | .l => [108] | .ll => [108, 108]
  | .j => [106] | .z => [122] | .t => [116] | .q => [113]

def IConv.byte : IConv → Nat
  | .d => 100 | .i => 105 | .o => 111 | .u => 117 | .x => 120 | .X => 88

def IMod.all : List IMod := [.none, .hh, .h, .l, .ll, .j, .z, .t, .q]
def IConv.all : List IConv := [.d, .i, .o, .u, .x, .X]

/-- **libc's** reading of the length modifier (printf and scanf alike, x86-64 glibc): the width in bits of the integer that is
    converted — `hh` char, `h` short, none int, `l ll j z t q` 64 bits -/
def IMod.width : IMod → Nat
  | .hh => 8 | .h => 16 | .none => 32 | _ => 64

/-- `d` and `i` convert a signed integer, the others an unsigned one (libc) -/
def IConv.signed : IConv → Bool
  | .d | .i => true
  | _ => false

/-- the low `w` bits of `n` as an unsigned number: C's conversion to an unsigned type of `w` bits -/
def zext (w : Nat) (n : Int) : Int := n % (2 : Int) ^ w

/-- the low `w` bits of `n` as a two's-complement number: C's conversion to a signed type of `w` bits (as gcc/clang define it) -/
def sext (w : Nat) (n : Int) : Int :=
  if zext w n < (2 : Int) ^ (w - 1) then zext w n else zext w n - (2 : Int) ^ w

/-- what printf writes for the `int64_t` argument `n` under `%<m><c>`: the argument is converted to the type the modifier names
    (its low `m.width` bits, signed for `d`/`i`, unsigned otherwise) and written in base 10 / 8 / 16; no flags, width or precision -/
def printIntSpec (m : IMod) (c : IConv) (n : Int) : List Nat :=
  match c with
  | .d | .i => printInt (sext m.width n)
  | .u => natDigits (zext m.width n).toNat
  | .o => digitsB 8 false (zext m.width n).toNat
  | .x => digitsB 16 false (zext m.width n).toNat
  | .X => digitsB 16 true (zext m.width n).toNat

/-! ## the integer conversions of scanf (glibc `vfscanf`, number conversion + `strtol` / `strtoul`) -/

/-- `isspace` in the C locale -/
def isSpace (b : Nat) : Bool := b = 32 || (9 ≤ b && b ≤ 13)

def skipSpace : List Nat → List Nat
  | [] => []
  | b :: r => if isSpace b then skipSpace r else b :: r

/-- value of `b` as a digit in base `base`, if it is one -/
def digitVal (base : Nat) (b : Nat) : Option Nat :=
  let v : Option Nat :=
    if 48 ≤ b ∧ b ≤ 57 then some (b - 48)
    else if 97 ≤ b ∧ b ≤ 102 then some (b - 87)
    else if 65 ≤ b ∧ b ≤ 70 then some (b - 55)
    else none
  match v with
  | some d => if d < base then some d else none
  | none => none

/-- longest run of base-`base` digits: accumulated value, number of digits, rest -/
def readDigits (base : Nat) : List Nat → Nat → Nat → Nat × Nat × List Nat
  | [], acc, k => (acc, k, [])
  | b :: r, acc, k =>
    match digitVal base b with
    | some d => readDigits base r (acc * base + d) (k + 1)
    | none => (acc, k, b :: r)

/-- what `strtol` stores for magnitude `v` and sign `neg`: saturation at LONG_MAX / LONG_MIN -/
def clampLong (neg : Bool) (v : Nat) : Int :=
  if neg then (if v ≥ 2 ^ 63 then -(2 ^ 63 : Int) else -(v : Int))
  else (if v ≥ 2 ^ 63 then (2 ^ 63 - 1 : Int) else (v : Int))

/-- what `strtoul` returns for magnitude `v` and sign `neg`: ULONG_MAX on overflow, otherwise the (negated) value modulo 2^64 -/
def clampULong (neg : Bool) (v : Nat) : Nat :=
  if v ≥ 2 ^ 64 then 2 ^ 64 - 1 else if neg then (2 ^ 64 - v) % 2 ^ 64 else v

/-- the base `%i` chooses from the text after the sign: `0x`/`0X` → 16, a leading `0` → 8, otherwise 10 -/
def autoBase : List Nat → Nat
  | 48 :: x :: _ => if x = 120 ∨ x = 88 then 16 else 8
  | [48] => 8
  | _ => 10

/-- does the text (after the sign) start with `0x` / `0X` -/
def hexPrefix : List Nat → Bool
  | 48 :: x :: _ => x == 120 || x == 88
  | _ => false

/-- the base in which scanf reads: `%i` from the prefix (as `strtol(…, 0)`), the others fixed -/
def IConv.scanBase (c : IConv) (afterSign : List Nat) : Nat :=
  match c with
  | .i => autoBase afterSign
  | .d | .u => 10
  | .o => 8
  | .x | .X => 16

/-- the number conversion of scanf for the conversion character `c`: skip white space, optional sign, for base 16 an optional
    `0x`, longest digit run in the base; `strtol` (`d`, `i`) or `strtoul` (`o u x X`) of that text.  Returns the 64-bit pattern
    of `num.l` / `num.ul` (before it is narrowed to the destination) and the unread rest.
    End of input before any character of the number, or no digit: the conversion fails (`err < 1`) → FormatError. -/
def scanNumber (c : IConv) (input : List Nat) : Res (Nat × List Nat) :=
  match skipSpace input with
  | [] => .raised .FormatError
  | ch :: r =>
    let neg : Bool := ch = 45
    let i2 := if ch = 45 ∨ ch = 43 then r else ch :: r
    let base : Nat := c.scanBase i2
    let fin (v : Nat) : Nat := if c.signed then (clampLong neg v % (2 : Int) ^ 64).toNat else clampULong neg v
    if base = 16 ∧ hexPrefix i2 = true then
      -- "0x" is consumed; with no hexadecimal digit after it glibc still converts the buffer "0x" (value 0)
      let (v, _, rest) := readDigits 16 (i2.drop 2) 0 0
      .ok (fin v, rest)
    else
      let (v, k, rest) := readDigits base i2 0 0
      if k = 0 then .raised .FormatError else .ok (fin v, rest)

/-! ### where `scan_from_with` has the number stored, and how it becomes the `Int` (src/Show.c, commit 9114264) -/

/-- a test on `fmt_buf` in the integer branch of `scan_from_with` -/
inductive SpecTest where
  | anyOf (cs : List Nat)     -- `strpbrk(fmt_buf, "…")`
  | sub (s : List Nat)        -- `strstr(fmt_buf, "…")`
  | has (c : Nat)             -- `strchr(fmt_buf, '…')`
  | always                    -- the final `else` (or code without a test)
deriving DecidableEq, Repr, Inhabited

/-- does `s` occur in `l` -/
def hasSub (s : List Nat) : List Nat → Bool
  | [] => s.isEmpty
  | b :: r => s.isPrefixOf (b :: r) || hasSub s r

def SpecTest.holds : SpecTest → List Nat → Bool
  | .anyOf cs, buf => buf.any (fun b => cs.contains b)
  | .sub s, buf => hasSub s buf
  | .has c, buf => buf.contains c
  | .always, _ => true

/-- one arm of the integer branch: the test, the width in bits of the object whose address is given to scanf, and whether that
    object is a temporary that is then widened by the signedness of the conversion (`tmp = sgn ? (long)t : (long)(unsigned T)t`)
    — `false`: scanf is given `&tmp`, the `long` itself -/
structure IntArm where
  test : SpecTest
  bits : Nat
  widen : Bool
deriving DecidableEq, Repr, Inhabited

def selectArm (arms : List IntArm) (buf : List Nat) : Option IntArm := arms.find? (fun a => a.test.holds buf)

/-- the `Int` that results when libc stores the low `w` bits of the pattern `p` into the zero-initialised object of the arm
    (`w ≤ arm.bits`, little-endian: the other bytes stay 0): a temporary `t` is widened by `sgn` — `(long)t`, or
    `(long)(unsigned T)t` —; the `long` is read as it is -/
def finishInt (arm : IntArm) (w : Nat) (sgn : Bool) (p : Nat) : Int :=
  let stored : Int := ((p % 2 ^ w : Nat) : Int)
  if arm.widen && !sgn then sext 64 (zext arm.bits stored) else sext arm.bits stored

/-! ## `"%f"` `"%e"` `"%g"` of printf and the floating conversions of scanf on IEEE-754 binary64, exactly (values are carried as their 64 bits) -/

/-- sign, integer significand `m` and exponent `e` with |x| = m · 2^e (finite `bits` only) -/
def fDecode (bits : Nat) : Bool × Nat × Int :=
  let sg : Bool := bits / 2 ^ 63 % 2 = 1
  let ex : Nat := bits / 2 ^ 52 % 2048
  let fr : Nat := bits % 2 ^ 52
  if ex = 0 then (sg, fr, -1074) else (sg, fr + 2 ^ 52, (ex : Int) - 1075)

def fFinite (bits : Nat) : Bool := bits < 2 ^ 64 && bits / 2 ^ 52 % 2048 ≠ 2047

/-- `num/den` rounded to the nearest integer, ties to even -/
def roundHalfEven (num den : Nat) : Nat :=
  let q := num / den
  let r := num % den
  if 2 * r > den ∨ (2 * r = den ∧ q % 2 = 1) then q + 1 else q

/-- the scaled value `%f` rounds: |x| · 10^6 rounded to an integer (glibc rounds the exact binary value, ties to even) -/
def fScaled (m : Nat) (e : Int) : Nat :=
  if e ≥ 0 then m * 2 ^ e.toNat * 10 ^ 6 else roundHalfEven (m * 10 ^ 6) (2 ^ (-e).toNat)

/-- `"%f"`: the exact value rounded to 6 decimals -/
def printF (bits : Nat) : List Nat :=
  let (sg, m, e) := fDecode bits
  let q := fScaled m e
  (if sg then [45] else []) ++ natDigits (q / 10 ^ 6) ++ [46] ++ (natDigits (10 ^ 6 + q % 10 ^ 6)).drop 1

/-- is `n/d ≥ 10^k` -/
def geTenPow (n d : Nat) (k : Int) : Bool :=
  if k ≥ 0 then n ≥ d * 10 ^ k.toNat else n * 10 ^ (-k).toNat ≥ d

/-- `⌊log10 (n/d)⌋` for `n, d > 0`: the digit counts differ from it by at most one -/
def floorLog10 (n d : Nat) : Int :=
  let c : Int := ((natDigits n).length : Int) - ((natDigits d).length : Int)
  if geTenPow n d c then c else c - 1

/-- `n/d · 10^s` rounded to the nearest integer, ties to even -/
def scaleRound (n d : Nat) (s : Int) : Nat :=
  if s ≥ 0 then roundHalfEven (n * 10 ^ s.toNat) d else roundHalfEven n (d * 10 ^ (-s).toNat)

/-- `P+1` significant decimal digits of `n/d > 0`, correctly rounded: `(D, X)` with `10^P ≤ D < 10^(P+1)` and `n/d ≈ D · 10^(X-P)` -/
def sciDigits (P : Nat) (n d : Nat) : Nat × Int :=
  let x0 := floorLog10 n d
  let d0 := scaleRound n d ((P : Int) - x0)
  if d0 ≥ 10 ^ (P + 1) then (10 ^ P, x0 + 1) else (d0, x0)

/-- the exponent part `e±dd` (at least two digits) -/
def expText (upper : Bool) (x : Int) : List Nat :=
  [if upper then 69 else 101, if x < 0 then 45 else 43] ++ (if x.natAbs < 10 then [48] else []) ++ natDigits x.natAbs

/-- the exact value of a non-zero finite double as a fraction -/
def fFrac (m : Nat) (e : Int) : Nat × Nat := if e ≥ 0 then (m * 2 ^ e.toNat, 1) else (m, 2 ^ (-e).toNat)

/-- `"%e"` / `"%E"`: one digit, the point, six digits, the exponent -/
def printE (upper : Bool) (bits : Nat) : List Nat :=
  let (sg, m, e) := fDecode bits
  let dx : Nat × Int := if m = 0 then (0, 0) else sciDigits 6 (fFrac m e).1 (fFrac m e).2
  (if sg then [45] else []) ++ natDigits (dx.1 / 10 ^ 6) ++ [46] ++ (natDigits (10 ^ 6 + dx.1 % 10 ^ 6)).drop 1 ++ expText upper dx.2

/-- trailing zeros removed -/
def stripZeros (l : List Nat) : List Nat := (l.reverse.dropWhile (· == 48)).reverse

/-- `"%g"` / `"%G"` (precision 6): six significant digits; style `e` when the exponent is < -4 or ≥ 6, style `f` otherwise;
    trailing zeros of the fraction and an empty fraction's point are removed -/
def printG (upper : Bool) (bits : Nat) : List Nat :=
  let (sg, m, e) := fDecode bits
  let sign : List Nat := if sg then [45] else []
  if m = 0 then sign ++ [48]
  else
    let dx := sciDigits 5 (fFrac m e).1 (fFrac m e).2
    let ds := natDigits dx.1
    let x := dx.2
    let pt (frac : List Nat) : List Nat := if frac.isEmpty then [] else 46 :: frac
    if x < -4 ∨ x ≥ 6 then sign ++ ds.take 1 ++ pt (stripZeros (ds.drop 1)) ++ expText upper x
    else if x ≥ 0 then sign ++ ds.take (x.toNat + 1) ++ pt (stripZeros (ds.drop (x.toNat + 1)))
    else sign ++ [48] ++ pt (stripZeros (List.replicate ((-x).toNat - 1) 48 ++ ds))

/-- `n/d / 2^e` as a fraction of naturals -/
def scalePair (n d : Nat) (e : Int) : Nat × Nat :=
  if e ≥ 0 then (n, d * 2 ^ e.toNat) else (n * 2 ^ (-e).toNat, d)

/-- `n/d` (`n, d > 0`) rounded to the nearest `m · 2^e` with `m < 2^prec` and `e ≥ emin` (ties to even); no upper bound on `e`.
    `e0` is the exponent estimated from the bit lengths (off by at most one), `e1` the exponent that puts the quotient into
    `[2^(prec-1), 2^prec)`, `e2` that exponent clamped to `emin` (subnormal range) -/
def roundRat (prec : Nat) (emin : Int) (n d : Nat) : Nat × Int :=
  let e0 : Int := (n.log2 : Int) - (d.log2 : Int) - ((prec : Int) - 1)
  let q0 : Nat := (scalePair n d e0).1 / (scalePair n d e0).2
  let e1 : Int := if q0 ≥ 2 ^ prec then e0 + 1 else if q0 < 2 ^ (prec - 1) then e0 - 1 else e0
  let e2 : Int := if e1 < emin then emin else e1
  let m := roundHalfEven (scalePair n d e2).1 (scalePair n d e2).2
  if m ≥ 2 ^ prec then (2 ^ (prec - 1), e2 + 1) else (m, e2)

def signBit (sg : Bool) : Nat := if sg then 2 ^ 63 else 0

/-- the bits of the binary64 `(−1)^sg · m · 2^e` for `m < 2^53` normalised (`m < 2^52` only with `e = −1074`); HUGE_VAL on overflow -/
def encode64 (sg : Bool) (m : Nat) (e : Int) : Nat :=
  if m < 2 ^ 52 then signBit sg + m                           -- subnormal (exponent field 0)
  else if e + 1075 ≥ 2047 then signBit sg + 2047 * 2 ^ 52     -- overflow
  else signBit sg + (e + 1075).toNat * 2 ^ 52 + (m - 2 ^ 52)

/-- the binary64 nearest to `n/d` (ties to even; overflow gives infinity), with sign bit `sg`; `d > 0` -/
def ratToBits (sg : Bool) (n d : Nat) : Nat :=
  if n = 0 then signBit sg else
  let me := roundRat 53 (-1074) n d
  encode64 sg me.1 me.2

/-- a binary32 value `m · 2^e` (`m < 2^24`) with its significand shifted to 53 bits: every binary32 is a normal binary64 -/
def widen32 (m : Nat) (e : Int) : Nat × Int :=
  if m = 0 then (0, -1074) else (m * 2 ^ (52 - m.log2), e - ((52 - m.log2 : Nat) : Int))

/-- the **binary32** nearest to `n/d` (what `strtof` returns: ties to even, infinity from 2^128 on, subnormals down to 2^-149),
    converted to `double` as `$F(tmp)` does -/
def ratToBits32 (sg : Bool) (n d : Nat) : Nat :=
  if n = 0 then signBit sg else
  let me := roundRat 24 (-149) n d
  if me.2 ≥ 105 then signBit sg + 2047 * 2 ^ 52
  else encode64 sg (widen32 me.1 me.2).1 (widen32 me.1 me.2).2

def isDigit (b : Nat) : Bool := 48 ≤ b && b ≤ 57

/-- longest run of decimal digits -/
def spanDigits : List Nat → List Nat × List Nat
  | [] => ([], [])
  | b :: r => if isDigit b then let (d, rest) := spanDigits r; (b :: d, rest) else ([], b :: r)

def digitsVal (ds : List Nat) : Nat := ds.foldl (fun a b => a * 10 + (b - 48)) 0

/-- the floating value nearest to (−1)^neg · mant · 10^k (what `strtod` — `narrow`: `strtof` — returns for that decimal text) -/
def decToBitsW (narrow : Bool) (neg : Bool) (mant : Nat) (k : Int) : Nat :=
  -- 10^(k+len-1) ≤ value < 10^(k+len): far outside the range the result is HUGE_VAL / zero whatever the digits
  let len : Int := (natDigits mant).length
  let r2b := if narrow then ratToBits32 else ratToBits
  if mant = 0 then signBit neg
  else if k + len > 400 then signBit neg + 2047 * 2 ^ 52
  else if k + len < -400 then signBit neg
  else if k ≥ 0 then r2b neg (mant * 10 ^ k.toNat) 1 else r2b neg mant (10 ^ (-k).toNat)

/-- mantissa of a decimal floating text: digits, optionally `.` and more digits; returns integer digits, fraction digits, rest -/
def spanMantissa (l : List Nat) : List Nat × List Nat × List Nat :=
  match (spanDigits l).2 with
  | 46 :: r1' => ((spanDigits l).1, (spanDigits r1').1, (spanDigits r1').2)
  | _ => ((spanDigits l).1, [], (spanDigits l).2)

/-- exponent part (consulted once a digit was read): `e`/`E`, an optional sign directly after it, digits — all of which are
    *consumed* even when no exponent digit follows (then `strtod` converts the mantissa alone) -/
def spanExponent (l : List Nat) : Int × List Nat :=
  match l with
  | e :: r =>
    if e = 101 ∨ e = 69 then
      let sr : Bool × List Nat := match r with
        | s :: t => if s = 45 then (true, t) else if s = 43 then (false, t) else (false, r)
        | [] => (false, r)
      let ed := spanDigits sr.2
      ((if sr.1 then -(digitsVal ed.1 : Int) else (digitsVal ed.1 : Int)), ed.2)
    else (0, l)
  | [] => (0, l)

def lower (b : Nat) : Nat := if 65 ≤ b ∧ b ≤ 90 then b + 32 else b

def isHexDigit (b : Nat) : Bool := isDigit b || (97 ≤ lower b && lower b ≤ 102)

/-- text after the sign that glibc treats specially: `nan`, `inf` (any case) and hexadecimal floats are outside this model
    (`some false`); a text that starts like one of them but is not one makes the conversion fail (`some true`) -/
def floatSpecial : List Nat → Option Bool
  | x :: r =>
    if lower x = 110 then       -- n: "nan" or a matching failure
      (match r with | a :: n :: _ => if lower a = 97 ∧ lower n = 110 then some false else some true | _ => some true)
    else if lower x = 105 then  -- i: "inf" or a matching failure
      (match r with | n :: f :: _ => if lower n = 110 ∧ lower f = 102 then some false else some true | _ => some true)
    else if x = 48 then
      (match r with
       | p :: r' => if lower p = 120 then (match r' with | h :: _ => if isHexDigit h || h == 46 then some false else some true | [] => some true) else none
       | [] => none)
    else none
  | [] => none

/-- the floating conversions of scanf (`f F e E g G` read alike) on decimal text (glibc): white space, sign, digits with at most one
    `.`, exponent part; the conversion fails (`err < 1` → FormatError) at the end of input or when there is no digit.
    `narrow = false`: the destination is a `double` (`strtod`); `narrow = true`: it is a `float` (`strtof`), widened afterwards.
    `inf`/`nan`/hexadecimal input is `unmodelled`. -/
def scanFloating (narrow : Bool) (input : List Nat) : Res (Nat × List Nat) :=
  match skipSpace input with
  | [] => .raised .FormatError
  | c :: r =>
    let neg : Bool := c = 45
    let i2 := if c = 45 ∨ c = 43 then r else c :: r
    if i2.isEmpty then .raised .FormatError
    else if floatSpecial i2 = some false then .unmodelled
    else if floatSpecial i2 = some true then .raised .FormatError
    else
      let m := spanMantissa i2
      -- a lone "." is consumed by glibc too, but with no digit the conversion fails either way
      if m.1.length + m.2.1.length = 0 then .raised .FormatError
      else
        let e := spanExponent m.2.2
        .ok (decToBitsW narrow neg (digitsVal (m.1 ++ m.2.1)) (e.1 - m.2.1.length), e.2)

/-- scanf `%lf` -/
def scanDouble (input : List Nat) : Res (Nat × List Nat) := scanFloating false input

/-- floating conversions -/
inductive FConv where
  | f | F | e | E | g | G
deriving DecidableEq, Repr, Inhabited

def FConv.byte : FConv → Nat
  | .f => 102 | .F => 70 | .e => 101 | .E => 69 | .g => 103 | .G => 71

def FConv.all : List FConv := [.f, .F, .e, .E, .g, .G]

/-- what printf writes for a finite double under `%<c>` / `%l<c>` (`l` has no effect in printf; no flags, width or precision) -/
def printFloatSpec (c : FConv) (bits : Nat) : List Nat :=
  match c with
  | .f | .F => printF bits
  | .e => printE false bits
  | .E => printE true bits
  | .g => printG false bits
  | .G => printG true bits

/-- the value a floating conversion of scanf (`narrow`: into a `float`) reads from what `%<c>` printed for `bits` -/
def reparseSpec (narrow : Bool) (c : FConv) (bits : Nat) : Nat :=
  match scanFloating narrow (printFloatSpec c bits) with
  | .ok (v, _) => v
  | _ => bits

/-- the double `%lf` reads from what `%f` printed for `bits` -/
def reparse (bits : Nat) : Nat := reparseSpec false .f bits

/-- is the finite double `bits` the value of some `float` (binary32): at most 24 significant bits, exponent range of binary32 -/
def isFloat32 (bits : Nat) : Bool :=
  let (_, m, e) := fDecode bits
  m == 0 ||
    -- m = m' · 2^t with m' odd: 24 bits means t ≥ 29 when m has 53; value m'·2^(e+t) needs e+t ≥ -149 after using at most 24 bits
    (let m24 := m / 2 ^ 29
     m24 * 2 ^ 29 == m && 2 ^ 52 ≤ m && e + 29 ≥ -149 && e + 29 ≤ 104) ||
    -- float subnormals and small normals are normal doubles with trailing zeros: m · 2^e = k · 2^-149, k < 2^24
    (2 ^ 52 ≤ m && e + 29 < -149 && e ≥ -149 - 52 && m % 2 ^ (-149 - e).toNat == 0)

/-! ## The reader: `String_Look` -/

/-- the bytes and tables `String_Look` uses, and whether the escape arm ends in `continue` (CelloGen.Text.lookContinues) -/
structure LookCfg where
  opn : Nat
  cls : Nat
  escb : Nat
  esc : List (Nat × List Nat)
  continues : Bool

/-- `String_Concat(self, $S(t))`: `strcat` appends up to the first NUL -/
def cstr (t : List Nat) : List Nat := t.takeWhile (· ≠ 0)

/-- the `while (true)` loop of `String_Look`.  `input` is what is still unread, `pos` the position counter threaded through the
    `scan_from(input, pos, "%c", chr)` calls (each adds the `%n` count 1), `acc` the value built so far.  Returns the value (also on
    error: the target was cleared and partly filled) and either the unread rest with the final `pos`, or the exception: a `%c` at the
    end of the input fails ("Unable to input Char!"), an unknown escape letter throws. -/
def lookLoop (c : LookCfg) : List Nat → Nat → List Nat → List Nat × Res (List Nat × Nat)
  | [], _, acc => (acc, .raised .FormatError)
  | b :: r, pos, acc =>
    if b = c.cls then (acc, .ok (r, pos + 1))
    else if b = c.escb then
      match r with
      | [] => (acc, .raised .FormatError)
      | l :: r' =>
        match c.esc.lookup l with
        | none => (acc, .raised .FormatError)
        | some t =>
          if c.continues then lookLoop c r' (pos + 2) (acc ++ cstr t)
          else lookLoop c r' (pos + 2) (acc ++ cstr t ++ cstr [l])   -- falls out of the `if`: the letter is appended as well
    else lookLoop c r (pos + 1) (acc ++ cstr [b])

/-- `String_Look`: `String_Clear`, the opening delimiter, the loop -/
def lookString (c : LookCfg) (input : List Nat) (pos : Nat) : List Nat × Res (List Nat × Nat) :=
  match input with
  | [] => ([], .raised .FormatError)
  | b :: r => if b = c.opn then lookLoop c r (pos + 1) [] else ([], .raised .FormatError)

/-! ## Sinks and sources: String and File -/

inductive Kind where
  | str
  | file
deriving DecidableEq, Repr, Inhabited

/-- the object written to: the bytes of the String / the file -/
structure Sink where
  kind : Kind
  data : List Nat
deriving Repr, DecidableEq

/-- `format_to(out, pos, text)` for directive-free text: `String_Format_To` reallocates to `pos + size + 1` and prints at `val + pos`
    (whatever followed `pos` is cut off; `pos ≤ strlen` is the caller's obligation), `File_Format_To` ignores `pos` and writes at the
    stream position (here: the end).  The call returns `text.length`, which the callers add to `pos`. -/
def Sink.put (o : Sink) (pos : Nat) (t : List Nat) : Sink :=
  match o.kind with
  | .str => { o with data := o.data.take pos ++ t }
  | .file => { o with data := o.data ++ t }

/-- `String_Show(self, out, pos)` call by call: opening text, one `print_to` per byte, closing text; returns the sink and the final `pos` -/
def showStringTo (esc : List (Nat × List Nat)) (opn cls : List Nat) (s : List Nat) (o : Sink) (pos : Nat) : Sink × Nat :=
  let o1 := o.put pos opn
  let p1 := pos + opn.length
  let (o2, p2) := s.foldl (fun (st : Sink × Nat) b => (st.1.put st.2 (showByte esc b), st.2 + (showByte esc b).length)) (o1, p1)
  (o2.put p2 cls, p2 + cls.length)

/-- the object read from: all its bytes and, for a File, the stream position -/
structure Input where
  kind : Kind
  text : List Nat
  cur : Nat
deriving Repr, DecidableEq

/-- what a directive started at `pos` sees: `s->val + pos` for a String (undefined beyond the NUL), the stream for a File -/
def Input.view (i : Input) (pos : Nat) : Option (List Nat) :=
  match i.kind with
  | .str => if pos ≤ i.text.length then some (i.text.drop pos) else none
  | .file => some (i.text.drop i.cur)

/-- a File's stream moves by what was really consumed; a String has no state -/
def Input.adv (i : Input) (k : Nat) : Input :=
  match i.kind with
  | .str => i
  | .file => { i with cur := i.cur + k }

/-- run a reader that threads `pos` on the view at `pos` -/
def Input.run {β : Type} (i : Input) (pos : Nat) (dflt : β) (rd : List Nat → Nat → β × Res (List Nat × Nat)) :
    β × Res (Input × Nat) :=
  match i.view pos with
  | none => (dflt, .ub)
  | some l =>
    match rd l pos with
    | (b, .ok (rest, pos')) => (b, .ok (i.adv (l.length - rest.length), pos'))
    | (b, .raised e) => (b, .raised e)
    | (b, .ub) => (b, .ub)
    | (b, .unmodelled) => (b, .unmodelled)

/-- a conversion directive followed by `%n`: `pos += off` with `off` = number of characters the directive consumed -/
def withN {α : Type} (rd : List Nat → Res (α × List Nat)) (dflt : α) : List Nat → Nat → α × Res (List Nat × Nat) :=
  fun l pos =>
    match rd l with
    | .ok (a, rest) => (a, .ok (rest, pos + (l.length - rest.length)))
    | .raised e => (dflt, .raised e)
    | .ub => (dflt, .ub)
    | .unmodelled => (dflt, .unmodelled)

/-- scanf matching of directive-free format text against the input: a white-space byte of the format skips any run of
    white space, any other byte must be the next input byte, otherwise matching stops there -/
def matchLit : List Nat → List Nat → List Nat
  | [], inp => inp
  | f :: fs, inp =>
    if isSpace f then matchLit fs (skipSpace inp)
    else match inp with
      | [] => []
      | b :: r => if b = f then matchLit fs r else b :: r

/-! ## Sequences: what `print_to_with` writes and `scan_from_with` reads for a list of format items -/

inductive Val where
  | str (s : List Nat)
  | int (n : Int)
  | flt (bits : Nat)
deriving Repr, DecidableEq, Inhabited

/-- one segment of a format string together with the argument it prints -/
inductive Item where
  | shw (v : Val)                                  -- `%$`
  | ispec (m : IMod) (c : IConv) (n : Int)         -- `%<m><c>` with an Int argument: `%d %hhx %lu %ji …`
  | fspec (l : Bool) (c : FConv) (bits : Nat)      -- `%<c>` / `%l<c>` with a Float argument: `%f %le %G …`
  | lit (t : List Nat)                             -- a literal run (no `%`, no NUL, not empty)
  | pct                                            -- `%%`
deriving Repr, DecidableEq, Inhabited

/-- `%li` / `%ld` / `%lf` (the specifications of the first version of this model) -/
abbrev Item.li (n : Int) : Item := .ispec .l .i n
abbrev Item.ld (n : Int) : Item := .ispec .l .d n
abbrev Item.lf (bits : Nat) : Item := .fspec true .f bits

/-- the source-derived parameters -/
structure Cfg where
  showEsc : List (Nat × List Nat)
  showOpen : List Nat
  showClose : List Nat
  look : LookCfg
  pctUsesN : Bool      -- `%%` is read with "%%%n" and `pos += off` (commit 619a9b3); otherwise `pos += pctAdvance`
  pctAdvance : Nat
  scanConv : List Nat
  printConv : List Nat
  intArms : List IntArm        -- the arms of the integer branch of `scan_from_with`, in order (commit 9114264)
  intSigned : List Nat         -- the conversion characters for which `sgn` is true there
  floatWide : List Nat         -- `strchr(fmt_buf, '…')`: the characters whose presence selects the `double` arm of the floating branch

/-- the text of an integer / floating specification -/
def ispecFmt (m : IMod) (c : IConv) : List Nat := 37 :: (m.text ++ [c.byte])
def fspecFmt (l : Bool) (c : FConv) : List Nat := 37 :: ((if l then [108] else []) ++ [c.byte])

/-- the text one item produces -/
def Item.text (c : Cfg) : Item → List Nat
  | .shw (.str s) => showString c.showEsc c.showOpen c.showClose s
  | .shw (.int n) => printInt n
  | .shw (.flt b) => printF b
  | .ispec m cv n => printIntSpec m cv n
  | .fspec _ cv b => printFloatSpec cv b
  | .lit t => t
  | .pct => [37]

/-- `print_to_with` on one segment: the sink and the new `pos` -/
def printItem (c : Cfg) (o : Sink) (pos : Nat) : Item → Sink × Nat
  | .shw (.str s) => showStringTo c.showEsc c.showOpen c.showClose s o pos
  | it => (o.put pos (it.text c), pos + (it.text c).length)

def printItems (c : Cfg) (o : Sink) (pos : Nat) : List Item → Sink × Nat
  | [] => (o, pos)
  | it :: its => let (o', p') := printItem c o pos it; printItems c o' p' its

/-- what is read for one segment: the value stored in the argument, if the segment has one -/
inductive Shape where
  | str | int | flt
  | ispec (m : IMod) (c : IConv)
  | fspec (l : Bool) (c : FConv)
  | lit (t : List Nat)
  | pct
deriving Repr, DecidableEq, Inhabited

abbrev Shape.li : Shape := .ispec .l .i
abbrev Shape.ld : Shape := .ispec .l .d
abbrev Shape.lf : Shape := .fspec true .f

def Item.shape : Item → Shape
  | .shw (.str _) => .str
  | .shw (.int _) => .int
  | .shw (.flt _) => .flt
  | .ispec m c _ => .ispec m c
  | .fspec l c _ => .fspec l c
  | .lit t => .lit t
  | .pct => .pct

/-- values the arguments hold before scanning (what the harness initialises them to) -/
def sentinel : Shape → Option Val
  | .str => some (.str [63])
  | .int | .ispec _ _ => some (.int 77)
  | .flt | .fspec _ _ => some (.flt 0x401E000000000000)
  | .lit _ | .pct => none

/-- the integer branch of `scan_from_with` for the specification `%<m><c>` as a reader: `fmt_buf` is the specification followed
    by `%n`; the first arm whose test holds names the object scanf stores into; libc stores `m.width` bits there (more than the
    object has: undefined behaviour); the result becomes the `Int` as `finishInt` says -/
def scanIntSpec (c : Cfg) (m : IMod) (cv : IConv) (input : List Nat) : Res (Int × List Nat) :=
  match selectArm c.intArms (ispecFmt m cv ++ [37, 110]) with
  | none => .unmodelled
  | some arm =>
    if arm.bits < m.width then .ub
    else match scanNumber cv input with
      | .ok (p, rest) => .ok (finishInt arm m.width (c.intSigned.contains cv.byte) p, rest)
      | .raised e => .raised e
      | .ub => .ub
      | .unmodelled => .unmodelled

/-- the floating branch for `%<c>` / `%l<c>`: a `double` is read when `fmt_buf` contains one of `floatWide`, a `float` otherwise -/
def fspecNarrow (c : Cfg) (l : Bool) (cv : FConv) : Bool :=
  !((fspecFmt l cv ++ [37, 110]).any (fun b => c.floatWide.contains b))

def scanFloatSpec (c : Cfg) (l : Bool) (cv : FConv) (input : List Nat) : Res (Nat × List Nat) :=
  scanFloating (fspecNarrow c l cv) input

/-- `scan_from_with` on one segment from `pos`: the argument's value afterwards (also on error) and the input / position.
    `%$` on an Int is `Int_Look`: `scan_from(input, pos, "%li", self)`; on a Float `Float_Look`: `"%lf"`. -/
def scanItem (c : Cfg) (i : Input) (pos : Nat) : Shape → Option Val × Res (Input × Nat)
  | .str =>
    let (v, r) := i.run pos [63] (lookString c.look)
    (some (.str v), r)
  | .int =>
    let (v, r) := i.run pos 77 (withN (scanIntSpec c .l .i) 77)
    (some (.int v), r)
  | .ispec m cv =>
    let (v, r) := i.run pos 77 (withN (scanIntSpec c m cv) 77)
    (some (.int v), r)
  | .flt =>
    let (v, r) := i.run pos 0x401E000000000000 (withN (scanFloatSpec c true .f) 0x401E000000000000)
    (some (.flt v), r)
  | .fspec l cv =>
    let (v, r) := i.run pos 0x401E000000000000 (withN (scanFloatSpec c l cv) 0x401E000000000000)
    (some (.flt v), r)
  | .lit t =>
    -- `format_from(input, pos, text)`: result ignored, `pos += length`
    match i.view pos with
    | none => (none, .ub)
    | some l => (none, .ok (i.adv (l.length - (matchLit t l).length), pos + t.length))
  | .pct =>
    -- `format_from(input, pos, "%%%n", &off)`: white space is skipped, end of input gives err = -1 → FormatError; when the next
    -- byte is `%` it is consumed and `off` = everything consumed, otherwise the match fails (err = 0, ignored), `%n` is not
    -- reached and `off` stays 0 — but a File has lost the white space.  Before 619a9b3: "%%" and a constant advance.
    match i.view pos with
    | none => (none, .ub)
    | some l =>
      match skipSpace l with
      | [] => (none, .raised .FormatError)
      | b :: r =>
        let rest := if b = 37 then r else b :: r
        let consumed := l.length - rest.length
        let adv := if c.pctUsesN then (if b = 37 then consumed else 0) else c.pctAdvance
        (none, .ok (i.adv consumed, pos + adv))

/-- the whole format: stops at the first exception; arguments not reached keep their initial value -/
def scanItems (c : Cfg) (i : Input) (pos : Nat) : List Shape → List Val × Res (Input × Nat)
  | [] => ([], .ok (i, pos))
  | s :: ss =>
    match scanItem c i pos s with
    | (v, .ok (i', p')) =>
      let (vs, r) := scanItems c i' p' ss
      (v.toList ++ vs, r)
    | (v, .raised e) => (v.toList ++ (ss.filterMap sentinel), .raised e)
    | (v, .ub) => (v.toList ++ (ss.filterMap sentinel), .ub)
    | (v, .unmodelled) => (v.toList ++ (ss.filterMap sentinel), .unmodelled)

/-- a generated test of the integer branch as a `SpecTest` -/
def mkTest (kind : String) (arg : List Nat) : SpecTest :=
  if kind = "strpbrk" then .anyOf arg
  else if kind = "strstr" then .sub arg
  else if kind = "strchr" then (match arg with | [c] => .has c | _ => .anyOf [])
  else .always

/-- the parameters read from the source by the translator (CelloGen/Text.lean) -/
def srcCfg : Cfg where
  showEsc := CelloGen.Text.showEsc
  showOpen := CelloGen.Text.showOpen
  showClose := CelloGen.Text.showClose
  look := { opn := CelloGen.Text.lookOpen, cls := CelloGen.Text.lookClose, escb := CelloGen.Text.lookEscape,
            esc := CelloGen.Text.lookEsc, continues := CelloGen.Text.lookContinues }
  pctUsesN := CelloGen.Text.scanPctUsesN
  pctAdvance := CelloGen.Text.scanPctAdvance
  scanConv := CelloGen.Text.scanConv
  printConv := CelloGen.Text.printConv
  intArms := CelloGen.Text.scanIntArms.map (fun a => { test := mkTest a.1 a.2.1, bits := a.2.2.1, widen := a.2.2.2 })
  intSigned := CelloGen.Text.scanIntSigned
  floatWide := CelloGen.Text.scanFloatWide

/-- the integer branch before commit 9114264: every specification was read into `long tmp = 0` itself -/
def oldIntArms : List IntArm := [{ test := .always, bits := 64, widen := false }]

/-! ## The contract of the round trip (what the property quantifies over), as an executable predicate -/

def headIs (p : Nat → Bool) : List Nat → Bool
  | [] => false
  | b :: _ => p b

def lastIs (p : Nat → Bool) : List Nat → Bool
  | [] => false
  | [b] => p b
  | _ :: r => lastIs p r

def isXx (b : Nat) : Bool := b == 120 || b == 88

/-- text after a printed integer does not continue the number: no digit (for `%x`/`%X`: no hexadecimal digit), and after a
    lone `0` read with `%i`, `%x` or `%X` no `x`/`X` (it would be taken for the `0x` prefix) -/
def ispecSafe (m : IMod) (c : IConv) (n : Int) (f : List Nat) : Bool :=
  match c with
  | .d | .u | .o => !headIs isDigit f
  | .i => !headIs isDigit f && !(zext m.width n == 0 && headIs isXx f)
  | .x | .X => !headIs isHexDigit f && !(zext m.width n == 0 && headIs isXx f)

/-- `%$` of an Int is `%li` -/
def intSafe (auto : Bool) (n : Int) (f : List Nat) : Bool :=
  !headIs isDigit f && !(auto && n == 0 && headIs isXx f)

/-- text after a printed `%f` / `%e` does not continue the number: no digit, no exponent letter -/
def fltSafe (f : List Nat) : Bool := !headIs (fun b => isDigit b || b == 101 || b == 69) f

/-- text after a printed `%g` (which may have neither point nor exponent, and may be a lone `0`): also no `.`, no `x`/`X` -/
def gSafe (f : List Nat) : Bool := !headIs (fun b => isDigit b || b == 101 || b == 69 || b == 46 || isXx b) f

def fspecSafe (c : FConv) (f : List Nat) : Bool :=
  match c with
  | .g | .G => gSafe f
  | _ => fltSafe f

/-- a separator read from a File swallows following white space if it ends in white space -/
def litSafe (k : Kind) (t f : List Nat) : Bool := k == .str || !(lastIs isSpace t && headIs isSpace f)

def inInt64 (n : Int) : Bool := -(2 ^ 63 : Int) ≤ n && n < (2 ^ 63 : Int)

/-- values of the C types: NUL-free strings, 64-bit integers, finite doubles; separators are non-empty directive-free text -/
def Item.valid : Item → Bool
  | .shw (.str s) => s.all (· != 0)
  | .shw (.int n) => inInt64 n
  | .shw (.flt b) => fFinite b
  | .ispec _ _ n => inInt64 n
  | .fspec _ _ b => fFinite b
  | .lit t => !t.isEmpty && t.all (fun b => b != 0 && b != 37)
  | .pct => true

def Item.safe (k : Kind) (f : List Nat) : Item → Bool
  | .shw (.str _) => true
  | .shw (.int n) => ispecSafe .l .i n f
  | .shw (.flt _) => fltSafe f
  | .ispec m c n => ispecSafe m c n f
  | .fspec _ c _ => fspecSafe c f
  | .lit t => litSafe k t f
  | .pct => true       -- the written `%` is matched and counted whatever follows

/-- the sequence `its` followed by the unread text `z` is inside the model's contract: values of the C types, nothing that
    continues a number after it -/
def contractOK (c : Cfg) (k : Kind) : List Item → List Nat → Bool
  | [], _ => true
  | it :: its, z => it.valid && it.safe k (its.flatMap (Item.text c) ++ z) && contractOK c k its z

/-- the value C's conversion to the type a specification names leaves of `n`: what is read back (`scanIntSpec_roundtrip`) -/
def convInt (m : IMod) (c : IConv) (n : Int) : Int :=
  if c.signed then sext m.width n else if m.width = 64 then n else zext m.width n

/-- `n` is a value of the type the specification names — for the 64-bit modifiers every `int64_t` (also under `o u x X`: the
    unsigned text is read back into the same 64 bits) -/
def intInWidth (m : IMod) (c : IConv) (n : Int) : Bool :=
  if m.width = 64 then inInt64 n
  else if c.signed then -((2 : Int) ^ (m.width - 1)) ≤ n && n < (2 : Int) ^ (m.width - 1)
  else 0 ≤ n && n < (2 : Int) ^ m.width

/-- the value is representable in the destination the specification makes `scan_from_with` use: the integer type the modifier
    names; a `float` for a floating specification that is read narrow (known finding KF-C15-float-spec-narrow otherwise) -/
def Item.inWidth (c : Cfg) : Item → Bool
  | .ispec m cv n => intInWidth m cv n
  | .fspec l cv b => !fspecNarrow c l cv || isFloat32 b
  | _ => true

/-- **the property's quantifier** as far as the theorems cover it: the contract, and every value fits its destination -/
def inProperty (c : Cfg) (k : Kind) (its : List Item) (z : List Nat) : Bool :=
  contractOK c k its z && its.all (Item.inWidth c)

/-- the value `scan_from_with` is expected to store for an item: the value written — for an Int under a narrow specification,
    C's conversion of it to that type (itself when it fits); for a Float, the double (or widened float) nearest to the text
    that was written (`reparseSpec`) -/
def Item.readBack (c : Cfg) : Item → Option Val
  | .shw (.flt b) => some (.flt (reparseSpec (fspecNarrow c true .f) .f b))     -- `Float_Look`: "%lf"
  | .shw v => some v
  | .ispec m cv n => some (.int (convInt m cv n))
  | .fspec l cv b => some (.flt (reparseSpec (fspecNarrow c l cv) cv b))
  | .lit _ => none
  | .pct => none

/-- values carried by the items, in order -/
def Item.val? : Item → Option Val
  | .shw v => some v
  | .ispec _ _ n => some (.int n)
  | .fspec _ _ b => some (.flt b)
  | .lit _ => none
  | .pct => none

/-! ## The format string: how `print_to_with` / `scan_from_with` cut it into the segments above -/

/-- one piece of a format string as the scanners cut it -/
inductive Seg where
  | lit (t : List Nat)      -- a run without `%`
  | pct                     -- `%%`
  | spec (t : List Nat)     -- `%` … conversion character (inclusive)
  | open_ (t : List Nat)    -- `%` … end of the string with no conversion character (the C code reads past the terminator here)
deriving Repr, DecidableEq, Inhabited

/-- bytes up to the first one satisfying `p` -/
def spanUntil (p : Nat → Bool) : List Nat → List Nat × List Nat
  | [] => ([], [])
  | b :: r => if p b then ([], b :: r) else let (a, r') := spanUntil p r; (b :: a, r')

/-- the `while (true)` loop over the format: literal run up to `%`; `%%`; otherwise everything up to and including the first
    character of the conversion set `conv`.  `fuel` bounds the iterations (each consumes at least one byte). -/
def segmentF (conv : List Nat) : Nat → List Nat → List Seg
  | 0, _ => []
  | _, [] => []
  | fuel + 1, c :: r =>
    if c ≠ 37 then
      let lr := spanUntil (· == 37) (c :: r)
      .lit lr.1 :: segmentF conv fuel lr.2
    else match r with
      | 37 :: r' => .pct :: segmentF conv fuel r'
      | _ =>
        let sr := spanUntil (fun b => conv.contains b) r
        match sr.2 with
        | cv :: r'' => .spec (37 :: sr.1 ++ [cv]) :: segmentF conv fuel r''
        | [] => [.open_ (37 :: sr.1)]

def segment (conv : List Nat) (fmt : List Nat) : List Seg := segmentF conv (fmt.length + 1) fmt

/-- the format text of an item -/
def Item.fmt : Item → List Nat
  | .shw _ => [37, 36]          -- "%$"
  | .ispec m c _ => ispecFmt m c
  | .fspec l c _ => fspecFmt l c
  | .lit t => t
  | .pct => [37, 37]

def Item.seg : Item → Seg
  | .lit t => .lit t
  | .pct => .pct
  | it => .spec it.fmt

/-- every integer specification of the model with its text, every floating specification with its text -/
def allISpecs : List (List Nat × IMod × IConv) := IMod.all.flatMap (fun m => IConv.all.map (fun c => (ispecFmt m c, m, c)))
def allFSpecs : List (List Nat × Bool × FConv) := [true, false].flatMap (fun l => FConv.all.map (fun c => (fspecFmt l c, l, c)))

/-- the item a specification makes of its argument: `%$` takes any value (`show_to`); the 54 integer specifications
    `%[hh|h|l|ll|j|z|t|q][d|i|o|u|x|X]` an Int (`c_int`); the 12 floating specifications `%[l][f|F|e|E|g|G]` a Float (`c_float`);
    every other specification (flags, width, precision, `%a`, `%c`, `%s`, `%p`, `L`) is outside this model -/
def specItem (spec : List Nat) (v : Val) : Option Item :=
  if spec = [37, 36] then some (.shw v)
  else match v with
    | .int n => (allISpecs.lookup spec).map (fun mc => .ispec mc.1 mc.2 n)
    | .flt b => (allFSpecs.lookup spec).map (fun lc => .fspec lc.1 lc.2 b)
    | .str _ => none

/-- segments + argument values → items (`none`: too few arguments — FormatError in C —, an open `%`, or an unmodelled specification) -/
def itemsOf : List Seg → List Val → Option (List Item)
  | [], _ => some []
  | .lit t :: ss, vs => (itemsOf ss vs).map (.lit t :: ·)
  | .pct :: ss, vs => (itemsOf ss vs).map (.pct :: ·)
  | .spec t :: ss, v :: vs =>
    match specItem t v, itemsOf ss vs with
    | some it, some its => some (it :: its)
    | _, _ => none
  | .spec _ :: _, [] => none
  | .open_ _ :: _, _ => none

/-- `print_to_with(out, pos, fmt, args)` on the raw format string -/
def printFmt (c : Cfg) (o : Sink) (pos : Nat) (fmt : List Nat) (args : List Val) : Option (Sink × Nat) :=
  (itemsOf (segment c.printConv fmt) args).map (printItems c o pos)

/-- `scan_from_with(input, pos, fmt, args)` on the raw format string; the arguments' current values select the reader of `%$` -/
def scanFmt (c : Cfg) (i : Input) (pos : Nat) (fmt : List Nat) (args : List Val) : Option (List Val × Res (Input × Nat)) :=
  (itemsOf (segment c.scanConv fmt) args).map (fun its => scanItems c i pos (its.map Item.shape))

/-- what the format layer needs: literals are non-empty, contain no `%`, and no two are adjacent (they would be one run) -/
def fmtOK : List Item → Bool
  | [] => true
  | .lit t :: its => !t.isEmpty && t.all (· != 37) && (match its with | .lit _ :: _ => false | _ => true) && fmtOK its
  | _ :: its => fmtOK its

/-- what the format layer needs of a conversion set: it ends a specification at `$` and at each of `d i o u x X f F e E g G`, and
    not at a length modifier (`h l j z t q`) or at `%` -/
def convOK (conv : List Nat) : Bool :=
  ([36] ++ IConv.all.map IConv.byte ++ FConv.all.map FConv.byte).all (fun b => conv.contains b) &&
  ([37, 104, 108, 106, 122, 116, 113]).all (fun b => !conv.contains b)

/-! ## Second-round audit, item 4: what a *failed* read leaves behind

  `scan_from_with` allocates `fmt_buf = malloc(strlen(fmt)+4)` on entry and the only `free(fmt_buf)` stands before the normal
  `return pos;` (the text pinned by `CelloGen.Text.scanFromWithModelled`): every `throw` between the two — and every exception that
  passes through from `look_from` — leaves the buffer allocated.  `String_Look` starts with `String_Clear(self)` and appends
  while it reads: on text that is not a shown String the target is already emptied / half filled when FormatError is raised
  (`lookString` returns the accumulated value also on error; `scanItem` stores it). -/

/-- does the loop of `String_Look` run out of input inside one of its `scan_from(input, pos, "%c", chr)` calls?  (That is the only
    exception raised *inside* a nested `scan_from_with`; the two `throw`s of `String_Look` itself happen between such calls.) -/
def lookLoopRunsOut (c : LookCfg) : List Nat → Bool
  | [] => true
  | b :: r =>
    if b = c.cls then false
    else if b = c.escb then
      match r with
      | [] => true
      | l :: r' =>
        match c.esc.lookup l with
        | none => false
        | some _ => lookLoopRunsOut c r'
    else lookLoopRunsOut c r

def lookRunsOut (c : LookCfg) : List Nat → Bool
  | [] => true
  | b :: r => if b = c.opn then lookLoopRunsOut c r else false

/-- bytes of `fmt_buf` still allocated after reading one value of shape `sh` at `pos` as the harness does it (`look_from` for
    `%$`: `Int_Look` / `Float_Look` are `scan_from(input, pos, "%li" / "%lf", self)`, `String_Look` makes one
    `scan_from(input, pos, "%c", chr)` per character; a numeric specification is one `scan_from(input, pos, spec, target)`):
    `strlen(fmt) + 4` for the `scan_from_with` call that is left by an exception, 0 when the read succeeds. -/
def scanLeak (c : Cfg) (i : Input) (pos : Nat) (sh : Shape) : Nat :=
  match (scanItem c i pos sh).2 with
  | .raised _ =>
    (match sh with
     | .str => (match i.view pos with
                | some l => if lookRunsOut c.look l then 2 + 4 else 0      -- "%c"
                | none => 0)
     | .int => CelloGen.Text.intLookFmt.length + 4
     | .flt => CelloGen.Text.floatLookFmt.length + 4
     | .ispec m cv => (ispecFmt m cv).length + 4
     | .fspec l cv => (fspecFmt l cv).length + 4
     | .lit _ => 0
     | .pct => 2 + 4)
  | _ => 0

/-! ## Second-round audit, item 2: a field width and the `0` flag — *outside* the specifications of `Item`

  The round-trip theorems speak about specifications without flags, width or precision.  What that exclusion hides is modelled here
  for the two commonest additions, so that it can be exhibited (`C15_width_refuted`) and run (op `W`): printf pads to the width
  (with the `0` flag: by zeros after the sign); scanf reads the same digits as a *maximal field width* — `0` is not a flag there —
  so a text longer than the width is cut, and zero padding is taken for an octal prefix by `%i`. -/

/-- the text of `%[0]<w><m><c>` -/
def ispecWFmt (zero : Bool) (w : Nat) (m : IMod) (c : IConv) : List Nat :=
  37 :: ((if zero then [48] else []) ++ natDigits w ++ m.text ++ [c.byte])

/-- printf under `%[0]<w><m><c>`: the text of `%<m><c>` padded on the left to at least `w` characters, by blanks or (flag `0`) by
    zeros after the sign -/
def printIntSpecW (zero : Bool) (w : Nat) (m : IMod) (c : IConv) (n : Int) : List Nat :=
  let t := printIntSpec m c n
  if zero then
    (match t with
     | 45 :: ds => 45 :: (List.replicate (w - t.length) 48 ++ ds)
     | _ => List.replicate (w - t.length) 48 ++ t)
  else List.replicate (w - t.length) 32 ++ t

/-- the number conversion of scanf with maximal field width `w ≥ 1`: white space is skipped (it does not count), then at most `w`
    characters belong to the number -/
def scanNumberW (w : Nat) (c : IConv) (input : List Nat) : Res (Nat × List Nat) :=
  let s := skipSpace input
  match scanNumber c (s.take w) with
  | .ok (p, rest) => .ok (p, rest ++ s.drop w)
  | .raised e => .raised e
  | .ub => .ub
  | .unmodelled => .unmodelled

/-- the integer branch of `scan_from_with` for `%[0]<w><m><c>` (`fmt_buf` holds that text and `%n`; digits are in none of the sets the
    arms test for) -/
def scanIntSpecW (c : Cfg) (zero : Bool) (w : Nat) (m : IMod) (cv : IConv) (input : List Nat) : Res (Int × List Nat) :=
  match selectArm c.intArms (ispecWFmt zero w m cv ++ [37, 110]) with
  | none => .unmodelled
  | some arm =>
    if arm.bits < m.width then .ub
    else match scanNumberW w cv input with
      | .ok (p, rest) => .ok (finishInt arm m.width (c.intSigned.contains cv.byte) p, rest)
      | .raised e => .raised e
      | .ub => .ub
      | .unmodelled => .unmodelled

/-- is the width harmless for the round trip: it is at least the length of the text written, and no zero is padded in front of a
    number read by the conversion that takes a leading `0` for a prefix (`%i`) -/
def widthSafe (zero : Bool) (w : Nat) (m : IMod) (c : IConv) (n : Int) : Bool :=
  decide ((printIntSpec m c n).length ≤ w) && !(zero && c == .i && decide ((printIntSpec m c n).length < w)) && decide (1 ≤ w)

end Cello.Text
