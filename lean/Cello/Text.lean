import CelloGen.Text
/-
  Cello/Text.lean — executable model of the text round trip of Cello values (property C15):

    src/String.c  String_Show / String_Look          (escape-aware writer and `%c`-by-`%c` reader)
    src/Num.c     Int_Show "%li" / Int_Look "%li",  Float_Show "%f" / Float_Look "%lf"
    src/Show.c    print_to_with / scan_from_with     (literal runs, `%%`, `%$`, numeric specifications, `%n` position accounting)
    src/String.c  String_Format_To / String_Format_From   (write at `val+pos`, truncating; every directive re-reads at `val+pos`)
    src/File.c    File_Format_To / File_Format_From       (`pos` ignored: the stream position decides)

  Bytes are `Nat`s (a C `char` is a value < 256; nothing here needs the bound, so the theorems hold a fortiori).
  The escape tables, delimiter bytes and the "does the escape arm `continue`" flag are *parameters* (`LookCfg`, `esc`): the
  instances used by the driver and by the theorems are the ones the translator extracts from the source (CelloGen/Text.lean).

  What libc does is modelled, not verified (see Props/C15.lean, trusted base): `%li`/`%ld` of scanf (`scanLong`),
  `%f` of printf (`printF`, exact, round-half-even) and `%lf` of scanf (`scanDouble`, exact, round-half-even).
-/
namespace Cello.Text


inductive Exc where
  | FormatError
deriving DecidableEq, Repr, Inhabited

def Exc.name : Exc → String
  | .FormatError => "FormatError"

/-- how a reading step ends -/
inductive Res (α : Type) where
  | ok (a : α)
  | raised (e : Exc)
  | ub                 -- a directive would read beyond the terminating NUL of a C string (`s->val + pos` with pos > strlen)
  | unmodelled         -- libc behaviour this model does not cover (hexadecimal floats, "inf"/"nan" text)
deriving Repr, DecidableEq, Inhabited

/-! ## The writer: `String_Show` -/

/-- one iteration of `while (*v) { switch (*v) {…} v++; }`: the table text, or `"%c"` of the byte itself -/
def showByte (esc : List (Nat × List Nat)) (b : Nat) : List Nat :=
  match esc.lookup b with
  | some t => t
  | none => [b]

/-- all the text `String_Show` writes for the C string `s` -/
def showString (esc : List (Nat × List Nat)) (opn cls : List Nat) (s : List Nat) : List Nat :=
  opn ++ s.flatMap (showByte esc) ++ cls

/-! ## Decimal integers: `"%li"` of printf -/

/-- decimal digits of a natural number, most significant first; `"0"` for 0 -/
def natDigits (n : Nat) : List Nat :=
  if h : n < 10 then [48 + n] else natDigits (n / 10) ++ [48 + n % 10]
decreasing_by omega

/-- `"%li"` / `"%ld"` of printf for an `int64_t` -/
def printInt (n : Int) : List Nat :=
  if n < 0 then 45 :: natDigits n.natAbs else natDigits n.natAbs

/-! ## `"%li"` / `"%ld"` of scanf (glibc `vfscanf`, number conversion + `strtol`) -/

/-- `isspace` in the C locale -/
def isSpace (b : Nat) : Bool := b = 32 || (9 ≤ b && b ≤ 13)

def skipSpace : List Nat → List Nat
  | [] => []
  | b :: r => if isSpace b then skipSpace r else b :: r

/-- value of `b` as a digit in base `base`, if it is one -/
def digitVal (base : Nat) (b : Nat) : Option Nat :=
  let v : Option Nat :=
    if 48 ≤ b ∧ b ≤ 57 then some (b - 48)
    else if 97 ≤ b ∧ b ≤ 102 then some (b - 87)
    else if 65 ≤ b ∧ b ≤ 70 then some (b - 55)
    else none
  match v with
  | some d => if d < base then some d else none
  | none => none

/-- longest run of base-`base` digits: accumulated value, number of digits, rest -/
def readDigits (base : Nat) : List Nat → Nat → Nat → Nat × Nat × List Nat
  | [], acc, k => (acc, k, [])
  | b :: r, acc, k =>
    match digitVal base b with
    | some d => readDigits base r (acc * base + d) (k + 1)
    | none => (acc, k, b :: r)

/-- what `strtol` stores for magnitude `v` and sign `neg`: saturation at LONG_MAX / LONG_MIN -/
def clampLong (neg : Bool) (v : Nat) : Int :=
  if neg then (if v ≥ 2 ^ 63 then -(2 ^ 63 : Int) else -(v : Int))
  else (if v ≥ 2 ^ 63 then (2 ^ 63 - 1 : Int) else (v : Int))

/-- the base `%i` chooses from the text after the sign: `0x`/`0X` → 16, a leading `0` → 8, otherwise 10 -/
def autoBase : List Nat → Nat
  | 48 :: x :: _ => if x = 120 ∨ x = 88 then 16 else 8
  | [48] => 8
  | _ => 10

/-- scanf `%li` (`auto = true`: base from the prefix, as `strtol(…, 0)`) or `%ld` (`auto = false`): skip white space,
    optional sign, `0x`/`0` prefix, longest digit run.  Returns the value and the unread rest.
    End of input before any character of the number, or no digit: the conversion fails (`err < 1`) → FormatError. -/
def scanLong (auto : Bool) (input : List Nat) : Res (Int × List Nat) :=
  match skipSpace input with
  | [] => .raised .FormatError
  | c :: r =>
    let neg := c = 45
    let i2 := if c = 45 ∨ c = 43 then r else c :: r
    let base : Nat := if auto then autoBase i2 else 10
    if base = 16 then
      -- "0x" is consumed; with no hexadecimal digit after it glibc still converts the buffer "0x" (value 0)
      let (v, _, rest) := readDigits 16 (i2.drop 2) 0 0
      .ok (clampLong neg v, rest)
    else
      let (v, k, rest) := readDigits base i2 0 0
      if k = 0 then .raised .FormatError else .ok (clampLong neg v, rest)

/-! ## `"%f"` of printf and `"%lf"` of scanf on IEEE-754 binary64, exactly (values are carried as their 64 bits) -/

/-- sign, integer significand `m` and exponent `e` with |x| = m · 2^e (finite `bits` only) -/
def fDecode (bits : Nat) : Bool × Nat × Int :=
  let sg : Bool := bits / 2 ^ 63 % 2 = 1
  let ex : Nat := bits / 2 ^ 52 % 2048
  let fr : Nat := bits % 2 ^ 52
  if ex = 0 then (sg, fr, -1074) else (sg, fr + 2 ^ 52, (ex : Int) - 1075)

def fFinite (bits : Nat) : Bool := bits < 2 ^ 64 && bits / 2 ^ 52 % 2048 ≠ 2047

/-- `num/den` rounded to the nearest integer, ties to even -/
def roundHalfEven (num den : Nat) : Nat :=
  let q := num / den
  let r := num % den
  if 2 * r > den ∨ (2 * r = den ∧ q % 2 = 1) then q + 1 else q

/-- `"%f"`: the exact value rounded to 6 decimals (glibc rounds the exact binary value, ties to even) -/
def printF (bits : Nat) : List Nat :=
  let (sg, m, e) := fDecode bits
  let q := if e ≥ 0 then m * 2 ^ e.toNat * 10 ^ 6 else roundHalfEven (m * 10 ^ 6) (2 ^ (-e).toNat)
  (if sg then [45] else []) ++ natDigits (q / 10 ^ 6) ++ [46] ++ (natDigits (10 ^ 6 + q % 10 ^ 6)).drop 1

/-- the binary64 nearest to `n/d` (ties to even; overflow gives infinity), with sign bit `sg`; `d > 0` -/
def ratToBits (sg : Bool) (n d : Nat) : Nat :=
  let sbit := if sg then 2 ^ 63 else 0
  if n = 0 then sbit else
  let e0 : Int := (n.log2 : Int) - (d.log2 : Int) - 52
  let q (e : Int) : Nat := if e ≥ 0 then n / (d * 2 ^ e.toNat) else (n * 2 ^ (-e).toNat) / d
  let e1 : Int := if q e0 ≥ 2 ^ 53 then e0 + 1 else if q e0 < 2 ^ 52 then e0 - 1 else e0
  let e2 : Int := if e1 < -1074 then -1074 else e1
  let m := if e2 ≥ 0 then roundHalfEven n (d * 2 ^ e2.toNat) else roundHalfEven (n * 2 ^ (-e2).toNat) d
  let (m, e2) := if m ≥ 2 ^ 53 then (2 ^ 52, e2 + 1) else (m, e2)
  if m < 2 ^ 52 then sbit + m                      -- subnormal (exponent field 0); only when e2 = -1074
  else if e2 + 1075 ≥ 2047 then sbit + 2047 * 2 ^ 52   -- overflow: HUGE_VAL
  else sbit + (e2 + 1075).toNat * 2 ^ 52 + (m - 2 ^ 52)

def isDigit (b : Nat) : Bool := 48 ≤ b && b ≤ 57

/-- longest run of decimal digits -/
def spanDigits : List Nat → List Nat × List Nat
  | [] => ([], [])
  | b :: r => if isDigit b then let (d, rest) := spanDigits r; (b :: d, rest) else ([], b :: r)

def digitsVal (ds : List Nat) : Nat := ds.foldl (fun a b => a * 10 + (b - 48)) 0

/-- the binary64 nearest to (−1)^neg · mant · 10^k (what `strtod` returns for that decimal text) -/
def decToBits (neg : Bool) (mant : Nat) (k : Int) : Nat :=
  -- 10^(k+len-1) ≤ value < 10^(k+len): far outside the binary64 range the result is HUGE_VAL / zero whatever the digits
  let len : Int := (natDigits mant).length
  let sbit := if neg then 2 ^ 63 else 0
  if mant = 0 then sbit
  else if k + len > 400 then sbit + 2047 * 2 ^ 52
  else if k + len < -400 then sbit
  else if k ≥ 0 then ratToBits neg (mant * 10 ^ k.toNat) 1 else ratToBits neg mant (10 ^ (-k).toNat)

/-- mantissa of a decimal floating text: digits, optionally `.` and more digits; returns integer digits, fraction digits, rest -/
def spanMantissa (l : List Nat) : List Nat × List Nat × List Nat :=
  match (spanDigits l).2 with
  | 46 :: r1' => ((spanDigits l).1, (spanDigits r1').1, (spanDigits r1').2)
  | _ => ((spanDigits l).1, [], (spanDigits l).2)

/-- exponent part (consulted once a digit was read): `e`/`E`, an optional sign directly after it, digits — all of which are
    *consumed* even when no exponent digit follows (then `strtod` converts the mantissa alone) -/
def spanExponent (l : List Nat) : Int × List Nat :=
  match l with
  | e :: r =>
    if e = 101 ∨ e = 69 then
      let sr : Bool × List Nat := match r with
        | s :: t => if s = 45 then (true, t) else if s = 43 then (false, t) else (false, r)
        | [] => (false, r)
      let ed := spanDigits sr.2
      ((if sr.1 then -(digitsVal ed.1 : Int) else (digitsVal ed.1 : Int)), ed.2)
    else (0, l)
  | [] => (0, l)

def lower (b : Nat) : Nat := if 65 ≤ b ∧ b ≤ 90 then b + 32 else b

def isHexDigit (b : Nat) : Bool := isDigit b || (97 ≤ lower b && lower b ≤ 102)

/-- text after the sign that glibc treats specially: `nan`, `inf` (any case) and hexadecimal floats are outside this model
    (`some false`); a text that starts like one of them but is not one makes the conversion fail (`some true`) -/
def floatSpecial : List Nat → Option Bool
  | x :: r =>
    if lower x = 110 then       -- n: "nan" or a matching failure
      (match r with | a :: n :: _ => if lower a = 97 ∧ lower n = 110 then some false else some true | _ => some true)
    else if lower x = 105 then  -- i: "inf" or a matching failure
      (match r with | n :: f :: _ => if lower n = 110 ∧ lower f = 102 then some false else some true | _ => some true)
    else if x = 48 then
      (match r with
       | p :: r' => if lower p = 120 then (match r' with | h :: _ => if isHexDigit h || h == 46 then some false else some true | [] => some true) else none
       | [] => none)
    else none
  | [] => none

/-- scanf `%lf` on decimal text (glibc): white space, sign, digits with at most one `.`, exponent part; the conversion fails
    (`err < 1` → FormatError) at the end of input or when there is no digit.  `inf`/`nan`/hexadecimal input is `unmodelled`. -/
def scanDouble (input : List Nat) : Res (Nat × List Nat) :=
  match skipSpace input with
  | [] => .raised .FormatError
  | c :: r =>
    let neg : Bool := c = 45
    let i2 := if c = 45 ∨ c = 43 then r else c :: r
    if i2.isEmpty then .raised .FormatError
    else if floatSpecial i2 = some false then .unmodelled
    else if floatSpecial i2 = some true then .raised .FormatError
    else
      let m := spanMantissa i2
      -- a lone "." is consumed by glibc too, but with no digit the conversion fails either way
      if m.1.length + m.2.1.length = 0 then .raised .FormatError
      else
        let e := spanExponent m.2.2
        .ok (decToBits neg (digitsVal (m.1 ++ m.2.1)) (e.1 - m.2.1.length), e.2)

/-- the double `%lf` reads from what `%f` printed for `bits` -/
def reparse (bits : Nat) : Nat :=
  match scanDouble (printF bits) with
  | .ok (v, _) => v
  | _ => bits

/-! ## The reader: `String_Look` -/

/-- the bytes and tables `String_Look` uses, and whether the escape arm ends in `continue` (CelloGen.Text.lookContinues) -/
structure LookCfg where
  opn : Nat
  cls : Nat
  escb : Nat
  esc : List (Nat × List Nat)
  continues : Bool

/-- `String_Concat(self, $S(t))`: `strcat` appends up to the first NUL -/
def cstr (t : List Nat) : List Nat := t.takeWhile (· ≠ 0)

/-- the `while (true)` loop of `String_Look`.  `input` is what is still unread, `pos` the position counter threaded through the
    `scan_from(input, pos, "%c", chr)` calls (each adds the `%n` count 1), `acc` the value built so far.  Returns the value (also on
    error: the target was cleared and partly filled) and either the unread rest with the final `pos`, or the exception: a `%c` at the
    end of the input fails ("Unable to input Char!"), an unknown escape letter throws. -/
def lookLoop (c : LookCfg) : List Nat → Nat → List Nat → List Nat × Res (List Nat × Nat)
  | [], _, acc => (acc, .raised .FormatError)
  | b :: r, pos, acc =>
    if b = c.cls then (acc, .ok (r, pos + 1))
    else if b = c.escb then
      match r with
      | [] => (acc, .raised .FormatError)
      | l :: r' =>
        match c.esc.lookup l with
        | none => (acc, .raised .FormatError)
        | some t =>
          if c.continues then lookLoop c r' (pos + 2) (acc ++ cstr t)
          else lookLoop c r' (pos + 2) (acc ++ cstr t ++ cstr [l])   -- falls out of the `if`: the letter is appended as well
    else lookLoop c r (pos + 1) (acc ++ cstr [b])

/-- `String_Look`: `String_Clear`, the opening delimiter, the loop -/
def lookString (c : LookCfg) (input : List Nat) (pos : Nat) : List Nat × Res (List Nat × Nat) :=
  match input with
  | [] => ([], .raised .FormatError)
  | b :: r => if b = c.opn then lookLoop c r (pos + 1) [] else ([], .raised .FormatError)

/-! ## Sinks and sources: String and File -/

inductive Kind where
  | str
  | file
deriving DecidableEq, Repr, Inhabited

/-- the object written to: the bytes of the String / the file -/
structure Sink where
  kind : Kind
  data : List Nat
deriving Repr, DecidableEq

/-- `format_to(out, pos, text)` for directive-free text: `String_Format_To` reallocates to `pos + size + 1` and prints at `val + pos`
    (whatever followed `pos` is cut off; `pos ≤ strlen` is the caller's obligation), `File_Format_To` ignores `pos` and writes at the
    stream position (here: the end).  The call returns `text.length`, which the callers add to `pos`. -/
def Sink.put (o : Sink) (pos : Nat) (t : List Nat) : Sink :=
  match o.kind with
  | .str => { o with data := o.data.take pos ++ t }
  | .file => { o with data := o.data ++ t }

/-- `String_Show(self, out, pos)` call by call: opening text, one `print_to` per byte, closing text; returns the sink and the final `pos` -/
def showStringTo (esc : List (Nat × List Nat)) (opn cls : List Nat) (s : List Nat) (o : Sink) (pos : Nat) : Sink × Nat :=
  let o1 := o.put pos opn
  let p1 := pos + opn.length
  let (o2, p2) := s.foldl (fun (st : Sink × Nat) b => (st.1.put st.2 (showByte esc b), st.2 + (showByte esc b).length)) (o1, p1)
  (o2.put p2 cls, p2 + cls.length)

/-- the object read from: all its bytes and, for a File, the stream position -/
structure Input where
  kind : Kind
  text : List Nat
  cur : Nat
deriving Repr, DecidableEq

/-- what a directive started at `pos` sees: `s->val + pos` for a String (undefined beyond the NUL), the stream for a File -/
def Input.view (i : Input) (pos : Nat) : Option (List Nat) :=
  match i.kind with
  | .str => if pos ≤ i.text.length then some (i.text.drop pos) else none
  | .file => some (i.text.drop i.cur)

/-- a File's stream moves by what was really consumed; a String has no state -/
def Input.adv (i : Input) (k : Nat) : Input :=
  match i.kind with
  | .str => i
  | .file => { i with cur := i.cur + k }

/-- run a reader that threads `pos` on the view at `pos` -/
def Input.run {β : Type} (i : Input) (pos : Nat) (dflt : β) (rd : List Nat → Nat → β × Res (List Nat × Nat)) :
    β × Res (Input × Nat) :=
  match i.view pos with
  | none => (dflt, .ub)
  | some l =>
    match rd l pos with
    | (b, .ok (rest, pos')) => (b, .ok (i.adv (l.length - rest.length), pos'))
    | (b, .raised e) => (b, .raised e)
    | (b, .ub) => (b, .ub)
    | (b, .unmodelled) => (b, .unmodelled)

/-- a conversion directive followed by `%n`: `pos += off` with `off` = number of characters the directive consumed -/
def withN {α : Type} (rd : List Nat → Res (α × List Nat)) (dflt : α) : List Nat → Nat → α × Res (List Nat × Nat) :=
  fun l pos =>
    match rd l with
    | .ok (a, rest) => (a, .ok (rest, pos + (l.length - rest.length)))
    | .raised e => (dflt, .raised e)
    | .ub => (dflt, .ub)
    | .unmodelled => (dflt, .unmodelled)

/-- scanf matching of directive-free format text against the input: a white-space byte of the format skips any run of
    white space, any other byte must be the next input byte, otherwise matching stops there -/
def matchLit : List Nat → List Nat → List Nat
  | [], inp => inp
  | f :: fs, inp =>
    if isSpace f then matchLit fs (skipSpace inp)
    else match inp with
      | [] => []
      | b :: r => if b = f then matchLit fs r else b :: r

/-! ## Sequences: what `print_to_with` writes and `scan_from_with` reads for a list of format items -/

inductive Val where
  | str (s : List Nat)
  | int (n : Int)
  | flt (bits : Nat)
deriving Repr, DecidableEq, Inhabited

/-- one segment of a format string together with the argument it prints -/
inductive Item where
  | shw (v : Val)        -- `%$`
  | li (n : Int)         -- `%li` with an Int argument
  | ld (n : Int)         -- `%ld`
  | lf (bits : Nat)      -- `%lf` with a Float argument
  | lit (t : List Nat)  -- a literal run (no `%`, no NUL, not empty)
  | pct                  -- `%%`
deriving Repr, DecidableEq, Inhabited

/-- the source-derived parameters -/
structure Cfg where
  showEsc : List (Nat × List Nat)
  showOpen : List Nat
  showClose : List Nat
  look : LookCfg
  pctUsesN : Bool      -- `%%` is read with "%%%n" and `pos += off` (commit 619a9b3); otherwise `pos += pctAdvance`
  pctAdvance : Nat
  scanConv : List Nat
  printConv : List Nat

/-- the text one item produces -/
def Item.text (c : Cfg) : Item → List Nat
  | .shw (.str s) => showString c.showEsc c.showOpen c.showClose s
  | .shw (.int n) => printInt n
  | .shw (.flt b) => printF b
  | .li n => printInt n
  | .ld n => printInt n
  | .lf b => printF b
  | .lit t => t
  | .pct => [37]

/-- `print_to_with` on one segment: the sink and the new `pos` -/
def printItem (c : Cfg) (o : Sink) (pos : Nat) : Item → Sink × Nat
  | .shw (.str s) => showStringTo c.showEsc c.showOpen c.showClose s o pos
  | it => (o.put pos (it.text c), pos + (it.text c).length)

def printItems (c : Cfg) (o : Sink) (pos : Nat) : List Item → Sink × Nat
  | [] => (o, pos)
  | it :: its => let (o', p') := printItem c o pos it; printItems c o' p' its

/-- what is read for one segment: the value stored in the argument, if the segment has one -/
inductive Shape where
  | str | int | flt | li | ld | lf
  | lit (t : List Nat)
  | pct
deriving Repr, DecidableEq, Inhabited

def Item.shape : Item → Shape
  | .shw (.str _) => .str
  | .shw (.int _) => .int
  | .shw (.flt _) => .flt
  | .li _ => .li
  | .ld _ => .ld
  | .lf _ => .lf
  | .lit t => .lit t
  | .pct => .pct

/-- values the arguments hold before scanning (what the harness initialises them to) -/
def sentinel : Shape → Option Val
  | .str => some (.str [63])
  | .int | .li | .ld => some (.int 77)
  | .flt | .lf => some (.flt 0x401E000000000000)
  | .lit _ | .pct => none

/-- `scan_from_with` on one segment from `pos`: the argument's value afterwards (also on error) and the input / position -/
def scanItem (c : Cfg) (i : Input) (pos : Nat) : Shape → Option Val × Res (Input × Nat)
  | .str =>
    let (v, r) := i.run pos [63] (lookString c.look)
    (some (.str v), r)
  | .int | .li =>
    let (v, r) := i.run pos 77 (withN (scanLong true) 77)
    (some (.int v), r)
  | .ld =>
    let (v, r) := i.run pos 77 (withN (scanLong false) 77)
    (some (.int v), r)
  | .flt | .lf =>
    let (v, r) := i.run pos 0x401E000000000000 (withN scanDouble 0x401E000000000000)
    (some (.flt v), r)
  | .lit t =>
    -- `format_from(input, pos, text)`: result ignored, `pos += length`
    match i.view pos with
    | none => (none, .ub)
    | some l => (none, .ok (i.adv (l.length - (matchLit t l).length), pos + t.length))
  | .pct =>
    -- `format_from(input, pos, "%%%n", &off)`: white space is skipped, end of input gives err = -1 → FormatError; when the next
    -- byte is `%` it is consumed and `off` = everything consumed, otherwise the match fails (err = 0, ignored), `%n` is not
    -- reached and `off` stays 0 — but a File has lost the white space.  Before 619a9b3: "%%" and a constant advance.
    match i.view pos with
    | none => (none, .ub)
    | some l =>
      match skipSpace l with
      | [] => (none, .raised .FormatError)
      | b :: r =>
        let rest := if b = 37 then r else b :: r
        let consumed := l.length - rest.length
        let adv := if c.pctUsesN then (if b = 37 then consumed else 0) else c.pctAdvance
        (none, .ok (i.adv consumed, pos + adv))

/-- the whole format: stops at the first exception; arguments not reached keep their initial value -/
def scanItems (c : Cfg) (i : Input) (pos : Nat) : List Shape → List Val × Res (Input × Nat)
  | [] => ([], .ok (i, pos))
  | s :: ss =>
    match scanItem c i pos s with
    | (v, .ok (i', p')) =>
      let (vs, r) := scanItems c i' p' ss
      (v.toList ++ vs, r)
    | (v, .raised e) => (v.toList ++ (ss.filterMap sentinel), .raised e)
    | (v, .ub) => (v.toList ++ (ss.filterMap sentinel), .ub)
    | (v, .unmodelled) => (v.toList ++ (ss.filterMap sentinel), .unmodelled)

/-- the parameters read from the source by the translator (CelloGen/Text.lean) -/
def srcCfg : Cfg where
  showEsc := CelloGen.Text.showEsc
  showOpen := CelloGen.Text.showOpen
  showClose := CelloGen.Text.showClose
  look := { opn := CelloGen.Text.lookOpen, cls := CelloGen.Text.lookClose, escb := CelloGen.Text.lookEscape,
            esc := CelloGen.Text.lookEsc, continues := CelloGen.Text.lookContinues }
  pctUsesN := CelloGen.Text.scanPctUsesN
  pctAdvance := CelloGen.Text.scanPctAdvance
  scanConv := CelloGen.Text.scanConv
  printConv := CelloGen.Text.printConv

/-! ## The contract of the round trip (what the property quantifies over), as an executable predicate -/

def headIs (p : Nat → Bool) : List Nat → Bool
  | [] => false
  | b :: _ => p b

def lastIs (p : Nat → Bool) : List Nat → Bool
  | [] => false
  | [b] => p b
  | _ :: r => lastIs p r

/-- text after a printed integer does not continue the number: no digit, and after a lone `0` read with `%li` no `x`/`X` -/
def intSafe (auto : Bool) (n : Int) (f : List Nat) : Bool :=
  !headIs isDigit f && !(auto && n == 0 && headIs (fun b => b == 120 || b == 88) f)

/-- text after a printed `%f` does not continue the number: no digit, no exponent letter -/
def fltSafe (f : List Nat) : Bool := !headIs (fun b => isDigit b || b == 101 || b == 69) f

/-- a separator read from a File swallows following white space if it ends in white space -/
def litSafe (k : Kind) (t f : List Nat) : Bool := k == .str || !(lastIs isSpace t && headIs isSpace f)

def inInt64 (n : Int) : Bool := -(2 ^ 63 : Int) ≤ n && n < (2 ^ 63 : Int)

/-- values of the C types: NUL-free strings, 64-bit integers, finite doubles; separators are non-empty directive-free text -/
def Item.valid : Item → Bool
  | .shw (.str s) => s.all (· != 0)
  | .shw (.int n) => inInt64 n
  | .shw (.flt b) => fFinite b
  | .li n => inInt64 n
  | .ld n => inInt64 n
  | .lf b => fFinite b
  | .lit t => !t.isEmpty && t.all (fun b => b != 0 && b != 37)
  | .pct => true

def Item.safe (k : Kind) (f : List Nat) : Item → Bool
  | .shw (.str _) => true
  | .shw (.int n) => intSafe true n f
  | .shw (.flt _) => fltSafe f
  | .li n => intSafe true n f
  | .ld n => intSafe false n f
  | .lf _ => fltSafe f
  | .lit t => litSafe k t f
  | .pct => true       -- the written `%` is matched and counted whatever follows

/-- the sequence `its` followed by the unread text `z` is inside the property's quantifier -/
def contractOK (c : Cfg) (k : Kind) : List Item → List Nat → Bool
  | [], _ => true
  | it :: its, z => it.valid && it.safe k (its.flatMap (Item.text c) ++ z) && contractOK c k its z

/-- the value `scan_from_with` is expected to store for an item: the value written — for a Float, the double nearest to
    the six-decimal text that was written (`reparse`) -/
def Item.readBack : Item → Option Val
  | .shw (.flt b) => some (.flt (reparse b))
  | .lf b => some (.flt (reparse b))
  | .shw v => some v
  | .li n => some (.int n)
  | .ld n => some (.int n)
  | .lit _ => none
  | .pct => none

/-- values carried by the items, in order -/
def Item.val? : Item → Option Val
  | .shw v => some v
  | .li n => some (.int n)
  | .ld n => some (.int n)
  | .lf b => some (.flt b)
  | .lit _ => none
  | .pct => none

/-! ## The format string: how `print_to_with` / `scan_from_with` cut it into the segments above -/

/-- one piece of a format string as the scanners cut it -/
inductive Seg where
  | lit (t : List Nat)      -- a run without `%`
  | pct                     -- `%%`
  | spec (t : List Nat)     -- `%` … conversion character (inclusive)
  | open_ (t : List Nat)    -- `%` … end of the string with no conversion character (the C code reads past the terminator here)
deriving Repr, DecidableEq, Inhabited

/-- bytes up to the first one satisfying `p` -/
def spanUntil (p : Nat → Bool) : List Nat → List Nat × List Nat
  | [] => ([], [])
  | b :: r => if p b then ([], b :: r) else let (a, r') := spanUntil p r; (b :: a, r')

/-- the `while (true)` loop over the format: literal run up to `%`; `%%`; otherwise everything up to and including the first
    character of the conversion set `conv`.  `fuel` bounds the iterations (each consumes at least one byte). -/
def segmentF (conv : List Nat) : Nat → List Nat → List Seg
  | 0, _ => []
  | _, [] => []
  | fuel + 1, c :: r =>
    if c ≠ 37 then
      let lr := spanUntil (· == 37) (c :: r)
      .lit lr.1 :: segmentF conv fuel lr.2
    else match r with
      | 37 :: r' => .pct :: segmentF conv fuel r'
      | _ =>
        let sr := spanUntil (fun b => conv.contains b) r
        match sr.2 with
        | cv :: r'' => .spec (37 :: sr.1 ++ [cv]) :: segmentF conv fuel r''
        | [] => [.open_ (37 :: sr.1)]

def segment (conv : List Nat) (fmt : List Nat) : List Seg := segmentF conv (fmt.length + 1) fmt

/-- the format text of an item -/
def Item.fmt : Item → List Nat
  | .shw _ => [37, 36]          -- "%$"
  | .li _ => [37, 108, 105]     -- "%li"
  | .ld _ => [37, 108, 100]     -- "%ld"
  | .lf _ => [37, 108, 102]     -- "%lf"
  | .lit t => t
  | .pct => [37, 37]

def Item.seg : Item → Seg
  | .lit t => .lit t
  | .pct => .pct
  | it => .spec it.fmt

/-- the item a specification makes of its argument: `%$` takes any value (`show_to`), `%li`/`%ld` an Int (`c_int`), `%lf` a Float
    (`c_float`); every other specification is outside this model -/
def specItem (spec : List Nat) (v : Val) : Option Item :=
  if spec = [37, 36] then some (.shw v)
  else match v with
    | .int n => if spec = [37, 108, 105] then some (.li n) else if spec = [37, 108, 100] then some (.ld n) else none
    | .flt b => if spec = [37, 108, 102] then some (.lf b) else none
    | .str _ => none

/-- segments + argument values → items (`none`: too few arguments — FormatError in C —, an open `%`, or an unmodelled specification) -/
def itemsOf : List Seg → List Val → Option (List Item)
  | [], _ => some []
  | .lit t :: ss, vs => (itemsOf ss vs).map (.lit t :: ·)
  | .pct :: ss, vs => (itemsOf ss vs).map (.pct :: ·)
  | .spec t :: ss, v :: vs =>
    match specItem t v, itemsOf ss vs with
    | some it, some its => some (it :: its)
    | _, _ => none
  | .spec _ :: _, [] => none
  | .open_ _ :: _, _ => none

/-- `print_to_with(out, pos, fmt, args)` on the raw format string -/
def printFmt (c : Cfg) (o : Sink) (pos : Nat) (fmt : List Nat) (args : List Val) : Option (Sink × Nat) :=
  (itemsOf (segment c.printConv fmt) args).map (printItems c o pos)

/-- `scan_from_with(input, pos, fmt, args)` on the raw format string; the arguments' current values select the reader of `%$` -/
def scanFmt (c : Cfg) (i : Input) (pos : Nat) (fmt : List Nat) (args : List Val) : Option (List Val × Res (Input × Nat)) :=
  (itemsOf (segment c.scanConv fmt) args).map (fun its => scanItems c i pos (its.map Item.shape))

/-- what the format layer needs: literals are non-empty, contain no `%`, and no two are adjacent (they would be one run) -/
def fmtOK : List Item → Bool
  | [] => true
  | .lit t :: its => !t.isEmpty && t.all (· != 37) && (match its with | .lit _ :: _ => false | _ => true) && fmtOK its
  | _ :: its => fmtOK its

/-- what the format layer needs of a conversion set: it ends `%$`, `%li`, `%ld`, `%lf` where they end, not earlier -/
def convOK (conv : List Nat) : Bool :=
  conv.contains 36 && conv.contains 105 && conv.contains 100 && conv.contains 102 && !conv.contains 108 && !conv.contains 37

end Cello.Text
