import Cello.File
import CelloGen.File
/-
  Cello/FileProg.lean — extension round of C20: pieces of the source that used to be compared with a pinned text are now
  PROGRAMS the translator extracts (CelloGen/File.lean) and this file gives a meaning to:

    File_Open / File_Del   `openProg` / `delProg : List OStmt` — the top-level statements of the body in order
                           (close-if-held, fopen into the field or into a local, the NULL test, the store, return);
                           `runOpen` executes such a program over the abstract stdio, statement by statement, with the field
                           `f->file` and the local `FILE*` as separate cells.  Props/C20.lean proves that the program of the
                           source IS `fileOpen` / `fileDel` of Cello/File.lean for every stdio, and refutes the order
                           "fopen first, close the old stream afterwards".
    with_in                `withProg : WFor` — the three clauses of the for loop as terms over the macro parameters `X` (the
                           loop variable) and `S` (the source expression, spliced in textually: every occurrence is one more
                           evaluation); `runWith` executes the loop over an abstract world in which evaluating `S` may have
                           side effects.  `withCfgOf` reads from the terms which clause model of Cello/File.lean
                           (`WithCfg`) they are.
  Core Lean only (the driver may link this file).
-/
namespace Cello.File

open CelloGen.File (Slot OStmt WTerm WFor StartFn)

/-! ## File_Open / File_Del as programs -/

/-- the cells a run of File_Open works on: the library, the field `f->file`, the local `FILE*` (if the body declares one),
    the stdio calls made so far -/
structure OSt (σ : Type) where
  lib : σ
  field : Option Handle
  loc : Option Handle
  calls : List Call

section OpenProg
variable {σ : Type} (io : Stdio σ)

/-- execute the statements of File_Open (arguments `file`, `m`) / File_Del in order.  `File_Close(self)` is `fileClose` (an
    exception it raises leaves the function at once); `throw` leaves the function; falling off the end returns. -/
def runOpen (cfg : Cfg) (file : Nat) (m : Mode) : List OStmt → OSt σ → R σ Unit
  | [], s => ⟨s.lib, s.field, .ok (), s.calls⟩
  | .closeIfHeld :: ps, s =>
    match s.field with
    | none => runOpen cfg file m ps s
    | some h =>
      let c := fileClose io cfg s.lib (some h)
      match c.out with
      | .ok _ => runOpen cfg file m ps ⟨c.lib, c.f, s.loc, s.calls ++ c.calls⟩
      | .raised e => ⟨c.lib, c.f, .raised e, s.calls ++ c.calls⟩
      | .ub => ⟨c.lib, c.f, .ub, s.calls ++ c.calls⟩
  | .fopenTo slot :: ps, s =>
    let r := io.fopen s.lib file m
    match slot with
    | .field => runOpen cfg file m ps ⟨r.1, r.2, s.loc, s.calls ++ [.fopen file m r.2]⟩
    | .loc => runOpen cfg file m ps ⟨r.1, s.field, r.2, s.calls ++ [.fopen file m r.2]⟩
  | .throwIfNull slot :: ps, s =>
    let v := match slot with | .field => s.field | .loc => s.loc
    match v with
    | none => ⟨s.lib, s.field, .raised .IOError, s.calls⟩
    | some _ => runOpen cfg file m ps s
  | .storeLocal :: ps, s => runOpen cfg file m ps ⟨s.lib, s.loc, s.loc, s.calls⟩
  | .ret :: _, s => ⟨s.lib, s.field, .ok (), s.calls⟩
  | .other _ :: _, s => ⟨s.lib, s.field, .ub, s.calls⟩

/-- File_Open as the source has it, on a File holding `f` -/
def fileOpenSrc (cfg : Cfg) (l : σ) (f : Option Handle) (file : Nat) (m : Mode) : R σ Unit :=
  runOpen io cfg file m CelloGen.File.openProg ⟨l, f, none, []⟩

/-- File_Del as the source has it (its program never reaches fopen: the two arguments are irrelevant) -/
def fileDelSrc (cfg : Cfg) (l : σ) (f : Option Handle) : R σ Unit :=
  runOpen io cfg 0 .bad CelloGen.File.delProg ⟨l, f, none, []⟩

end OpenProg

/-- the order seeded changes of the classes c20_i / c20_k / c20_m give File_Open: "open the new stream first, let go of the old
    one once the new one is known to be good" -/
def openFirstProg : List OStmt := [.fopenTo .loc, .throwIfNull .loc, .closeIfHeld, .storeLocal, .ret]

/-- branch of File_Open a call takes (for the I-line statistics of the driver): was a handle held, did fclose / fopen succeed -/
def openBranch (r : R σ Unit) (held : Bool) : String :=
  let closed := r.calls.any isClose
  let opened := r.calls.any isOpenOk
  let tried := r.calls.any (fun c => match c with | .fopen _ _ _ => true | _ => false)
  (if held then "held" else "free") ++ (if held ∧ !closed then "-nofclose" else "") ++
    (if !tried then "-closefailed" else if opened then "-ok" else "-fopenfailed")

/-! ## `with_in` as a term program -/

/-- the world the header of a with loop runs in: evaluating the source expression `S` (side effects allowed; the object it
    yields, `none` = NULL), and the functions the header calls, applied to a pointer -/
structure TEnv (ω : Type) where
  evalS : ω → ω × Option Nat
  fn : String → ω → Option Nat → ω × Option Nat

inductive TEv where
  | evalS (res : Option Nat)                         -- the source expression was evaluated
  | call (fn : String) (arg res : Option Nat)        -- a function of the header was applied
  | body (x : Option Nat)                            -- the body ran with the loop variable = x
deriving DecidableEq, Repr, Inhabited

section WithProg
variable {ω : Type} (env : TEnv ω)

/-- the value of a term of the header when the loop variable holds `x` -/
def evalT (x : Option Nat) : WTerm → ω → List TEv → ω × Option Nat × List TEv
  | .x, w, ev => (w, x, ev)
  | .s, w, ev => let r := env.evalS w; (r.1, r.2, ev ++ [.evalS r.2])
  | .null, w, ev => (w, none, ev)
  | .name _, w, ev => (w, none, ev)
  | .call f a, w, ev =>
    let r := evalT x a w ev
    let c := env.fn f r.1 r.2.1
    (c.1, c.2, r.2.2 ++ [.call f r.2.1 c.2])

/-- condition, body, step clause, … (`fuel` bounds the number of iterations) -/
def loopFor (p : WFor) (body : ω → Option Nat → ω) : Nat → ω → Option Nat → List TEv → ω × List TEv
  | 0, w, _, ev => (w, ev)
  | fuel + 1, w, x, ev =>
    let l := evalT env x p.condL w ev
    let r := evalT env x p.condR l.1 l.2.2
    if (l.2.1 != r.2.1) == p.condIsnt then
      let w3 := body r.1 x
      let s := evalT env x p.step w3 (r.2.2 ++ [.body x])
      loopFor p body fuel s.1 s.2.1 s.2.2
    else (r.1, r.2.2)

/-- the whole for loop: init clause, then the loop (the body falls off its end or executes `continue`) -/
def runWith (p : WFor) (body : ω → Option Nat → ω) (fuel : Nat) (w : ω) : ω × List TEv :=
  let i := evalT env none p.init w []
  loopFor env p body fuel i.1 i.2.1 i.2.2

end WithProg

/-- which clause model of Cello/File.lean the header is: init `var X = start_in(S)`, condition `X isnt NULL`, step
    `X = stop_in(X)` (`.bound`) or `X = stop_in(S)` (`.source`); any other header: none -/
def withCfgOf (p : WFor) : Option WithCfg :=
  if p.initVar = .x ∧ p.init = .call "start_in" .s ∧ p.condL = .x ∧ p.condIsnt = true ∧ p.condR = .null ∧ p.stepVar = .x then
    (if p.step = .call "stop_in" .x then some ⟨.bound⟩
     else if p.step = .call "stop_in" .s then some ⟨.source⟩ else none)
  else none

/-- the variant `X = stop_in(S)` (seeded changes of the classes c20_d / c20_h / c20_l) -/
def withProgReeval : WFor := ⟨.x, .call "start_in" .s, .x, true, .null, .x, .call "stop_in" .s⟩

/-- a world for examples: `S` constructs a new object on every evaluation (the world counts them), start_in returns its
    argument, stop_in returns NULL -/
def freshEnv : TEnv Nat where
  evalS := fun n => (n + 1, some n)
  fn := fun f w v => if f = "start_in" then (w, v) else (w, none)

end Cello.File
