/-
  Cello/FailIdx.lean — the index prologues and the refusal messages of the sequence types, *as extracted from the sources*
  (engine `fail`, property C12, extension round).

  `CelloGen.Fail.idx_<Function>` (translate/g_fail.py) is the text of the statements that give the index variable its value in front of
  the IndexOutOfBoundsError guard of Array_Get / _Set / _Pop_At / _Push_At, List_At, Tuple_Get / _Set / _Push_At / _Pop_At, and of the guard
  itself, as terms `IE`.  This file gives the terms their C meaning on `BitVec 64` (`int64_t` signed, `size_t` unsigned, usual arithmetic
  conversions, comparisons yielding 0 / 1) and runs them: `IdxProg.run`.  Props/C12.lean proves `run = resolveB` (the model's index
  resolution) for every `nitems` and every 64-bit key: a statement added, dropped or edited in a prologue falsifies that theorem.

  `CelloGen.Fail.throwSites` is every `throw(E, "format", args…)` of the profiled functions.  `render` is `print_to_with` on the
  directives these formats use (`%i`: the low 32 bits of `c_int(arg)` read as `int`, what `vsnprintf("%i")` prints for the int64_t that
  `print_to_with` hands it on x86-64 / AArch64; `%li`: the 64 bits); `Seq.refusalMsg` is the message of the exception a refused index
  operation, an empty pop or a reallocation of a Tuple that is not on the heap leaves in `current(Exception)->msg`.

  Core Lean only (the driver links against this file).
-/
import Cello.Fail
import CelloGen.Fail
namespace CelloGen.Fail
open Cello.Fail (R Exc)

/-! ### C semantics of the index expressions -/

/-- a C value of the fragment: 64 bits and whether its type is signed (`int64_t`, `int`) or unsigned (`size_t`) -/
abbrev CV := BitVec 64 × Bool

def cvBool (b : Bool) : CV := (if b then 1 else 0, true)

/-- `a < b` after the usual arithmetic conversions: signed comparison only when both operands are signed -/
def cvLt (a b : CV) : Bool := if a.2 && b.2 then a.1.slt b.1 else a.1.ult b.1

/-- value of an expression; `k` = `c_int(key)`, `n` = `nitems`, `i` = the current value of the index variable.  `+` / `-` are modulo
    2^64 (exact for `size_t`; `IE.unsignedArith` says that no sum or difference of these prologues has two signed operands, where
    C would leave overflow undefined) -/
def IE.eval (k n i : BitVec 64) : IE → CV
  | .key => (k, true)
  | .i => (i, true)
  | .n => (n, false)
  | .lit v => (BitVec.ofNat 64 v, true)
  | .add a b => ((a.eval k n i).1 + (b.eval k n i).1, (a.eval k n i).2 && (b.eval k n i).2)
  | .sub a b => ((a.eval k n i).1 - (b.eval k n i).1, (a.eval k n i).2 && (b.eval k n i).2)
  | .castS a => ((a.eval k n i).1, true)
  | .castU a => ((a.eval k n i).1, false)
  | .lt a b => cvBool (cvLt (a.eval k n i) (b.eval k n i))
  | .gt a b => cvBool (cvLt (b.eval k n i) (a.eval k n i))
  | .le a b => cvBool (!cvLt (b.eval k n i) (a.eval k n i))
  | .ge a b => cvBool (!cvLt (a.eval k n i) (b.eval k n i))
  | .eq a b => cvBool ((a.eval k n i).1 == (b.eval k n i).1)
  | .ne a b => cvBool ((a.eval k n i).1 != (b.eval k n i).1)
  | .or a b => cvBool ((a.eval k n i).1 != 0 || (b.eval k n i).1 != 0)
  | .and a b => cvBool ((a.eval k n i).1 != 0 && (b.eval k n i).1 != 0)
  | .cond c a b =>
    let r := if (c.eval k n i).1 != 0 then a.eval k n i else b.eval k n i
    (r.1, (a.eval k n i).2 && (b.eval k n i).2)

/-- is the static type of the expression signed? (independent of the values) -/
def IE.signed : IE → Bool
  | .n => false
  | .castU _ => false
  | .add a b | .sub a b => a.signed && b.signed
  | .cond _ a b => a.signed && b.signed
  | _ => true

/-- no `+` / `-` of the expression has two signed operands (signed overflow would be undefined behaviour in C) -/
def IE.unsignedArith : IE → Bool
  | .add a b | .sub a b => !(a.signed && b.signed) && a.unsignedArith && b.unsignedArith
  | .castS a | .castU a => a.unsignedArith
  | .lt a b | .le a b | .gt a b | .ge a b | .eq a b | .ne a b | .or a b | .and a b => a.unsignedArith && b.unsignedArith
  | .cond c a b => c.unsignedArith && a.unsignedArith && b.unsignedArith
  | _ => true

/-- the value of `i` at the guard: the parameter (`List_At`) or 0 overwritten by the assignments in statement order -/
def IdxProg.index (p : IdxProg) (n : Nat) (k : BitVec 64) : BitVec 64 :=
  p.assigns.foldl (fun i e => (e.eval k (BitVec.ofNat 64 n) i).1) (if p.param then k else 0)

/-- run the prologue: `raised IndexOutOfBoundsError` when the guard holds, else the slot addressed -/
def IdxProg.run (p : IdxProg) (n : Nat) (k : BitVec 64) : R Nat :=
  let i := p.index n k
  if (p.guard.eval k (BitVec.ofNat 64 n) i).1 != 0 then .raised .IndexOutOfBoundsError else .ok i.toNat

/-- a prologue is in the fragment the theorems speak about: a local `i` is initialised by `c_int(key)` first, nothing is assigned to
    `i` behind the guard, no signed `+` / `-` -/
def IdxProg.wf (p : IdxProg) : Bool :=
  (p.param || p.assigns.head? == some .key) && p.post.isEmpty && p.assigns.all IE.unsignedArith && p.guard.unsignedArith

end CelloGen.Fail

namespace Cello.Fail
open CelloGen.Fail (IE IdxProg)

/-! ### the message of a refusal  (`exception_throw`: `print_to_with(e->msg, 0, fmt, args)`) -/

/-- `%i` of `print_to_with`: `c_int(arg)` (an `int64_t`) is passed to `vsnprintf`, which reads an `int`: the low 32 bits, signed -/
def i32Text (x : Int) : String :=
  let m := x % 4294967296
  toString (if m < 2147483648 then m else m - 4294967296)

/-- one piece of a message format -/
inductive Piece where
  | text (s : String)
  | int32      -- `%i`
  | int64      -- `%li`
  | other (c : Char)
deriving DecidableEq, Repr, Inhabited

/-- split a format at its directives (`%i`, `%li`; any other directive is kept as `other`) -/
def pieces : List Char → List Char → List Piece
  | [], acc => if acc.isEmpty then [] else [.text (String.ofList acc.reverse)]
  | '%' :: 'l' :: 'i' :: cs, acc => (if acc.isEmpty then [] else [.text (String.ofList acc.reverse)]) ++ .int64 :: pieces cs []
  | '%' :: 'i' :: cs, acc => (if acc.isEmpty then [] else [.text (String.ofList acc.reverse)]) ++ .int32 :: pieces cs []
  | '%' :: c :: cs, acc => (if acc.isEmpty then [] else [.text (String.ofList acc.reverse)]) ++ .other c :: pieces cs []
  | c :: cs, acc => pieces cs (c :: acc)

/-- `print_to_with` over integer arguments; `none` when the format has another directive or too few arguments -/
def renderPieces : List Piece → List Int → Option String
  | [], _ => some ""
  | .text s :: ps, args => (renderPieces ps args).map (s ++ ·)
  | .int32 :: ps, a :: args => (renderPieces ps args).map (i32Text a ++ ·)
  | .int64 :: ps, a :: args => (renderPieces ps args).map (toString a ++ ·)
  | _, _ => none

/-- the value of an argument of a throw site of the sequence functions: the key object as passed (`key`), the normalised index
    (`$(Int,i)`, List_At), the item count (every spelling of it) -/
def argValue (key i : Int) (n : Nat) (a : String) : Option Int :=
  if a = "key" then some key
  else if a = "$(Int,i)" then some i
  else if a ∈ ["$I(a->nitems)", "$(Int,l->nitems)", "$I(Tuple_Len(t))", "$I(nitems)"] then some n
  else none

/-- the message of the first throw site of function `f` with exception `e` -/
def siteMsg (sites : List (String × String × String × List String)) (f e : String) (key i : Int) (n : Nat) : Option String :=
  match sites.find? (fun s => s.1 == f && s.2.1 == e) with
  | some (_, _, fmt, args) =>
    match args.mapM (argValue key i n) with
    | some vs => renderPieces (pieces fmt.toList []) vs
    | none => none
  | none => none

/-- kind of sequence and the C function whose guard refuses the index of `get` / `set` / `pop_at` / `push_at` -/
inductive SeqK where
  | arr | lst | tup
deriving DecidableEq, Repr, Inhabited

def SeqK.indexFn : SeqK → Op → Option String
  | .arr, .get _ => some "Array_Get" | .arr, .set _ _ => some "Array_Set" | .arr, .popAt _ => some "Array_Pop_At" | .arr, .pushAt _ _ => some "Array_Push_At"
  | .lst, .get _ => some "List_At" | .lst, .set _ _ => some "List_At" | .lst, .popAt _ => some "List_At" | .lst, .pushAt _ _ => some "List_At"
  | .tup, .get _ => some "Tuple_Get" | .tup, .set _ _ => some "Tuple_Set" | .tup, .popAt _ => some "Tuple_Pop_At" | .tup, .pushAt _ _ => some "Tuple_Push_At"
  | _, _ => none

def SeqK.popFn : SeqK → String
  | .arr => "Array_Pop" | .lst => "List_Pop" | .tup => "Tuple_Pop"

def Op.indexArg : Op → Option Val
  | .get k | .set k _ | .popAt k | .pushAt _ k => some k
  | _ => none

/-- the index variable at the throw: what the extracted prologue of the function computes -/
def SeqK.indexAtThrow (f : String) (n : Nat) (k : BitVec 64) : Int :=
  match CelloGen.Fail.idxProgs.lookup f with
  | some p => (p.index n k).toInt
  | none => k.toInt

/-- **the message of an `IndexOutOfBoundsError`** raised by `op` on a sequence of `n` items: the text the throw site of the
    refusing C function formats (extracted: `CelloGen.Fail.throwSites`), with the key as passed and the item count — `List_At`
    reports the *normalised* index instead.  `none`: the operation has no index / pop refusal. -/
def SeqK.refusalMsg (sk : SeqK) (n : Nat) (op : Op) : Option String :=
  match op with
  | .pop => siteMsg CelloGen.Fail.throwSites sk.popFn "IndexOutOfBoundsError" 0 0 n
  | _ =>
    match sk.indexFn op, op.indexArg with
    | some f, some (.int key) =>
      let k := BitVec.ofInt 64 key
      siteMsg CelloGen.Fail.throwSites f "IndexOutOfBoundsError" k.toInt (SeqK.indexAtThrow f n k) n
    | _, _ => none

end Cello.Fail
