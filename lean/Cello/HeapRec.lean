/-
  Cello/HeapRec.lean — the mark phase with the *call structure* of src/GC.c: GC_Mark_Item calls GC_Recurse, which
  either returns (leaf type), runs the type's Mark instance with the callback GC_Mark_And_Recurse, or scans the
  object's words with GC_Mark_Item.  The recursion is indexed by a depth budget (`level d`): `.deep` means the C
  recursion is more than `d` activations of GC_Mark_Item/GC_Recurse deep — on a real machine, stack exhaustion when
  `d` exceeds what the C stack holds (known finding F27), non-termination when it holds for every `d` (F26, repaired).

  `Cello.Heap.dfs` (the worklist marker the theorems of C01 are about) visits words in exactly the order of this
  recursion; `CelloProofs/Lemmas/MarkRec.lean` proves that whenever the recursion completes it returns `dfs`'s result,
  and that it completes for a large enough budget when the callback is guarded.
-/
import Cello.Heap

namespace Cello.Heap

inductive Res (σ : Type) where
  | ok (m : σ)
  | deep          -- depth budget exhausted
  | ub            -- the C code would read memory the model knows nothing about (unregistered pointer handed to the callback)
deriving Repr, DecidableEq

def Res.bind {σ : Type} (r : Res σ) (f : σ → Res σ) : Res σ :=
  match r with
  | .ok m => f m
  | .deep => .deep
  | .ub => .ub

/-- a C `for` loop calling `f` on each element, threading the mark bits -/
def foldRes {α σ : Type} (f : α → σ → Res σ) : List α → σ → Res σ
  | [], m => .ok m
  | x :: xs, m => (f x m).bind (foldRes f xs)

/-- `m->mark(obj, gc, f)`: the Mark instance of the object's type.  `rec` is what the callback does with a pointer to
    an embedded (unregistered) element, `cb` what it does with a stored pointer.  `own`: the object is `current(Thread)` of the
    marking thread (the thread-local-storage phase of `GC_Mark`); `Thread_Mark` is `mark(t->tls, gc, f);` for every Thread object
    (`c.foreignTls = true`, the source as it is) — `if (self is current(Thread)) { … }` in the variant of the withdrawn repair 80c795e. -/
def markInst {σ : Type} (c : Cfg) (own : Bool) (rec : Obj → σ → Res σ) (cb : Word → σ → Res σ) : Obj → σ → Res σ
  | .raw _ _, m => .ok m
  | .cont _ es, m => foldRes rec es m
  | .tup _ items, m => foldRes cb items m
  | .thr _ tls, m =>
    if own || c.foreignTls then
      (if c.hasMark tls.ty then markInst c true rec cb tls m else .ok m)     -- mark(t->tls, gc, f)
    else .ok m

structure Level (σ : Type) where
  item : Word → σ → Res σ        -- GC_Mark_Item
  recurse : Obj → σ → Res σ      -- GC_Recurse

section
variable {σ : Type} (S : MarkSet σ) (c : Cfg) (h : Heap)

/-- `GC_Mark_And_Recurse(gc, ptr)` for a stored pointer `w`, one level below the caller -/
def callback (L : Level σ) (w : Word) (m : σ) : Res σ :=
  if c.guarded then
    -- if (GC_Mem_Ptr(gc, ptr)) GC_Mark_Item(gc, ptr); else GC_Recurse(gc, ptr);
    if (h.lookup w).isSome then L.item w m else .ub
  else
    -- GC_Mark_Item(gc, ptr); GC_Recurse(gc, ptr);
    (L.item w m).bind fun m' =>
      match h.lookup w with
      | some e => L.recurse e.obj m'
      | none => .ub

def level : Nat → Level σ
  | 0 => { item := fun _ _ => .deep, recurse := fun _ _ => .deep }
  | d + 1 =>
    let L := level d
    { item := fun w m =>
        -- alignment, bounds, registry lookup; found and not marked → mark, GC_Recurse
        if w % 8 == 0 && decide (h.minptr ≤ w) && decide (w ≤ h.maxptr) then
          match h.lookup w with
          | some e => if S.mem w m then .ok m else L.recurse e.obj (S.insert w m)
          | none => .ok m
        else .ok m
      recurse := fun o m =>
        if c.isLeaf o.ty then .ok m
        else if c.hasMark o.ty then markInst c false L.recurse (callback c h L) o m
        else match o with
          | .raw _ ws => foldRes L.item (scanWords c ws) m
          | _ => .ok m }

/-- the thread-local-storage phase: `mark(current(Thread), gc, GC_Mark_And_Recurse)` — or, before the repair,
    `GC_Mark_Item` as the callback, which does nothing with a pointer to an embedded element -/
def tlsPhase (L : Level σ) (thread : Obj) (m : σ) : Res σ :=
  if c.hasMark thread.ty then
    (if c.tlsCallback then markInst c true L.recurse (callback c h L) thread m
     else markInst c true (fun _ m => .ok m) L.item thread m)
  else .ok m

/-- the root loop of `GC_Mark` -/
def rootPhase (L : Level σ) (m : σ) : Res σ :=
  foldRes (fun a m =>
    match h.lookup a with
    | some e => if S.mem a m then .ok m else L.recurse e.obj (S.insert a m)
    | none => .ok m) (rootAddrs h) m

/-- `GC_Mark` with the call structure of the C code and a depth budget -/
def gcMarkRec (d : Nat) (thread : Obj) (stack : List Word) : Res σ :=
  let L := level S c h d
  ((tlsPhase c h L thread S.empty).bind (rootPhase S h L)).bind (foldRes L.item stack)

end


/-! ### the header's type pointer (known finding KF-C01-type-outlived)

  Every Cello object has a header in front of it (`struct Header { var type; … }`, 24 bytes BEFORE the address the collector knows).  For an
  instance of a type made at run time — `T = new(Type, name, size, instances…)`, `x = new(T)` — `header(x)->type` is the address of `T`, and
  `T` itself is an ordinary collector-managed object (`Type_Alloc` → `alloc_by(Type, ALLOC_STANDARD)` → `GC_Set`).  `GC_Recurse(gc, x)` scans
  `size(type)` bytes from `x` ON and `GC_Mark_Item` accepts only exact object addresses: the collector NEVER marks through the header.  So `T`
  is kept only if something else holds it (a stack word, a root registration, a field of a reachable object); otherwise the sweep releases
  `T` while `x` lives, and the next `GC_Recurse(gc, x)` starts with `type_of(x)` → `type_instance(type, Mark)` / `size(type)` on the released
  block.  `TyMap` is that edge; the collector model (`gcMarkFrom`, `collectAll`, `GState.step`) is unchanged — it does not see the edge, as the
  code does not — and `TState.run` adds what the C code does when a traced object's Type has been released: undefined behaviour (`none`). -/

/-- `ty a = some t`: the object registered at `a` is an instance of the collector-managed (registered when it was made) run-time Type object at
    `t`; `none`: its type is static (`Cello(…)` at file scope) or was made with `new_raw` (never registered, never released by a sweep) -/
abbrev TyMap := Addr → Option Addr

/-- does `type_of(a)` lead to a Type object that is no longer registered (released by a sweep or by `del`)? -/
def typeDangling (h : Heap) (ty : TyMap) (a : Addr) : Bool :=
  match ty a with
  | some t => (h.lookup t).isNone
  | none => false

/-- **Specification with the header edge**: reachability over the registered heap along the words the collector reads (`Points`) AND along
    the header's type pointer of every reachable object -/
inductive ReachableT (c : Cfg) (h : Heap) (ty : TyMap) (roots : List Word) : Addr → Prop
  | root {a} : a ∈ roots → (h.lookup a).isSome = true → ReachableT c h ty roots a
  | step {a b} : ReachableT c h ty roots a → Points c h a b → (h.lookup b).isSome = true → ReachableT c h ty roots b
  | hdr {a t} : ReachableT c h ty roots a → ty a = some t → (h.lookup t).isSome = true → ReachableT c h ty roots t

/-- **The hypothesis of the typed theorems, decidable**: "the types of all registered objects are static, root-registered, or themselves
    reachable from the roots" — for every registered `a` with `ty a = some t`: `t` is registered and (root-flagged or marked by `GC_Mark` from
    thread-local storage, the root entries and the stack, i.e. reachable WITHOUT the header edge: `gcMark_iff_reach`).  Registered, not only
    reachable, instances: an unreachable instance that is swept together with its type has its destructor looked up through the type. -/
def typesAnchored {σ : Type} (S : MarkSet σ) (c : Cfg) (h : Heap) (ty : TyMap) (thread : Obj) (stack : List Word) : Bool :=
  let m := gcMark S c h thread stack
  h.regs.all fun a =>
    (h.lookup a).isNone ||
    match ty a with
    | none => true
    | some t =>
      match h.lookup t with
      | some e => e.root || S.mem t m
      | none => false

/-- a mark phase that sets the bits `m` from the bits `m0` calls `GC_Recurse` on every registered entry it marks: undefined behaviour when
    the Type of one of them has been released -/
def markUB {σ : Type} (S : MarkSet σ) (h : Heap) (ty : TyMap) (m0 m : σ) : Bool :=
  h.regs.any fun a => (h.lookup a).isSome && S.mem a m && !S.mem a m0 && typeDangling h ty a

/-- does the operation run a mark phase? -/
def GOp.marks : GOp → Bool
  | .base .collect => true
  | .raise _ => true
  | _ => false

inductive TOp where
  | op (o : GOp)
  | retag (a : Addr) (t : Option Addr)   -- `alloc_by` writes the header of the block it hands out: the type of the object at `a` from now on

structure TState where
  g : GState
  ty : TyMap

/-- one completed collection of a typed history, with the header edges as they were when it ran -/
structure TEvent where
  ev : GEvent
  ty : TyMap

def TState.retag (s : TState) (a : Addr) (t : Option Addr) : TState :=
  { s with ty := fun x => if x = a then t else s.ty x }

/-- would the mark phase of this operation call `GC_Recurse` on an object whose Type has been released? -/
def TState.ubNow {σ : Type} (S : MarkSet σ) (c : Cfg) (clearFirst : Bool) (s : TState) : GOp → Bool
  | .base .collect =>
    let m0 := seed S (if clearFirst then [] else s.g.stale)
    markUB S s.g.heap s.ty m0 (gcMarkFrom S c s.g.heap s.g.thread s.g.stack m0)
  | .raise k =>
    ((markEvents c s.g.heap s.g.thread s.g.stack (if clearFirst then [] else s.g.stale)).take k).any fun a =>
      (s.g.heap.lookup a).isSome && typeDangling s.g.heap s.ty a
  | _ => false

/-- **typed histories**: `GState.step` (the collector does not see the header edge) with the one thing the C code adds — `none` as soon as a
    mark phase traces an object whose Type has been released -/
def TState.run {σ : Type} (S : MarkSet σ) (c : Cfg) (clearFirst : Bool) : List TOp → TState → Option (TState × List TEvent)
  | [], s => some (s, [])
  | .retag a t :: ops, s => TState.run S c clearFirst ops (s.retag a t)
  | .op o :: ops, s =>
    if s.ubNow S c clearFirst o then none else
    match TState.run S c clearFirst ops { s with g := (s.g.step S c clearFirst o).1 } with
    | none => none
    | some (s2, evs) =>
      some (s2, match (s.g.step S c clearFirst o).2 with | some e => ⟨e, s.ty⟩ :: evs | none => evs)

/-- the hypothesis over a history: `typesAnchored` holds whenever a mark phase begins -/
def TState.anchored {σ : Type} (S : MarkSet σ) (c : Cfg) (clearFirst : Bool) : List TOp → TState → Bool
  | [], _ => true
  | .retag a t :: ops, s => TState.anchored S c clearFirst ops (s.retag a t)
  | .op o :: ops, s =>
    (!o.marks || typesAnchored S c s.g.heap s.ty s.g.thread s.g.stack) &&
      TState.anchored S c clearFirst ops { s with g := (s.g.step S c clearFirst o).1 }

/-- the operations the collector sees -/
def TOp.erase : List TOp → List GOp
  | [] => []
  | .op o :: ops => o :: TOp.erase ops
  | .retag _ _ :: ops => TOp.erase ops

/-- witness: `x = new(T)` at 4096 on the stack, `T = new(Type, …)` at 4160, referenced by `x`'s header only -/
def typeHeap : Heap where
  lookup a :=
    if a = 4096 then some ⟨.raw "Probe" [7], false⟩
    else if a = 4160 then some ⟨.raw "Type" [0], false⟩
    else none
  regs := [4096, 4160]
  minptr := 4096
  maxptr := 4160
  complete := by
    intro a e he
    by_cases h1 : a = 4096; · simp [h1]
    by_cases h2 : a = 4160; · simp [h2]
    simp [h1, h2] at he

def typeTy : TyMap := fun a => if a = 4096 then some 4160 else none

/-! ### live objects that are not registered (audit 2, item 2)

  `GC_Mark_And_Recurse(gc, ptr)` is `if (GC_Mem_Ptr(gc, ptr)) GC_Mark_Item(gc, ptr); else GC_Recurse(gc, ptr);`: a pointer that a heap Tuple (or a user
  Mark instance) hands out and that is NOT registered is traced as an object in its own right.  That is correct C whenever the pointer leads to a
  LIVE object — a static object (`Int`, the Type objects), an object on a live stack frame (`$I(42)`), one made with `new_raw` — and a read of
  released memory only when it dangles (KF-C01-dangling-tuple-item, KF-C01-tuple-aliases-elements).  `level` knows registered objects only and answers
  `.ub` for every unregistered pointer; `levelX` is the same marker with the live unregistered objects given as `ext`: `.ub` is left for pointers
  that are in neither — exactly the territory of the two findings. -/

/-- the live objects that are not registered with the collector, by address -/
abbrev Ext := Addr → Option Obj

section
variable {σ : Type} (S : MarkSet σ) (c : Cfg) (h : Heap) (ext : Ext)

/-- `GC_Mark_And_Recurse(gc, ptr)` for a stored pointer `w`, with the live unregistered objects known -/
def callbackX (L : Level σ) (w : Word) (m : σ) : Res σ :=
  if c.guarded then
    if (h.lookup w).isSome then L.item w m
    else match ext w with
      | some o => L.recurse o m        -- GC_Recurse(gc, ptr) on a live object that is not registered
      | none => .ub                    -- neither registered nor live: released or foreign memory
  else
    (L.item w m).bind fun m' =>
      match h.lookup w with
      | some e => L.recurse e.obj m'
      | none => match ext w with
        | some o => L.recurse o m'
        | none => .ub

def levelX : Nat → Level σ
  | 0 => { item := fun _ _ => .deep, recurse := fun _ _ => .deep }
  | d + 1 =>
    let L := levelX d
    { item := fun w m =>
        if w % 8 == 0 && decide (h.minptr ≤ w) && decide (w ≤ h.maxptr) then
          match h.lookup w with
          | some e => if S.mem w m then .ok m else L.recurse e.obj (S.insert w m)
          | none => .ok m
        else .ok m
      recurse := fun o m =>
        if c.isLeaf o.ty then .ok m
        else if c.hasMark o.ty then markInst c false L.recurse (callbackX c h ext L) o m
        else match o with
          | .raw _ ws => foldRes L.item (scanWords c ws) m
          | _ => .ok m }
end

/-- witness: 4096 ↦ a heap Tuple `new(Tuple, Int, $I(42), ra)` whose items are the static Type object `Int` (at 5000), an Int on a live stack frame
    (at 5008) and `ra = new_raw(Array, Ref)` (at 5016) holding a Ref to the Probe at 4160 -/
def extHeap : Heap where
  lookup a :=
    if a = 4096 then some ⟨.tup "Tuple" [5000, 5008, 5016], false⟩
    else if a = 4160 then some ⟨.raw "Probe" [7], false⟩
    else none
  regs := [4096, 4160]
  minptr := 4096
  maxptr := 4160
  complete := by
    intro a e he
    by_cases h1 : a = 4096; · simp [h1]
    by_cases h2 : a = 4160; · simp [h2]
    simp [h1, h2] at he

def extLive : Ext := fun a =>
  if a = 5000 then some (.raw "Type" [0])
  else if a = 5008 then some (.raw "Int" [42])
  else if a = 5016 then some (.cont "Array" [.raw "Ref" [4160]])
  else none

end Cello.Heap
