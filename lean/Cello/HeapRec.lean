/-
  Cello/HeapRec.lean — the mark phase with the *call structure* of src/GC.c: GC_Mark_Item calls GC_Recurse, which
  either returns (leaf type), runs the type's Mark instance with the callback GC_Mark_And_Recurse, or scans the
  object's words with GC_Mark_Item.  The recursion is indexed by a depth budget (`level d`): `.deep` means the C
  recursion is more than `d` activations of GC_Mark_Item/GC_Recurse deep — on a real machine, stack exhaustion when
  `d` exceeds what the C stack holds (known finding F27), non-termination when it holds for every `d` (F26, repaired).

  `Cello.Heap.dfs` (the worklist marker the theorems of C01 are about) visits words in exactly the order of this
  recursion; `CelloProofs/Lemmas/MarkRec.lean` proves that whenever the recursion completes it returns `dfs`'s result,
  and that it completes for a large enough budget when the callback is guarded.
-/
import Cello.Heap

namespace Cello.Heap

inductive Res (σ : Type) where
  | ok (m : σ)
  | deep          -- depth budget exhausted
  | ub            -- the C code would read memory the model knows nothing about (unregistered pointer handed to the callback)
deriving Repr, DecidableEq

def Res.bind {σ : Type} (r : Res σ) (f : σ → Res σ) : Res σ :=
  match r with
  | .ok m => f m
  | .deep => .deep
  | .ub => .ub

/-- a C `for` loop calling `f` on each element, threading the mark bits -/
def foldRes {α σ : Type} (f : α → σ → Res σ) : List α → σ → Res σ
  | [], m => .ok m
  | x :: xs, m => (f x m).bind (foldRes f xs)

/-- `m->mark(obj, gc, f)`: the Mark instance of the object's type.  `rec` is what the callback does with a pointer to
    an embedded (unregistered) element, `cb` what it does with a stored pointer.  `own`: the object is `current(Thread)` of the
    marking thread (the thread-local-storage phase of `GC_Mark`); `Thread_Mark` is `mark(t->tls, gc, f);` for every Thread object
    (`c.foreignTls = true`, the source as it is) — `if (self is current(Thread)) { … }` in the variant of the withdrawn repair 80c795e. -/
def markInst {σ : Type} (c : Cfg) (own : Bool) (rec : Obj → σ → Res σ) (cb : Word → σ → Res σ) : Obj → σ → Res σ
  | .raw _ _, m => .ok m
  | .cont _ es, m => foldRes rec es m
  | .tup _ items, m => foldRes cb items m
  | .thr _ tls, m =>
    if own || c.foreignTls then
      (if c.hasMark tls.ty then markInst c true rec cb tls m else .ok m)     -- mark(t->tls, gc, f)
    else .ok m

structure Level (σ : Type) where
  item : Word → σ → Res σ        -- GC_Mark_Item
  recurse : Obj → σ → Res σ      -- GC_Recurse

section
variable {σ : Type} (S : MarkSet σ) (c : Cfg) (h : Heap)

/-- `GC_Mark_And_Recurse(gc, ptr)` for a stored pointer `w`, one level below the caller -/
def callback (L : Level σ) (w : Word) (m : σ) : Res σ :=
  if c.guarded then
    -- if (GC_Mem_Ptr(gc, ptr)) GC_Mark_Item(gc, ptr); else GC_Recurse(gc, ptr);
    if (h.lookup w).isSome then L.item w m else .ub
  else
    -- GC_Mark_Item(gc, ptr); GC_Recurse(gc, ptr);
    (L.item w m).bind fun m' =>
      match h.lookup w with
      | some e => L.recurse e.obj m'
      | none => .ub

def level : Nat → Level σ
  | 0 => { item := fun _ _ => .deep, recurse := fun _ _ => .deep }
  | d + 1 =>
    let L := level d
    { item := fun w m =>
        -- alignment, bounds, registry lookup; found and not marked → mark, GC_Recurse
        if w % 8 == 0 && decide (h.minptr ≤ w) && decide (w ≤ h.maxptr) then
          match h.lookup w with
          | some e => if S.mem w m then .ok m else L.recurse e.obj (S.insert w m)
          | none => .ok m
        else .ok m
      recurse := fun o m =>
        if c.isLeaf o.ty then .ok m
        else if c.hasMark o.ty then markInst c false L.recurse (callback c h L) o m
        else match o with
          | .raw _ ws => foldRes L.item (scanWords c ws) m
          | _ => .ok m }

/-- the thread-local-storage phase: `mark(current(Thread), gc, GC_Mark_And_Recurse)` — or, before the repair,
    `GC_Mark_Item` as the callback, which does nothing with a pointer to an embedded element -/
def tlsPhase (L : Level σ) (thread : Obj) (m : σ) : Res σ :=
  if c.hasMark thread.ty then
    (if c.tlsCallback then markInst c true L.recurse (callback c h L) thread m
     else markInst c true (fun _ m => .ok m) L.item thread m)
  else .ok m

/-- the root loop of `GC_Mark` -/
def rootPhase (L : Level σ) (m : σ) : Res σ :=
  foldRes (fun a m =>
    match h.lookup a with
    | some e => if S.mem a m then .ok m else L.recurse e.obj (S.insert a m)
    | none => .ok m) (rootAddrs h) m

/-- `GC_Mark` with the call structure of the C code and a depth budget -/
def gcMarkRec (d : Nat) (thread : Obj) (stack : List Word) : Res σ :=
  let L := level S c h d
  ((tlsPhase c h L thread S.empty).bind (rootPhase S h L)).bind (foldRes L.item stack)

end

end Cello.Heap
