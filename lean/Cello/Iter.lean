/-
  Cello/Iter.lean — executable model of the iteration protocol of /repo (engine `iter`, property C11).

  What is modelled (the code as it is in /repo now, after the `fix:` commits):
    src/Array.c  Array_Iter_Init/Next/Last/Prev, Array_Len, Array_Get
    src/List.c   List_Iter_*, List_Len, List_Get (List_At)
    src/Table.c  Table_Iter_* (scan over the slot array, holes = hash word 0), Table_Len
    src/Tree.c   Tree_Iter_* (successor / predecessor through child and parent pointers), Tree_Len
    src/Tuple.c  Tuple_Iter_* (search for the current *pointer*), Tuple_Len, Tuple_Get
    src/Iter.c   Range_*, range_stack, Slice_Arg, slice_stack, Slice_*, Zip_*, enumerate_stack, Filter_*, Map_*

  Conventions.
  * An iterable is a small state machine.  The C protocol hands the cursor returned by one call to the next call; every
    caller in the library (foreach, the views) passes on exactly the object it received last, so the model keeps the
    "cursor last handed out" inside the state `σ` of the iterable.  For containers the state is the position (or
    `none` = `Terminal` was handed out); for Range it is the value of the mutated Int cell; Map's `curr` and Zip's
    `values` are the states of the underlying iterables.
  * `Res`: `item a` (an object whose observable value is `a`), `term` (`Terminal`), `undef` (the C code leaves the
    protocol: it dereferences / compares `Terminal` as if it were an element, or calls a method `Terminal` does not
    have — undefined behaviour or a stray exception), `hang` (a C loop that does not terminate; only reached with
    the fuel of `Filter` exhausted).
  * `get` is the pure function index ↦ element; what a call of `get` does to a walk IN PROGRESS is modelled separately
    (`getSt`: the caller keeps its cursor — a `foreach` body calling `get`; `getCur`: the caller adopts the object returned
    as its cursor — Map_Get, Zip_Get): Range_Get writes the Int cell the walk increments, Map_Get overwrites `m->curr`,
    Zip_Get the `values` tuple; `Iterable.forwardWith` is foreach with such calls in its body.  `inObject` / `oneCell` say
    whether the cursor lives inside the object (two walks over one object share it: `zipSameI`) and whether one mutable
    cell is handed out every time.
  * sizes are `Nat`, `int64_t` is `Int` (no wrap-around: assumption "all counts and Range values stay below 2^63").
  Core Lean only (the driver links against this file).

  Companion files: Cello/IterMut.lean — containers that have been MUTATED before they are iterated (List with its
  head / tail / next / prev link words, Array with its backing store, Table and Tree through the models of src/Table.c and
  src/Tree.c); Cello/IterExpr.lean — the expression language of the op files and `denote`.
-/
namespace Cello.Iter

/-- result of one protocol call -/
inductive Res (α : Type) where
  | item (a : α)
  | term
  | undef
  | hang
deriving Repr, DecidableEq

def Res.map {α β : Type} (f : α → β) : Res α → Res β
  | .item a => .item (f a)
  | .term => .term
  | .undef => .undef
  | .hang => .hang

def Res.isItem {α : Type} : Res α → Bool
  | .item _ => true
  | _ => false

/-- An iterable object: cursor state, the four protocol functions, and `len` / `get` where the type implements them.
    `get` takes the signed C index; `none` = exception. -/
structure Iterable (α : Type) : Type 1 where
  σ : Type
  s0 : σ
  init : σ → σ × Res α
  next : σ → σ × Res α
  last : σ → σ × Res α
  prev : σ → σ × Res α
  len : Option Nat
  get : Option (Int → Option α)
  /-- what a call `get(self, k)` does to the state of a walk in progress when the caller KEEPS the cursor it holds (a
      `foreach` body that calls `get`): nothing for the containers (their cursor is the pointer the caller holds); Range_Get
      writes the element into the very Int that Range_Iter_Next increments, Map_Get overwrites `m->curr`, Zip_Get the
      `values` tuple.  Meaningful where `get` is `some`. -/
  getSt : σ → Int → σ := fun s _ => s
  /-- the state after `get(self, k)` when the caller ADOPTS the object returned as its cursor (`m->curr = get(m->iter, key)`
      in Map_Get, `values->items[i] = get(iters->items[i], key)` in Zip_Get); unchanged when `get` raises -/
  getCur : σ → Int → σ := fun s _ => s
  /-- the cursor of a walk lives INSIDE the object (Range's Int cell, Map's `curr`, Zip's `values`; a Slice / Filter over
      such an object) and not in the pointer the caller holds: two walks over one object share it -/
  inObject : Bool := false
  /-- every call hands out one and the same mutable object (Range's Int cell, Zip's `values` tuple) -/
  oneCell : Bool := false

/-! ## Running an iteration -/

inductive End where
  | term | undef | hang | fuel
deriving Repr, DecidableEq

def End.show : End → String
  | .term => "term" | .undef => "ub" | .hang => "hang" | .fuel => "fuel"

/-- collect items: `r` is the result of the previous call; stop at the first non-item -/
def runFuel {σ α : Type} (step : σ → σ × Res α) : Nat → σ × Res α → List α × End
  | 0, _ => ([], .fuel)
  | n + 1, (s, .item a) => let (l, e) := runFuel step n (step s); (a :: l, e)
  | _ + 1, (_, .term) => ([], .term)
  | _ + 1, (_, .undef) => ([], .undef)
  | _ + 1, (_, .hang) => ([], .hang)

/-- `foreach`: iter_init, then iter_next until Terminal -/
def Iterable.forward {α : Type} (I : Iterable α) (fuel : Nat) : List α × End := runFuel I.next fuel (I.init I.s0)
/-- the backward walk: iter_last, then iter_prev until Terminal -/
def Iterable.backward {α : Type} (I : Iterable α) (fuel : Nat) : List α × End := runFuel I.prev fuel (I.last I.s0)

/-- `foreach` whose body calls `get(I, k)` right after item number `i` (from 0) has been handed out, for every `i` with
    `body i = some k` -/
def runFuelG {σ α : Type} (step : σ → σ × Res α) (gst : σ → Int → σ) (body : Nat → Option Int) :
    Nat → Nat → σ × Res α → List α × End
  | 0, _, _ => ([], .fuel)
  | n + 1, i, (s, .item a) =>
    let s' := match body i with
      | some k => gst s k
      | none => s
    let (l, e) := runFuelG step gst body n (i + 1) (step s'); (a :: l, e)
  | _ + 1, _, (_, .term) => ([], .term)
  | _ + 1, _, (_, .undef) => ([], .undef)
  | _ + 1, _, (_, .hang) => ([], .hang)

def Iterable.forwardWith {α : Type} (I : Iterable α) (body : Nat → Option Int) (fuel : Nat) : List α × End :=
  runFuelG I.next I.getSt body fuel 0 (I.init I.s0)

/-- `get` leaves a walk in progress alone -/
def GetPure {α : Type} (I : Iterable α) : Prop := ∀ s k, I.getSt s k = s

/-- fuel-free description of a terminating walk: from result `r`, the walk yields exactly `l` and then `Terminal` -/
inductive Run {σ α : Type} (step : σ → σ × Res α) : σ × Res α → List α → Prop where
  | term (s : σ) : Run step (s, .term) []
  | item (s : σ) (a : α) (l : List α) : Run step (step s) l → Run step (s, .item a) (a :: l)

/-- `k` further protocol calls starting from the result `r` of the previous one (the `for` loops of Slice_Iter_*):
    once the protocol has been left the outcome stays `undef` / `hang`; a `Terminal` is handed on like any cursor. -/
def stepN {σ α : Type} (step : σ → σ × Res α) : Nat → σ × Res α → σ × Res α
  | 0, r => r
  | _ + 1, (s, .undef) => (s, .undef)
  | _ + 1, (s, .hang) => (s, .hang)
  | k + 1, (s, _) => stepN step k (step s)

/-- two lists related element by element -/
inductive All₂ {α β : Type _} (R : α → β → Prop) : List α → List β → Prop where
  | nil : All₂ R [] []
  | cons {a : α} {b : β} {as : List α} {bs : List β} : R a b → All₂ R as bs → All₂ R (a :: as) (b :: bs)

/-! ## The property -/

/-- forward part: from ANY state, `iter_init` then `iter_next` … yields exactly `l` and then `Terminal` -/
def FwdAs {α : Type} (I : Iterable α) (l : List α) : Prop := ∀ s, Run I.next (I.init s) l
/-- backward part: `iter_last` then `iter_prev` … yields exactly the reverse of `l` and then `Terminal` -/
def BwdAs {α : Type} (I : Iterable α) (l : List α) : Prop := ∀ s, Run I.prev (I.last s) l.reverse

/-- `I` iterates exactly over `l`: foreach yields `l` and then Terminal (never leaving the protocol), the backward
    walk yields the reverse, `len` (where the type has it) is the number of items and `get i` (where the type has a
    positional get) is the `i`-th of them -/
structure LawfulAs {α : Type} (I : Iterable α) (l : List α) : Prop where
  fwd : FwdAs I l
  bwd : BwdAs I l
  len : ∀ n, I.len = some n → n = l.length
  get : ∀ g, I.get = some g → ∀ i (h : i < l.length), g (Int.ofNat i) = some l[i]

/-- property C11 for one iterable -/
def Lawful {α : Type} (I : Iterable α) : Prop := ∃ l, LawfulAs I l

/-- the part of the property that does not walk: `len` and `get i` (i ≥ 0) agree with the sequence `l` -/
structure LenGetAs {α : Type} (I : Iterable α) (l : List α) : Prop where
  len : ∀ n, I.len = some n → n = l.length
  get : ∀ g, I.get = some g → ∀ i (h : i < l.length), g (Int.ofNat i) = some l[i]

/-- the FORWARD half of the property (what `foreach` uses): foreach yields exactly `l` and then Terminal, `len`, `get` -/
structure LawfulFwdAs {α : Type} (I : Iterable α) (l : List α) : Prop where
  fwd : FwdAs I l
  lg : LenGetAs I l
/-- the BACKWARD half: iter_last / iter_prev yield the reverse of `l` and then Terminal, `len`, `get` -/
structure LawfulBwdAs {α : Type} (I : Iterable α) (l : List α) : Prop where
  bwd : BwdAs I l
  lg : LenGetAs I l

def LawfulFwd {α : Type} (I : Iterable α) : Prop := ∃ l, LawfulFwdAs I l
def LawfulBwd {α : Type} (I : Iterable α) : Prop := ∃ l, LawfulBwdAs I l

/-- what the `k`-th call of a walk over `l` answers: the `k`-th item, Terminal at the end and ever after -/
def resAt {α : Type} (l : List α) (k : Nat) : Res α :=
  match l[k]? with
  | some a => .item a
  | none => .term

/-- from result `r`, the `k`-th further call answers the `k`-th item of `l`, and Terminal at the end AND AT EVERY CALL AFTER
    IT (a Terminal handed back as a cursor is answered with Terminal) -/
def Traces {σ α : Type} (step : σ → σ × Res α) (r : σ × Res α) (l : List α) : Prop := ∀ k, (stepN step k r).2 = resAt l k

/-- forward walk right, and the iterable ABSORBS a Terminal cursor: after a walk that yielded something, every further
    iter_next answers Terminal again (Tuple: the search finds nothing; Range: the arithmetic stays beyond `stop`).  (For an
    empty sequence nothing more than `FwdAs` is claimed: Range_Iter_Last of an empty Range leaves the Int cell alone.) -/
def AbsFwdAs {α : Type} (I : Iterable α) (l : List α) : Prop :=
  FwdAs I l ∧ (l ≠ [] → ∀ s, Traces I.next (I.init s) l)
def AbsBwdAs {α : Type} (I : Iterable α) (l : List α) : Prop :=
  BwdAs I l ∧ (l ≠ [] → ∀ s, Traces I.prev (I.last s) l.reverse)

/-! ## Containers -/

/-- C index normalisation of `Array_Get`, `List_At`, `Tuple_Get`: `i = i < 0 ? n+i : i; if (i < 0 or i >= n) throw` -/
def getIdx {α : Type} (l : List α) (k : Int) : Option α :=
  let n : Int := l.length
  let i := if k < 0 then n + k else k
  if i < 0 ∨ i ≥ n then none else l[i.toNat]?

/-- the position the C index `k` denotes in a sequence of `n` elements (`none`: IndexOutOfBoundsError) -/
def normIdx (n : Nat) (k : Int) : Option Nat :=
  let i := if k < 0 then (n : Int) + k else k
  if i < 0 ∨ i ≥ (n : Int) then none else some i.toNat

/-- hand out element `i` (reading outside the storage would be undefined) -/
def atIdx {α : Type} (l : List α) (i : Nat) : Option Nat × Res α :=
  match l[i]? with
  | some a => (some i, .item a)
  | none => (none, .undef)

/-- Array: the cursor is a pointer into the backing store = an index.
    next: `if (curr >= Array_Item(a, nitems-1)) Terminal else curr + step`;
    prev: `if (curr <= Array_Item(a, 0)) Terminal else curr - step` (the fixed comparison);
    a call with `Terminal` as cursor compares a foreign pointer: `undef`. -/
def arrayI {α : Type} (l : List α) : Iterable α where
  σ := Option Nat
  s0 := none
  init := fun _ => if l.length = 0 then (none, .term) else atIdx l 0
  next := fun s => match s with
    | none => (none, .undef)
    | some i => if i + 1 ≥ l.length then (none, .term) else atIdx l (i + 1)
  last := fun _ => if l.length = 0 then (none, .term) else atIdx l (l.length - 1)
  prev := fun s => match s with
    | none => (none, .undef)
    | some i => if i ≤ 0 then (none, .term) else atIdx l (i - 1)
  len := some l.length
  get := some (getIdx l)
  getCur := fun s k => match normIdx l.length k with
    | some i => some i
    | none => s

/-- List: the cursor is a node; next / prev follow the link words stored in front of the node, NULL → Terminal.
    Nodes are numbered along the chain.  `Terminal` as cursor reads the words in front of a static object: `undef`. -/
def listI {α : Type} (l : List α) : Iterable α where
  σ := Option Nat
  s0 := none
  init := fun _ => if l.length = 0 then (none, .term) else atIdx l 0
  next := fun s => match s with
    | none => (none, .undef)
    | some i => if i + 1 < l.length then atIdx l (i + 1) else (none, .term)
  last := fun _ => if l.length = 0 then (none, .term) else atIdx l (l.length - 1)
  prev := fun s => match s with
    | none => (none, .undef)
    | some i => match i with
      | 0 => (none, .term)
      | j + 1 => atIdx l j
  len := some l.length
  get := some (getIdx l)
  getCur := fun s k => match normIdx l.length k with
    | some i => some i
    | none => s

/-- Table slot scan upwards: `slots` is the suffix of the slot array that starts at index `i` -/
def scanUp {α : Type} : List (Option α) → Nat → Option (Nat × α)
  | [], _ => none
  | some a :: _, i => some (i, a)
  | none :: t, i => scanUp t (i + 1)

/-- Table slot scan downwards over the slots with index `< i` -/
def scanDown {α : Type} (slots : List (Option α)) : Nat → Option (Nat × α)
  | 0 => none
  | j + 1 => match slots[j]? with
    | some (some a) => some (j, a)
    | _ => scanDown slots j

def scanRes {α : Type} : Option (Nat × α) → Option Nat × Res α
  | some (i, a) => (some i, .item a)
  | none => (none, .term)

/-- number of occupied slots = `nitems` of a well-formed table -/
def occupied {α : Type} (slots : List (Option α)) : List α := slots.filterMap id

/-- Table: the cursor is the key object inside a slot; Init/Last return Terminal at once when `nitems == 0`, else scan
    for the first / last slot whose hash word is not 0; Next/Prev move one slot and scan on until a used slot or the
    end of the array. -/
def tableI {α : Type} (slots : List (Option α)) : Iterable α where
  σ := Option Nat
  s0 := none
  init := fun _ => if (occupied slots).length = 0 then (none, .term) else scanRes (scanUp slots 0)
  next := fun s => match s with
    | none => (none, .undef)
    | some i => scanRes (scanUp (slots.drop (i + 1)) (i + 1))
  last := fun _ => if (occupied slots).length = 0 then (none, .term) else scanRes (scanDown slots slots.length)
  prev := fun s => match s with
    | none => (none, .undef)
    | some i => scanRes (scanDown slots i)
  len := some (occupied slots).length
  get := none    -- Table_Get is keyed, not positional

/-- binary tree as laid out by Tree.c (colours play no role in iteration) -/
inductive T (α : Type) where
  | nil
  | node (l : T α) (k : α) (r : T α)
deriving Repr

def T.inorder {α : Type} : T α → List α
  | .nil => []
  | .node l k r => l.inorder ++ k :: r.inorder

def T.size {α : Type} : T α → Nat
  | .nil => 0
  | .node l _ r => l.size + 1 + r.size

/-- one step of the path from the root to the current node (what the parent pointers encode) -/
inductive Frame (α : Type) where
  | L (k : α) (r : T α)     -- the current subtree is the LEFT child of a node with key `k` and right subtree `r`
  | R (l : T α) (k : α)     -- the current subtree is the RIGHT child of a node with left subtree `l` and key `k`
deriving Repr

/-- a node of the tree together with its ancestors: the cursor of Tree iteration -/
structure Loc (α : Type) where
  l : T α
  k : α
  r : T α
  ctx : List (Frame α)
deriving Repr

/-- `while (*Tree_Left(node) isnt NULL) node = *Tree_Left(node)` -/
def leftmost {α : Type} (l : T α) (k : α) (r : T α) (ctx : List (Frame α)) : Loc α :=
  match l with
  | .nil => ⟨.nil, k, r, ctx⟩
  | .node ll lk lr => leftmost ll lk lr (.L k r :: ctx)

/-- `while (*Tree_Right(node) isnt NULL) node = *Tree_Right(node)` -/
def rightmost {α : Type} (l : T α) (k : α) (r : T α) (ctx : List (Frame α)) : Loc α :=
  match r with
  | .nil => ⟨l, k, .nil, ctx⟩
  | .node rl rk rr => rightmost rl rk rr (.R l k :: ctx)

/-- the climbing loop of Tree_Iter_Next: `if prnt NULL → Terminal; if node is left(prnt) → prnt; else go up` -/
def climbNext {α : Type} : List (Frame α) → T α → Option (Loc α)
  | [], _ => none
  | .L k r :: ctx, child => some ⟨child, k, r, ctx⟩
  | .R l k :: ctx, child => climbNext ctx (.node l k child)

/-- the climbing loop of Tree_Iter_Prev -/
def climbPrev {α : Type} : List (Frame α) → T α → Option (Loc α)
  | [], _ => none
  | .R l k :: ctx, child => some ⟨l, k, child, ctx⟩
  | .L k r :: ctx, child => climbPrev ctx (.node child k r)

def locRes {α : Type} : Option (Loc α) → Option (Loc α) × Res α
  | some c => (some c, .item c.k)
  | none => (none, .term)

/-- Tree: in-order walk with child and parent pointers.  `nitems` of a well-formed tree is its size. -/
def treeI {α : Type} (t : T α) : Iterable α where
  σ := Option (Loc α)
  s0 := none
  init := fun _ => match t with
    | .nil => (none, .term)
    | .node l k r => locRes (some (leftmost l k r []))
  next := fun s => match s with
    | none => (none, .undef)
    | some c => match c.r with
      | .node rl rk rr => locRes (some (leftmost rl rk rr (.R c.l c.k :: c.ctx)))
      | .nil => locRes (climbNext c.ctx (.node c.l c.k .nil))
  last := fun _ => match t with
    | .nil => (none, .term)
    | .node l k r => locRes (some (rightmost l k r []))
  prev := fun s => match s with
    | none => (none, .undef)
    | some c => match c.l with
      | .node ll lk lr => locRes (some (rightmost ll lk lr (.L c.k c.r :: c.ctx)))
      | .nil => locRes (climbPrev c.ctx (.node .nil c.k c.r))
  len := some t.size
  get := none    -- Tree_Get is keyed

/-- plain (unbalanced) insertion with the comparison of Tree_Set (`cmp(node_key, key) < 0` → LEFT: the greater key goes
    to the left subtree, so left-to-right order is descending): gives *some* shape to a tree that the C side builds
    through `set`; by theorem `C11_tree_lawful` the items produced depend only on the in-order sequence -/
def T.insert (t : T Int) (x : Int) : T Int :=
  match t with
  | .nil => .node .nil x .nil
  | .node l k r => if k < x then .node (l.insert x) k r else if x < k then .node l k (r.insert x) else .node l k r

/-- Tuple_Iter_Next: `i = 0; while (items[i] isnt Terminal) { if (items[i] is curr) return items[i+1]; i++ } return Terminal`
    (`items[i+1]` may be the terminator).  Objects are modelled by their identity. -/
def tupNext : List Nat → Nat → Option Nat
  | [], _ => none
  | x :: t, c => if x = c then t.head? else tupNext t c

/-- the loop of Tuple_Iter_Prev after the `curr is items[0]` test: first `i` with `items[i] is curr`, return `items[i-1]` -/
def tupPrevGo : List Nat → Nat → Option Nat
  | x :: y :: t, c => if y = c then some x else tupPrevGo (y :: t) c
  | _, _ => none

def idRes : Option Nat → Option Nat × Res Nat
  | some x => (some x, .item x)
  | none => (none, .term)

/-- Tuple: the cursor is the element pointer itself and the position is found again by searching for it.
    A call with `Terminal` as cursor is well defined here: the search finds nothing (or, for Prev on an empty tuple,
    `Terminal is items[0]`) and returns Terminal. -/
def tupleI (ids : List Nat) : Iterable Nat where
  σ := Option Nat
  s0 := none
  init := fun _ => idRes ids.head?
  next := fun s => match s with
    | none => (none, .term)
    | some c => idRes (tupNext ids c)
  last := fun _ => if ids.length = 0 then (none, .term) else idRes ids.getLast?
  prev := fun s => match s with
    | none => (none, .term)
    | some c => if ids.head? = some c then (none, .term) else idRes (tupPrevGo ids c)
  len := some ids.length
  get := some (getIdx ids)
  getCur := fun s k => match getIdx ids k with
    | some x => some x
    | none => s

/-! ## Range -/

/-- range_stack: `_` (= `none`) is allowed for start and step; more than 3 arguments is a FormatError; `_` as stop is a
    type error in `c_int` -/
def rangeStack : List (Option Int) → Option (Int × Int × Int)
  | [] => some (0, 0, 1)
  | [some b] => some (0, b, 1)
  | [a, some b] => some (a.getD 0, b, 1)
  | [a, some b, c] => some (a.getD 0, b, c.getD 1)
  | _ => none

/-- Range_Len (operands of the division are non-negative where it is evaluated) -/
def rangeLen (start stop step : Int) : Nat :=
  if step = 0 then 0
  else if stop ≤ start then 0
  else if step > 0 then (Int.tdiv ((stop - 1) - start) step + 1).toNat
  else (Int.tdiv ((stop - 1) - start) (-step) + 1).toNat

/-- Range_Get (after fix 81e7452): `n = Range_Len(r); i = i < 0 ? n+i : i;` the element is computed only when
    `0 <= i < n` (so step 0, whose length is 0, refuses every index); `none` = IndexOutOfBoundsError -/
def rangeGet (start stop step : Int) (key : Int) : Option Int :=
  let n : Int := rangeLen start stop step
  let i := if key < 0 then n + key else key
  if step > 0 ∧ i ≥ 0 ∧ i < n then some (start + step * i)
  else if step < 0 ∧ i ≥ 0 ∧ i < n then some (stop - 1 + step * i)
  else none

/-- Range_Get before commit 81e7452: step 0 answered 0 for every index, and the bound was tested on the computed element
    (`start + step*i < stop`) instead of on the index (kept for `C11_rangeGet_old_refuted`) -/
def rangeGetOld (start stop step : Int) (key : Int) : Option Int :=
  let i := if key < 0 then (rangeLen start stop step : Int) + key else key
  if step = 0 then some 0
  else if step > 0 ∧ i ≥ 0 ∧ start + step * i < stop then some (start + step * i)
  else if step < 0 ∧ i ≥ 0 ∧ stop - 1 + step * i ≥ start then some (stop - 1 + step * i)
  else none

/-- Range_Mem -/
def rangeMem (start stop step : Int) (key : Int) : Bool :=
  let i := if key < 0 then (rangeLen start stop step : Int) + key else key
  if step = 0 then false
  else if step > 0 then decide (i ≥ start ∧ i < stop ∧ Int.tmod (i - start) step = 0)
  else decide (i ≥ start ∧ i < stop ∧ Int.tmod (i - (stop - 1)) (-step) = 0)

/-- Range: the state is the value of the Int object that every call mutates and hands out.  The cursor argument is
    ignored by the C code, so a call "from Terminal" simply continues the arithmetic. -/
def rangeI (start stop step : Int) : Iterable Int where
  σ := Int
  s0 := 0
  init := fun v =>
    if step = 0 then (v, .term)
    else
      let v := if step > 0 then start else stop - 1
      if step > 0 ∧ v ≥ stop then (v, .term)
      else if step < 0 ∧ v < start then (v, .term)
      else (v, .item v)
  last := fun v =>
    let n := rangeLen start stop step
    if n = 0 then (v, .term)
    else
      let v := if step > 0 then start + step * ((n : Int) - 1) else stop - 1 + step * ((n : Int) - 1)
      (v, .item v)
  next := fun v =>
    let v := v + step
    if step = 0 then (v, .term)
    else if step > 0 ∧ v ≥ stop then (v, .term)
    else if step < 0 ∧ v < start then (v, .term)
    else (v, .item v)
  prev := fun v =>
    let v := v - step
    if step = 0 then (v, .term)
    else if step > 0 ∧ v < start then (v, .term)
    else if step < 0 ∧ v ≥ stop then (v, .term)
    else (v, .item v)
  len := some (rangeLen start stop step)
  get := some (rangeGet start stop step)
  -- Range_Get: `x->val = start + step*i; return x` with `x = r->value`, the Int the walk increments
  getSt := fun v k => (rangeGet start stop step k).getD v
  getCur := fun v k => (rangeGet start stop step k).getD v
  inObject := true
  oneCell := true

/-! ## Views -/

/-- Slice_Arg for start / stop (`part != 2`), `n = len(iter)`, as repaired in /repo (signed comparison):
    `a = a < 0 ? n+a : a;  a = a > (int64_t)n ? (int64_t)n : a;  a = a < 0 ? 0 : a;`
    negative = from the end, then clamped into `[0, n]`. -/
def sliceArg (n : Nat) (a : Int) : Int :=
  let a := if a < 0 then (n : Int) + a else a
  let a := if a > (n : Int) then (n : Int) else a
  let a := if a < 0 then 0 else a
  a

/-- Slice_Arg before commit a67379b: `a = a > n ? n : a` compared the `int64_t` with the `size_t` UNSIGNED, so a value
    still negative after the first line became `n`, and the third line was dead code (kept for `C11_sliceArg_old_refuted`) -/
def sliceArgOld (n : Nat) (a : Int) : Int :=
  let a := if a < 0 then (n : Int) + a else a
  let a := if a < 0 ∨ a > (n : Int) then (n : Int) else a
  let a := if a < 0 then 0 else a
  a

/-- slice_stack: (start, stop, step) of the Range inside a Slice from the argument list after the iterable
    (`none` = `_`); more than 3 → FormatError -/
def sliceStack (n : Nat) : List (Option Int) → Option (Int × Int × Int)
  | [] => some (0, n, 1)
  | [b] => some (0, (b.map (sliceArg n)).getD n, 1)
  | [a, b] => some ((a.map (sliceArg n)).getD 0, (b.map (sliceArg n)).getD n, 1)
  | [a, b, c] => some ((a.map (sliceArg n)).getD 0, (b.map (sliceArg n)).getD n, c.getD 1)
  | _ => none

/-- Slice over `I` with the stored Range (start, stop, step) = (a, b, c) and `n = len(I)`.
    Init (c>0): iter_init, then `a` × iter_next;  (c<0): iter_last, then `n - b` × iter_prev;  c = 0: Terminal.
    Next: |c| × iter_next (c>0) / iter_prev (c<0).  Last/Prev mirrored.  `stop` is never consulted going forward,
    `start` never going backward, and every loop hands a `Terminal` on to the underlying iterable as a cursor. -/
def sliceI {α : Type} (I : Iterable α) (n : Nat) (a b c : Int) : Iterable α where
  σ := I.σ
  s0 := I.s0
  init := fun s =>
    if c > 0 then stepN I.next a.toNat (I.init s)
    else if c < 0 then stepN I.prev ((n : Int) - b).toNat (I.last s)
    else (s, .term)
  next := fun s =>
    if c > 0 then stepN I.next (c.toNat - 1) (I.next s)
    else if c < 0 then stepN I.prev ((-c).toNat - 1) (I.prev s)
    else (s, .term)
  last := fun s =>
    if c > 0 then stepN I.prev ((n : Int) - b).toNat (I.last s)
    else if c < 0 then stepN I.next a.toNat (I.init s)
    else (s, .term)
  prev := fun s =>
    if c > 0 then stepN I.prev (c.toNat - 1) (I.prev s)
    else if c < 0 then stepN I.next ((-c).toNat - 1) (I.next s)
    else (s, .term)
  len := some (rangeLen a b c)
  get := match I.get with
    | some g => some (fun k => match rangeGet a b c k with
        | some i => g i
        | none => none)
    | none => none
  -- Slice_Get: `get(s->iter, Range_Get(s->range, key))` (the Slice's own Range cell plays no role in its walk)
  getSt := fun s k => match rangeGet a b c k with
    | some i => I.getSt s i
    | none => s
  getCur := fun s k => match rangeGet a b c k with
    | some i => I.getCur s i
    | none => s
  inObject := I.inObject
  oneCell := I.oneCell

/-- the `while (true)` loop shared by the four Filter functions: hand out `r` if it is Terminal or accepted, else take
    another step.  `fuel` bounds the loop (C has no bound: `hang`). -/
def skipLoop {σ α : Type} (p : α → Bool) (step : σ → σ × Res α) : Nat → σ × Res α → σ × Res α
  | 0, (s, _) => (s, .hang)
  | k + 1, (s, .item a) => if p a then (s, .item a) else skipLoop p step k (step s)
  | _ + 1, r => r

/-- Filter: no Len, no positional Get -/
def filterI {α : Type} (I : Iterable α) (p : α → Bool) (fuel : Nat) : Iterable α where
  σ := I.σ
  s0 := I.s0
  init := fun s => skipLoop p I.next fuel (I.init s)
  next := fun s => skipLoop p I.next fuel (I.next s)
  last := fun s => skipLoop p I.prev fuel (I.last s)
  prev := fun s => skipLoop p I.prev fuel (I.prev s)
  len := none
  get := none
  inObject := I.inObject
  oneCell := I.oneCell

/-- Map: `m->curr` is the cursor of the underlying iterable (the argument `curr` is ignored); the function is applied to
    everything but Terminal.  Len and Get are those of the underlying iterable; Map_Get stores what the underlying `get`
    returned in `m->curr`, the cursor of the walk. -/
def mapI {α β : Type} (I : Iterable α) (f : α → β) : Iterable β where
  σ := I.σ
  s0 := I.s0
  init := fun s => let (s', r) := I.init s; (s', r.map f)
  next := fun s => let (s', r) := I.next s; (s', r.map f)
  last := fun s => let (s', r) := I.last s; (s', r.map f)
  prev := fun s => let (s', r) := I.prev s; (s', r.map f)
  len := I.len
  get := match I.get with
    | some g => some (fun k => (g k).map f)
    | none => none
  getSt := I.getCur
  getCur := I.getCur
  inObject := true

/-- the same walk seen through an embedding of the element values (NOT an object of the library: how `denote` turns the
    `Int` / identity elements of Tuple, Tree, Range … into the universal values of the op files) -/
def embI {α β : Type} (I : Iterable α) (f : α → β) : Iterable β where
  σ := I.σ
  s0 := I.s0
  init := fun s => let (s', r) := I.init s; (s', r.map f)
  next := fun s => let (s', r) := I.next s; (s', r.map f)
  last := fun s => let (s', r) := I.last s; (s', r.map f)
  prev := fun s => let (s', r) := I.prev s; (s', r.map f)
  len := I.len
  get := match I.get with
    | some g => some (fun k => (g k).map f)
    | none => none
  getSt := I.getSt
  getCur := I.getCur
  inObject := I.inObject
  oneCell := I.oneCell

/-- states of the inputs of a Zip -/
def ZipSt {α : Type} : List (Iterable α) → Type
  | [] => Unit
  | I :: Is => I.σ × ZipSt Is

def zipS0 {α : Type} : (Is : List (Iterable α)) → ZipSt Is
  | [] => ()
  | I :: Is => (I.s0, zipS0 Is)

/-- the `for` loop of Zip_Iter_Init/Next/Last/Prev: call `f` on the inputs in order, stop at the first that does not
    hand out an element (the inputs before it have already moved, the ones after it have not) -/
def zipStep {α : Type} (f : (I : Iterable α) → I.σ → I.σ × Res α) :
    (Is : List (Iterable α)) → ZipSt Is → ZipSt Is × Res (List α)
  | [], u => (u, .item [])
  | I :: Is, (s, ss) =>
    match f I s with
    | (s', .item a) =>
      match zipStep f Is ss with
      | (ss', .item as) => ((s', ss'), .item (a :: as))
      | (ss', .term) => ((s', ss'), .term)
      | (ss', .undef) => ((s', ss'), .undef)
      | (ss', .hang) => ((s', ss'), .hang)
    | (s', .term) => ((s', ss), .term)
    | (s', .undef) => ((s', ss), .undef)
    | (s', .hang) => ((s', ss), .hang)

def zipLen {α : Type} : List (Iterable α) → Option Nat
  | [] => some 0
  | [I] => I.len
  | I :: Is => match I.len, zipLen Is with
    | some a, some b => some (min a b)
    | _, _ => none

def zipGet {α : Type} : List (Iterable α) → Option (Int → Option (List α))
  | [] => some (fun _ => some [])
  | I :: Is => match I.get, zipGet Is with
    | some g, some gs => some (fun k => match g k, gs k with
        | some a, some as => some (a :: as)
        | _, _ => none)
    | _, _ => none

/-- Zip_Get: `for i: values->items[i] = get(iters->items[i], key)` — every input's cursor becomes what its `get` returned;
    an input whose `get` raises ends the loop (the inputs before it have been overwritten) -/
def zipGetSt {α : Type} : (Is : List (Iterable α)) → ZipSt Is → Int → ZipSt Is
  | [], u, _ => u
  | I :: Is, (s, ss), k =>
    match I.get with
    | some g => match g k with
      | some _ => (I.getCur s k, zipGetSt Is ss k)
      | none => (s, ss)
    | none => (s, ss)

/-- Zip: the element handed out is the `values` tuple, observed as the list of the inputs' current values.  The flag
    records that Terminal was handed out: a further Next/Prev calls `get(Terminal, i)`, which `Terminal` does not
    implement (`undef`).  No inputs: Terminal. -/
def zipI {α : Type} (Is : List (Iterable α)) : Iterable (List α) where
  σ := Bool × ZipSt Is
  s0 := (true, zipS0 Is)
  init := fun s => if Is.length = 0 then ((true, s.2), .term) else
    let (ss, r) := zipStep (fun I => I.init) Is s.2; ((!r.isItem, ss), r)
  next := fun s => if Is.length = 0 then ((true, s.2), .term) else
    if s.1 then (s, .undef) else
    let (ss, r) := zipStep (fun I => I.next) Is s.2; ((!r.isItem, ss), r)
  last := fun s => if Is.length = 0 then ((true, s.2), .term) else
    let (ss, r) := zipStep (fun I => I.last) Is s.2; ((!r.isItem, ss), r)
  prev := fun s => if Is.length = 0 then ((true, s.2), .term) else
    if s.1 then (s, .undef) else
    let (ss, r) := zipStep (fun I => I.prev) Is s.2; ((!r.isItem, ss), r)
  len := zipLen Is
  get := zipGet Is
  getSt := fun s k => (s.1, zipGetSt Is s.2 k)
  getCur := fun s k => (s.1, zipGetSt Is s.2 k)
  inObject := true
  oneCell := true

/-- the `for` loop of Zip_Iter_* when all `k` inputs are ONE object whose cursor lives inside it: the `k` calls act on the
    one state, one after the other -/
def seqStep {σ α : Type} (f : σ → σ × Res α) : Nat → σ → σ × Res (List α)
  | 0, s => (s, .item [])
  | k + 1, s =>
    match f s with
    | (s', .item a) =>
      match seqStep f k s' with
      | (s'', .item as) => (s'', .item (a :: as))
      | (s'', .term) => (s'', .term)
      | (s'', .undef) => (s'', .undef)
      | (s'', .hang) => (s'', .hang)
    | (s', .term) => (s', .term)
    | (s', .undef) => (s', .undef)
    | (s', .hang) => (s', .hang)

/-- what the `values` tuple shows when it is handed out: the `k` results, or — when the input hands out one mutable
    cell every time — `k` times its present content -/
def cellView {α : Type} (one : Bool) : Res (List α) → Res (List α)
  | .item as => if one then .item (match as.getLast? with
      | some a => List.replicate as.length a
      | none => []) else .item as
  | r => r

/-- `zip(x, x, …)`: ONE object `k` times, cursor inside the object (Range, Map, Zip, a Slice / Filter over them) -/
def zipSharedI {α : Type} (I : Iterable α) (k : Nat) : Iterable (List α) where
  σ := Bool × I.σ
  s0 := (true, I.s0)
  init := fun s => if k = 0 then ((true, s.2), .term) else
    let (s', r) := seqStep I.init k s.2; ((!r.isItem, s'), cellView I.oneCell r)
  next := fun s => if k = 0 then ((true, s.2), .term) else
    if s.1 then (s, .undef) else
    let (s', r) := seqStep I.next k s.2; ((!r.isItem, s'), cellView I.oneCell r)
  last := fun s => if k = 0 then ((true, s.2), .term) else
    let (s', r) := seqStep I.last k s.2; ((!r.isItem, s'), cellView I.oneCell r)
  prev := fun s => if k = 0 then ((true, s.2), .term) else
    if s.1 then (s, .undef) else
    let (s', r) := seqStep I.prev k s.2; ((!r.isItem, s'), cellView I.oneCell r)
  len := I.len
  get := none
  inObject := true
  oneCell := true

/-- `zip(x, …, x)` with the SAME object `k` times.  When the cursor of a walk over `x` is the pointer the caller holds
    (Array, List, Table, Tree, Tuple, a Slice / Filter over them) the `values` tuple of the Zip keeps `k` independent cursors
    and nothing distinguishes this from `k` distinct objects; otherwise the `k` calls share the one cursor. -/
def zipSameI {α : Type} (I : Iterable α) (k : Nat) : Iterable (List α) :=
  if I.inObject then zipSharedI I k else zipI (List.replicate k I)

/-! ## Specifications of the views (what their definitions select) -/

/-- the values of a Range: `start, start+step, …` below `stop` for a positive step; `stop-1, stop-1+step, …` not below
    `start` for a negative step (this is what Range_Len / Range_Get describe); nothing for step 0.
    `C11_rangeList_mem` characterises the members without reference to `rangeLen`. -/
def rangeList (start stop step : Int) : List Int :=
  (List.range (rangeLen start stop step)).map (fun (j : Nat) => if step > 0 then start + step * (j : Int) else stop - 1 + step * (j : Int))

/-- the elements of `l` at the positions of Range(a, b, c) -/
def sliceSpec {α : Type} (l : List α) (a b c : Int) : List α :=
  (rangeList a b c).filterMap (fun p => if p < 0 then none else l[p.toNat]?)

/-- the parameter region (after Slice_Arg: `0 ≤ a, b ≤ n`) in which the FORWARD walk of a Slice over an iterable of `n`
    items is right whatever the underlying iterable does with a `Terminal` cursor: the stepping lands exactly on
    Terminal and `stop` (positive step) / `start` (negative step) does not cut anything off -/
def SliceRegionFwd (n a b c : Int) : Prop :=
  (c > 0 ∧ (a = n ∨ ((n - a) % c = 0 ∧ n - c < b))) ∨ (c < 0 ∧ (b = 0 ∨ (b % (-c) = 0 ∧ a ≤ -c - 1))) ∨ c = 0
/-- … and the region in which the BACKWARD walk is right -/
def SliceRegionBwd (n a b c : Int) : Prop :=
  (c > 0 ∧ (b = 0 ∨ (b % c = 0 ∧ a = c - 1))) ∨ (c < 0 ∧ (a = n ∨ ((n - a) % (-c) = 0 ∧ b = n - (-c) + 1))) ∨ c = 0

/-- the positions a Slice walk VISITS over an iterable that answers Terminal to a Terminal cursor (Tuple, Range, and
    Slice / Filter / Map over them): the stepping simply runs to the end of the underlying sequence, `stop` (forward,
    positive step) / `start` (forward, negative step) is never looked at -/
def sliceVisitFwd (n a b c : Int) : List Int :=
  if c > 0 then rangeList a n c else if c < 0 then rangeList 0 b c else []
/-- … and the positions the backward walk visits, in the order it visits them -/
def sliceVisitBwd (n a b c : Int) : List Int :=
  if c > 0 then rangeList 0 b (-c) else if c < 0 then rangeList a n (-c) else []

/-- the TRUE region of the forward walk over a Terminal-absorbing iterable: the positions visited are the positions the
    definition selects (no divisibility condition: the stride need not fit) -/
def SliceRegionFwdAbs (n a b c : Int) : Prop := sliceVisitFwd n a b c = rangeList a b c
def SliceRegionBwdAbs (n a b c : Int) : Prop := sliceVisitBwd n a b c = (rangeList a b c).reverse

/-- tuples of the inputs' elements, up to the shortest input -/
def zipLists {α : Type} : List (List α) → List (List α)
  | [] => []
  | [l] => l.map (fun a => [a])
  | l :: ls => List.zipWith (fun a as => a :: as) l (zipLists ls)

/-- enumerate: `zip(range(len I), I)` (enumerate_stack sets the Range's stop to `len(I)`); `inj` embeds the counter -/
def enumI {α : Type} (I : Iterable α) (n : Nat) (inj : Int → α) : Iterable (List α) :=
  zipI [embI (rangeI 0 n 1) inj, I]

/-! ## `mem` — the membership test of the Get instances of src/Iter.c -/

/-- what a call of `mem` does: answers true / false, or leaves the protocol (`undef`: `Terminal` is compared with the key as
    if it were an element — for an Int key `eq(Terminal, key)` raises a stray ValueError — and would be handed on as a
    cursor), or loops (`hang`: a Filter loop; `fuel`: the cap of the interpreter) -/
inductive MemRes where
  | yes | no | undef | hang | fuel
deriving Repr, DecidableEq

def MemRes.show : MemRes → String
  | .yes => "1" | .no => "0" | .undef => "ub" | .hang => "hang" | .fuel => "fuel"

/-- Slice_Mem: `curr = Slice_Iter_Init(self); while (curr) { if (eq(curr, key)) return true; curr = Slice_Iter_Next(self, curr); }
    return false;` — the loop test is `curr != NULL`, not `curr isnt Terminal`: no iterator ever hands out NULL, so the loop is
    left by `return true` only; when the walk reaches Terminal, Terminal is compared with the key (`undef`).
    `r` is the result of the previous protocol call. -/
def memLoop {σ α : Type} (eq : α → Bool) (step : σ → σ × Res α) : Nat → σ × Res α → MemRes
  | 0, _ => .fuel
  | n + 1, (s, .item a) => if eq a then .yes else memLoop eq step n (step s)
  | _ + 1, (_, .term) => .undef
  | _ + 1, (_, .undef) => .undef
  | _ + 1, (_, .hang) => .hang

/-- Zip_Mem, Filter_Mem, Map_Mem: `foreach (item in self) { if (eq(item, key)) return true; } return false;` — and Slice_Mem
    with the one-token repair `while (curr isnt Terminal)` -/
def memForeach {σ α : Type} (eq : α → Bool) (step : σ → σ × Res α) : Nat → σ × Res α → MemRes
  | 0, _ => .fuel
  | n + 1, (s, .item a) => if eq a then .yes else memForeach eq step n (step s)
  | _ + 1, (_, .term) => .no
  | _ + 1, (_, .undef) => .undef
  | _ + 1, (_, .hang) => .hang

/-- `mem(slice, key)` as it is in /repo -/
def Iterable.memWhileCurr {α : Type} (I : Iterable α) (eq : α → Bool) (fuel : Nat) : MemRes := memLoop eq I.next fuel (I.init I.s0)
/-- `mem(x, key)` through `foreach` -/
def Iterable.memForeach {α : Type} (I : Iterable α) (eq : α → Bool) (fuel : Nat) : MemRes :=
  Cello.Iter.memForeach eq I.next fuel (I.init I.s0)

/-- Range_Mem with the line `i = i < 0 ? Range_Len(r)+i : i;` dropped (proposed repair): the key is a VALUE, not an index -/
def rangeMemFix (start stop step : Int) (key : Int) : Bool :=
  if step = 0 then false
  else if step > 0 then decide (key ≥ start ∧ key < stop ∧ Int.tmod (key - start) step = 0)
  else decide (key ≥ start ∧ key < stop ∧ Int.tmod (key - (stop - 1)) (-step) = 0)

/-! ## Range on `int64_t` -/

def isI64 (x : Int) : Bool := decide (-(2 ^ 63 : Int) ≤ x) && decide (x < (2 ^ 63 : Int))

/-- Range_Len evaluates without signed overflow: `r->stop-1`, `(r->stop-1) - r->start`, `-r->step` stay inside `int64_t`
    (false only for ranges wider than 2^63 - 1 or with step `INT64_MIN`; same test as `Rng.lenOk` of engine `fail`) -/
def rangeLenOk (start stop step : Int) : Bool :=
  if step = 0 then true
  else if stop ≤ start then true
  else if step > 0 then isI64 (stop - 1) && isI64 ((stop - 1) - start)
  else isI64 (stop - 1) && isI64 ((stop - 1) - start) && isI64 (-step)

/-- Range with `int64_t` fields and an `int64_t` cursor: the machine of `rangeI` with the overflow test of every signed
    operation of Range_Iter_Init / _Next / _Last / _Prev (`i->val += r->step` BEFORE the comparison with `stop`, `r->stop-1`,
    `r->start + r->step * (n-1)`, `Range_Len`); a signed overflow is undefined behaviour (`undef`; compiled without
    `-ftrapv` / UBSan the cursor wraps round and is "below stop" again: the walk runs away).  `len` / `get` are the values
    computed when `rangeLenOk` holds. -/
def rangeI64 (start stop step : Int) : Iterable Int where
  σ := Int
  s0 := 0
  init := fun v =>
    if step = 0 then (v, .term)
    else if step < 0 ∧ !isI64 (stop - 1) then (v, .undef)
    else
      let v := if step > 0 then start else stop - 1
      if step > 0 ∧ v ≥ stop then (v, .term)
      else if step < 0 ∧ v < start then (v, .term)
      else (v, .item v)
  last := fun v =>
    if !rangeLenOk start stop step then (v, .undef)
    else
      let n := rangeLen start stop step
      if n = 0 then (v, .term)
      else
        let w := if step > 0 then start + step * ((n : Int) - 1) else stop - 1 + step * ((n : Int) - 1)
        if !isI64 (step * ((n : Int) - 1)) ∨ !isI64 w then (v, .undef) else (w, .item w)
  next := fun v =>
    if !isI64 (v + step) then (v, .undef)
    else
      let v := v + step
      if step = 0 then (v, .term)
      else if step > 0 ∧ v ≥ stop then (v, .term)
      else if step < 0 ∧ v < start then (v, .term)
      else (v, .item v)
  prev := fun v =>
    if !isI64 (v - step) then (v, .undef)
    else
      let v := v - step
      if step = 0 then (v, .term)
      else if step > 0 ∧ v < start then (v, .term)
      else if step < 0 ∧ v ≥ stop then (v, .term)
      else (v, .item v)
  len := some (rangeLen start stop step)
  get := some (rangeGet start stop step)
  getSt := fun v k => (rangeGet start stop step k).getD v
  getCur := fun v k => (rangeGet start stop step k).getD v
  inObject := true
  oneCell := true

/-- the FORWARD walk of a Range stays inside `int64_t`: the three fields do, and so does the value ONE STEP BEYOND THE LAST
    ELEMENT (`start + step*len` resp. `stop-1 + step*len`: Range_Iter_Next adds the step before it compares) -/
def RangeFitsFwd (start stop step : Int) : Prop :=
  isI64 start = true ∧ isI64 stop = true ∧ isI64 step = true ∧
  (step > 0 → start + step * (rangeLen start stop step : Int) < 2 ^ 63) ∧
  (step < 0 → isI64 (stop - 1) = true ∧ -(2 ^ 63 : Int) ≤ stop - 1 + step * (rangeLen start stop step : Int))

/-- the BACKWARD walk stays inside `int64_t`: Range_Len does (`rangeLenOk`), and so does the value one step before the
    first element of the backward walk's end (`start - step` resp. `stop-1 - step`) when there is an element at all -/
def RangeFitsBwd (start stop step : Int) : Prop :=
  isI64 start = true ∧ isI64 stop = true ∧ isI64 step = true ∧ rangeLenOk start stop step = true ∧
  (step > 0 → 0 < rangeLen start stop step → -(2 ^ 63 : Int) ≤ start - step) ∧
  (step < 0 → 0 < rangeLen start stop step → stop - 1 - step < 2 ^ 63)

instance (a b c : Int) : Decidable (RangeFitsFwd a b c) := by unfold RangeFitsFwd; infer_instance
instance (a b c : Int) : Decidable (RangeFitsBwd a b c) := by unfold RangeFitsBwd; infer_instance

end Cello.Iter
