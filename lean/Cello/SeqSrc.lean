/-
  Cello/SeqSrc.lean — engine `seq` (C04), extension round: the arithmetic of src/Array.c, src/List.c, src/Tuple.c as EXTRACTED TERMS
  (lean/CelloGen/SeqSrc.lean, written by translate/g_seq.py on every check run) and the operations of the store-level model
  (Cello/SeqStore.lean) re-run with those terms in the place of the hand-written arithmetic:

    * `evalE` evaluates a term over `Int` (lengths and capacities below 2^63: no wrap-around, as everywhere in this engine);
    * `applyRule` = `i = i < 0 ? … : i; if (…) throw`: the normalised position or `none` (refused);
    * `ArrS.reserveMoreSrc / reserveLessSrc / pushSrc / popSrc / pushAtSrc / popAtSrc / getSrc / setSrc`, `LstS.nodeAtSrc`,
      `TupS.pushAtCellSrc / popAtSrc / getCellSrc / setCellSrc`: the definitions of SeqStore.lean with every index, count, capacity and
      test read from the generated terms, in CELL units (`cellEnv`: step = 1, sizeof(var) = 1, header = 0) — the byte
      expressions of the source are linear in the stride (`Lemmas/SeqSrc.lean`: `*_bytes`), so cell units lose nothing;
    * `Layout` : the byte-level facts about records (`Array_Step`, `Array_Item`, `Array_Alloc`, `Array_Size_Round`) and List nodes
      (`List_Alloc`, `List_Next`, `List_Prev`, `List_Free`) evaluated from the terms (`byteEnv`).

  Props/C04.lean proves that every `…Src` operation IS the hand-written one (so each history theorem of the store level speaks about
  the arithmetic that is in the source), and the layout facts for every element size.  The driver prints the `layout` line from here.
-/
import Cello.SeqStore
import CelloGen.SeqSrc

namespace Cello.Seq.Src

open CelloGen.SeqSrc

variable {α : Type}

structure Env where
  nitems : Int := 0
  nslots : Int := 0
  tsize : Int := 0
  hdr : Int := 0
  ptr : Int := 1
  i : Int := 0
  s : Int := 0
  step : Int := 1
  base : Int := 0

def Env.get (ρ : Env) : V → Int
  | .nitems => ρ.nitems | .nslots => ρ.nslots | .tsize => ρ.tsize | .hdr => ρ.hdr | .ptr => ρ.ptr
  | .i => ρ.i | .s => ρ.s | .step => ρ.step | .base => ρ.base

def holds : Rel → Int → Int → Bool
  | .lt, a, b => decide (a < b)
  | .le, a, b => decide (a ≤ b)
  | .gt, a, b => decide (a > b)
  | .ge, a, b => decide (a ≥ b)
  | .eq, a, b => decide (a = b)

def evalE (ρ : Env) : E → Int
  | .lit n => (n : Int)
  | .v x => ρ.get x
  | .add a b => evalE ρ a + evalE ρ b
  | .sub a b => evalE ρ a - evalE ρ b
  | .mul a b => evalE ρ a * evalE ρ b
  | .div a b => evalE ρ a / evalE ρ b
  | .cond r a b t e => if holds r (evalE ρ a) (evalE ρ b) then evalE ρ t else evalE ρ e

/-- a disjunction of comparisons -/
def anyHolds (ρ : Env) (gs : List (Rel × E × E)) : Bool := gs.any (fun g => holds g.1 (evalE ρ g.2.1) (evalE ρ g.2.2))

/-- cell units: one record / one pointer cell = 1 -/
def cellEnv (n slots : Nat) (i : Int) : Env := { nitems := n, nslots := slots, i := i }

/-- `i = <norm>; if (<reject>) throw`: the accepted position -/
def applyRule (r : IdxRule) (n : Nat) (i : Int) : Option Nat :=
  let j := evalE (cellEnv n n i) r.norm
  if anyHolds (cellEnv n n j) r.reject then none else some j.toNat

def policyFires (p : Policy) (n slots : Nat) : Bool := holds p.r (evalE (cellEnv n slots 0) p.a) (evalE (cellEnv n slots 0) p.b)
def policySlots (p : Policy) (n slots : Nat) : Nat := (evalE (cellEnv n slots 0) p.newSlots).toNat
/-- the `realloc` size, in cells, once `nslots` was updated -/
def policyCells (p : Policy) (n slots : Nat) : Nat := (evalE (cellEnv n (policySlots p n slots) 0) p.bytes).toNat

/-- the capacity after the policy ran (list level: `Cello.Seq.reserveMore / reserveLess`) -/
def reserveSrc (p : Policy) (n slots : Nat) : Nat := if policyFires p n slots then policyCells p n slots else slots

def moveArgs (m : Move) (n k : Nat) : Nat × Nat × Nat :=
  let ρ := cellEnv n n k
  ((evalE ρ m.dst).toNat, (evalE ρ m.src).toNat, (evalE ρ m.cnt).toNat)

def slotOf (e : E) (n : Nat) : Nat := (evalE (cellEnv n n 0) e).toNat

/-! ## Array operations over the extracted terms -/

def _root_.Cello.Seq.ArrS.reserveMoreSrc (s : ArrS α) : ArrS α :=
  if policyFires CelloGen.SeqSrc.reserveMore s.nitems s.cells.size then s.realloc (policyCells CelloGen.SeqSrc.reserveMore s.nitems s.cells.size) else s

def _root_.Cello.Seq.ArrS.reserveLessSrc (s : ArrS α) : ArrS α :=
  if policyFires CelloGen.SeqSrc.reserveLess s.nitems s.cells.size then s.realloc (policyCells CelloGen.SeqSrc.reserveLess s.nitems s.cells.size) else s

def _root_.Cello.Seq.ArrS.pushSrc (s : ArrS α) (x : α) : ArrS α × Res Unit :=
  let s1 := ({ s with nitems := s.nitems + 1 } : ArrS α).reserveMoreSrc
  match s1.wr (slotOf arrayPushSlot s1.nitems) x with
  | some s2 => (s2, .ok ())
  | none => (s, .ub)

def _root_.Cello.Seq.ArrS.popSrc (s : ArrS α) : ArrS α × Res Unit :=
  if anyHolds (cellEnv s.nitems s.cells.size 0) arrayPopEmpty then (s, .raised .indexOutOfBounds)
  else match s.rd (slotOf arrayPopSlot s.nitems) with
    | none => (s, .ub)
    | some _ => (({ s with nitems := s.nitems - 1 } : ArrS α).reserveLessSrc, .ok ())

def _root_.Cello.Seq.ArrS.pushAtSrc (s : ArrS α) (x : α) (i : Int) : ArrS α × Res Unit :=
  match applyRule arrayPushAt s.nitems i with
  | none => (s, .raised .indexOutOfBounds)
  | some k =>
    let s1 := ({ s with nitems := s.nitems + 1 } : ArrS α).reserveMoreSrc
    let m := moveArgs arrayPushAtMove s1.nitems k
    match s1.memmove m.1 m.2.1 m.2.2 with
    | none => (s, .ub)
    | some s2 =>
      match s2.wr k x with
      | some s3 => (s3, .ok ())
      | none => (s, .ub)

def _root_.Cello.Seq.ArrS.popAtSrc (s : ArrS α) (i : Int) : ArrS α × Res Unit :=
  match applyRule arrayPopAt s.nitems i with
  | none => (s, .raised .indexOutOfBounds)
  | some k =>
    match s.rd k with
    | none => (s, .ub)
    | some _ =>
      let m := moveArgs arrayPopAtMove s.nitems k
      match s.memmove m.1 m.2.1 m.2.2 with
      | none => (s, .ub)
      | some s1 => (({ s1 with nitems := s1.nitems - 1 } : ArrS α).reserveLessSrc, .ok ())

def _root_.Cello.Seq.ArrS.getSrc (s : ArrS α) (i : Int) : Res α :=
  match applyRule arrayGet s.nitems i with
  | none => .raised .indexOutOfBounds
  | some k => match s.rd k with
    | some x => .ok x
    | none => .ub

def _root_.Cello.Seq.ArrS.setSrc (s : ArrS α) (i : Int) (x : α) : ArrS α × Res Unit :=
  match applyRule arraySet s.nitems i with
  | none => (s, .raised .indexOutOfBounds)
  | some k => match s.rd k with
    | none => (s, .ub)
    | some _ => match s.wr k x with
      | some s1 => (s1, .ok ())
      | none => (s, .ub)

/-! ## List_At over the extracted terms -/

def _root_.Cello.Seq.LstS.nodeAtSrc (s : LstS α) (i : Int) : Res Nat :=
  match applyRule listAt s.nitems i with
  | none => .raised .indexOutOfBounds
  | some k =>
    let ρ := cellEnv s.nitems s.nitems k
    let r := if anyHolds ρ listAtFromHead then s.walkNext k s.head else s.walkPrev (evalE ρ listAtBackSteps).toNat s.tail
    match r with
    | some a => if (s.node a).isSome then .ok a else .ub
    | none => .ub

/-! ## Tuple operations over the extracted terms -/

def _root_.Cello.Seq.TupS.pushCellSrc (s : TupS α) (c : TCell α) : TupS α × Res Unit :=
  match s.len with
  | none => (s, .ub)
  | some n =>
    if !s.onHeap then (s, .raised .valueError)
    else match ((s.realloc (slotOf tuplePushCells n)).wr (slotOf tuplePushObjCell n) c).bind (fun s1 => s1.wr (slotOf tuplePushTermCell n) .term) with
      | some s1 => (s1, .ok ())
      | none => (s, .ub)

def _root_.Cello.Seq.TupS.pushAtCellSrc (s : TupS α) (c : TCell α) (i : Int) : TupS α × Res Unit :=
  match s.len with
  | none => (s, .ub)
  | some n =>
    match applyRule tuplePushAt n i with
    | none => (s, .raised .indexOutOfBounds)
    | some k =>
      if !s.onHeap then (s, .raised .valueError)
      else
        let m := moveArgs tuplePushAtMove n k
        match (s.realloc (slotOf tuplePushAtCells n)).memmove m.1 m.2.1 m.2.2 with
        | none => (s, .ub)
        | some s1 => match s1.wr k c with
          | some s2 => (s2, .ok ())
          | none => (s, .ub)

def _root_.Cello.Seq.TupS.popAtSrc (s : TupS α) (i : Int) : TupS α × Res Unit :=
  match s.len with
  | none => (s, .ub)
  | some n =>
    match applyRule tuplePopAt n i with
    | none => (s, .raised .indexOutOfBounds)
    | some k =>
      if !s.onHeap then (s, .raised .valueError)
      else
        let m := moveArgs tuplePopAtMove n k
        match s.memmove m.1 m.2.1 m.2.2 with
        | none => (s, .ub)
        | some s1 => (s1.realloc (slotOf tuplePopAtCells n), .ok ())

def _root_.Cello.Seq.TupS.getCellSrc (s : TupS α) (i : Int) : Res (TCell α) :=
  match s.len with
  | none => .ub
  | some n =>
    match applyRule tupleGet n i with
    | none => .raised .indexOutOfBounds
    | some k => match s.rd k with
      | some c => .ok c
      | none => .ub

def _root_.Cello.Seq.TupS.setCellSrc (s : TupS α) (i : Int) (c : TCell α) : TupS α × Res Unit :=
  match s.len with
  | none => (s, .ub)
  | some n =>
    match applyRule tupleSet n i with
    | none => (s, .raised .indexOutOfBounds)
    | some k => match s.wr k c with
      | some s1 => (s1, .ok ())
      | none => (s, .ub)

/-! ## histories over the extracted arithmetic -/

/-- `ArrS.step` with every operation whose arithmetic was extracted replaced by its `…Src` form -/
def _root_.Cello.Seq.ArrS.stepSrc [BEq α] (s : ArrS α) : Op α → ArrS α × Res Unit
  | .push x => s.pushSrc x | .pop => s.popSrc | .pushAt x i => s.pushAtSrc x i | .popAt i => s.popAtSrc i
  | .set i x => s.setSrc i x | .append x => s.pushSrc x
  | .rem x => s.rem x | .concat ys => s.concat ys | .resize n => s.resize n | .sort f => s.sortBy f | .assign ys b => s.assign ys b

def _root_.Cello.Seq.TupS.stepSrc [BEq α] (s : TupS α) : Op α → TupS α × Res Unit
  | .push x => s.pushCellSrc (.item x) | .pushAt x i => s.pushAtCellSrc (.item x) i | .popAt i => s.popAtSrc i
  | .set i x => s.setCellSrc i (.item x) | .append x => s.pushCellSrc (.item x)
  | .pop => s.pop | .rem x => s.rem x | .concat ys => s.concat ys | .resize n => s.resize n | .sort f => s.sortBy f | .assign ys b => s.assign ys b

/-! ## byte-level layout -/

/-- byte units: element size `raw` as `size(type)` reports it, `hdr = sizeof(struct Header)`, `ptr = sizeof(var)` -/
def roundSize (raw ptr : Nat) : Int := evalE { s := raw, ptr := ptr } arraySizeRound

def byteEnv (tsize hdr ptr : Int) (n slots : Nat) (i : Int) : Env :=
  let e0 : Env := { tsize := tsize, hdr := hdr, ptr := ptr }
  { nitems := n, nslots := slots, tsize := tsize, hdr := hdr, ptr := ptr, i := i, step := evalE e0 arrayStep }

/-- what the `layout` op of the op files prints for an Array: rounded element size, stride, offset of element `nitems` (one past
    the last), the record `Array_Alloc` would zero there, bytes of the block -/
structure ArrLayout where
  tsize : Int
  step : Int
  item : Int
  recFrom : Int
  recLen : Int
  head : Int
  bytes : Int
deriving Repr, DecidableEq

def arrLayout (raw hdr ptr n slots : Nat) : ArrLayout :=
  let ts := roundSize raw ptr
  let ρ := byteEnv ts hdr ptr n slots n
  { tsize := ts, step := ρ.step, item := evalE ρ arrayItem, recFrom := evalE ρ arrayAllocDst, recLen := evalE ρ arrayAllocLen,
    head := evalE ρ arrayAllocHead, bytes := evalE ρ arrayNewBytes }

/-- a List node: bytes of the block, offset of the header, of the element, of the `next` and `prev` words, of the address freed -/
structure NodeLayout where
  bytes : Int
  header : Int
  elem : Int
  next : Int
  prev : Int
  freed : Int
deriving Repr, DecidableEq

def nodeLayout (tsize hdr ptr : Nat) : NodeLayout :=
  let ρ : Env := { tsize := tsize, hdr := hdr, ptr := ptr }
  let el := evalE ρ listHeaderAt + hdr
  { bytes := evalE ρ listNodeBytes, header := evalE ρ listHeaderAt, elem := el, next := el - evalE ρ listNextBack,
    prev := el - evalE ρ listPrevBack, freed := el - evalE ρ listFreeBack }

end Cello.Seq.Src
