/-
  Cello/RH.lean — the robin-hood core shared by the collector's registry (src/GC.c: GC_Set_Ptr, GC_Mem_Ptr, GC_Rem_Ptr,
  GC_Mark_Item, GC_Sweep) and Table (src/Table.c: Table_Set_Move, Table_Get/Mem/Rem).  Core Lean only.

  An entry stores its key, its *home* slot (`hash key % n`; the C code stores `home+1`, 0 meaning empty) and a payload.
  Cyclic index arithmetic is written with `if` (omega-friendly); `next_eq_mod`/`dist_eq_mod` (CelloProofs/Lemmas/RH.lean)
  equate it with the `%` forms the C code computes.
-/
namespace RH

structure Entry (κ : Type) (ε : Type) where
  key  : κ
  home : Nat
  val  : ε
deriving DecidableEq, Repr

abbrev Slots (κ ε : Type) (n : Nat) := Vector (Option (Entry κ ε)) n

/-- `(i+1) % n` for `i < n` -/
def next (n i : Nat) : Nat := if i + 1 = n then 0 else i + 1
/-- `(i-1) mod n` for `i < n` -/
def prev (n i : Nat) : Nat := if i = 0 then n - 1 else i - 1
/-- `GC_Probe` / `Table_Probe`: distance of slot `i` from `home`, cyclically -/
def dist (n i home : Nat) : Nat := if home ≤ i then i - home else i + n - home

theorem next_lt {n i : Nat} (h : i < n) : next n i < n := by unfold next; split <;> omega
theorem prev_lt {n i : Nat} (h : i < n) : prev n i < n := by unfold prev; split <;> omega

variable {κ ε : Type} [DecidableEq κ] {n : Nat}

/-- probing loop of GC_Mem_Ptr / Table_Mem / Table_Get: `some true` found, `some false` absent, `none` out of fuel -/
def lookupLoop (s : Slots κ ε n) (k : κ) : (fuel i j : Nat) → (hi : i < n) → Option Bool
  | 0, _, _, _ => none
  | fuel+1, i, j, hi =>
    match s[i] with
    | none => some false
    | some e =>
      if j > dist n i e.home then some false
      else if e.key = k then some true
      else lookupLoop s k fuel (next n i) (j+1) (next_lt hi)

def lookup (hash : κ → Nat) (s : Slots κ ε n) (k : κ) (hn : 0 < n) : Option Bool :=
  lookupLoop s k n (hash k % n) 0 (Nat.mod_lt _ hn)

/-- same loop returning the slot index (Table_Get, Table_Rem, GC_Rem_Ptr, GC_Mark_Item) -/
def findLoop (s : Slots κ ε n) (k : κ) : (fuel i j : Nat) → (hi : i < n) → Option (Option (Fin n))
  | 0, _, _, _ => none
  | fuel+1, i, j, hi =>
    match s[i] with
    | none => some none
    | some e =>
      if j > dist n i e.home then some none
      else if e.key = k then some (some ⟨i, hi⟩)
      else findLoop s k fuel (next n i) (j+1) (next_lt hi)

/-- probing-and-displacing loop of GC_Set_Ptr / Table_Set_Move for a key that is not in the table.
    `ge = true` is the `j >= p` tie rule (GC_Set_Ptr), `ge = false` the strict `j > p` (Table_Set_Move after the fix). -/
def insertLoop (ge : Bool) : (fuel : Nat) → Slots κ ε n → Entry κ ε → (i j : Nat) → (hi : i < n) → Option (Slots κ ε n)
  | 0, _, _, _, _, _ => none
  | fuel+1, s, c, i, j, hi =>
    match s[i] with
    | none => some (s.set i (some c))
    | some r =>
      let p := dist n i r.home
      if (if ge then j ≥ p else j > p) then insertLoop ge fuel (s.set i (some c)) r (next n i) (p+1) (next_lt hi)
      else insertLoop ge fuel s c (next n i) (j+1) (next_lt hi)

end RH
