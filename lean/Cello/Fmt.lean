/-
  Cello/Fmt.lean — executable model of Cello's formatted output (src/Show.c `print_to_with`, `format_to`, `show_to`;
  src/String.c `String_Format_To`, `String_Show`; src/File.c `File_Format_To`; src/Num.c `Int_Show`, `Float_Show`;
  `Array_Show`, `Tuple_Show`, `List_Show`, `Table_Show`, `Tree_Show`, `Range_Show`, `Slice_Show`, `Box_Show`, `Type_Show`,
  the NULL and no-Show arms of `show_to`), and the grammar / reference semantics it is proved against
  (CelloProofs/Props/C14.lean).  Core Lean only.

  Mirrors (src/Show.c):
      char* fmt_buf = malloc(strlen(fmt)+1);  size_t index = 0;
      while (true) {
        if (*fmt is '\0') { break; }
        const char* start = fmt;
        while (*fmt isnt '\0' and *fmt isnt '%') { fmt++; }                          -- `scanLit`
        if (start isnt fmt) { memcpy(fmt_buf, start, fmt-start); fmt_buf[fmt-start] = '\0';
                              off = format_to(out, pos, fmt_buf); if (off < 0) throw(FormatError, …); pos += off; continue; }
        if (*fmt is '%' && *(fmt+1) is '%') { off = format_to(out, pos, "%%"); if (off < 0) throw(FormatError, …);
                                              pos += off; fmt += 2; continue; }
        while (not strchr("diuoxX…$", *fmt)) { fmt++; }                               -- `scanConv`
        if (start isnt fmt) { memcpy(fmt_buf, start, fmt-start+1); fmt_buf[fmt-start+1] = '\0';
                              if (index >= len(args)) throw(FormatError, …);
                              var a = get(args, $I(index)); index++;
                              if (*fmt is '$') …  if (*fmt is 's') …  if (strchr("diouxX", *fmt)) …   -- `dispatch`; each
                              format_to is followed by `if (off < 0) { throw(FormatError, …); }`        -- `Out.call`
                              fmt++; continue; }
        throw(FormatError, "Invalid Format String!");
      }
  The C string is the array `fmt ++ [NUL]`; `fmt` (the pointer) is an index into it; every read goes through `rd`
  (index > length = outside the array → outcome `oob`); `fmt_buf` has `length+1` bytes, every write index is checked
  against that.  The high-water marks of both are kept in `Marks`.
  What libc does for one `format_to` call is the parameter `prim` (trusted: vsnprintf / vsprintf / vfprintf): the text it
  produces for a call it accepts (`text`) and whether it rejects the call with a negative result (`rej`: e.g. `%lc` with a
  wide character the locale cannot encode, a width that overflows `int`).  What the sink's own method does with a rejected
  call is code of the library: `String_Format_To` is interpreted statement by statement (`strReject`, over the statement
  list the translator reads from src/String.c), `File_Format_To` returns `vfprintf`'s result; `print_to_with` then throws
  FormatError from the negative result (`if (off < 0) { throw(FormatError, …); }` after each of its seven `format_to` calls).
-/
namespace Cello.Fmt

abbrev Str := List Char

/-- the string terminator -/
abbrev NUL : Char := '\x00'

/-! ## values, calls, sinks -/

/-- what travels through the C varargs of one `format_to` call -/
inductive PVal where
  | none                 -- no argument (literal run, `%%`)
  | cstr (s : Str)       -- `c_str(a)`
  | i64 (v : Int)        -- `c_int(a)` (an `int64_t`)
  | dbl (bits : Nat)     -- `c_float(a)` (a `double`, by its bit pattern)
  | ptr                  -- the object pointer itself
deriving DecidableEq, Repr, Inhabited

/-- one primitive call `format_to(out, pos, frag, val)` -/
structure Call where
  frag : Str
  val : PVal
deriving DecidableEq, Repr, Inhabited

inductive Exc where
  | FormatError
  | ClassError      -- `c_int` / `c_float` / `c_str` on an object whose type lacks the class
  | OutOfMemoryError  -- `String_Format_To`: `realloc` returned NULL (reachable only in the OLD variant, see `stepsOld`)
  | ValueError      -- `c_int` / `c_float` / `c_str` on NULL (`type_of`: "Received NULL as value to 'type_of'")
  | Fuel            -- model artefact: `showD` ran out of recursion fuel (never with fuel > depth of the object)
deriving DecidableEq, Repr, Inhabited

inductive Outcome where
  | ok
  | raised (e : Exc)
  | oob             -- a read outside `fmt ++ [NUL]` or a write outside `fmt_buf` (undefined behaviour in C)
deriving DecidableEq, Repr, Inhabited

/-- Cello objects that can be printed -/
inductive Obj where
  | int (v : Int)
  | flt (bits : Nat)
  | str (s : Str)
  | array (items : List Obj)
  | tuple (items : List Obj)
  | list (items : List Obj)
  | table (pairs : List (Obj × Obj))    -- a Table, its pairs in slot order (the order `foreach` and Table_Show walk)
  | tree (pairs : List (Obj × Obj))     -- a Tree, its pairs in iteration order (descending keys)
  | range (items : List Int)            -- a Range, the values its iteration yields
  | slice (items : List Obj)            -- a Slice, the items its iteration yields
  | box (inner : Obj)                   -- a Box; `inner` = what `Box_Deref` returns (`.null` for an empty Box)
  | null                                -- the NULL pointer
  | other (tname : Str)                 -- an object whose type (name `tname`) has no Show instance: File, …
  | type (name : Str)                   -- a Type object: `c_str` = its name
  | sink                                -- the destination object itself, passed as an argument (aliasing)
deriving Inhabited

/-- the destination: a heap `String` (its bytes) or a `File` (its content; written at the current offset = end) -/
inductive Sink where
  | str (val : Str)
  | file (content : Str)
deriving DecidableEq, Repr, Inhabited

/-- `String_Format_To`: `realloc(val, pos+size+1); vsprintf(val+pos, …)` — everything from `pos` on is replaced;
    `File_Format_To`: `vfprintf(file, …)` — `pos` is ignored, the text goes to the current offset.
    (String sink with `pos > strlen`: the bytes between are indeterminate in C; the theorems assume `pos ≤ length`.) -/
def Sink.write : Sink → Nat → Str → Sink
  | .str v, pos, t => .str (v.take pos ++ t)
  | .file c, _, t => .file (c ++ t)

/-! ## one `format_to` call: libc's part and the sink method's part -/

/-- libc for ONE call `v*printf(frag, val)` (trusted): the characters it produces when it accepts the call, and whether
    it rejects it (negative result, nothing produced) -/
structure Libc where
  text : Str → PVal → Str
  rej : Str → PVal → Bool

/-- the statements of the generic branch of `String_Format_To` (src/String.c), read from the source by the translator -/
inductive SStep where
  | measure      -- int size = vsnprintf(NULL, 0, fmt, va_tmp);
  | guard        -- if (size < 0) { return size; }
  | allocCheck   -- #if CELLO_ALLOC_CHECK == 1 … throw(ValueError, "Cannot reallocate String, not on heap!")
  | realloc      -- s->val = realloc(s->val, pos + size + 1);
  | memCheck     -- #if CELLO_MEMORY_CHECK == 1 … if (s->val is NULL) throw(OutOfMemoryError, …)
  | write        -- return vsprintf(s->val + pos, fmt, va);
  | other        -- anything else (the translator refuses it)
deriving DecidableEq, Repr, Inhabited

def SStep.ofCode : Nat → SStep
  | 0 => .measure | 1 => .guard | 2 => .allocCheck | 3 => .realloc | 4 => .memCheck | 5 => .write | _ => .other

/-- everything one `format_to` call depends on: libc and the code of `String_Format_To` -/
structure Prim extends Libc where
  strSteps : List SStep

/-- the text a call contributes: nothing when libc rejects it -/
def Prim.out (p : Prim) (frag : Str) (v : PVal) : Str := if p.rej frag v then [] else p.text frag v

/-- `String_Format_To` on a heap String holding `val`, for a call libc REJECTS (`size` = −1), statement by statement;
    `measured` = `size` holds the negative result, `shrunk` = `realloc(val, pos + size + 1)` = `realloc(val, pos)` has cut the
    block to `pos` bytes (no room for a terminator; `pos = 0` frees it and glibc returns NULL).
    Result: the String afterwards and what the caller sees — `.raised .FormatError` = the negative result came back and
    `print_to_with` threw; `.oob` = undefined behaviour (`vsprintf` writes its terminator at `val[pos]`, outside the block). -/
def strRejectRun : List SStep → Str → Nat → Bool → Bool → Sink × Outcome
  | [], v, _, _, _ => (.str v, .oob)                                     -- control leaves the function without `return`
  | s :: r, v, pos, measured, shrunk =>
    match s with
    | .measure => strRejectRun r v pos true shrunk
    | .guard => if measured then (.str v, .raised .FormatError) else strRejectRun r v pos measured shrunk
    | .allocCheck => strRejectRun r v pos measured shrunk                 -- heap Strings only: never fires
    | .realloc => if measured then strRejectRun r (v.take pos) pos measured true else (.str v, .oob)
    | .memCheck => if shrunk ∧ pos = 0 then (.str [], .raised .OutOfMemoryError) else strRejectRun r v pos measured shrunk
    | .write => (.str v, if shrunk then .oob else .raised .FormatError)
    | .other => (.str v, .oob)

def strReject (steps : List SStep) (v : Str) (pos : Nat) : Sink × Outcome := strRejectRun steps v pos false false

/-- a sink after a call libc rejects, and what `print_to_with` does next.
    `File_Format_To`: `return vfprintf(f->file, fmt, va);` — nothing was written, the negative result goes back. -/
def Sink.reject (steps : List SStep) : Sink → Nat → Sink × Outcome
  | .str v, pos => strReject steps v pos
  | .file c, _ => (.file c, .raised .FormatError)

/-- **the guard is in place**: a rejected call leaves a String untouched and comes back as FormatError -/
def Prim.Guarded (p : Prim) : Prop := ∀ v pos, strReject p.strSteps v pos = (.str v, .raised .FormatError)

/-- destination, current position, and the log of primitive calls made so far (ghost; a rejected call is logged too) -/
structure Out where
  sink : Sink
  pos : Nat
  calls : List Call
deriving DecidableEq, Repr, Inhabited

/-- the destination after `int off = format_to(out, pos, frag, val);` and, when `off ≥ 0`, `pos += off;` -/
def Out.formatTo (prim : Prim) (o : Out) (frag : Str) (v : PVal) : Out :=
  if prim.rej frag v then
    { o with sink := (o.sink.reject prim.strSteps o.pos).1, calls := o.calls ++ [⟨frag, v⟩] }
  else
    let txt := prim.text frag v
    { sink := o.sink.write o.pos txt, pos := o.pos + txt.length, calls := o.calls ++ [⟨frag, v⟩] }

/-- `if (off < 0) { throw(FormatError, …); }` -/
def Out.callOc (prim : Prim) (o : Out) (frag : Str) (v : PVal) : Outcome :=
  if prim.rej frag v then (o.sink.reject prim.strSteps o.pos).2 else .ok

/-- one `format_to` call of `print_to_with` with its `off < 0` check -/
def Out.call (prim : Prim) (o : Out) (frag : Str) (v : PVal) : Out × Outcome :=
  (o.formatTo prim frag v, o.callOc prim frag v)

/-- a list of primitive calls applied in order -/
def emitAll (prim : Prim) (o : Out) (cs : List Call) : Out :=
  cs.foldl (fun o c => o.formatTo prim c.frag c.val) o

/-- the text libc produces for a list of primitive calls -/
def textOf (prim : Prim) (cs : List Call) : Str :=
  (cs.map fun c => prim.out c.frag c.val).flatten

/-- the calls libc accepted -/
def accepted (prim : Prim) (cs : List Call) : List Call := cs.filter fun c => !prim.rej c.frag c.val

/-! ## configuration read from the source (CelloGen/Fmt.lean) -/

inductive Kind where
  | show | cstr | cint | cfloat | obj
deriving DecidableEq, Repr, Inhabited

/-- one `if` of the specification branch: `*fmt is 'c'` or `strchr("…", *fmt)` -/
inductive Matcher where
  | is (c : Char)
  | inSet (s : Str)
deriving DecidableEq, Repr, Inhabited

/-- `strchr(set, c) != NULL` — the terminator is found too -/
def strchrHit (set : Str) (c : Char) : Bool := decide (c = NUL ∨ c ∈ set)

def Matcher.hit : Matcher → Char → Bool
  | .is c, x => decide (x = c)
  | .inSet s, x => strchrHit s x

structure Cfg where
  conv : Str
  disp : List (Matcher × Kind)
deriving Repr, Inhabited

def Kind.ofCode : Nat → Kind
  | 0 => .show | 1 => .cstr | 2 => .cint | 3 => .cfloat | _ => .obj

def Cfg.ofGen (conv : Str) (disp : List (Bool × List Char × Nat)) : Cfg :=
  { conv := conv
    disp := disp.map fun (s, cs, k) => ((if s then Matcher.inSet cs else Matcher.is (cs.headD NUL)), Kind.ofCode k) }

/-! ## memory accesses -/

/-- the C array behind `const char* fmt` -/
def mem (fmt : Str) : Str := fmt ++ [NUL]

/-- `fmt[i]`; `none` = outside the array -/
def rd (fmt : Str) (i : Nat) : Option Char := (mem fmt)[i]?

/-- the bytes `memcpy(fmt_buf, fmt + s, n)` moves; `none` when it would read outside the array -/
def slice (fmt : Str) (s n : Nat) : Option Str :=
  if s + n ≤ fmt.length + 1 then some (((mem fmt).drop s).take n) else none

/-- what `format_to` sees in `fmt_buf`: the bytes up to the first NUL -/
def cstrOf (buf : Str) : Str := buf.takeWhile (· ≠ NUL)

/-- high-water marks: largest index read in the format array, largest index written in `fmt_buf` -/
structure Marks where
  rdMax : Nat
  wrMax : Nat
deriving DecidableEq, Repr, Inhabited

def Marks.read (m : Marks) (i : Nat) : Marks := { m with rdMax := max m.rdMax i }
def Marks.write (m : Marks) (i : Nat) : Marks := { m with wrMax := max m.wrMax i }

/-- `while (*fmt isnt '\0' and *fmt isnt '%') { fmt++; }` from index `i`; `none` = left the array (or fuel) -/
def scanLit (fmt : Str) : Nat → Nat → Option Nat
  | 0, _ => none
  | fuel+1, i =>
    match rd fmt i with
    | none => none
    | some c => if c ≠ NUL ∧ c ≠ '%' then scanLit fmt fuel (i+1) else some i

/-- `while (not strchr(conv, *fmt)) { fmt++; }` from index `i` -/
def scanConv (conv : Str) (fmt : Str) : Nat → Nat → Option Nat
  | 0, _ => none
  | fuel+1, i =>
    match rd fmt i with
    | none => none
    | some c => if strchrHit conv c then some i else scanConv conv fmt fuel (i+1)

/-! ## conversions of the argument -/

/-- `c_str(a)` (`.sink` is treated in `action`: what it yields depends on the destination) -/
def cStr : Obj → Except Exc Str
  | .str s => .ok s
  | .type n => .ok n
  | .null => .error .ValueError
  | _ => .error .ClassError

def cInt : Obj → Except Exc Int
  | .int v => .ok v
  | .null => .error .ValueError
  | _ => .error .ClassError

def cFloat : Obj → Except Exc Nat
  | .flt b => .ok b
  | .null => .error .ValueError
  | _ => .error .ClassError

section machine
variable (cfg : Cfg) (prim : Prim) (shw : Obj → Out → Out × Outcome)

/-- the body of one dispatch `if` -/
def action (k : Kind) (buf : Str) (a : Obj) (o : Out) : Out × Outcome :=
  match k with
  | .show => shw a o                                         -- pos = show_to(a, out, pos)
  | .cstr => match a with
    | .sink =>
      -- the destination as its own `%s` argument: `c_str(a)` is `s->val`, fetched BEFORE `format_to`; `String_Format_To`
      -- measures through it (fine), then `realloc`s `s->val` and `vsprintf`s from the old pointer: freed or overlapping
      -- memory — undefined behaviour, unless libc rejected the call (then it returned before the `realloc`).
      -- A File has no C_Str instance.
      match o.sink with
      | .str v => if prim.rej buf (.cstr v) then o.call prim buf (.cstr v) else (o.formatTo prim buf (.cstr v), .oob)
      | .file _ => (o, .raised .ClassError)
    | _ => match cStr a with
      | .ok s => o.call prim buf (.cstr s)
      | .error e => (o, .raised e)
  | .cint => match cInt a with
    | .ok v => o.call prim buf (.i64 v)
    | .error e => (o, .raised e)
  | .cfloat => match cFloat a with
    | .ok b => o.call prim buf (.dbl b)
    | .error e => (o, .raised e)
  | .obj => o.call prim buf .ptr

/-- the sequence of `if`s: every one whose test matches runs, in source order -/
def dispatch : List (Matcher × Kind) → Char → Str → Obj → Out → Out × Outcome
  | [], _, _, _, o => (o, .ok)
  | (m, k) :: r, c, buf, a, o =>
    if m.hit c then
      match action prim shw k buf a o with
      | (o', .ok) => dispatch r c buf a o'
      | bad => bad
    else dispatch r c buf a o

structure Result where
  out : Out
  oc : Outcome
  marks : Marks
deriving DecidableEq, Repr, Inhabited

/-- the `while (true)` loop of `print_to_with`; `i` = the pointer `fmt` as an index, `index` = next argument -/
def loop (fmt : Str) (args : List Obj) : Nat → Nat → Nat → Out → Marks → Result
  | 0, _, _, o, mk => ⟨o, .oob, mk⟩
  | fuel+1, i, index, o, mk =>
    let L := fmt.length
    -- if (*fmt is '\0') { break; }
    match rd fmt i with
    | none => ⟨o, .oob, mk.read i⟩
    | some c0 =>
    let mk := mk.read i
    if c0 = NUL then ⟨o, .ok, mk⟩ else
    -- const char* start = fmt;  while (*fmt isnt '\0' and *fmt isnt '%') { fmt++; }
    match scanLit fmt (L + 2) i with
    | none => ⟨o, .oob, mk.read (L + 1)⟩
    | some j =>
    let mk := mk.read j
    if i ≠ j then
      -- memcpy(fmt_buf, start, fmt - start); fmt_buf[fmt - start] = '\0';
      match slice fmt i (j - i) with
      | none => ⟨o, .oob, mk.read (L + 1)⟩
      | some buf =>
      let mk := mk.write (j - i)
      if j - i > L then ⟨o, .oob, mk⟩ else
      -- int off = format_to(out, pos, fmt_buf); if (off < 0) { throw(FormatError, …); } pos += off; continue;
      match o.call prim (cstrOf buf) .none with
      | (o', .ok) => loop fmt args fuel j index o' mk
      | (o', bad) => ⟨o', bad, mk⟩
    else
    -- if (*fmt is '%' && *(fmt+1) is '%')
    match (if c0 = '%' then rd fmt (i + 1) else some NUL) with
    | none => ⟨o, .oob, mk.read (i + 1)⟩
    | some c1 =>
    let mk := if c0 = '%' then mk.read (i + 1) else mk
    if c0 = '%' ∧ c1 = '%' then
      -- off = format_to(out, pos, "%%"); if (off < 0) { throw(FormatError, …); } pos += off; fmt += 2; continue;
      match o.call prim ['%', '%'] .none with
      | (o', .ok) => loop fmt args fuel (i + 2) index o' mk
      | (o', bad) => ⟨o', bad, mk⟩
    else
    -- while (not strchr("diuoxX…$", *fmt)) { fmt++; }
    match scanConv cfg.conv fmt (L + 2) i with
    | none => ⟨o, .oob, mk.read (L + 1)⟩
    | some j =>
    let mk := mk.read j
    if i ≠ j then
      -- memcpy(fmt_buf, start, fmt - start + 1); fmt_buf[fmt - start + 1] = '\0';
      match slice fmt i (j - i + 1) with
      | none => ⟨o, .oob, mk.read (L + 1)⟩
      | some buf =>
      let mk := mk.write (j - i + 1)
      if j - i + 1 > L then ⟨o, .oob, mk⟩ else
      -- if (index >= len(args)) throw(FormatError, …);  var a = get(args, $I(index)); index++;
      match args[index]? with
      | none => ⟨o, .raised .FormatError, mk⟩
      | some a =>
      match rd fmt j with
      | none => ⟨o, .oob, mk⟩
      | some c =>
      match dispatch prim shw cfg.disp c (cstrOf buf) a o with
      | (o', .ok) => loop fmt args fuel (j + 1) (index + 1) o' mk     -- fmt++; continue;
      | (o', bad) => ⟨o', bad, mk⟩
    else ⟨o, .raised .FormatError, mk⟩     -- "Invalid Format String!"

/-- `print_to_with(out, pos, fmt, args)` -/
def printToWith (fmt : Str) (args : List Obj) (o : Out) : Result :=
  loop cfg prim shw fmt args (fmt.length + 1) 0 0 o ⟨0, 0⟩

end machine

/-! ## the built-in Show instances -/

/-- formats the built-in `show` functions pass to `print_to` (read from the source by the translator) -/
structure ShowCfg where
  intFmt : Str
  fltFmt : Str
  strOpen : Str
  strClose : Str
  strDefault : Str
  strEsc : List (Char × Str)
  arrOpen : Str
  arrSep : Str
  arrClose : Str
  tupOpen : Str
  tupSep : Str
  tupClose : Str
  lstOpen : Str
  lstSep : Str
  lstClose : Str
  tblOpen : Str     -- Table_Show: "<'Table' At 0x%p {", "%$:%$" per pair, ", ", "}>"
  tblPair : Str
  tblSep : Str
  tblClose : Str
  treOpen : Str     -- Tree_Show
  trePair : Str
  treSep : Str
  treClose : Str
  rngOpen : Str     -- Range_Show: "<'Range' At 0x%p [", "%li" per value (fix 78c2117; before it "%i"), ", ", "]>"
  rngItem : Str
  rngSep : Str
  rngClose : Str
  slcOpen : Str     -- Slice_Show: "<'Slice' At 0x%p [", "%$" per item, ", ", "]>"
  slcSep : Str
  slcClose : Str
  boxFmt : Str      -- Box_Show: "<'Box' at 0x%p (%$)>" with (self, Box_Deref(self))
  nullFmt : Str     -- show_to(NULL): "<NULL>"
  defaultFmt : Str  -- show_to without a Show instance: "<'%s' At 0x%p>" with (type_of(self), self)
  typeOff : Bool    -- true = the OLD Type_Show (before fix 0046a69): returns `format_to(…)` (characters written) rather than the new
                    -- position; false = `return print_to(output, pos, "%s", self);` (the code now)
deriving Repr, Inhabited

/-- `$I(*v)` for a `char` (signed on the platforms Cello targets) -/
def signedChar (c : Char) : Int := if c.toNat ≥ 128 then (c.toNat : Int) - 256 else c.toNat

/-- run `f`, then `g` unless `f` raised -/
def andThen (f g : Out → Out × Outcome) (o : Out) : Out × Outcome :=
  match f o with
  | (o', .ok) => g o'
  | bad => bad

def Result.pair (r : Result) : Out × Outcome := (r.out, r.oc)

section shows
variable (cfg : Cfg) (prim : Prim) (sc : ShowCfg)

/-- `for each item: print_to(out, pos, "%$", item); if (not last) print_to(out, pos, sep)` -/
def showItems (shw : Obj → Out → Out × Outcome) (sep : Str) : List Obj → Out → Out × Outcome
  | [], o => (o, .ok)
  | [a], o => (printToWith cfg prim shw ['%', '$'] [a] o).pair
  | a :: b :: r, o =>
    andThen (fun o => (printToWith cfg prim shw ['%', '$'] [a] o).pair)
      (andThen (fun o => (printToWith cfg prim shw sep [] o).pair) (showItems shw sep (b :: r))) o

/-- Table_Show / Tree_Show: `for each pair: print_to(out, pos, "%$:%$", key, val); if (not last) print_to(out, pos, sep)` -/
def showPairs (shw : Obj → Out → Out × Outcome) (pair sep : Str) : List (Obj × Obj) → Out → Out × Outcome
  | [], o => (o, .ok)
  | [(k, v)], o => (printToWith cfg prim shw pair [k, v] o).pair
  | (k, v) :: q :: r, o =>
    andThen (fun o => (printToWith cfg prim shw pair [k, v] o).pair)
      (andThen (fun o => (printToWith cfg prim shw sep [] o).pair) (showPairs shw pair sep (q :: r))) o

/-- Range_Show: `for each value: print_to(out, pos, "%li", curr); if (not last) print_to(out, pos, sep)` (`item` is read from the source) -/
def showInts (shw : Obj → Out → Out × Outcome) (item sep : Str) : List Int → Out → Out × Outcome
  | [], o => (o, .ok)
  | [n], o => (printToWith cfg prim shw item [.int n] o).pair
  | n :: m :: r, o =>
    andThen (fun o => (printToWith cfg prim shw item [.int n] o).pair)
      (andThen (fun o => (printToWith cfg prim shw sep [] o).pair) (showInts shw item sep (m :: r))) o

/-- the `while (*v) { switch (*v) … }` loop of `String_Show` -/
def showChars (shw : Obj → Out → Out × Outcome) : Str → Out → Out × Outcome
  | [], o => (o, .ok)
  | c :: r, o =>
    andThen (fun o => match sc.strEsc.lookup c with
        | some e => (printToWith cfg prim shw e [] o).pair
        | none => (printToWith cfg prim shw sc.strDefault [.int (signedChar c)] o).pair)
      (showChars shw r) o

/-- `show_to(a, out, pos)` for the built-in types; `d` bounds the C recursion depth -/
def showD : Nat → Obj → Out → Out × Outcome
  | 0, _, o => (o, .raised .Fuel)
  | d+1, a, o =>
    let shw := fun x o => showD d x o
    let P := fun (f : Str) (args : List Obj) (o : Out) => (printToWith cfg prim shw f args o).pair
    match a with
    | .int _ => P sc.intFmt [a] o
    | .flt _ => P sc.fltFmt [a] o
    | .str s => andThen (P sc.strOpen [a]) (andThen (showChars cfg prim sc shw s) (P sc.strClose [a])) o
    | .array items => andThen (P sc.arrOpen [a]) (andThen (showItems cfg prim shw sc.arrSep items) (P sc.arrClose [])) o
    | .tuple items => andThen (P sc.tupOpen [a]) (andThen (showItems cfg prim shw sc.tupSep items) (P sc.tupClose [])) o
    | .list items => andThen (P sc.lstOpen [a]) (andThen (showItems cfg prim shw sc.lstSep items) (P sc.lstClose [])) o
    | .table pairs => andThen (P sc.tblOpen [a]) (andThen (showPairs cfg prim shw sc.tblPair sc.tblSep pairs) (P sc.tblClose [])) o
    | .tree pairs => andThen (P sc.treOpen [a]) (andThen (showPairs cfg prim shw sc.trePair sc.treSep pairs) (P sc.treClose [])) o
    | .range items => andThen (P sc.rngOpen [a]) (andThen (showInts cfg prim shw sc.rngItem sc.rngSep items) (P sc.rngClose [])) o
    | .slice items => andThen (P sc.slcOpen [a]) (andThen (showItems cfg prim shw sc.slcSep items) (P sc.slcClose [])) o
    | .box inner => P sc.boxFmt [a, inner] o                   -- print_to(out, pos, "<'Box' at 0x%p (%$)>", self, Box_Deref(self))
    | .null => P sc.nullFmt [] o                               -- show_to: if (self is NULL) return print_to(out, pos, "<NULL>")
    | .other tname => P sc.defaultFmt [.type tname, a] o       -- show_to: no Show instance: "<'%s' At 0x%p>", type_of(self), self
    | .type name =>
      if sc.typeOff then
        -- OLD Type_Show (before fix 0046a69): `return format_to(output, pos, "%s", Type_Builtin_Name(self));` — the number of
        -- characters written, NOT the new position (every other show returns `pos + …`); `print_to_with` then does
        -- `pos = show_to(a, out, pos)`.  Kept as an explicit variant (`showOld`, `C14_type_show_old_refuted`).
        match o.call prim ['%', 's'] (.cstr name) with
        | (o', oc) => ({ o' with pos := o'.pos - o.pos }, oc)
      else
        -- Type_Show as it is now: `return print_to(output, pos, "%s", self);` — `c_str(self)` is the type's name (`cStr`),
        -- the new position comes back like from every other show
        P ['%', 's'] [a] o
    | .sink =>
      match o.sink with
      | .str _ =>
        -- String_Show on the destination itself: `char* v = s->val` is taken, the first `print_to` reallocates `s->val`,
        -- then `while (*v)` walks the old block: undefined behaviour (unless that first call did not go through)
        andThen (P sc.strOpen [a]) (fun o => (o, .oob)) o
      | .file _ => P sc.defaultFmt [.type ['F', 'i', 'l', 'e'], a] o     -- File has no Show instance

/-- `print_to_with` with the built-in Show instances (`d` = recursion fuel for nested containers) -/
def printTo (d : Nat) (fmt : Str) (args : List Obj) (o : Out) : Result :=
  printToWith cfg prim (showD cfg prim sc d) fmt args o

end shows

/-! ## arguments that are not (and do not reach) the destination -/

/-- the argument is the destination object itself -/
def Obj.isSink : Obj → Bool
  | .sink => true
  | _ => false

/-- within `d` levels of `show` the destination itself is not reached (aliasing: `String_Show` / `String_Format_To` read the
    buffer they reallocate), and the object is not the destination.  Type objects are plain (since fix 0046a69 `Type_Show`
    returns a position like every other show).  Decidable; beyond `d` levels `showD d` runs out of fuel before it reaches
    anything. -/
def plainD : Nat → Obj → Bool
  | 0, a => !a.isSink
  | d+1, a =>
    match a with
    | .sink => false
    | .array xs => xs.all (plainD d)
    | .tuple xs => xs.all (plainD d)
    | .list xs => xs.all (plainD d)
    | .slice xs => xs.all (plainD d)
    | .table ps => ps.all fun p => plainD d p.1 && plainD d p.2
    | .tree ps => ps.all fun p => plainD d p.1 && plainD d p.2
    | .box x => plainD d x
    | _ => true

/-- the argument list of a `print_to` whose `show` has fuel `d`: no argument is the destination, and `show` of each stays
    clear of the destination -/
def plainArgs (d : Nat) (args : List Obj) : Bool := args.all (plainD d)

/-! ## the grammar and its reference semantics -/

/-- segments of a format string -/
inductive Seg where
  | lit (s : Str)                       -- maximal run of ordinary characters
  | pct                                 -- `%%`
  | spec (body : Str) (conv : Char)     -- `%` body conv
deriving DecidableEq, Repr, Inhabited

def Seg.text : Seg → Str
  | .lit s => s
  | .pct => ['%', '%']
  | .spec b c => '%' :: (b ++ [c])

def render (segs : List Seg) : Str := (segs.map Seg.text).flatten

def Seg.isLit : Seg → Bool
  | .lit _ => true
  | _ => false

/-- well-formed segment: a literal is non-empty and has no `%`/NUL; a specification's body has no conversion character
    and no NUL, does not start with `%` (that would be `%%`), and ends in a conversion character -/
def Seg.wf (conv : Str) : Seg → Bool
  | .lit s => !s.isEmpty && s.all fun c => c ≠ NUL && c ≠ '%'
  | .pct => true
  | .spec b c => decide (c ∈ conv) && c ≠ NUL && (b.all fun x => decide (x ∉ conv) && x ≠ NUL) && b.head? ≠ some '%'

/-- a well-formed segmentation: every segment well-formed, literals maximal (no two adjacent) -/
def wfSegs (conv : Str) : List Seg → Bool
  | [] => true
  | [s] => s.wf conv
  | s :: t :: r => s.wf conv && !(s.isLit && t.isLit) && wfSegs conv (t :: r)

/-- number of argument-consuming specifications -/
def nspecs : List Seg → Nat
  | [] => 0
  | .spec _ _ :: r => nspecs r + 1
  | _ :: r => nspecs r

/-- **exactly the territory of KF-C14-alias, relative to the format**: walking the specifications with the arguments they fetch (the k-th
    specification takes the k-th argument), no `%s` fetches the destination itself and no `%$` fetches an object whose `show` (within `d`
    levels) reaches it.  The destination under `%p` (its address is printed), under an integer / floating conversion (ClassError: a String
    has no C_Int / C_Float) and as a surplus argument no specification fetches is harmless and NOT excluded.  `plainArgs d args` implies
    `plainFor d args segs k` for every format. -/
def plainFor (d : Nat) (args : List Obj) : List Seg → Nat → Bool
  | [], _ => true
  | .spec _ c :: r, k =>
    (match args[k]? with
     | some a => if c = '$' then plainD d a else if c = 's' then !a.isSink else true
     | none => true) && plainFor d args r (k + 1)
  | _ :: r, k => plainFor d args r k

section reference
variable (cfg : Cfg) (prim : Prim) (shw : Obj → Out → Out × Outcome)

/-- reference semantics: one segment at a time, the k-th specification takes the k-th argument -/
def refRun (args : List Obj) : List Seg → Nat → Out → Out × Outcome
  | [], _, o => (o, .ok)
  | .lit s :: r, k, o =>
    match o.call prim s .none with
    | (o', .ok) => refRun args r k o'
    | bad => bad
  | .pct :: r, k, o =>
    match o.call prim ['%', '%'] .none with
    | (o', .ok) => refRun args r k o'
    | bad => bad
  | .spec b c :: r, k, o =>
    match args[k]? with
    | none => (o, .raised .FormatError)
    | some a =>
      match dispatch prim shw cfg.disp c ('%' :: (b ++ [c])) a o with
      | (o', .ok) => refRun args r (k + 1) o'
      | bad => bad

end reference

/-! ## parsing (decidable well-formedness) -/

/-- neither the terminator nor `%` -/
def ordinary (x : Char) : Bool := x ≠ NUL && x ≠ '%'

/-- split a format into segments the way the grammar reads it (independently of the scanner: `takeWhile`/`dropWhile`);
    `none` = not well-formed (a `%` that no conversion character follows, or a NUL inside) -/
def parse (conv : Str) : Nat → Str → Option (List Seg)
  | 0, _ => none
  | _+1, [] => some []
  | fuel+1, c :: r =>
    if c = '%' then
      if r.head? = some '%' then (parse conv fuel r.tail).map (Seg.pct :: ·)
      else
        match r.dropWhile (fun x => !strchrHit conv x) with
        | [] => none
        | d :: r' =>
          if d = NUL then none
          else (parse conv fuel r').map (Seg.spec (r.takeWhile fun x => !strchrHit conv x) d :: ·)
    else if c = NUL then none
    else (parse conv fuel ((c :: r).dropWhile ordinary)).map (Seg.lit ((c :: r).takeWhile ordinary) :: ·)

def parseFmt (conv : Str) (fmt : Str) : Option (List Seg) := parse conv (fmt.length + 1) fmt

/-! ## the printf grammar of property C14: flags, width, precision, length modifier, conversion -/

def flagChars : Str := ['-', '+', ' ', '#', '0']
def digitChars : Str := ['0', '1', '2', '3', '4', '5', '6', '7', '8', '9']
def intConvs : Str := ['d', 'i', 'u', 'o', 'x', 'X']
def fltConvs : Str := ['f', 'F', 'e', 'E', 'g', 'G', 'a', 'A']
def intLens : List Str := [[], ['h', 'h'], ['h'], ['l'], ['l', 'l'], ['j'], ['z'], ['t']]
def fltLens : List Str := [[], ['l']]

/-- length modifiers whose C argument type is what `print_to_with` passes (an `int64_t`, a `double`, a `char*`,
    a pointer): not `L`, not `l` with `c`/`s` -/
def lensFor (c : Char) : List Str :=
  if c ∈ intConvs then intLens else if c ∈ fltConvs then fltLens else if c ∈ ['c', 's', 'p', '$'] then [[]] else []

/-- `body` = flags* digits* ('.' digits*)? lenmod -/
def specOK (body : Str) (c : Char) : Bool :=
  let r := (body.dropWhile (· ∈ flagChars)).dropWhile (· ∈ digitChars)
  let r := match r with
    | '.' :: r' => r'.dropWhile (· ∈ digitChars)
    | _ => r
  decide (r ∈ lensFor c)

def Seg.printfOK : Seg → Bool
  | .spec b c => specOK b c
  | _ => true

/-- the format belongs to the grammar the check exercises -/
def inGrammar (conv : Str) (fmt : Str) : Bool :=
  match parseFmt conv fmt with
  | none => false
  | some segs => segs.all Seg.printfOK

/-! ## what libc is entitled to: the vararg contract of ONE `v*printf` call

`print_to_with` passes exactly ONE vararg per specification (`c_int(a)`: an `int64_t`, `c_float(a)`: a `double`, `c_str(a)`: a `char*`,
the object pointer).  The trusted parameter `Libc` (a FUNCTION of the fragment and that one value) describes a real C library only on calls
whose fragment makes libc read exactly one vararg of that class: the printf grammar `specOK` (flags, width, precision, the length modifiers of
`lensFor`).  Outside it — `%*d` and `%.*f` (libc reads TWO varargs: the width comes from the one that was passed, the value from whatever the
next register / stack slot holds), `%Lf` (a `long double` where a `double` was passed), `%ls` — the text is not a function of the arguments
of `print_to` at all: known finding KF-C14-star-width. -/

/-- the class of C value conversion `c` makes libc read -/
def valFits (c : Char) : PVal → Bool
  | .i64 _ => c ∈ intConvs || c = 'c'
  | .dbl _ => c ∈ fltConvs
  | .cstr _ => c = 's'
  | .ptr => c = 'p'
  | .none => false

/-- the call is inside libc's contract: a fragment without a vararg (a literal run free of `%`, or `%%`), or ONE specification of the
    printf grammar with the one vararg of the class it reads -/
def Call.inContract (c : Call) : Bool :=
  match c.val with
  | .none => c.frag = ['%', '%'] || c.frag.all (· ≠ '%')
  | v =>
    match c.frag with
    | '%' :: r =>
      match r.getLast? with
      | some conv => specOK r.dropLast conv && valFits conv v
      | none => false
    | _ => false

/-! ## what is outside the statements: the String's C value when the start position lies beyond its end, and `fmt_buf` on the throw paths -/

/-- the C string a heap String holds after `String_Format_To(s, start, …)` wrote `t`: `realloc` keeps the bytes `[0, strlen]` including the
    terminator; when `start > strlen` the text lands behind it (the bytes in between are indeterminate) and `c_str(s)` is still the old value —
    known finding KF-C14-start-beyond-end (the statements about a String sink carry `start ≤ length`) -/
def cValueAfter (v : Str) (start : Nat) (t : Str) : Str := if start ≤ v.length then v.take start ++ t else v

/-- bytes of `fmt_buf` (`malloc(strlen(fmt)+1)` at the top of `print_to_with`) still allocated when the call is over: `free(fmt_buf)` stands
    only before `return pos;` — every `throw` (and every exception out of `c_int` / `c_float` / `c_str` / `show_to` / `format_to`) leaves by
    `longjmp` without it: known finding KF-C14-fmtbuf-leak -/
def Result.leaked (r : Result) (fmt : Str) : Nat := if r.oc = .ok then 0 else fmt.length + 1

end Cello.Fmt
