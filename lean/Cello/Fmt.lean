/-
  Cello/Fmt.lean — executable model of Cello's formatted output (src/Show.c `print_to_with`, `format_to`, `show_to`;
  src/String.c `String_Format_To`, `String_Show`; src/File.c `File_Format_To`; src/Num.c `Int_Show`, `Float_Show`;
  `Array_Show`, `Tuple_Show`, `List_Show`), and the grammar / reference semantics it is proved against
  (CelloProofs/Props/C14.lean).  Core Lean only.

  Mirrors (src/Show.c):
      char* fmt_buf = malloc(strlen(fmt)+1);  size_t index = 0;
      while (true) {
        if (*fmt is '\0') { break; }
        const char* start = fmt;
        while (*fmt isnt '\0' and *fmt isnt '%') { fmt++; }                          -- `scanLit`
        if (start isnt fmt) { memcpy(fmt_buf, start, fmt-start); fmt_buf[fmt-start] = '\0';
                              off = format_to(out, pos, fmt_buf); pos += off; continue; }
        if (*fmt is '%' && *(fmt+1) is '%') { off = format_to(out, pos, "%%"); pos += off; fmt += 2; continue; }
        while (not strchr("diuoxX…$", *fmt)) { fmt++; }                               -- `scanConv`
        if (start isnt fmt) { memcpy(fmt_buf, start, fmt-start+1); fmt_buf[fmt-start+1] = '\0';
                              if (index >= len(args)) throw(FormatError, …);
                              var a = get(args, $I(index)); index++;
                              if (*fmt is '$') …  if (*fmt is 's') …  if (strchr("diouxX", *fmt)) …   -- `dispatch`
                              fmt++; continue; }
        throw(FormatError, "Invalid Format String!");
      }
  The C string is the array `fmt ++ [NUL]`; `fmt` (the pointer) is an index into it; every read goes through `rd`
  (index > length = outside the array → outcome `oob`); `fmt_buf` has `length+1` bytes, every write index is checked
  against that.  The high-water marks of both are kept in `Marks`.
  What libc does for one `format_to` call is the parameter `prim` (trusted: vsnprintf / vsprintf / vfprintf).
-/
namespace Cello.Fmt

abbrev Str := List Char

/-- the string terminator -/
abbrev NUL : Char := '\x00'

/-! ## values, calls, sinks -/

/-- what travels through the C varargs of one `format_to` call -/
inductive PVal where
  | none                 -- no argument (literal run, `%%`)
  | cstr (s : Str)       -- `c_str(a)`
  | i64 (v : Int)        -- `c_int(a)` (an `int64_t`)
  | dbl (bits : Nat)     -- `c_float(a)` (a `double`, by its bit pattern)
  | ptr                  -- the object pointer itself
deriving DecidableEq, Repr, Inhabited

/-- one primitive call `format_to(out, pos, frag, val)` -/
structure Call where
  frag : Str
  val : PVal
deriving DecidableEq, Repr, Inhabited

inductive Exc where
  | FormatError
  | ClassError      -- `c_int` / `c_float` / `c_str` on an object whose type lacks the class
  | Fuel            -- model artefact: `showD` ran out of recursion fuel (never with fuel > depth of the object)
deriving DecidableEq, Repr, Inhabited

inductive Outcome where
  | ok
  | raised (e : Exc)
  | oob             -- a read outside `fmt ++ [NUL]` or a write outside `fmt_buf` (undefined behaviour in C)
deriving DecidableEq, Repr, Inhabited

/-- Cello objects that can be printed -/
inductive Obj where
  | int (v : Int)
  | flt (bits : Nat)
  | str (s : Str)
  | array (items : List Obj)
  | tuple (items : List Obj)
  | list (items : List Obj)
deriving Repr, Inhabited

/-- the destination: a heap `String` (its bytes) or a `File` (its content; written at the current offset = end) -/
inductive Sink where
  | str (val : Str)
  | file (content : Str)
deriving DecidableEq, Repr, Inhabited

/-- `String_Format_To`: `realloc(val, pos+size+1); vsprintf(val+pos, …)` — everything from `pos` on is replaced;
    `File_Format_To`: `vfprintf(file, …)` — `pos` is ignored, the text goes to the current offset.
    (String sink with `pos > strlen`: the bytes between are indeterminate in C; the theorems assume `pos ≤ length`.) -/
def Sink.write : Sink → Nat → Str → Sink
  | .str v, pos, t => .str (v.take pos ++ t)
  | .file c, _, t => .file (c ++ t)

/-- destination, current position, and the log of primitive calls made so far (ghost) -/
structure Out where
  sink : Sink
  pos : Nat
  calls : List Call
deriving DecidableEq, Repr, Inhabited

/-- `int off = format_to(out, pos, frag, val); pos += off;` -/
def Out.formatTo (prim : Str → PVal → Str) (o : Out) (frag : Str) (v : PVal) : Out :=
  let txt := prim frag v
  { sink := o.sink.write o.pos txt, pos := o.pos + txt.length, calls := o.calls ++ [⟨frag, v⟩] }

/-- a list of primitive calls applied in order -/
def emitAll (prim : Str → PVal → Str) (o : Out) (cs : List Call) : Out :=
  cs.foldl (fun o c => o.formatTo prim c.frag c.val) o

/-- the text libc produces for a list of primitive calls -/
def textOf (prim : Str → PVal → Str) (cs : List Call) : Str :=
  (cs.map fun c => prim c.frag c.val).flatten

/-! ## configuration read from the source (CelloGen/Fmt.lean) -/

inductive Kind where
  | show | cstr | cint | cfloat | obj
deriving DecidableEq, Repr, Inhabited

/-- one `if` of the specification branch: `*fmt is 'c'` or `strchr("…", *fmt)` -/
inductive Matcher where
  | is (c : Char)
  | inSet (s : Str)
deriving DecidableEq, Repr, Inhabited

/-- `strchr(set, c) != NULL` — the terminator is found too -/
def strchrHit (set : Str) (c : Char) : Bool := decide (c = NUL ∨ c ∈ set)

def Matcher.hit : Matcher → Char → Bool
  | .is c, x => decide (x = c)
  | .inSet s, x => strchrHit s x

structure Cfg where
  conv : Str
  disp : List (Matcher × Kind)
deriving Repr, Inhabited

def Kind.ofCode : Nat → Kind
  | 0 => .show | 1 => .cstr | 2 => .cint | 3 => .cfloat | _ => .obj

def Cfg.ofGen (conv : Str) (disp : List (Bool × List Char × Nat)) : Cfg :=
  { conv := conv
    disp := disp.map fun (s, cs, k) => ((if s then Matcher.inSet cs else Matcher.is (cs.headD NUL)), Kind.ofCode k) }

/-! ## memory accesses -/

/-- the C array behind `const char* fmt` -/
def mem (fmt : Str) : Str := fmt ++ [NUL]

/-- `fmt[i]`; `none` = outside the array -/
def rd (fmt : Str) (i : Nat) : Option Char := (mem fmt)[i]?

/-- the bytes `memcpy(fmt_buf, fmt + s, n)` moves; `none` when it would read outside the array -/
def slice (fmt : Str) (s n : Nat) : Option Str :=
  if s + n ≤ fmt.length + 1 then some (((mem fmt).drop s).take n) else none

/-- what `format_to` sees in `fmt_buf`: the bytes up to the first NUL -/
def cstrOf (buf : Str) : Str := buf.takeWhile (· ≠ NUL)

/-- high-water marks: largest index read in the format array, largest index written in `fmt_buf` -/
structure Marks where
  rdMax : Nat
  wrMax : Nat
deriving DecidableEq, Repr, Inhabited

def Marks.read (m : Marks) (i : Nat) : Marks := { m with rdMax := max m.rdMax i }
def Marks.write (m : Marks) (i : Nat) : Marks := { m with wrMax := max m.wrMax i }

/-- `while (*fmt isnt '\0' and *fmt isnt '%') { fmt++; }` from index `i`; `none` = left the array (or fuel) -/
def scanLit (fmt : Str) : Nat → Nat → Option Nat
  | 0, _ => none
  | fuel+1, i =>
    match rd fmt i with
    | none => none
    | some c => if c ≠ NUL ∧ c ≠ '%' then scanLit fmt fuel (i+1) else some i

/-- `while (not strchr(conv, *fmt)) { fmt++; }` from index `i` -/
def scanConv (conv : Str) (fmt : Str) : Nat → Nat → Option Nat
  | 0, _ => none
  | fuel+1, i =>
    match rd fmt i with
    | none => none
    | some c => if strchrHit conv c then some i else scanConv conv fmt fuel (i+1)

/-! ## conversions of the argument -/

def cStr : Obj → Except Exc Str
  | .str s => .ok s
  | _ => .error .ClassError

def cInt : Obj → Except Exc Int
  | .int v => .ok v
  | _ => .error .ClassError

def cFloat : Obj → Except Exc Nat
  | .flt b => .ok b
  | _ => .error .ClassError

section machine
variable (cfg : Cfg) (prim : Str → PVal → Str) (shw : Obj → Out → Out × Outcome)

/-- the body of one dispatch `if` -/
def action (k : Kind) (buf : Str) (a : Obj) (o : Out) : Out × Outcome :=
  match k with
  | .show => shw a o                                         -- pos = show_to(a, out, pos)
  | .cstr => match cStr a with
    | .ok s => (o.formatTo prim buf (.cstr s), .ok)
    | .error e => (o, .raised e)
  | .cint => match cInt a with
    | .ok v => (o.formatTo prim buf (.i64 v), .ok)
    | .error e => (o, .raised e)
  | .cfloat => match cFloat a with
    | .ok b => (o.formatTo prim buf (.dbl b), .ok)
    | .error e => (o, .raised e)
  | .obj => (o.formatTo prim buf .ptr, .ok)

/-- the sequence of `if`s: every one whose test matches runs, in source order -/
def dispatch : List (Matcher × Kind) → Char → Str → Obj → Out → Out × Outcome
  | [], _, _, _, o => (o, .ok)
  | (m, k) :: r, c, buf, a, o =>
    if m.hit c then
      match action prim shw k buf a o with
      | (o', .ok) => dispatch r c buf a o'
      | bad => bad
    else dispatch r c buf a o

structure Result where
  out : Out
  oc : Outcome
  marks : Marks
deriving DecidableEq, Repr, Inhabited

/-- the `while (true)` loop of `print_to_with`; `i` = the pointer `fmt` as an index, `index` = next argument -/
def loop (fmt : Str) (args : List Obj) : Nat → Nat → Nat → Out → Marks → Result
  | 0, _, _, o, mk => ⟨o, .oob, mk⟩
  | fuel+1, i, index, o, mk =>
    let L := fmt.length
    -- if (*fmt is '\0') { break; }
    match rd fmt i with
    | none => ⟨o, .oob, mk.read i⟩
    | some c0 =>
    let mk := mk.read i
    if c0 = NUL then ⟨o, .ok, mk⟩ else
    -- const char* start = fmt;  while (*fmt isnt '\0' and *fmt isnt '%') { fmt++; }
    match scanLit fmt (L + 2) i with
    | none => ⟨o, .oob, mk.read (L + 1)⟩
    | some j =>
    let mk := mk.read j
    if i ≠ j then
      -- memcpy(fmt_buf, start, fmt - start); fmt_buf[fmt - start] = '\0';
      match slice fmt i (j - i) with
      | none => ⟨o, .oob, mk.read (L + 1)⟩
      | some buf =>
      let mk := mk.write (j - i)
      if j - i > L then ⟨o, .oob, mk⟩ else
      -- int off = format_to(out, pos, fmt_buf); pos += off; continue;
      loop fmt args fuel j index (o.formatTo prim (cstrOf buf) .none) mk
    else
    -- if (*fmt is '%' && *(fmt+1) is '%')
    match (if c0 = '%' then rd fmt (i + 1) else some NUL) with
    | none => ⟨o, .oob, mk.read (i + 1)⟩
    | some c1 =>
    let mk := if c0 = '%' then mk.read (i + 1) else mk
    if c0 = '%' ∧ c1 = '%' then
      -- off = format_to(out, pos, "%%"); pos += off; fmt += 2; continue;
      loop fmt args fuel (i + 2) index (o.formatTo prim ['%', '%'] .none) mk
    else
    -- while (not strchr("diuoxX…$", *fmt)) { fmt++; }
    match scanConv cfg.conv fmt (L + 2) i with
    | none => ⟨o, .oob, mk.read (L + 1)⟩
    | some j =>
    let mk := mk.read j
    if i ≠ j then
      -- memcpy(fmt_buf, start, fmt - start + 1); fmt_buf[fmt - start + 1] = '\0';
      match slice fmt i (j - i + 1) with
      | none => ⟨o, .oob, mk.read (L + 1)⟩
      | some buf =>
      let mk := mk.write (j - i + 1)
      if j - i + 1 > L then ⟨o, .oob, mk⟩ else
      -- if (index >= len(args)) throw(FormatError, …);  var a = get(args, $I(index)); index++;
      match args[index]? with
      | none => ⟨o, .raised .FormatError, mk⟩
      | some a =>
      match rd fmt j with
      | none => ⟨o, .oob, mk⟩
      | some c =>
      match dispatch prim shw cfg.disp c (cstrOf buf) a o with
      | (o', .ok) => loop fmt args fuel (j + 1) (index + 1) o' mk     -- fmt++; continue;
      | (o', bad) => ⟨o', bad, mk⟩
    else ⟨o, .raised .FormatError, mk⟩     -- "Invalid Format String!"

/-- `print_to_with(out, pos, fmt, args)` -/
def printToWith (fmt : Str) (args : List Obj) (o : Out) : Result :=
  loop cfg prim shw fmt args (fmt.length + 1) 0 0 o ⟨0, 0⟩

end machine

/-! ## the built-in Show instances -/

/-- formats the built-in `show` functions pass to `print_to` (read from the source by the translator) -/
structure ShowCfg where
  intFmt : Str
  fltFmt : Str
  strOpen : Str
  strClose : Str
  strDefault : Str
  strEsc : List (Char × Str)
  arrOpen : Str
  arrSep : Str
  arrClose : Str
  tupOpen : Str
  tupSep : Str
  tupClose : Str
  lstOpen : Str
  lstSep : Str
  lstClose : Str
deriving Repr, Inhabited

/-- `$I(*v)` for a `char` (signed on the platforms Cello targets) -/
def signedChar (c : Char) : Int := if c.toNat ≥ 128 then (c.toNat : Int) - 256 else c.toNat

/-- run `f`, then `g` unless `f` raised -/
def andThen (f g : Out → Out × Outcome) (o : Out) : Out × Outcome :=
  match f o with
  | (o', .ok) => g o'
  | bad => bad

def Result.pair (r : Result) : Out × Outcome := (r.out, r.oc)

section shows
variable (cfg : Cfg) (prim : Str → PVal → Str) (sc : ShowCfg)

/-- `for each item: print_to(out, pos, "%$", item); if (not last) print_to(out, pos, sep)` -/
def showItems (shw : Obj → Out → Out × Outcome) (sep : Str) : List Obj → Out → Out × Outcome
  | [], o => (o, .ok)
  | [a], o => (printToWith cfg prim shw ['%', '$'] [a] o).pair
  | a :: b :: r, o =>
    andThen (fun o => (printToWith cfg prim shw ['%', '$'] [a] o).pair)
      (andThen (fun o => (printToWith cfg prim shw sep [] o).pair) (showItems shw sep (b :: r))) o

/-- the `while (*v) { switch (*v) … }` loop of `String_Show` -/
def showChars (shw : Obj → Out → Out × Outcome) : Str → Out → Out × Outcome
  | [], o => (o, .ok)
  | c :: r, o =>
    andThen (fun o => match sc.strEsc.lookup c with
        | some e => (printToWith cfg prim shw e [] o).pair
        | none => (printToWith cfg prim shw sc.strDefault [.int (signedChar c)] o).pair)
      (showChars shw r) o

/-- `show_to(a, out, pos)` for the built-in types; `d` bounds the C recursion depth -/
def showD : Nat → Obj → Out → Out × Outcome
  | 0, _, o => (o, .raised .Fuel)
  | d+1, a, o =>
    let shw := fun x o => showD d x o
    let P := fun (f : Str) (args : List Obj) (o : Out) => (printToWith cfg prim shw f args o).pair
    match a with
    | .int _ => P sc.intFmt [a] o
    | .flt _ => P sc.fltFmt [a] o
    | .str s => andThen (P sc.strOpen [a]) (andThen (showChars cfg prim sc shw s) (P sc.strClose [a])) o
    | .array items => andThen (P sc.arrOpen [a]) (andThen (showItems cfg prim shw sc.arrSep items) (P sc.arrClose [])) o
    | .tuple items => andThen (P sc.tupOpen [a]) (andThen (showItems cfg prim shw sc.tupSep items) (P sc.tupClose [])) o
    | .list items => andThen (P sc.lstOpen [a]) (andThen (showItems cfg prim shw sc.lstSep items) (P sc.lstClose [])) o

/-- `print_to_with` with the built-in Show instances (`d` = recursion fuel for nested containers) -/
def printTo (d : Nat) (fmt : Str) (args : List Obj) (o : Out) : Result :=
  printToWith cfg prim (showD cfg prim sc d) fmt args o

end shows

/-! ## the grammar and its reference semantics -/

/-- segments of a format string -/
inductive Seg where
  | lit (s : Str)                       -- maximal run of ordinary characters
  | pct                                 -- `%%`
  | spec (body : Str) (conv : Char)     -- `%` body conv
deriving DecidableEq, Repr, Inhabited

def Seg.text : Seg → Str
  | .lit s => s
  | .pct => ['%', '%']
  | .spec b c => '%' :: (b ++ [c])

def render (segs : List Seg) : Str := (segs.map Seg.text).flatten

def Seg.isLit : Seg → Bool
  | .lit _ => true
  | _ => false

/-- well-formed segment: a literal is non-empty and has no `%`/NUL; a specification's body has no conversion character
    and no NUL, does not start with `%` (that would be `%%`), and ends in a conversion character -/
def Seg.wf (conv : Str) : Seg → Bool
  | .lit s => !s.isEmpty && s.all fun c => c ≠ NUL && c ≠ '%'
  | .pct => true
  | .spec b c => decide (c ∈ conv) && c ≠ NUL && (b.all fun x => decide (x ∉ conv) && x ≠ NUL) && b.head? ≠ some '%'

/-- a well-formed segmentation: every segment well-formed, literals maximal (no two adjacent) -/
def wfSegs (conv : Str) : List Seg → Bool
  | [] => true
  | [s] => s.wf conv
  | s :: t :: r => s.wf conv && !(s.isLit && t.isLit) && wfSegs conv (t :: r)

/-- number of argument-consuming specifications -/
def nspecs : List Seg → Nat
  | [] => 0
  | .spec _ _ :: r => nspecs r + 1
  | _ :: r => nspecs r

section reference
variable (cfg : Cfg) (prim : Str → PVal → Str) (shw : Obj → Out → Out × Outcome)

/-- reference semantics: one segment at a time, the k-th specification takes the k-th argument -/
def refRun (args : List Obj) : List Seg → Nat → Out → Out × Outcome
  | [], _, o => (o, .ok)
  | .lit s :: r, k, o => refRun args r k (o.formatTo prim s .none)
  | .pct :: r, k, o => refRun args r k (o.formatTo prim ['%', '%'] .none)
  | .spec b c :: r, k, o =>
    match args[k]? with
    | none => (o, .raised .FormatError)
    | some a =>
      match dispatch prim shw cfg.disp c ('%' :: (b ++ [c])) a o with
      | (o', .ok) => refRun args r (k + 1) o'
      | bad => bad

end reference

/-! ## parsing (decidable well-formedness) -/

/-- neither the terminator nor `%` -/
def ordinary (x : Char) : Bool := x ≠ NUL && x ≠ '%'

/-- split a format into segments the way the grammar reads it (independently of the scanner: `takeWhile`/`dropWhile`);
    `none` = not well-formed (a `%` that no conversion character follows, or a NUL inside) -/
def parse (conv : Str) : Nat → Str → Option (List Seg)
  | 0, _ => none
  | _+1, [] => some []
  | fuel+1, c :: r =>
    if c = '%' then
      if r.head? = some '%' then (parse conv fuel r.tail).map (Seg.pct :: ·)
      else
        match r.dropWhile (fun x => !strchrHit conv x) with
        | [] => none
        | d :: r' =>
          if d = NUL then none
          else (parse conv fuel r').map (Seg.spec (r.takeWhile fun x => !strchrHit conv x) d :: ·)
    else if c = NUL then none
    else (parse conv fuel ((c :: r).dropWhile ordinary)).map (Seg.lit ((c :: r).takeWhile ordinary) :: ·)

def parseFmt (conv : Str) (fmt : Str) : Option (List Seg) := parse conv (fmt.length + 1) fmt

/-! ## the printf grammar of property C14: flags, width, precision, length modifier, conversion -/

def flagChars : Str := ['-', '+', ' ', '#', '0']
def digitChars : Str := ['0', '1', '2', '3', '4', '5', '6', '7', '8', '9']
def intConvs : Str := ['d', 'i', 'u', 'o', 'x', 'X']
def fltConvs : Str := ['f', 'F', 'e', 'E', 'g', 'G', 'a', 'A']
def intLens : List Str := [[], ['h', 'h'], ['h'], ['l'], ['l', 'l'], ['j'], ['z'], ['t']]
def fltLens : List Str := [[], ['l']]

/-- length modifiers whose C argument type is what `print_to_with` passes (an `int64_t`, a `double`, a `char*`,
    a pointer): not `L`, not `l` with `c`/`s` -/
def lensFor (c : Char) : List Str :=
  if c ∈ intConvs then intLens else if c ∈ fltConvs then fltLens else if c ∈ ['c', 's', 'p', '$'] then [[]] else []

/-- `body` = flags* digits* ('.' digits*)? lenmod -/
def specOK (body : Str) (c : Char) : Bool :=
  let r := (body.dropWhile (· ∈ flagChars)).dropWhile (· ∈ digitChars)
  let r := match r with
    | '.' :: r' => r'.dropWhile (· ∈ digitChars)
    | _ => r
  decide (r ∈ lensFor c)

def Seg.printfOK : Seg → Bool
  | .spec b c => specOK b c
  | _ => true

/-- the format belongs to the grammar the check exercises -/
def inGrammar (conv : Str) (fmt : Str) : Bool :=
  match parseFmt conv fmt with
  | none => false
  | some segs => segs.all Seg.printfOK

end Cello.Fmt
