/-
  Cello/Own.lean — ownership-level model of Cello's containers (engine `own`, property C05).

  Every container operation of src/Array.c, src/List.c, src/Table.c, src/Tree.c and of `Box` (src/Pointer.c) is
  described by what it does to element *ownership*:

    contents   the tokens the container holds afterwards (sequence for Array/List, key/value pairs for Table/Tree)
    issued     elements constructed during the operation: `assign` into zero-filled memory
               (Array_Alloc / List_Alloc / Tree_Alloc / the swap space of Table_Set_Move followed by `assign`)
    retired    elements passed to `destruct`
    updated    elements assigned *in place* (Array_Set, List_Set, Tree_Set on an existing key: the element's own
               `Assign` runs on a live element — nothing is constructed, nothing is finalised)

  A token is `(id, pay)`: `id` is the identity of one constructed element (fresh, never reused; `0` = zero-filled
  memory that was never constructed — only `List_Resize` produces it), `pay` the payload the probe element carries.
  Byte-wise moves (memmove/realloc in Array, re-linking in List, Table_Rehash with `move = true`, robin-hood
  displacement through the swap spaces, Tree rotations and the predecessor copy of Tree_Rem, `swap` in the sort)
  carry a token with the bytes: they appear here as list surgery that neither issues nor retires.  For Table and Tree
  this is not an assumption: Cello/OwnConc.lean runs the same operations on the slot-array model of Cello/Table.lean and
  the red-black model of Cello/RBTree.lean, and CelloProofs/Lemmas/OwnCompose.lean proves that those compute exactly the
  steps `tableSet / treeSet / mapRem / mapResize / mapSetMany / mapAssign` below on the pairs they store.

  The model mirrors the code that exists, including two paths that break the property (kept as known findings,
  see CelloProofs/Props/C05.lean `…_refuted`):
    * Box_Assign copies the pointer: a container of Box is copied shallowly (both copies hold the same token),
      and `set` on a Box element drops the old pointee without finalising it;
    * List_Resize(n > len) links zero-filled elements that were never constructed;
    * Array_Assign from a source whose `get(obj, $I(i))` raises (a Table / Tree) has set `nitems = len(obj)` before any
      element exists and leaves it so.
  (A third one — List_Push_At constructed the new element before it validated the index and leaked it on
  IndexOutOfBoundsError — was repaired in /repo by 4077d96; the model follows the repaired order.)

  Calls with an argument of the WRONG TYPE (`Wrong`: an Int, a String, a Float, a Type object, NULL where a probe element
  / key / value is expected) are operations of their own (`Op.typed`, section "Type-refused calls"): the type check is
  the `cast` at the top of Table_Set_Move / Tree_Set / Table_Rem / Tree_Rem — before anything is allocated — and, for
  Array and List, the stored element's own `Assign` / `Cmp`, which runs AFTER the container made room.  Where the check
  comes first the refused call is inert; where it comes late the model mirrors what the code leaves behind (Array_Push,
  Array_Push_At, Array_Concat, Array_New: zero-filled / uninitialised records counted by `len` — the territory of
  KF-C12-array-push-type and own-array-new-partial; List_Concat: the elements before the wrong one stay).

  Core Lean only (the driver links against this file).
-/
namespace Cello.Own

/-- one element: identity and payload. `id = 0` is zero-filled, never constructed memory. -/
structure Tok where
  id : Nat
  pay : Nat
deriving DecidableEq, Repr, Inhabited

/-- what `calloc`/`memset 0` leaves behind -/
def Tok.raw : Tok := ⟨0, 0⟩

/-- element type of a sequence: the probe (own New/Assign/Del, deep) or `Box` (Assign copies the pointer) -/
inductive ElemKind where
  | probe | box
deriving DecidableEq, Repr, Inhabited

inductive SeqKind where
  | array | list
deriving DecidableEq, Repr, Inhabited

inductive MapKind where
  | table | tree
deriving DecidableEq, Repr, Inhabited

inductive Exc where
  | indexOutOfBounds | valueError | keyError | formatError | classError
deriving DecidableEq, Repr, Inhabited

def Exc.name : Exc → String
  | .indexOutOfBounds => "IndexOutOfBoundsError"
  | .valueError => "ValueError"
  | .keyError => "KeyError"
  | .formatError => "FormatError"
  | .classError => "ClassError"

inductive Outcome where
  | ok
  | raised (e : Exc)
deriving DecidableEq, Repr, Inhabited

def Outcome.name : Outcome → String
  | .ok => "ok"
  | .raised e => e.name

/-- result of one container operation: new contents and the ownership events, in the order the C code produces them.
    The identities handed out are `next, next+1, …` in construction order, so `next' = next + issued.length`. -/
structure Res (α : Type) where
  val : α
  issued : List Tok := []
  retired : List Tok := []
  updated : List Tok := []
  out : Outcome := .ok
deriving Repr

/-- an argument object that is not of the type the container expects: `$I(..)`, `$S(..)`, `$F(..)`, a Type object
    (`Int`), `NULL`.  Every one of them makes `cast(obj, T)` raise ValueError (`type_of(NULL)` raises ValueError itself),
    and so does the probe element's own `Assign` / `Cmp`, which casts its argument. -/
inductive Wrong where
  | int | str | float | type | null
deriving DecidableEq, Repr, Inhabited

/-- an argument of a call: a probe object with payload `p`, or a wrong-typed object -/
inductive Arg where
  | pay (p : Nat)
  | wrong (w : Wrong)
deriving DecidableEq, Repr, Inhabited

/-- a refused call that did nothing to the contents -/
def refused {α : Type} (x : α) (e : Exc) : Res α := { val := x, out := .raised e }

/-- the payloads of the well-typed arguments before the first wrong-typed one, and — when there is one — the number of
    arguments that follow it -/
def goodPrefix : List Arg → List Nat × Option Nat
  | [] => ([], none)
  | .pay p :: r => (p :: (goodPrefix r).1, (goodPrefix r).2)
  | .wrong _ :: r => ([], some r.length)

def allGood (args : List Arg) : Bool := (goodPrefix args).2.isNone

/-- the same for constructor pairs: the pairs before the first pair with a wrong-typed key or value -/
def goodPairs : List (Arg × Arg) → List (Nat × Nat) × Bool
  | [] => ([], true)
  | (.pay k, .pay v) :: r => ((k, v) :: (goodPairs r).1, (goodPairs r).2)
  | _ :: _ => ([], false)

/-- `n` constructions in a row: `Array_Alloc(a, i); assign(Array_Item(a, i), src_i)` for the payloads `src` -/
def mkFresh : Nat → List Nat → List Tok
  | _, [] => []
  | n, p :: ps => ⟨n, p⟩ :: mkFresh (n + 1) ps

/-- `assign(dst, src)` for the probe type: constructs when `dst` is zero-filled, otherwise the live element is
    updated in place (it keeps its identity). -/
def assignProbe (next : Nat) (dst : Tok) (pay : Nat) : Res Tok :=
  if dst.id = 0 then { val := ⟨next, pay⟩, issued := [⟨next, pay⟩] }
  else { val := ⟨dst.id, pay⟩, updated := [⟨dst.id, pay⟩] }

/-- remove the first element satisfying `p` (the linear `eq` scans of Array_Rem / List_Rem; key lookup in maps) -/
def takeFirst {α : Type} (p : α → Bool) : List α → Option (α × List α)
  | [] => none
  | x :: xs => if p x then some (x, xs) else
      match takeFirst p xs with
      | some (y, r) => some (y, x :: r)
      | none => none

/-! ## Sequences (Array.c, List.c) -/

/-- Array_Push / List_Push (also `append`): zero-filled slot, then `assign`. -/
def seqPush (next : Nat) (xs : List Tok) (p : Nat) : Res (List Tok) :=
  { val := xs ++ [⟨next, p⟩], issued := [⟨next, p⟩] }

/-- Array_Push_At: index normalised against `nitems+1`, bounds check *first* (after fix 1929a3d), then memmove and
    construct. -/
def arrayPushAt (next : Nat) (xs : List Tok) (i : Int) (p : Nat) : Res (List Tok) :=
  let n : Int := xs.length
  let j : Int := if i < 0 then (n + 1) + i else i
  if j < 0 ∨ j > n then { val := xs, out := .raised .indexOutOfBounds }
  else { val := xs.insertIdx j.toNat ⟨next, p⟩, issued := [⟨next, p⟩] }

/-- Array_Push_At / List_Push_At with a Box argument whose pointee is `t`: same index rules, the stored Box takes over the
    pointer (Box_Assign into zero-filled memory) -/
def arrayPushAtTok (xs : List Tok) (i : Int) (t : Tok) : Res (List Tok) :=
  let n : Int := xs.length
  let j : Int := if i < 0 then (n + 1) + i else i
  if j < 0 ∨ j > n then { val := xs, out := .raised .indexOutOfBounds }
  else { val := xs.insertIdx j.toNat t }

def listPushAtTok (xs : List Tok) (i : Int) (t : Tok) : Res (List Tok) :=
  if i = 0 then { val := t :: xs }
  else
    let n : Int := xs.length
    let j : Int := if i < 0 then n + i else i
    if j < 0 ∨ j ≥ n then { val := xs, out := .raised .indexOutOfBounds }
    else { val := xs.insertIdx j.toNat t }

/-- List_Push_At (after fix 4077d96): the index is validated first — 0 links at the head, any other index goes through
    `List_At` (normalised against `nitems`, so the end position is not reachable) which raises before anything is
    allocated; then `List_Alloc` + `assign` + `List_Link`. -/
def listPushAt (next : Nat) (xs : List Tok) (i : Int) (p : Nat) : Res (List Tok) :=
  let t : Tok := ⟨next, p⟩
  if i = 0 then { val := t :: xs, issued := [t] }
  else
    let n : Int := xs.length
    let j : Int := if i < 0 then n + i else i
    if j < 0 ∨ j ≥ n then { val := xs, out := .raised .indexOutOfBounds }
    else { val := xs.insertIdx j.toNat t, issued := [t] }

/-- Array_Pop / List_Pop -/
def seqPop (xs : List Tok) : Res (List Tok) :=
  match xs.getLast? with
  | none => { val := xs, out := .raised .indexOutOfBounds }
  | some t => { val := xs.dropLast, retired := [t] }

/-- Array_Pop_At / List_Pop_At (List_At): index normalised against `nitems`, bounds check, destruct, close the gap -/
def seqPopAt (xs : List Tok) (i : Int) : Res (List Tok) :=
  let n : Int := xs.length
  let j : Int := if i < 0 then n + i else i
  if j < 0 ∨ j ≥ n then { val := xs, out := .raised .indexOutOfBounds }
  else
    match xs[j.toNat]? with
    | none => { val := xs, out := .raised .indexOutOfBounds }
    | some t => { val := xs.eraseIdx j.toNat, retired := [t] }

/-- Array_Set / List_Set with probe elements: `assign` onto the existing element -/
def seqSetProbe (next : Nat) (xs : List Tok) (i : Int) (p : Nat) : Res (List Tok) :=
  let n : Int := xs.length
  let j : Int := if i < 0 then n + i else i
  if j < 0 ∨ j ≥ n then { val := xs, out := .raised .indexOutOfBounds }
  else
    match xs[j.toNat]? with
    | none => { val := xs, out := .raised .indexOutOfBounds }
    | some old =>
      let r := assignProbe next old p
      { val := xs.set j.toNat r.val, issued := r.issued, updated := r.updated }

/-- Array_Set with Box elements: Box_Assign overwrites the pointer with the argument's pointee `t`; the old pointee
    is not deleted (known finding). -/
def seqSetBox (xs : List Tok) (i : Int) (t : Tok) : Res (List Tok) :=
  let n : Int := xs.length
  let j : Int := if i < 0 then n + i else i
  if j < 0 ∨ j ≥ n then { val := xs, out := .raised .indexOutOfBounds }
  else { val := xs.set j.toNat t }

/-- Array_Rem / List_Rem: first element `eq` to the argument (the probe compares payloads; zero-filled memory has
    payload 0), else ValueError -/
def seqRem (xs : List Tok) (p : Nat) : Res (List Tok) :=
  match takeFirst (fun t => t.pay == p) xs with
  | none => { val := xs, out := .raised .valueError }
  | some (t, rest) => { val := rest, retired := [t] }

/-- Array_Clear / List_Clear: every element destructed front to back -/
def seqClear (xs : List Tok) : Res (List Tok) := { val := [], retired := xs }

/-- Array_Resize: 0 = clear; shrinking destructs from the back; growing only reserves capacity -/
def arrayResize (xs : List Tok) (n : Nat) : Res (List Tok) :=
  if n = 0 then seqClear xs
  else { val := xs.take n, retired := (xs.drop n).reverse }

/-- List_Resize: 0 = clear; shrinking destructs from the back; growing links `List_Alloc`ed, never assigned elements -/
def listResize (xs : List Tok) (n : Nat) : Res (List Tok) :=
  if n = 0 then seqClear xs
  else if n ≤ xs.length then { val := xs.take n, retired := (xs.drop n).reverse }
  else { val := xs ++ List.replicate (n - xs.length) Tok.raw }

/-- Array_Concat / List_Concat with probe elements: one construction per source element, in iteration order -/
def seqConcatProbe (next : Nat) (xs : List Tok) (src : List Tok) : Res (List Tok) :=
  let new := mkFresh next (src.map (·.pay))
  { val := xs ++ new, issued := new }

/-- …with Box elements: Box_Assign copies each pointer -/
def seqConcatBox (xs : List Tok) (src : List Tok) : Res (List Tok) := { val := xs ++ src }

/-- Array_Assign / List_Assign (and `copy` = assign into a zero-filled container) from a sequence of probe elements
    held by *another* container: clear, then one construction per source element.  (`assign(x, x)` returns before the
    clear since fix a3140e4, see `step`.) -/
def seqAssignProbe (next : Nat) (xs : List Tok) (src : List Tok) : Res (List Tok) :=
  let new := mkFresh next (src.map (·.pay))
  { val := new, issued := new, retired := xs }

def seqAssignBox (xs : List Tok) (src : List Tok) : Res (List Tok) := { val := src, retired := xs }

/-- Array_Assign / List_Assign from a Table or Tree holding `n` pairs.  Both clear first.  An empty source then leaves the
    empty sequence.  Otherwise `get(obj, $I(0))` raises (ValueError: an Int is not a key of the map): List_Assign has
    pushed nothing yet; **Array_Assign has already set `nitems = len(obj)` and `malloc`ed the records** — record 0 is
    zero-filled by `Array_Alloc`, the others are uninitialised memory (modelled as zero-filled: known finding
    own-array-assign-partial). -/
def seqAssignFromMap (k : SeqKind) (xs : List Tok) (n : Nat) : Res (List Tok) :=
  if n = 0 then { val := [], retired := xs }
  else match k with
    | .list => { val := [], retired := xs, out := .raised .valueError }
    | .array => { val := List.replicate n Tok.raw, retired := xs, out := .raised .valueError }

/-! ### Type-refused calls on sequences of probe elements

Array.c and List.c never `cast` an element argument: the type check is the stored element's own `Assign` (`Cmp` for
`rem`), reached after the container has made room for the new element. -/

/-- List_Push, and List_Push_At once the index is accepted: `List_Alloc` (calloc), then `assign(item, obj)` raises — the
    node is neither linked nor counted (it is lost: raw memory, not an element); the list is unchanged. -/
def listPushWrong (xs : List Tok) : Res (List Tok) := refused xs .valueError

/-- Array_Push: `nitems++`, Array_Reserve_More, Array_Alloc (zero-fill), then `assign` raises: the array is one
    zero-filled, never constructed record longer (KF-C12-array-push-type). -/
def arrayPushWrong (xs : List Tok) : Res (List Tok) := { val := xs ++ [Tok.raw], out := .raised .valueError }

/-- Array_Push_At: the bounds check comes first (fix 1929a3d) and wins; past it `nitems++`, memmove, Array_Alloc, then
    `assign` raises: a zero-filled record sits at the insertion point (KF-C12-array-push-type). -/
def arrayPushAtWrong (xs : List Tok) (i : Int) : Res (List Tok) :=
  let n : Int := xs.length
  let j : Int := if i < 0 then (n + 1) + i else i
  if j < 0 ∨ j > n then refused xs .indexOutOfBounds
  else { val := xs.insertIdx j.toNat Tok.raw, out := .raised .valueError }

/-- List_Push_At: index 0 needs no lookup, any other index goes through `List_At` (which raises first); then
    `List_Alloc` and the raising `assign`: nothing is linked. -/
def listPushAtWrong (xs : List Tok) (i : Int) : Res (List Tok) :=
  if i = 0 then refused xs .valueError
  else
    let n : Int := xs.length
    let j : Int := if i < 0 then n + i else i
    if j < 0 ∨ j ≥ n then refused xs .indexOutOfBounds else refused xs .valueError

/-- Array_Set / List_Set: the bounds check (`List_At`) first, then `assign` onto the stored element — the element's
    `Assign` validates its argument before it touches itself: nothing changes. -/
def seqSetWrong (xs : List Tok) (i : Int) : Res (List Tok) :=
  let n : Int := xs.length
  let j : Int := if i < 0 then n + i else i
  if j < 0 ∨ j ≥ n then refused xs .indexOutOfBounds else refused xs .valueError

/-- Array_Rem / List_Rem: `eq(item, obj)` on the first element raises (the element's `Cmp` casts its argument); on an
    empty sequence the scan finds nothing — ValueError either way, nothing changes. -/
def seqRemWrong (xs : List Tok) : Res (List Tok) := refused xs .valueError

/-- List_Concat from a Tuple of argument objects: `List_Push` per item — the items before a wrong-typed one are
    constructed and stay (KF-C12-list-concat-partial: ownership stays consistent), the wrong one raises as in
    `listPushWrong`. -/
def listConcatArgs (next : Nat) (xs : List Tok) (args : List Arg) : Res (List Tok) :=
  let new := mkFresh next (goodPrefix args).1
  match (goodPrefix args).2 with
  | none => { val := xs ++ new, issued := new }
  | some _ => { val := xs ++ new, issued := new, out := .raised .valueError }

/-- Array_Concat from a Tuple: `nitems += len(obj)` and the realloc come first; per item Array_Alloc + assign.  A
    wrong-typed item raises with its record zero-filled and the records of the items after it uninitialised (modelled
    as zero-filled), all counted by `len` (KF-C12-array-push-type). -/
def arrayConcatArgs (next : Nat) (xs : List Tok) (args : List Arg) : Res (List Tok) :=
  let new := mkFresh next (goodPrefix args).1
  match (goodPrefix args).2 with
  | none => { val := xs ++ new, issued := new }
  | some rest => { val := xs ++ new ++ List.replicate (rest + 1) Tok.raw, issued := new, out := .raised .valueError }

/-- `construct_with(alloc(List), args)` with a wrong-typed initial element: List_New pushes item by item and raises at the
    wrong one.  The caller never receives the half-built list; it is registered with the collector, which finalises it
    (the harness deletes it at once): List_Clear destructs what was constructed.  Returned: the elements constructed —
    all of them finalised again. -/
def listNewRefused (next : Nat) (args : List Arg) : Res Unit :=
  let new := mkFresh next (goodPrefix args).1
  { val := (), issued := new, retired := new, out := .raised .valueError }

/-- Array_New with a wrong-typed initial element: `nitems = len(args) - 1` and the `malloc` come first; the record of the
    wrong element is zero-filled, the records after it are uninitialised memory (modelled as zero-filled), and Array_Del
    — run by the collector on the half-built array — destructs all `nitems` records (known-finding territory
    own-array-new-partial). -/
def arrayNewRefused (next : Nat) (args : List Arg) : Res Unit :=
  let new := mkFresh next (goodPrefix args).1
  { val := (), issued := new, retired := new ++ List.replicate (((goodPrefix args).2.getD 0) + 1) Tok.raw,
    out := .raised .valueError }

/-! ### Array_Sort_By: quicksort, every exchange is a byte-wise `swap` -/

def tokLt (a b : Tok) : Bool := a.pay < b.pay

/-- the `for (i = l; i < r; i++)` loop of Array_Sort_Partition with `k` iterations left (`i = r - k`) -/
def partLoop (r : Nat) : Nat → Array Tok → Nat → Array Tok × Nat
  | 0, a, s => (a, s)
  | k + 1, a, s =>
    let i := r - (k + 1)
    if tokLt a[i]! a[r]! then partLoop r k (a.swapIfInBounds i s) (s + 1) else partLoop r k a s

def partition (a : Array Tok) (l r : Nat) : Array Tok × Nat :=
  let p := l + (r - l) / 2
  let a := a.swapIfInBounds p r
  let (a, s) := partLoop r (r - l) a l
  (a.swapIfInBounds s r, s)

/-- Array_Sort_Part with fuel (`xs.length` suffices: every level removes the pivot) -/
def sortPart : Nat → Array Tok → Nat → Nat → Array Tok
  | 0, a, _, _ => a
  | f + 1, a, l, r =>
    if l < r then
      let (a, s) := partition a l r
      let a := sortPart f a l (s - 1)
      sortPart f a (s + 1) r
    else a

def seqSort (xs : List Tok) : Res (List Tok) :=
  { val := (sortPart xs.length xs.toArray 0 (xs.length - 1)).toList }

/-! ## Maps (Table.c, Tree.c): contents kept sorted by key payload (the canonical order of the dumps) -/

abbrev KV := Tok × Tok

def kvToks (kvs : List KV) : List Tok := kvs.flatMap (fun kv => [kv.1, kv.2])

def mapInsert (kv : KV) : List KV → List KV
  | [] => [kv]
  | x :: xs => if kv.1.pay ≤ x.1.pay then kv :: x :: xs else x :: mapInsert kv xs

def keyIs (k : Nat) (kv : KV) : Bool := kv.1.pay == k

/-- Table_Set = Table_Set_Move(move = false): key and value are constructed in the swap space first; when an equal
    key is met while probing, the stored pair is destructed and overwritten by the new pair; otherwise the new pair
    is stored (displacing others byte-wise). Rehashing before/after moves bytes only. -/
def tableSet (next : Nat) (kvs : List KV) (k v : Nat) : Res (List KV) :=
  let kt : Tok := ⟨next, k⟩
  let vt : Tok := ⟨next + 1, v⟩
  match takeFirst (keyIs k) kvs with
  | some (old, rest) => { val := mapInsert (kt, vt) rest, issued := [kt, vt], retired := [old.1, old.2] }
  | none => { val := mapInsert (kt, vt) kvs, issued := [kt, vt] }

/-- Tree_Set: an existing key gets `assign(key); assign(val)` onto the stored elements (in place); a new key gets a
    zero-filled node and two constructions. -/
def treeSet (next : Nat) (kvs : List KV) (k v : Nat) : Res (List KV) :=
  match takeFirst (keyIs k) kvs with
  | some (old, rest) =>
    let r1 := assignProbe next old.1 k
    let r2 := assignProbe (next + r1.issued.length) old.2 v
    { val := mapInsert (r1.val, r2.val) rest, issued := r1.issued ++ r2.issued, updated := r1.updated ++ r2.updated }
  | none =>
    let kt : Tok := ⟨next, k⟩
    let vt : Tok := ⟨next + 1, v⟩
    { val := mapInsert (kt, vt) kvs, issued := [kt, vt] }

def mapSet (mk : MapKind) := match mk with | .table => tableSet | .tree => treeSet

/-- Table_Rem / Tree_Rem: KeyError when absent; otherwise key and value destructed, the gap closed byte-wise
    (backward shift / predecessor copy + node free) -/
def mapRem (kvs : List KV) (k : Nat) : Res (List KV) :=
  match takeFirst (keyIs k) kvs with
  | none => { val := kvs, out := .raised .keyError }
  | some (old, rest) => { val := rest, retired := [old.1, old.2] }

def mapClear (kvs : List KV) : Res (List KV) := { val := [], retired := kvToks kvs }

/-- Table_Resize: 0 = clear; below `nitems` = FormatError; else rehash (moves). Tree_Resize: 0 = clear, else FormatError. -/
def mapResize (mk : MapKind) (kvs : List KV) (n : Nat) : Res (List KV) :=
  if n = 0 then mapClear kvs
  else match mk with
    | .table => if n < kvs.length then { val := kvs, out := .raised .formatError } else { val := kvs }
    | .tree => { val := kvs, out := .raised .formatError }

/-- a run of `set`s (Table_New / Tree_New argument pairs; the `foreach` of Table_Assign / Tree_Assign) -/
def mapSetMany (mk : MapKind) : Nat → List KV → List (Nat × Nat) → Res (List KV)
  | _, kvs, [] => { val := kvs }
  | next, kvs, (k, v) :: rest =>
    let r := mapSet mk next kvs k v
    let r2 := mapSetMany mk (next + r.issued.length) r.val rest
    { val := r2.val, issued := r.issued ++ r2.issued, retired := r.retired ++ r2.retired,
      updated := r.updated ++ r2.updated }

/-- Table_Assign / Tree_Assign from another map: clear, then `set` every pair of the source -/
def mapAssign (mk : MapKind) (next : Nat) (kvs : List KV) (src : List KV) : Res (List KV) :=
  let r := mapSetMany mk next [] (src.map (fun kv => (kv.1.pay, kv.2.pay)))
  { val := r.val, issued := r.issued, retired := kvToks kvs ++ r.retired, updated := r.updated }

/-! ### Type-refused calls on maps

Table_Set_Move and Tree_Set `cast` key and value to the map's key / value type before anything else; Table_Rem and
Tree_Rem cast the key first.  (CelloGen/Own.lean `typeChecks`, Props/C05.lean `C05_type_check_first_*`.) -/

/-- Table_Set / Tree_Set with a wrong-typed key or value: ValueError from the `cast` at the top, nothing allocated,
    nothing assigned.  (Table_Set on a table with no slots first grows it to `Table_Ideal_Size(0)`: bytes only — the
    structural shadow of the driver follows it.) -/
def mapSetArgs (mk : MapKind) (next : Nat) (kvs : List KV) : Arg → Arg → Res (List KV)
  | .pay k, .pay v => mapSet mk next kvs k v
  | _, _ => refused kvs .valueError

/-- Table_Rem / Tree_Rem with a wrong-typed key: ValueError from the `cast`, before the lookup -/
def mapRemWrong (kvs : List KV) : Res (List KV) := refused kvs .valueError

/-- `construct_with(alloc(Table / Tree), args)` where a key or value of some pair is wrong-typed: the pairs before it
    are set (a repeated key replaces resp. assigns in place), the failing pair raises in `cast` before it allocates;
    the half-built map is finalised by the collector (the harness deletes it at once): every stored key and value is
    destructed. -/
def mapNewRefused (mk : MapKind) (next : Nat) (args : List (Arg × Arg)) : Res Unit :=
  let r := mapSetMany mk next [] (goodPairs args).1
  { val := (), issued := r.issued, retired := r.retired ++ kvToks r.val, updated := r.updated, out := .raised .valueError }

/-! ## Containers and the world of named containers -/

inductive Cont where
  | seq (k : SeqKind) (ek : ElemKind) (xs : List Tok)
  | map (k : MapKind) (kvs : List KV)
  | cell (t : Option Tok)             -- a stand-alone Box and its pointee
deriving Repr, Inhabited

def Cont.toks : Cont → List Tok
  | .seq _ _ xs => xs
  | .map _ kvs => kvToks kvs
  | .cell t => t.toList

def Cont.len : Cont → Nat
  | .seq _ _ xs => xs.length
  | .map _ kvs => kvs.length
  | .cell t => t.toList.length

def Cont.isBox : Cont → Bool
  | .seq _ .box _ => true
  | .cell _ => true
  | _ => false

/-- kinds a container can be created with: Array/List/Table/Tree of probes, Array of Box, List of Box -/
inductive CKind where
  | arr | lst | tbl | tre | boxArr | boxLst
deriving DecidableEq, Repr, Inhabited

def CKind.empty : CKind → Cont
  | .arr => .seq .array .probe []
  | .lst => .seq .list .probe []
  | .tbl => .map .table []
  | .tre => .map .tree []
  | .boxArr => .seq .array .box []
  | .boxLst => .seq .list .box []

/-- a call whose element / key / value arguments are `Arg`s — at least one of them wrong-typed, or (concat,
    constructors) arriving by a route the plain operations do not take: a Tuple as the source of `concat`,
    `construct_with(alloc(T), args)` for the constructors -/
inductive TCall where
  | push (w : Wrong)                              -- push / append
  | pushAt (i : Int) (w : Wrong)
  | set (i : Int) (w : Wrong)
  | rem (w : Wrong)
  | concat (args : List Arg)                      -- concat(c, tuple(args…))
  | mset (k v : Arg)
  | mrem (w : Wrong)
  | newSeq (k : SeqKind) (args : List Arg)        -- new(Array / List, Probe, args…)
  | newMap (k : MapKind) (args : List (Arg × Arg))
deriving Repr, Inhabited

inductive Op where
  | new (c : Nat) (k : CKind)
  | newSeq (c : Nat) (k : SeqKind) (ps : List Nat)
  | newMap (c : Nat) (k : MapKind) (kvs : List (Nat × Nat))
  | box (c p : Nat)
  | push (c p : Nat)
  | pushAt (c : Nat) (i : Int) (p : Nat)
  | pop (c : Nat)
  | popAt (c : Nat) (i : Int)
  | set (c : Nat) (i : Int) (p : Nat)
  | rem (c p : Nat)
  | resize (c n : Nat)
  | sort (c : Nat)
  | concat (c d : Nat)
  | assign (c d : Nat)
  | copy (c d : Nat)
  | mset (c k v : Nat)
  | mrem (c k : Nat)
  | del (c : Nat)
  | bassign (c d : Nat)
  | bref (c p : Nat)                    -- `ref(box, new(Probe, p))`: Box_Ref overwrites the pointer
  | read (c : Nat)                      -- len / iteration / get / mem / hash / eq: no ownership effect
  | typed (c : Nat) (t : TCall)         -- a call with `Arg` arguments (wrong-typed element / key / value)
deriving Repr, Inhabited

structure World where
  next : Nat := 1
  objs : List (Nat × Cont) := []        -- sorted by container name
  issuedLog : List Nat := []            -- identities ever constructed (newest first)
  retiredLog : List Nat := []           -- identities ever finalised (newest first)
deriving Repr, Inhabited

def maxConts : Nat := 64

def lookup : List (Nat × Cont) → Nat → Option Cont
  | [], _ => none
  | (c, x) :: rest, d => if c = d then some x else lookup rest d

def erase : List (Nat × Cont) → Nat → List (Nat × Cont)
  | [], _ => []
  | (c, x) :: rest, d => if c = d then rest else (c, x) :: erase rest d

def insertSorted (d : Nat) (y : Cont) : List (Nat × Cont) → List (Nat × Cont)
  | [] => [(d, y)]
  | (c, x) :: rest => if d ≤ c then (d, y) :: (c, x) :: rest else (c, x) :: insertSorted d y rest

/-- insert or replace, keeping the list sorted by name -/
def store (objs : List (Nat × Cont)) (d : Nat) (y : Cont) : List (Nat × Cont) := insertSorted d y (erase objs d)

def allToks (objs : List (Nat × Cont)) : List Tok := objs.flatMap (fun cx => cx.2.toks)

/-- what one step shows to the outside -/
structure Obs where
  bad : Bool := false
  out : Outcome := .ok
  issued : List Tok := []
  retired : List Tok := []
  updated : List Tok := []
  touched : List Nat := []
deriving Repr, Inhabited

def dedupIds : List Tok → List Tok
  | [] => []
  | t :: ts => t :: (dedupIds ts).filter (fun u => u.id != t.id)

/-- commit the result of an operation on container `c`.  Box pointees are deleted through the collector (`del`):
    deleting an object that is no longer registered is a no-op (GC_Rem_Ptr finds nothing), so for Box elements only
    the first finalisation of an identity counts. -/
def commit (w : World) (c : Nat) (isBox : Bool) (cont : Option Cont) (r : Res Unit) (touched : List Nat) : World × Obs :=
  let retired := if isBox then dedupIds (r.retired.filter (fun t => !w.retiredLog.contains t.id)) else r.retired
  let objs := match cont with
    | some x => store w.objs c x
    | none => erase w.objs c
  ({ next := w.next + r.issued.length, objs := objs,
     issuedLog := r.issued.map (·.id) ++ w.issuedLog,
     retiredLog := (retired.filter (fun t => t.id != 0)).map (·.id) ++ w.retiredLog },
   { out := r.out, issued := r.issued, retired := retired, updated := r.updated, touched := touched })

def Res.unit {α : Type} (r : Res α) : Res Unit :=
  { val := (), issued := r.issued, retired := r.retired, updated := r.updated, out := r.out }

def badOp (w : World) : World × Obs := (w, { bad := true })

/-- commit a sequence result -/
def commitSeq (w : World) (c : Nat) (k : SeqKind) (ek : ElemKind) (r : Res (List Tok)) (touched : List Nat)
    (wasBox : Bool := false) :=
  commit w c (ek == .box || wasBox) (some (.seq k ek r.val)) r.unit touched

def commitMap (w : World) (c : Nat) (k : MapKind) (r : Res (List KV)) (touched : List Nat) :=
  commit w c false (some (.map k r.val)) r.unit touched

/-- the pointee the harness creates for a Box argument: `new(Probe, $(Probe, p))` -/
def withPointee (next : Nat) (p : Nat) (f : Tok → Res (List Tok)) : Res (List Tok) :=
  let t : Tok := ⟨next, p⟩
  let r := f t
  match r.out with
  | .ok => { r with issued := t :: r.issued }
  -- the call raised: the Box argument never reached the container, the caller deletes the pointee itself
  | .raised _ => { r with issued := t :: r.issued, retired := r.retired ++ [t] }

/-- a call with `Arg` arguments on container `c` (containers of Box take any object: not applicable, `bad`) -/
def stepTyped (w : World) (c : Nat) : TCall → World × Obs
  | .push _ =>
    match lookup w.objs c with
    | some (.seq .array .probe xs) => commitSeq w c .array .probe (arrayPushWrong xs) [c]
    | some (.seq .list .probe xs) => commitSeq w c .list .probe (listPushWrong xs) [c]
    | _ => badOp w
  | .pushAt i _ =>
    match lookup w.objs c with
    | some (.seq .array .probe xs) => commitSeq w c .array .probe (arrayPushAtWrong xs i) [c]
    | some (.seq .list .probe xs) => commitSeq w c .list .probe (listPushAtWrong xs i) [c]
    | _ => badOp w
  | .set i _ =>
    match lookup w.objs c with
    | some (.seq k .probe xs) => commitSeq w c k .probe (seqSetWrong xs i) [c]
    | _ => badOp w
  | .rem _ =>
    match lookup w.objs c with
    | some (.seq k .probe xs) => commitSeq w c k .probe (seqRemWrong xs) [c]
    | _ => badOp w
  | .concat args =>
    match lookup w.objs c with
    | some (.seq .array .probe xs) => commitSeq w c .array .probe (arrayConcatArgs w.next xs args) [c]
    | some (.seq .list .probe xs) => commitSeq w c .list .probe (listConcatArgs w.next xs args) [c]
    | _ => badOp w
  | .mset k v =>
    match lookup w.objs c with
    | some (.map mk kvs) => commitMap w c mk (mapSetArgs mk w.next kvs k v) [c]
    | _ => badOp w
  | .mrem _ =>
    match lookup w.objs c with
    | some (.map mk kvs) => commitMap w c mk (mapRemWrong kvs) [c]
    | _ => badOp w
  | .newSeq k args =>
    if c ≥ maxConts ∨ (lookup w.objs c).isSome then badOp w
    else if allGood args then
      let new := mkFresh w.next (goodPrefix args).1
      commitSeq w c k .probe { val := new, issued := new } [c]
    else match k with
      | .list => commit w c false none (listNewRefused w.next args) [c]
      | .array => commit w c false none (arrayNewRefused w.next args) [c]
  | .newMap k args =>
    if c ≥ maxConts ∨ (lookup w.objs c).isSome then badOp w
    else if (goodPairs args).2 then commitMap w c k (mapSetMany k w.next [] (goodPairs args).1) [c]
    else commit w c false none (mapNewRefused k w.next args) [c]

/-- One operation of an op file on the world.  Mirrors harness/h_own.c `run_op`: same admissibility rules
    (`bad`), same library calls. -/
def step (w : World) : Op → World × Obs
  | .new c k =>
    if c ≥ maxConts ∨ (lookup w.objs c).isSome then badOp w
    else commit w c false (some k.empty) { val := () } [c]
  | .newSeq c k ps =>
    if c ≥ maxConts ∨ (lookup w.objs c).isSome then badOp w
    else
      -- Array_New: Array_Alloc + assign per argument; List_New: List_Push per argument
      let new := mkFresh w.next ps
      commitSeq w c k .probe { val := new, issued := new } [c]
  | .newMap c k kvs =>
    if c ≥ maxConts ∨ (lookup w.objs c).isSome then badOp w
    else commitMap w c k (mapSetMany k w.next [] kvs) [c]
  | .box c p =>
    if c ≥ maxConts ∨ (lookup w.objs c).isSome then badOp w
    else
      let t : Tok := ⟨w.next, p⟩
      commit w c true (some (.cell (some t))) { val := (), issued := [t] } [c]
  | .push c p =>
    match lookup w.objs c with
    | some (.seq k .probe xs) => commitSeq w c k .probe (seqPush w.next xs p) [c]
    | some (.seq k .box xs) => commitSeq w c k .box (withPointee w.next p (fun t => { val := xs ++ [t] })) [c]
    | _ => badOp w
  | .pushAt c i p =>
    match lookup w.objs c with
    | some (.seq .array .probe xs) => commitSeq w c .array .probe (arrayPushAt w.next xs i p) [c]
    | some (.seq .list .probe xs) => commitSeq w c .list .probe (listPushAt w.next xs i p) [c]
    | some (.seq .array .box xs) => commitSeq w c .array .box (withPointee w.next p (fun t => arrayPushAtTok xs i t)) [c]
    | some (.seq .list .box xs) => commitSeq w c .list .box (withPointee w.next p (fun t => listPushAtTok xs i t)) [c]
    | _ => badOp w
  | .pop c =>
    match lookup w.objs c with
    | some (.seq k ek xs) => commitSeq w c k ek (seqPop xs) [c]
    | _ => badOp w
  | .popAt c i =>
    match lookup w.objs c with
    | some (.seq k ek xs) => commitSeq w c k ek (seqPopAt xs i) [c]
    | _ => badOp w
  | .set c i p =>
    match lookup w.objs c with
    | some (.seq k .probe xs) => commitSeq w c k .probe (seqSetProbe w.next xs i p) [c]
    | some (.seq k .box xs) => commitSeq w c k .box (withPointee w.next p (fun t => seqSetBox xs i t)) [c]
    | _ => badOp w
  | .rem c p =>
    match lookup w.objs c with
    | some (.seq k .probe xs) => commitSeq w c k .probe (seqRem xs p) [c]
    | _ => badOp w
  | .resize c n =>
    match lookup w.objs c with
    | some (.seq .array ek xs) => commitSeq w c .array ek (arrayResize xs n) [c]
    | some (.seq .list ek xs) => commitSeq w c .list ek (listResize xs n) [c]
    | some (.map k kvs) => commitMap w c k (mapResize k kvs n) [c]
    | _ => badOp w
  | .sort c =>
    match lookup w.objs c with
    | some (.seq .array .probe xs) => commitSeq w c .array .probe (seqSort xs) [c]
    | _ => badOp w
  | .concat c d =>
    if c = d then badOp w else
    match lookup w.objs c, lookup w.objs d with
    | some (.seq k .probe xs), some (.seq _ .probe src) => commitSeq w c k .probe (seqConcatProbe w.next xs src) [c, d]
    | some (.seq k .box xs), some (.seq _ .box src) => commitSeq w c k .box (seqConcatBox xs src) [c, d]
    | _, _ => badOp w
  | .assign c d =>
    if c = d then
      -- Array_Assign / List_Assign / Table_Assign / Tree_Assign (after fix a3140e4): `if (self is obj) return;`
      match lookup w.objs c with
      | some (.cell _) => badOp w
      | some x => commit w c x.isBox (some x) { val := () } [c, d]
      | none => badOp w
    else
    match lookup w.objs c, lookup w.objs d with
    | some (.seq k ek xs), some (.seq _ .probe src) =>
      commitSeq w c k .probe (seqAssignProbe w.next xs src) [c, d] (ek == .box)
    | some (.seq k _ xs), some (.seq _ .box src) =>
      commitSeq w c k .box (seqAssignBox xs src) [c, d]
    | some (.map k kvs), some (.map _ src) =>
      commitMap w c k (mapAssign k w.next kvs src) [c, d]
    -- sequence ← map (the keys of the harness's maps are probes, not Ints).  Map ← sequence is not modelled (`bad`):
    -- Table_Assign / Tree_Assign take `Int` as key type from an Array / List, after which the map no longer accepts
    -- probe keys — the model does not track element types.
    | some (.seq k ek xs), some (.map _ src) =>
      commitSeq w c k .probe (seqAssignFromMap k xs src.length) [c, d] (ek == .box)
    | _, _ => badOp w
  | .copy c d =>
    if c ≥ maxConts ∨ (lookup w.objs c).isSome then badOp w else
    match lookup w.objs d with
    | some (.seq k .probe src) => commitSeq w c k .probe (seqAssignProbe w.next [] src) [c, d]
    | some (.seq k .box src) => commitSeq w c k .box (seqAssignBox [] src) [c, d]
    | some (.map k src) => commitMap w c k (mapAssign k w.next [] src) [c, d]
    | some (.cell t) => commit w c true (some (.cell t)) { val := () } [c, d]
    | none => badOp w
  | .mset c k v =>
    match lookup w.objs c with
    | some (.map mk kvs) => commitMap w c mk (mapSet mk w.next kvs k v) [c]
    | _ => badOp w
  | .mrem c k =>
    match lookup w.objs c with
    | some (.map mk kvs) => commitMap w c mk (mapRem kvs k) [c]
    | _ => badOp w
  | .del c =>
    match lookup w.objs c with
    | some x => commit w c x.isBox none { val := (), retired := x.toks } [c]
    | none => badOp w
  | .bassign c d =>
    -- Box_Assign on stand-alone boxes: the pointer is copied, the old pointee is dropped without `del`
    match lookup w.objs c, lookup w.objs d with
    | some (.cell _), some (.cell t) => commit w c true (some (.cell t)) { val := () } [c, d]
    | _, _ => badOp w
  | .bref c p =>
    -- Box_Ref on a stand-alone Box: the pointer is overwritten, the old pointee is not deleted
    match lookup w.objs c with
    | some (.cell _) =>
      let t : Tok := ⟨w.next, p⟩
      commit w c true (some (.cell (some t))) { val := (), issued := [t] } [c]
    | _ => badOp w
  | .read c =>
    -- the read-only entry points (Len, Iter, Get.get, Get.mem, Hash, Cmp; `deref` for a Box) touch no element
    match lookup w.objs c with
    | some x => commit w c x.isBox (some x) { val := () } [c]
    | none => badOp w
  | .typed c t => stepTyped w c t

/-- run a history; the observations in order -/
def run : World → List Op → World × List Obs
  | w, [] => (w, [])
  | w, op :: ops =>
    let (w1, o) := step w op
    let (w2, os) := run w1 ops
    (w2, o :: os)

/-- delete every remaining container, lowest name first (what harness and driver do at the end of an op file) -/
def delAllOps (w : World) : List Op := w.objs.map (fun cx => Op.del cx.1)

def liveCount (w : World) : Nat := w.issuedLog.length - w.retiredLog.length

/-! ## In-contract operations

`noKnownFinding w op` excludes exactly the territory of the known findings (see the header) — for assignment across the
families that is `assign(Array, non-empty Table / Tree)` only (`crossRefused`); `assign(List, non-empty Table / Tree)`, which
raises after `List_Clear` with the accounting intact, is in contract (`listCrossCleared`) — and the type-refused calls that
are not atomic (`typedAtomic`).
`inContract w op` additionally requires that the operation is one the op-file interpreters execute at all: an
ill-formed operation (a name that is not bound, `new` onto a bound name, an operation the container kind does not have,
`concat(x, x)`) is answered `bad` by harness and model alike and does nothing — it is *outside* the contract, so that no
theorem holds on a history merely because the model skipped a step.
Everything else — including every failing call (pop of an empty container, bad index, absent key, refused resize) and
self-assignment — is inside. -/

def srcIsBox (w : World) (d : Nat) : Bool :=
  match lookup w.objs d with
  | some x => x.isBox
  | none => false

/-- `assign(c, d)` of a non-empty Table / Tree to an **Array**: refused (ValueError) after the clear, and the Array is
    left with `len` counting records that were never constructed — exactly the territory of KF-C05-array-assign-partial
    (`site=Array_Assign`).  A List destination is NOT excluded: see `listCrossCleared`. -/
def crossRefused (w : World) (c d : Nat) : Bool :=
  match lookup w.objs c, lookup w.objs d with
  | some (.seq .array _ _), some (.map _ src) => !src.isEmpty
  | _, _ => false

/-- `assign(c, d)` of a non-empty Table / Tree to a **List**: `List_Assign` clears the list (every element finalised),
    then `get(obj, $I(0))` raises ValueError before anything is pushed.  The ownership accounting is right (live = Σ len,
    every old element finalised once): the call is IN the contract.  It is the one in-contract call that raises and has
    changed its receiver (that a failed call changed its receiver is C12's KF-C12-assign-clears, not an ownership
    matter): `C05_refused_no_effect_partial` names it by this predicate. -/
def listCrossCleared (w : World) (c d : Nat) : Bool :=
  match lookup w.objs c, lookup w.objs d with
  | some (.seq .list _ _), some (.map _ src) => !src.isEmpty
  | _, _ => false

/-- type-refused calls that are NOT atomic (the code makes room before the element's own type check runs):
    Array_Push, Array_Push_At past its bounds check, Array_Concat and Array_New with a wrong-typed item — zero-filled /
    uninitialised records counted by `len` (KF-C12-array-push-type, own-array-new-partial) —, and List_Concat when items
    precede the wrong one (they stay: KF-C12-list-concat-partial). -/
def typedAtomic (w : World) (c : Nat) : TCall → Bool
  | .push _ =>
    match lookup w.objs c with
    | some (.seq .array _ _) => false
    | _ => true
  | .pushAt i _ =>
    match lookup w.objs c with
    | some (.seq .array _ xs) => (arrayPushAtWrong xs i).out == .raised .indexOutOfBounds
    | _ => true
  | .concat args =>
    match lookup w.objs c with
    | some (.seq .array _ _) => allGood args
    | some (.seq .list _ _) => allGood args || (goodPrefix args).1.isEmpty
    | _ => true
  | .newSeq .array args => allGood args
  | _ => true

def noKnownFinding (w : World) : Op → Bool
  | .typed c t => typedAtomic w c t
  | .concat _ d => !srcIsBox w d
  | .assign c d => c = d || (!srcIsBox w d && !crossRefused w c d)
  | .copy _ d => !srcIsBox w d
  | .bassign _ _ => false
  | .bref _ _ => false
  | .set c _ _ =>
    match lookup w.objs c with
    | some (.seq _ .box _) => false
    | _ => true
  | .resize c n =>
    match lookup w.objs c with
    | some (.seq .list _ xs) => n ≤ xs.length
    | _ => true
  | _ => true

def inContract (w : World) (op : Op) : Bool := noKnownFinding w op && !(step w op).2.bad

end Cello.Own
