/-
  Cello/HeapWalk.lean — the LOOPS of the container Mark instances (Array_Mark, Table_Mark, List_Mark, Tuple_Mark), the pointer-bound update of
  GC_Set and the two scan loops of GC_Mark_Stack, as executable interpretations of the terms translate/g_gcmark.py (generator GcWalk) extracts from the
  current source: which positions of a block of `n` positions a loop header visits (`CountLoop.visits`, `PtrLoop.visits`, `SentLoop.visits`), what
  `Array_Mark` / `Table_Mark` hand to the callback on a concrete element block / slot array (`arrayPresented`, `tablePresented`), against what the
  abstract model of Cello/Heap.lean (`Obj.cont ty elems`: every element) takes them to present.  Core Lean only.
-/
import Cello.Heap
import CelloGen.GcWalk

namespace CelloGen.GcWalk

def LCmp.test : LCmp → Nat → Nat → Bool
  | .lt, i, b => decide (i < b)
  | .le, i, b => decide (i ≤ b)
  | .ne, i, b => i != b

/-- `x->member - sub` in `size_t` arithmetic (`nslots - 1` of an empty table wraps) -/
def CountLoop.bound (L : CountLoop) (n : Nat) : Nat := if L.sub ≤ n then n - L.sub else 2 ^ 64 + n - L.sub

/-- the loop: the values of `i` the body runs with (`fuel` bounds the run: a loop that leaves the block is cut off behind it) -/
def CountLoop.go (L : CountLoop) (b : Nat) : Nat → Nat → List Nat
  | 0, _ => []
  | f + 1, i => if L.cmp.test i b then i :: CountLoop.go L b f (i + L.step) else []

/-- the positions of a block of `n` positions (`a->nitems` elements / `t->nslots` slots) the Mark loop visits, in order; a position `≥ n` lies
    outside the block (the run is followed one step past it) -/
def CountLoop.visits (L : CountLoop) (n : Nat) : List Nat := L.go (L.bound n) (n + 2) L.start

end CelloGen.GcWalk

namespace Cello.Heap.Walk
open CelloGen.GcWalk

def itemOut (L : CountLoop) : Option Obj → List Obj
  | some e => L.presents.filterMap fun p => if p = .item then some e else none
  | none => []

/-- `Array_Mark` on the element block `es`: what is handed to the callback -/
def arrayPresented (L : CountLoop) (es : List Obj) : List Obj :=
  (L.visits es.length).flatMap fun i => itemOut L es[i]?

/-- a slot of a Table: empty (hash word 0) or key and value -/
abbrev Slot := Option (Obj × Obj)

def slotParts (L : CountLoop) (kv : Obj × Obj) : List Obj :=
  L.presents.filterMap fun p => match p with | .key => some kv.1 | .val => some kv.2 | .item => none

def slotOut (L : CountLoop) : Option Slot → List Obj
  | some (some kv) => slotParts L kv
  | _ => []

/-- `Table_Mark` on the slot array: what is handed to the callback (an empty slot is zeroed memory: handing it over is outside the model, so
    the theorems demand `guard`) -/
def tablePresented (L : CountLoop) (slots : List Slot) : List Obj :=
  (L.visits slots.length).flatMap fun i => slotOut L slots[i]?

/-- what the abstract model (`Obj.cont "Table" elems`) takes the Table to present: key, value of every occupied slot, in slot order -/
def tableElems (slots : List Slot) : List Obj :=
  slots.flatMap fun s => match s with | some kv => [kv.1, kv.2] | none => []

end Cello.Heap.Walk

namespace CelloGen.GcWalk

/-- `List_Mark` on a list of `n` cells (cell `i` links to `i+1` / `i-1`; NULL = `none`): the cells handed over, in order -/
def PtrLoop.nextOf (n i : Nat) : Option Nat := if i + 1 < n then some (i + 1) else none
def PtrLoop.prevOf (i : Nat) : Option Nat := if 0 < i then some (i - 1) else none
def PtrLoop.go (L : PtrLoop) (n : Nat) : Nat → Option Nat → List Nat
  | 0, _ => []
  | _ + 1, none => []
  | f + 1, some i =>
    let goOn := match L.cond with
      | .cur => true
      | .next => (PtrLoop.nextOf n i).isSome
      | .prev => (PtrLoop.prevOf i).isSome
    if goOn then i :: PtrLoop.go L n f (if L.advNext then PtrLoop.nextOf n i else PtrLoop.prevOf i) else []
def PtrLoop.visits (L : PtrLoop) (n : Nat) : List Nat :=
  L.go n (n + 1) (if n = 0 then none else if L.fromHead then some 0 else some (n - 1))

/-- `Tuple_Mark` on `items[0..n-1]` followed by Terminal: the indices handed over (an index past the Terminal is outside the array: cut off) -/
def SentLoop.go (L : SentLoop) (n : Nat) : Nat → Nat → List Nat
  | 0, _ => []
  | f + 1, i => if i < n then i :: SentLoop.go L n f (i + L.step) else []
def SentLoop.visits (L : SentLoop) (n : Nat) : List Nat := L.go n (n + 1) L.start

/-- the shapes that visit every position exactly once, in order -/
def CountLoop.Complete (L : CountLoop) : Prop := L.start = 0 ∧ L.step = 1 ∧ L.sub = 0 ∧ (L.cmp = .lt ∨ L.cmp = .ne)
instance (L : CountLoop) : Decidable L.Complete := by unfold CountLoop.Complete; infer_instance
def PtrLoop.Complete (L : PtrLoop) : Prop := L.fromHead = true ∧ L.cond = .cur ∧ L.advNext = true
instance (L : PtrLoop) : Decidable L.Complete := by unfold PtrLoop.Complete; infer_instance
def SentLoop.Complete (L : SentLoop) : Prop := L.start = 0 ∧ L.step = 1
instance (L : SentLoop) : Decidable L.Complete := by unfold SentLoop.Complete; infer_instance

end CelloGen.GcWalk

namespace Cello.Heap.Walk
open CelloGen.GcWalk

/-- GC_Set: `gc->Xptr = (uintptr_t)key OP gc->Xptr ? (uintptr_t)key : gc->Xptr;` -/
def boundStep (op : String) (key cur : Nat) : Nat :=
  let t := if op = "<" then decide (key < cur) else if op = ">" then decide (key > cur)
           else if op = "<=" then decide (key ≤ cur) else if op = ">=" then decide (key ≥ cur) else false
  if t then key else cur

/-- GC_Mark_Stack: the word addresses (in words) handed to GC_Mark_Item for the stack between `top` (= &stk) and `bot` (= gc->bottom) -/
def scanLoop (l : String × String × String × String × String) (top bot : Nat) : List Nat :=
  let (g, s, c, e, d) := l
  let guardOk := if g = "<" then decide (bot < top) else if g = ">" then decide (bot > top) else false
  if !guardOk || s != "top" || e != "bot" then [] else
  if d = "-" then
    -- p = top; p >= bot (or > bot); p -= 1
    let k := if c = ">=" then top - bot + 1 else if c = ">" then top - bot else 0
    (List.range k).map (fun j => top - j)
  else if d = "+" then
    let k := if c = "<=" then bot - top + 1 else if c = "<" then bot - top else 0
    (List.range k).map (fun j => top + j)
  else []
def stackVisits (ls : List (String × String × String × String × String)) (top bot : Nat) : List Nat :=
  ls.flatMap (fun l => scanLoop l top bot)

end Cello.Heap.Walk
