/-
  Cello/RegistryApi.lean — the public entrances to the collector's registry (extension round of C17), core Lean only:

  * src/Alloc.c `alloc_by` / `del_by` and their one-line wrappers (alloc, alloc_raw, alloc_root, new_with, new_raw_with,
    new_root_with, the default path of copy, del, del_raw, del_root): an interpreter over the tables that translate/g_reg.py
    reads from the source (allocator branches, `switch (method)` rows, statements after the switch, wrapper rows).
    `allocTells` / `delTells` say what an entry point tells the collector, for a type WITH its own Alloc instance and for a
    type WITHOUT one (the calloc path) — the registry model itself (`gcSet` / `gcRem`) is entered only through them by the driver;
  * `GC_Show` (what `show(current(GC))` prints: one row per slot, `root`/`auto`, `*` for a mark bit);
  * `GC_New`: the initial state built from the `gc->field = value;` statements of the source (`regInitFrom`);
  * the observation of `GC_Del` (teardown) is `gcDel` of Cello/Registry.lean.
-/
import Cello.Registry
import CelloGen.Reg

namespace Cello.Registry
open CelloGen.Reg (GcAct)

/-- the tables read from src/Alloc.c -/
structure Routes where
  ownAssigns : List String
  ownCalls : List String
  defaultAssigns : List String
  defaultCalls : List String
  allocSwitch : List (String × List GcAct)
  allocAfter : List String
  delSwitch : List (String × List GcAct)
  delAfter : List String
  entries : List (String × String × String)

/-- the source as it is now -/
def gcRoutes : Routes :=
  { ownAssigns := CelloGen.Reg.allocOwnAssigns, ownCalls := CelloGen.Reg.allocOwnCalls,
    defaultAssigns := CelloGen.Reg.allocDefaultAssigns, defaultCalls := CelloGen.Reg.allocDefaultCalls,
    allocSwitch := CelloGen.Reg.allocSwitch, allocAfter := CelloGen.Reg.allocAfter,
    delSwitch := CelloGen.Reg.delSwitch, delAfter := CelloGen.Reg.delAfter, entries := CelloGen.Reg.allocEntries }

/-- an allocator branch of alloc_by only produces the object: it assigns the locals `self` / `head` and calls allocation
    functions — it neither changes `method` nor talks to the collector nor leaves the function -/
def branchPlain (assigns calls : List String) : Bool :=
  assigns.all (fun v => v == "self" || v == "head") &&
  calls.all (fun f => f == "a->alloc" || f == "calloc" || f == "size" || f == "header_init")

/-- the actions of one case, in order, up to a `return`: (collector calls made, the function returned inside the switch) -/
def runActs : List GcAct → List GcAct × Bool
  | [] => ([], false)
  | .ret :: _ => ([], true)
  | a :: rest => ((a :: (runActs rest).1), (runActs rest).2)

/-- `alloc_by(type, method)` for a type with (`own`) / without an Alloc instance: the collector calls it makes before it
    returns the object.  `none`: outside what the model reads (an allocator branch that does more than allocate, a case that
    returns without the object, other statements after the switch). -/
def allocBy (rt : Routes) (own : Bool) (method : String) : Option (List GcAct) :=
  if !(if own then branchPlain rt.ownAssigns rt.ownCalls else branchPlain rt.defaultAssigns rt.defaultCalls) then none
  else if rt.allocAfter != ["return self"] then none
  else
    match rt.allocSwitch.lookup method with
    | none => some []
    | some acts => if (runActs acts).2 then none else some (runActs acts).1

/-- `del_by(self, method)`: (collector calls, whether `dealloc(destruct(self))` after the switch is reached) -/
def delBy (rt : Routes) (method : String) : Option (List GcAct × Bool) :=
  if rt.delAfter != ["dealloc(destruct(self))"] then none
  else
    match rt.delSwitch.lookup method with
    | none => some ([], true)
    | some acts => some ((runActs acts).1, !(runActs acts).2)

/-- the third column of the wrapper row `(fn, wraps, _)` -/
def wrapperArg (rt : Routes) (fn wraps : String) : Option String :=
  (rt.entries.find? (fun e => e.1 == fn && e.2.1 == wraps)).map (fun e => e.2.2)

/-- the method constant an allocating entry point ends up passing to alloc_by: alloc / alloc_raw / alloc_root directly,
    new_with & co. (`construct_with(alloc…(type), args)`) and the default copy (`assign(alloc…(type_of(self)), self)`)
    through the allocation function they call -/
def allocMethod (rt : Routes) (fn : String) : Option String :=
  match wrapperArg rt fn "alloc_by" with
  | some m => some m
  | none =>
    match (match wrapperArg rt fn "construct_with" with
           | some f => some f
           | none => wrapperArg rt fn "assign") with
    | some f => wrapperArg rt f "alloc_by"
    | none => none

/-- what an allocating entry point tells the collector about the new object: `some none` — nothing; `some (some root)` —
    one `set(current(GC), self, $I(k))`, i.e. GC_Set with `root = (bool)k` -/
def allocTells (rt : Routes) (fn : String) (own : Bool) : Option (Option Bool) :=
  match allocMethod rt fn with
  | none => none
  | some m =>
    match allocBy rt own m with
    | some [] => some none
    | some [.set k] => some (some (k != 0))
    | _ => none

/-- what a deleting entry point does: `some true` — `rem(current(GC), self)` (GC_Rem finalises) and nothing else;
    `some false` — `dealloc(destruct(self))` without the collector -/
def delTells (rt : Routes) (fn : String) : Option Bool :=
  match wrapperArg rt fn "del_by" with
  | none => none
  | some m =>
    match delBy rt m with
    | some ([.rem], false) => some true
    | some ([], true) => some false
    | _ => none

/-! ### GC_Show -/

/-- the rows `GC_Show` prints, one per slot in slot order: the index, and for an occupied slot pointer, root flag, mark bit -/
def showRows (r : Reg) : List (Nat × Option (Nat × Bool × Bool)) :=
  (List.range r.n).map (fun i => (i, if hi : i < r.n then (r.slots[i]).map (fun e => (e.key, e.val.root, e.val.marked)) else none))

/-- `%15s` -/
def pad15 (s : String) : String := String.ofList (List.replicate (15 - s.length) ' ') ++ s

/-- `"| %i : \n"` / `"| %i : %15s %p %s %s\n"` (without the newline); `tyName` = name of `type_of(ptr)`, `ptrText` = `%p` -/
def showRowText (tyName ptrText : Nat → String) : Nat × Option (Nat × Bool × Bool) → String
  | (i, none) => s!"| {i} : "
  | (i, some (p, root, marked)) =>
    s!"| {i} : {pad15 (tyName p)} {ptrText p} {if root then "root" else "auto"} {if marked then "*" else " "}"

/-- the lines of `show(current(GC))` after the header line -/
def showLines (tyName ptrText : Nat → String) (r : Reg) : List String :=
  (showRows r).map (showRowText tyName ptrText) ++ ["+------------------->"]

/-! ### GC_New -/

def initVal (s : String) : Option Nat :=
  if s == "0" || s == "false" || s == "NULL" then some 0
  else if s == "true" then some 1
  else if s == "UINTPTR_MAX" then some uintptrMax
  else s.toNat?

/-- the value GC_New leaves in a field: what the statement says, 0 for a field it does not set (the object is calloc'ed) -/
def initField (init : List (String × String)) (f : String) : Option Nat :=
  match init.lookup f with
  | none => some 0
  | some v => initVal v

/-- the registry state after GC_New, from its `gc->field = value;` statements (`none`: a value the model cannot read, or a
    non-empty table / pending list without arrays) -/
def regInitFrom (init : List (String × String)) : Option Reg :=
  match initField init "nslots", initField init "nitems", initField init "mitems", initField init "minptr",
        initField init "maxptr", initField init "running", initField init "freenum" with
  | some 0, some ni, some mi, some lo, some hi, some run, some 0 =>
    some { n := 0, slots := Vector.replicate 0 none, nitems := ni, mitems := mi, minptr := lo, maxptr := hi,
           running := run != 0, pending := #[] }
  | _, _, _, _, _, _, _ => none

end Cello.Registry
