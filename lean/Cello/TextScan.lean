import Cello.Text
import CelloGen.TextScan
/-
  Cello/TextScan.lean — extension round of property C15: the parts of the text round trip that `Cello/Text.lean` takes from a
  *pinned text* of the source are here taken from *data the translator extracts* (CelloGen/TextScan.lean), and the model is
  parametrised by them (`XCfg`):

    src/Show.c  scan_from_with   how each branch moves `pos`: the `%$` branch ASSIGNS what `look_from` returns (an ABSOLUTE position),
                                 the numeric branches ADD the `%n` count, the literal branch adds the length of the run — and whether the
                                 literal branch reads the input at all (a File is only moved by reading)           → `scanItemX`
    src/Show.c  show_to / look_from / print_to_with `%$`     dispatch to the instance; the position is passed through → `showToX` / `lookFromX`
    src/Num.c   Int_Show / Int_Look / Float_Show / Float_Look   ONE print_to / scan_from with the extracted format, run through the
                                 format scanners of the model (`printFmt` / `scanFmt`) instead of being assumed to be `%li` / `%lf`
    src/String.c String_Show / String_Look, the character path: a byte of the String is a C `char` (signed on x86-64); String_Show
                                 switches on `*v` and prints `$I(*v)` with `%c` (printf converts the int to `unsigned char`); the `%c` branch
                                 of scan_from_with stores the byte into `<type> tmp` and hands `$I(tmp)` on; String_Look compares
                                 `c_int(chr)` with the delimiters / case labels and stores `(char)c_int(chr)`       → `showByteC` / `lookLoopC`

  `Lemmas/TextScan.lean` proves that for parameters as they are in the source now (`SrcLike`) this model IS the model of
  `Cello/Text.lean` on byte inputs, so every round-trip theorem carries over (`C15_*_source`); with the `%$` branch adding instead of
  assigning, or the literal branch not reading, the round trip fails (`…_refuted`).
-/
namespace Cello.Text

open CelloGen.TextScan (PosUpd)

/-! ## the character path -/

/-- the value of a C integer object of type `ty` = (signed, bits) whose lowest byte is `b` and whose other bytes are 0 (what `%c`
    of scanf leaves in a zero-initialised object on a little-endian machine; for bits = 8: the `char` itself) -/
def cObjVal (ty : Bool × Nat) (b : Nat) : Int := if ty.1 then sext ty.2 (b : Int) else zext ty.2 (b : Int)

/-- the byte a conversion of the integer `v` to a character type stores (`(char)v`, and printf's `(unsigned char)` for `%c`) -/
def byteOf (v : Int) : Nat := (zext 8 v).toNat

/-- lookup of an `int` among case labels given as byte values (character constants are `int`s: all labels here are < 128) -/
def lookupI {α : Type} (tbl : List (Nat × α)) (v : Int) : Option α :=
  match tbl with
  | [] => none
  | (k, a) :: r => if (k : Int) = v then some a else lookupI r v

/-- one iteration of String_Show on the `char` `*v` holding byte `b`: `switch (*v)` on the promoted value; the default arm prints
    `$I(*v)` with `%c` -/
def showByteC (ty : Bool × Nat) (esc : List (Nat × List Nat)) (b : Nat) : List Nat :=
  match lookupI esc (cObjVal ty b) with
  | some t => t
  | none => [byteOf (cObjVal ty b)]

def showStringToC (ty : Bool × Nat) (esc : List (Nat × List Nat)) (opn cls : List Nat) (s : List Nat) (o : Sink) (pos : Nat) : Sink × Nat :=
  let o1 := o.put pos opn
  let p1 := pos + opn.length
  let (o2, p2) := s.foldl (fun (st : Sink × Nat) b => (st.1.put st.2 (showByteC ty esc b), st.2 + (showByteC ty esc b).length)) (o1, p1)
  (o2.put p2 cls, p2 + cls.length)

/-- the loop of String_Look with `chr` as the `Int` object it is: `ty` is the type of `tmp` in the `%c` branch -/
def lookLoopC (ty : Bool × Nat) (c : LookCfg) : List Nat → Nat → List Nat → List Nat × Res (List Nat × Nat)
  | [], _, acc => (acc, .raised .FormatError)
  | b :: r, pos, acc =>
    if cObjVal ty b = (c.cls : Int) then (acc, .ok (r, pos + 1))
    else if cObjVal ty b = (c.escb : Int) then
      match r with
      | [] => (acc, .raised .FormatError)
      | l :: r' =>
        match lookupI c.esc (cObjVal ty l) with
        | none => (acc, .raised .FormatError)
        | some t =>
          if c.continues then lookLoopC ty c r' (pos + 2) (acc ++ cstr t)
          else lookLoopC ty c r' (pos + 2) (acc ++ cstr t ++ cstr [byteOf (cObjVal ty l)])
    else lookLoopC ty c r (pos + 1) (acc ++ cstr [byteOf (cObjVal ty b)])

def lookStringC (ty : Bool × Nat) (c : LookCfg) (input : List Nat) (pos : Nat) : List Nat × Res (List Nat × Nat) :=
  match input with
  | [] => ([], .raised .FormatError)
  | b :: r => if cObjVal ty b = (c.opn : Int) then lookLoopC ty c r (pos + 1) [] else ([], .raised .FormatError)

/-! ## the parameters -/

structure XCfg where
  base : Cfg
  dollar : PosUpd              -- scan_from_with, branch `%$`
  intUpd : PosUpd              -- … branch `diouxX`
  fltUpd : PosUpd              -- … branch `fFeEgGaA`
  litReads : Bool              -- … the literal branch calls `format_from(input, pos, fmt_buf)`
  litUpd : PosUpd
  printDollar : PosUpd         -- print_to_with, branch `%$`
  chrTy : Bool × Nat           -- `<type> tmp` of the `%c` branch of scan_from_with
  showTy : Bool × Nat          -- `<type>* v` of String_Show
  intShow : List Nat           -- the four formats of src/Num.c
  intLook : List Nat
  floatShow : List Nat
  floatLook : List Nat

def armUpd (sel : String) : PosUpd := (CelloGen.TextScan.scanSpecArms.lookup sel).getD .none

/-- the parameters read from the source -/
def srcX : XCfg where
  base := srcCfg
  dollar := armUpd "$"
  intUpd := armUpd "diouxX"
  fltUpd := armUpd "fFeEgGaA"
  litReads := CelloGen.TextScan.scanLitReads
  litUpd := CelloGen.TextScan.scanLitUpd
  printDollar := CelloGen.TextScan.printDollarUpd
  chrTy := CelloGen.TextScan.scanCharTy
  showTy := CelloGen.TextScan.showElemTy
  intShow := CelloGen.TextScan.intShowFmtB
  intLook := CelloGen.TextScan.intLookFmtB
  floatShow := CelloGen.TextScan.floatShowFmtB
  floatLook := CelloGen.TextScan.floatLookFmtB

/-! ## the writer -/

/-- `pos = show_to(a, out, pos)` / `pos += show_to(…)`: what becomes of the position the callee returned -/
def placeAbs (u : PosUpd) (pos ret : Nat) : Option Nat :=
  match u with
  | .assignCall _ | .assignThenAdd _ => some ret      -- (`off` is still 0 in the `%$` branch)
  | .addCall _ => some (pos + ret)
  | _ => none

/-- `show_to(v, out, pos)`: the Show instance of the value — String_Show, or Int_Show / Float_Show = one `print_to` with the format of
    Num.c (run through the scanner of print_to_with) — returns the sink and the new absolute position -/
def showToX (x : XCfg) (o : Sink) (pos : Nat) : Val → Option (Sink × Nat)
  | .str s => some (showStringToC x.showTy x.base.showEsc x.base.showOpen x.base.showClose s o pos)
  | .int n => printFmt x.base o pos x.intShow [.int n]
  | .flt b => printFmt x.base o pos x.floatShow [.flt b]

def printItemX (x : XCfg) (o : Sink) (pos : Nat) : Item → Option (Sink × Nat)
  | .shw v =>
    match showToX x o pos v with
    | some (o', ret) => (placeAbs x.printDollar pos ret).map (fun p => (o', p))
    | none => none
  | it => some (printItem x.base o pos it)

def printItemsX (x : XCfg) (o : Sink) (pos : Nat) : List Item → Option (Sink × Nat)
  | [] => some (o, pos)
  | it :: its =>
    match printItemX x o pos it with
    | some (o', p') => printItemsX x o' p' its
    | none => none

/-! ## the reader -/

def relocate (u : PosUpd) (pos : Nat) : Res (Input × Nat) → Res (Input × Nat)
  | .ok (i, ret) => (match placeAbs u pos ret with | some p => .ok (i, p) | none => .unmodelled)
  | r => r

/-- a branch that reads with `format_from(…, &off)` and then `pos += off` (what `withN` computes); any other update is not modelled -/
def offOnly (u : PosUpd) : Res (Input × Nat) → Res (Input × Nat)
  | .ok x => if u = .addOff then .ok x else .unmodelled
  | r => r

/-- first value and result of a nested `scan_from(input, pos, fmt, self)` -/
def nested (d : Val) : Option (List Val × Res (Input × Nat)) → Option Val × Res (Input × Nat)
  | some (v :: _, r) => (some v, r)
  | some ([], r) => (some d, r)
  | none => (some d, .unmodelled)

/-- `look_from(a, input, pos)`: String_Look, or Int_Look / Float_Look = one `scan_from` with the format of Num.c (run through the
    scanner of scan_from_with; the nested call's own branch adds its `%n` count) — returns the new absolute position -/
def lookFromX (x : XCfg) (i : Input) (pos : Nat) : Shape → Option Val × Res (Input × Nat)
  | .str =>
    let (v, r) := i.run pos [63] (lookStringC x.chrTy x.base.look)
    (some (.str v), r)
  | .flt => nested (.flt 0x401E000000000000) (scanFmt x.base i pos x.floatLook [.flt 0x401E000000000000])
  | _ => nested (.int 77) (scanFmt x.base i pos x.intLook [.int 77])

def scanItemX (x : XCfg) (i : Input) (pos : Nat) : Shape → Option Val × Res (Input × Nat)
  | .str => let (v, r) := lookFromX x i pos .str; (v, relocate x.dollar pos r)
  | .int => let (v, r) := lookFromX x i pos .int; (v, relocate x.dollar pos r)
  | .flt => let (v, r) := lookFromX x i pos .flt; (v, relocate x.dollar pos r)
  | .ispec m cv => let (v, r) := scanItem x.base i pos (.ispec m cv); (v, offOnly x.intUpd r)
  | .fspec l cv => let (v, r) := scanItem x.base i pos (.fspec l cv); (v, offOnly x.fltUpd r)
  | .lit t =>
    if x.litReads then
      (match x.litUpd with
       | .addLen => scanItem x.base i pos (.lit t)
       | _ => (none, .unmodelled))
    else
      -- nothing is read: a File stays where it is, `pos` moves on by the length
      (match x.litUpd with
       | .addLen => (none, .ok (i, pos + t.length))
       | _ => (none, .unmodelled))
  | .pct => scanItem x.base i pos .pct

def scanItemsX (x : XCfg) (i : Input) (pos : Nat) : List Shape → List Val × Res (Input × Nat)
  | [] => ([], .ok (i, pos))
  | s :: ss =>
    match scanItemX x i pos s with
    | (v, .ok (i', p')) =>
      let (vs, r) := scanItemsX x i' p' ss
      (v.toList ++ vs, r)
    | (v, .raised e) => (v.toList ++ (ss.filterMap sentinel), .raised e)
    | (v, .ub) => (v.toList ++ (ss.filterMap sentinel), .ub)
    | (v, .unmodelled) => (v.toList ++ (ss.filterMap sentinel), .unmodelled)

/-- `print_to_with` / `scan_from_with` on the raw format string -/
def printFmtX (x : XCfg) (o : Sink) (pos : Nat) (fmt : List Nat) (args : List Val) : Option (Sink × Nat) :=
  (itemsOf (segment x.base.printConv fmt) args).bind (printItemsX x o pos)

def scanFmtX (x : XCfg) (i : Input) (pos : Nat) (fmt : List Nat) (args : List Val) : Option (List Val × Res (Input × Nat)) :=
  (itemsOf (segment x.base.scanConv fmt) args).map (fun its => scanItemsX x i pos (its.map Item.shape))

/-! ## values written / read by calls of their own: `show_to(v, out, pos)` / `look_from(v, input, pos)` called directly (the
      harness's `show` mode and its `K` ops): no `%$` branch is involved, the position the instance returns is the result -/

def printItemD (x : XCfg) (o : Sink) (pos : Nat) : Item → Option (Sink × Nat)
  | .shw v => showToX x o pos v
  | it => printItemX x o pos it

def printItemsD (x : XCfg) (o : Sink) (pos : Nat) : List Item → Option (Sink × Nat)
  | [] => some (o, pos)
  | it :: its =>
    match printItemD x o pos it with
    | some (o', p') => printItemsD x o' p' its
    | none => none

def scanItemD (x : XCfg) (i : Input) (pos : Nat) : Shape → Option Val × Res (Input × Nat)
  | .str => lookFromX x i pos .str
  | .int => lookFromX x i pos .int
  | .flt => lookFromX x i pos .flt
  | sh => scanItemX x i pos sh

def scanItemsD (x : XCfg) (i : Input) (pos : Nat) : List Shape → List Val × Res (Input × Nat)
  | [] => ([], .ok (i, pos))
  | s :: ss =>
    match scanItemD x i pos s with
    | (v, .ok (i', p')) =>
      let (vs, r) := scanItemsD x i' p' ss
      (v.toList ++ vs, r)
    | (v, .raised e) => (v.toList ++ (ss.filterMap sentinel), .raised e)
    | (v, .ub) => (v.toList ++ (ss.filterMap sentinel), .ub)
    | (v, .unmodelled) => (v.toList ++ (ss.filterMap sentinel), .unmodelled)

/-! ## what the theorems need of the parameters, as an executable check -/

/-- the parameters are the ones `Cello/Text.lean` was written against: `%$` assigns what look_from / show_to return, the numeric
    branches add the `%n` count, the literal branch reads and adds its length, the character path goes through (signed or
    unsigned) 8-bit objects, the formats of Num.c are single specifications that the scanners cut as such and map to `%li` / `%f` /
    `%lf`, and the delimiters and case labels of String_Show / String_Look are ASCII -/
def srcLike (x : XCfg) : Bool :=
  x.dollar == .assignCall "look_from" && x.intUpd == .addOff && x.fltUpd == .addOff && x.litReads && x.litUpd == .addLen &&
  x.printDollar == .assignCall "show_to" && x.chrTy == (true, 8) && x.showTy == (true, 8) &&
  segment x.base.printConv x.intShow == [.spec [37, 108, 105]] && segment x.base.scanConv x.intLook == [.spec [37, 108, 105]] &&
  segment x.base.printConv x.floatShow == [.spec [37, 102]] && segment x.base.scanConv x.floatLook == [.spec [37, 108, 102]] &&
  decide (x.base.look.cls < 128) && decide (x.base.look.escb < 128) && decide (x.base.look.opn < 128) &&
  x.base.look.esc.all (fun p => decide (p.1 < 128)) && x.base.showEsc.all (fun p => decide (p.1 < 128))

end Cello.Text
