/-
  Cello/Lifecycle.lean — executable model of the life cycle of collector-managed objects (property C06).

  Mirrors (src/GC.c, src/Alloc.c, src/Pointer.c, src/Thread.c as they are in /repo now, i.e. after fixes 5c00ad8,
  d3e4e44 and d8f0c4f):

    alloc_by        : `set(current(GC), self, $I(root))` for new / new_root, nothing for new_raw
    GC_Set          : `if (not gc->running) return;`  nitems++ … GC_Set_Ptr … `if (nitems > mitems) { GC_Mark; GC_Sweep; }`
    del_by          : del / del_root → `rem(current(GC), self)`;  del_raw → `dealloc(destruct(self))`
    GC_Rem          : `if (not gc->running) return;`  GC_Rem_Ptr;  GC_Resize_Less;  mitems = nitems + nitems/2 + 1
    GC_Rem_Ptr      : `if (gc->nslots is 0 or ptr is NULL) return;` (fix d3e4e44: `del(NULL)` is a no-op, also when a
                      destructor issues it while a sweep is releasing objects — before the fix NULL matched the first
                      *cleared* slot of the pending list and `dealloc(destruct(NULL))` ran inside the collector);
                      found on the pending list (freelist) → slot = NULL, `dealloc(destruct(ptr))`, return;
                      found in the registry → erase, nitems--, `dealloc(destruct(ptr))`;  else nothing
    GC_Mark         : `GC_Unmark(gc)` first (fix d8f0c4f): the mark bits a mark phase starts from are clear even when an
                      exception left the previous mark phase (a `Mark` instance that throws) with bits set
    GC_Sweep        : phase 1: every unmarked non-root entry, in slot order, goes to the pending list and leaves the registry;
                      marks cleared; resize; mitems = …;  phase 2: for each pending slot in order: if non-NULL, slot = NULL,
                      `dealloc(destruct(item))`;  pending list released
    Box_Del         : `del(val)` — the destructor of an owner issues a `del` for what it owns
    GC_Del          : `GC_Unmark(gc)` (fix d8f0c4f), then GC_Sweep — with nothing marked, whatever an abandoned mark phase
                      left behind (roots are not swept) — then the tables are freed
                      (Cello_Exit at program exit, Thread_Init_Run at thread exit)
    alloc / dealloc : `alloc`, `alloc_root`, `alloc_raw` are `alloc_by` (the registration half of `new…`);
                      `dealloc`, `dealloc_raw`, `dealloc_root` are one function that releases the block and never touches
                      the collector (a registered object stays registered: known finding KF-C06-dealloc-registered)
    a destructor that allocates: `new` inside a destructor goes through the same `GC_Set`; when `nitems > mitems` it runs
                      a *nested* `GC_Mark; GC_Sweep` on the same collector, which overwrites `freelist/freenum` of the sweep
                      whose release loop is running and leaves them `NULL/0`: the outer loop stops, the rest of its pending
                      list is abandoned (known finding KF-C06-dtor-alloc).  `St.pending` is that one shared field.

  What is abstract: the registry is a duplicate-free list of (address, root) — its robin-hood layout is C17's business;
  the slot order, which fixes the order of the pending list, is a *parameter* of every collection (`order`), so theorems
  quantify over it.  The marked set of a collection is a parameter too (computing it is C01's business).
  Ownership is an arbitrary relation on identities — cycles included (a ring of boxes, a box that owns itself): a
  destructor cascade terminates, as in the C code, because an object leaves the registry / has its pending slot cleared
  *before* its destructor runs, so the `del` that comes back to it finds nothing.
  Objects are named by identities (`Addr`); a history never reuses an identity (a C address can be reused only after
  `free`, i.e. for what is a new identity here).

  Two switches (`Cfg`) select the behaviour of the two halves of fix 5c00ad8, so that the pre-fix code can be stated
  and refuted; two more select the two halves of the repair proposed for KF-C06-dtor-alloc (not in the source now);
  two select the two halves of fix d8f0c4f (`GC_Unmark` at the start of `GC_Mark` / in `GC_Del`) and one fix d3e4e44
  (the NULL guard of `GC_Rem_Ptr`), so that the code before those fixes stays expressible (`Cfg.staleMarks`,
  `Cfg.nullUnguarded`);  `Cfg.current` is the code that exists.

  Mark bits: `St.marked` are the mark bits that are set in the registry *between* operations.  A completed collection
  leaves none (`GC_Sweep` clears the bit of every survivor between its two phases); the only way to get some is a mark
  phase that an exception leaves before `GC_Sweep` runs (`Op.markAbort marks`).  In the code that exists nothing ever
  reads them: `GC_Mark` and `GC_Del` clear them first.
  Undefined behaviour: `St.ub` records that `dealloc(destruct(NULL))` was executed (the real process dereferences the
  header in front of address 0); only the code before fix d3e4e44 can set it.
-/
namespace Cello.Life

abbrev Addr := Nat

/-- ledger events: the destructor of `a` starts (`fin`), the memory of `a` is released (`free`) -/
inductive Ev where
  | fin (a : Addr)
  | free (a : Addr)
deriving Repr, DecidableEq, Inhabited

/-- how an object was allocated / how it is deleted: `new`/`del`, `new_root`/`del_root`, `new_raw`/`del_raw` -/
inductive Kind where
  | std | root | raw
deriving Repr, DecidableEq, Inhabited

structure Entry where
  addr : Addr
  root : Bool
deriving Repr, DecidableEq, Inhabited

/-- the two halves of fix 5c00ad8 -/
structure Cfg where
  /-- GC_Rem_Ptr finalises an object it strikes off the pending list (before the fix: only struck off) -/
  remFinalisesPending : Bool
  /-- GC_Sweep clears a pending slot before finalising its object -/
  sweepNullsSlot : Bool
  /-- (proposed repair, first half) GC_Set does not start a collection while the release loop of a sweep is running
      (`… and gc->freelist is NULL`) -/
  setGuardsSweep : Bool
  /-- (proposed repair, second half) GC_Del sweeps until only roots are left -/
  teardownRepeats : Bool
  /-- (fix d8f0c4f, first half) GC_Mark calls GC_Unmark before it marks anything -/
  markClearsFirst : Bool
  /-- (fix d8f0c4f, second half) GC_Del calls GC_Unmark before its sweep -/
  teardownUnmarks : Bool
  /-- (fix d3e4e44) GC_Rem_Ptr returns at once for NULL -/
  remGuardsNull : Bool
deriving Repr, DecidableEq, Inhabited

def Cfg.current : Cfg := ⟨true, true, false, false, true, true, true⟩
/-- the code before fix 5c00ad8 (and before the later ones) -/
def Cfg.preFix : Cfg := ⟨false, false, false, false, false, false, false⟩
/-- the code with the repair proposed for KF-C06-dtor-alloc -/
def Cfg.repaired : Cfg := { Cfg.current with setGuardsSweep := true, teardownRepeats := true }
/-- OLD: the code before fix d8f0c4f — no `GC_Unmark`: a mark phase and the teardown sweep start from whatever bits an
    abandoned mark phase left set -/
def Cfg.staleMarks : Cfg := { Cfg.current with markClearsFirst := false, teardownUnmarks := false }
/-- OLD: the code before fix d3e4e44 — `GC_Rem_Ptr(NULL)` walks the pending list -/
def Cfg.nullUnguarded : Cfg := { Cfg.current with remGuardsNull := false }

/-- an allocation made by a destructor: `new` of a leaf object `addr` (its own destructor neither deletes nor allocates);
    `marks`/`order` = marked set and slot order of the collection that this registration runs if `nitems > mitems` -/
structure DAlloc where
  addr : Addr
  marks : List Addr
  order : List Addr
deriving Repr, DecidableEq, Inhabited

structure St where
  /-- registry entries (GC_Set_Ptr / GC_Rem_Ptr / GC_Sweep); `nitems` = `reg.length` -/
  reg : List Entry
  /-- `freelist[0 .. freenum)`: `none` = NULL slot -/
  pending : List (Option Addr)
  running : Bool
  /-- `mitems`: a `set` that makes `nitems > mitems` collects -/
  mitems : Nat
  /-- what the destructor of an object `del`s (Box: its pointee); most recent binding first -/
  owns : List (Addr × List Addr)
  /-- the ledger -/
  log : List Ev
  /-- what the destructor of an object allocates (with `new`) when it runs; most recent binding first -/
  dalloc : List (Addr × List DAlloc)
  /-- registered objects whose mark bit is set between operations: left by a mark phase that an exception abandoned -/
  marked : List Addr
  /-- objects whose destructor also issues `del(NULL)` (after its other deletions) -/
  nulldel : List Addr
  /-- `dealloc(destruct(NULL))` was executed inside the collector: undefined behaviour (the real process crashes) -/
  ub : Bool
deriving Repr, Inhabited

/-- state of a fresh collector (`GC_New` on zeroed memory: `mitems = 0`, `running = true`) -/
def St.init : St := ⟨[], [], true, 0, [], [], [], [], [], false⟩

def St.dallocOf (s : St) (a : Addr) : List DAlloc :=
  match s.dalloc.find? (fun p => p.1 == a) with
  | some p => p.2
  | none => []

def St.ownsOf (s : St) (a : Addr) : List Addr :=
  match s.owns.find? (fun p => p.1 == a) with
  | some p => p.2
  | none => []

def St.regAddrs (s : St) : List Addr := s.reg.map (·.addr)

def St.isReg (s : St) (a : Addr) : Bool := s.reg.any (fun e => e.addr == a)

/-- `gc->mitems = gc->nitems + gc->nitems / 2 + 1` -/
def threshold (n : Nat) : Nat := n + n / 2 + 1

/-- `freelist[i] = NULL` for the slot holding `x` (addresses on the pending list are distinct) -/
def strike (x : Addr) (p : List (Option Addr)) : List (Option Addr) :=
  p.map (fun o => if o = some x then none else o)

/-- registry without `x` (robin-hood erase + backward shift, abstractly) -/
def eraseReg (x : Addr) (r : List Entry) : List Entry := r.filter (fun e => e.addr != x)

/-- `GC_Rem_Ptr`, with `fin = fun s a => dealloc(destruct(a))` in state `s` -/
def gcRemPtr (fin : St → Addr → St) (c : Cfg) (s : St) (x : Addr) : St :=
  if s.pending.contains (some x) then
    let s1 := { s with pending := strike x s.pending }
    if c.remFinalisesPending then fin s1 x else s1
  else if s.isReg x then
    fin { s with reg := eraseReg x s.reg } x
  else s

/-- `GC_Rem(gc, NULL)` (= `del(NULL)` / `del_root(NULL)`, by the program or by a destructor).  `GC_Rem_Ptr` returns at once
    (`ptr is NULL`); `GC_Rem` still recomputes `mitems`.  Before fix d3e4e44 the loop over the pending list compared NULL
    with every slot: the first *cleared* slot matched and `dealloc(destruct(NULL))` ran (before fix 5c00ad8 a matching
    slot was only cleared again); with no cleared slot the registry lookup of NULL finds nothing. -/
def gcRemNull (c : Cfg) (s : St) : St :=
  if !s.running then s else
  let s1 := if c.remGuardsNull then s
            else if s.pending.contains none && c.remFinalisesPending then { s with ub := true } else s
  { s1 with mitems := threshold s1.reg.length }

/-- `GC_Rem` (= `del` / `del_root`, also when issued by a destructor) -/
def gcRem (fin : St → Addr → St) (c : Cfg) (s : St) (x : Addr) : St :=
  if !s.running then s else
  let s1 := gcRemPtr fin c s x
  { s1 with mitems := threshold s1.reg.length }

/-- the slot order of a collection: the candidates listed in `order` first, in that order, then the others -/
def arrange : List Addr → List Addr → List Addr
  | [], cand => cand
  | o :: os, cand => if cand.contains o then o :: arrange os (cand.erase o) else arrange os cand

def swept (marks : List Addr) (e : Entry) : Bool := !e.root && !marks.contains e.addr

/-- the mark bits that are set when a mark phase that marks `marks` has run: `GC_Mark` clears every bit first
    (`GC_Unmark`, fix d8f0c4f); before the fix the bits an abandoned mark phase had left were still there -/
def markBits (c : Cfg) (s : St) (marks : List Addr) : List Addr :=
  if c.markClearsFirst then marks else s.marked ++ marks

/-- the mark bits `GC_Del`'s sweep reads: none (`GC_Unmark`, fix d8f0c4f); before the fix, the stale ones -/
def teardownBits (c : Cfg) (s : St) : List Addr :=
  if c.teardownUnmarks then [] else s.marked

/-- the pending list `GC_Sweep` builds from registry `s.reg` with marked set `marks` and slot order `order` -/
def pendingOf (s : St) (marks order : List Addr) : List Addr :=
  arrange order ((s.reg.filter (swept marks)).map (·.addr))

/-- phase 2 of `GC_Sweep` over the pending addresses `todo` (the pending list as built by phase 1), with
    `fin = fun s a => dealloc(destruct(a))`: a slot that is still non-NULL is cleared (fix) and its object finalised.
    The loop reads `freelist`/`freenum` of the collector afresh at every turn (`i < gc->freenum`, `gc->freelist[i]`):
    if a nested collection has replaced and released them, nothing is found any more. -/
def sweepLoopWith (fin : St → Addr → St) (c : Cfg) : List Addr → St → St
  | [], s => s
  | a :: rest, s =>
    let s' :=
      if s.pending.contains (some a) then
        let s1 := if c.sweepNullsSlot then { s with pending := strike a s.pending } else s
        fin s1 a
      else s
    sweepLoopWith fin c rest s'

/-- `GC_Sweep` when the mark bits `marks` are set; `order` = slot order of the registry.  The pending list is a field of
    the collector: it is overwritten at the start (`realloc`, `freenum = 0`) and released at the end (`NULL`, `0`),
    whatever it held.  Between the two phases the mark bit of every survivor is cleared. -/
def sweepWith (fin : St → Addr → St) (c : Cfg) (s : St) (marks order : List Addr) : St :=
  let pend := pendingOf s marks order
  let reg' := s.reg.filter (fun e => !swept marks e)
  let s1 := { s with reg := reg', pending := pend.map some, mitems := threshold reg'.length, marked := [] }
  let s2 := sweepLoopWith fin c pend s1
  { s2 with pending := [] }

/-- `GC_Set` (the registration done by `alloc_by`); `sw` = `GC_Sweep` with the given mark bits and slot order, `marks` =
    what the `GC_Mark` before it marks.
    With the proposed repair (`c.setGuardsSweep`) no collection is started while a release loop is running. -/
def gcSet (sw : St → List Addr → List Addr → St) (c : Cfg) (s : St) (a : Addr) (root : Bool) (marks order : List Addr) : St :=
  if !s.running then s else
  let s1 := { s with reg := s.reg ++ [⟨a, root⟩] }
  if s1.reg.length > s1.mitems && !(c.setGuardsSweep && !s.pending.isEmpty) then sw s1 (markBits c s1 marks) order else s1

/-- `dealloc(destruct(a))`: the destructor logs, allocates what it allocates (each `new` through `GC_Set`, which may run
    a nested collection on the same collector), `del`s what the object owns (through `GC_Rem`), issues its `del(NULL)` if
    it is of that kind, then the memory is released.  `fuel` bounds the nesting of destructors; `fuelFor` always suffices when no destructor allocates (theorem
    `finalise_spec`): every nested call is preceded by the removal of one object from the registry or the pending list.
    Out of fuel the state is returned unchanged, i.e. with the events *missing* — no theorem can hold because of that. -/
def finalise : Nat → Cfg → St → Addr → St
  | 0, _, s, _ => s
  | fuel + 1, c, s, a =>
    let s1 := { s with log := s.log ++ [Ev.fin a] }
    let s2 := (s.dallocOf a).foldl
      (fun st d => gcSet (sweepWith (finalise fuel c) c) c st d.addr false d.marks d.order) s1
    let s3 := (s.ownsOf a).foldl (fun st x => gcRem (finalise fuel c) c st x) s2
    let s4 := if s.nulldel.contains a then gcRemNull c s3 else s3
    { s4 with log := s4.log ++ [Ev.free a] }

/-- number of allocations the destructors known to the collector state can still make -/
def St.dallocTotal (s : St) : Nat := (s.dalloc.map (fun p => p.2.length)).foldl (· + ·) 0

def fuelFor (s : St) : Nat := s.reg.length + s.pending.length + 1 + s.dallocTotal

def sweepLoop (fuel : Nat) (c : Cfg) : List Addr → St → St := sweepLoopWith (finalise fuel c) c

/-- `GC_Sweep` called between operations (by `GC_Set`, `GC_Del`, or the program) -/
def sweep (c : Cfg) (s : St) (marks order : List Addr) : St :=
  sweepWith (finalise (fuelFor s) c) c s marks order

/-- `alloc_by`: `alloc` / `alloc_root` register the block with the collector, `alloc_raw` does not -/
def allocBy (c : Cfg) (s : St) (a : Addr) (k : Kind) (marks order : List Addr) : St :=
  match k with
  | .raw => s
  | _ => gcSet (sweep c) c s a (k == .root) marks order

/-- `GC_Del` with the proposed repair (on top of the code that exists: `GC_Unmark` first): sweep until only roots are left
    (`fuel` rounds at most) -/
def sweepAll (c : Cfg) : Nat → St → List Addr → St
  | 0, s, _ => s
  | n + 1, s, order =>
    let s' := sweep c s [] order
    if s'.reg.any (fun e => !e.root) then sweepAll c n s' order else s'

inductive Op where
  /-- `new`/`new_root`/`new_raw` of an object whose destructor will `del` the objects `owned`; `marks`/`order` are used
      if the registration triggers a threshold collection (which happens before the constructor runs) -/
  | new (a : Addr) (k : Kind) (owned : List Addr) (marks order : List Addr)
  /-- `ref(a, x)` (Box_Ref): the owner `a` is re-pointed; from now on its destructor `del`s `owned`.  This is how
      ownership cycles come about (a ring of boxes, a box owning itself); the previous pointee is simply dropped -/
  | own (a : Addr) (owned : List Addr)
  /-- `del` / `del_root` / `del_raw` issued by the program -/
  | del (a : Addr) (k : Kind)
  /-- a collection (`GC_Mark; GC_Sweep`) whose mark phase marked `marks` -/
  | collect (marks order : List Addr)
  | stop
  | start
  /-- `GC_Del`: thread exit / program exit -/
  | teardown (order : List Addr)
  /-- `alloc` / `alloc_root` / `alloc_raw`: the registration half of `new…`, no constructor -/
  | alloc (a : Addr) (k : Kind) (marks order : List Addr)
  /-- `dealloc(destruct(a))` issued by the program (`dealloc`, `dealloc_raw`, `dealloc_root` are the same function) -/
  | dealloc (a : Addr) (k : Kind)
  /-- the object `a` is of a type whose destructor allocates: when it runs it does `new` for each of `allocs`, in order -/
  | dtor (a : Addr) (allocs : List DAlloc)
  /-- a mark phase (`GC_Mark`) that an exception leaves — a `Mark` instance that throws — after it has marked `marks`:
      no `GC_Sweep` follows, the bits stay set -/
  | markAbort (marks : List Addr)
  /-- the object `a` is of a type whose destructor also issues `del(NULL)` -/
  | nulldel (a : Addr)
  /-- `del(NULL)` / `del_root(NULL)` issued by the program -/
  | delNull
  /-- the object `b` is an instance of the run-time Type object `t` (`t = new(Type, …)`, `b = new(t)`): the header of `b`
      points at `t`.  A declaration: the collector never follows that pointer (`GC_Recurse`/`GC_Mark_Item` do not trace
      the header) and no release loop orders `t` after `b`; read by `releasedFirstFrom` only -/
  | typed (b t : Addr)
  /-- the object `a` is of a type whose destructor raises an exception (at the end of its body: after its allocations
      and deletions).  A declaration: the core `step` ignores it, the exception-aware mirror `stepX` below reads it -/
  | raises (a : Addr)
deriving Repr, Inhabited, DecidableEq

def step (c : Cfg) (s : St) : Op → St
  | .new a k owned marks order =>
    let s1 := allocBy c s a k marks order
    -- the constructor (Box_New: `val` assigned) runs after the registration
    { s1 with owns := (a, owned) :: s1.owns }
  | .own a owned => { s with owns := (a, owned) :: s.owns }
  | .del a k =>
    match k with
    | .raw => finalise (fuelFor s) c s a
    | _ => gcRem (finalise (fuelFor s) c) c s a
  | .collect marks order => sweep c s (markBits c s marks) order
  | .stop => { s with running := false }
  | .start => { s with running := true }
  | .teardown order => if c.teardownRepeats then sweepAll c (fuelFor s) s order else sweep c s (teardownBits c s) order
  | .alloc a k marks order => allocBy c s a k marks order
  | .dealloc a _ => finalise (fuelFor s) c s a
  | .dtor a allocs => { s with dalloc := (a, allocs) :: s.dalloc }
  -- (`GC_Mark` returns before `GC_Unmark` when `nitems is 0`: no entry, no bit)
  | .markAbort marks => { s with marked := (markBits c s marks).filter s.isReg }
  | .nulldel a => { s with nulldel := a :: s.nulldel }
  | .delNull => gcRemNull c s
  | .typed _ _ => s
  | .raises _ => s

def run (c : Cfg) (s : St) (ops : List Op) : St := ops.foldl (step c) s

/-- the pending list built by the collection that `op` performs in state `s` (`[]` if it performs none): reported by the
    driver next to the harness's snapshot of the real `freelist` -/
def stepPending (c : Cfg) (s : St) : Op → List Addr
  | .new a k _ marks order | .alloc a k marks order =>
    match k with
    | .raw => []
    | _ =>
      if !s.running then [] else
      let s1 := { s with reg := s.reg ++ [⟨a, k == .root⟩] }
      if s1.reg.length > s1.mitems then pendingOf s1 (markBits c s1 marks) order else []
  | .collect marks order => pendingOf s (markBits c s marks) order
  | .teardown order => pendingOf s (teardownBits c s) order
  | _ => []

/-! ### the mark phase as far as ownership edges are concerned (used by the driver to predict the marked set of
    `GC_Mark`-driven collections: roots, the harness's anchor (held objects) and the object being registered) -/

/-- `GC_Mark_Item` on each of `todo`: a registered, not yet marked object is marked and what it points to (its `owns`)
    is visited; anything else is skipped -/
def markFrom (s : St) : Nat → List Addr → List Addr → List Addr
  | 0, _, marked => marked
  | fuel + 1, todo, marked =>
    todo.foldl (fun m x =>
      if s.isReg x && !m.contains x then markFrom s fuel (s.ownsOf x) (x :: m) else m) marked

/-- marked set of `GC_Mark` when the stack and the thread-local storage reach exactly `held` (each visited with
    `GC_Mark_And_Recurse`: an unregistered held object is traced, not marked) -/
def markSet (s : St) (held : List Addr) : List Addr :=
  let fuel := s.reg.length + 2
  let m0 := held.foldl (fun m h =>
    if s.isReg h then markFrom s fuel [h] m else markFrom s fuel (s.ownsOf h) m) []
  (s.reg.filter (·.root)).foldl (fun m e => markFrom s fuel [e.addr] m) m0

/-! ### second layer: run-time Type objects and destructors that raise

  Two things the core model above has no word for (second-round audit, items 1 and 2):

  * **the type edge.**  An object refers to its Type (`header(b)->type`).  For a Type created at run time with
    `new(Type, …)` that Type is itself a registered object of the collector, but nothing keeps it alive for its
    instances: the mark phase does not trace the header, and the release loop of `GC_Sweep` runs in slot order.
    When the Type's memory is released while an instance of it has not been released yet, the instance's header
    dangles; at the latest `destruct(instance)` (`instance(x, New)` = `type_instance(type_of(x), New)`) reads the freed
    Type: undefined behaviour (known finding KF-C06-type-released-first).  `releasedFirstFrom` decides that event on
    the ledger; from that point on the model says nothing about the process (the driver prints `ub` and stops).
  * **a destructor that raises.**  The release loop of `GC_Sweep` and `GC_Rem_Ptr` have no handler: the exception leaves
    `dealloc(destruct(item))` before `dealloc` (no `free` event for the object), skips the rest of every enclosing
    destructor (their `free` events too), skips `GC_Rem`'s `mitems` update, leaves the release loop with the rest of the
    pending list still set (`freelist`/`freenum` are not released — a later `del` of such an object still finds it there,
    the next `GC_Sweep` overwrites and forgets them) and arrives in the program through `GC_Set`/`new` (the object being
    allocated stays registered, unconstructed), `del`, or out of `GC_Del` at exit (known finding KF-C06-dtor-raises).
    The functions with suffix `R` are the functions above with that control flow: they return the state and whether an
    exception is propagating.  `stepX` uses them only once a raising destructor has been declared: for every history
    without one the second layer *is* the core model (`runX_core`, by definition), so every theorem about `run` is a
    theorem about `runX` under the explicit hypothesis `NoRaise`. -/

/-- `GC_Rem_Ptr` when `dealloc(destruct(·))` may raise -/
def gcRemPtrR (fin : St → Addr → St × Bool) (c : Cfg) (s : St) (x : Addr) : St × Bool :=
  if s.pending.contains (some x) then
    let s1 := { s with pending := strike x s.pending }
    if c.remFinalisesPending then fin s1 x else (s1, false)
  else if s.isReg x then
    fin { s with reg := eraseReg x s.reg } x
  else (s, false)

/-- `GC_Rem`: an exception out of `GC_Rem_Ptr` skips `GC_Resize_Less` and the `mitems` update -/
def gcRemR (fin : St → Addr → St × Bool) (c : Cfg) (s : St) (x : Addr) : St × Bool :=
  if !s.running then (s, false) else
  let r := gcRemPtrR fin c s x
  if r.2 then r else ({ r.1 with mitems := threshold r.1.reg.length }, false)

/-- phase 2 of `GC_Sweep`: an exception out of `dealloc(destruct(item))` leaves the loop -/
def sweepLoopR (fin : St → Addr → St × Bool) (c : Cfg) : List Addr → St → St × Bool
  | [], s => (s, false)
  | a :: rest, s =>
    if s.pending.contains (some a) then
      let s1 := if c.sweepNullsSlot then { s with pending := strike a s.pending } else s
      let r := fin s1 a
      if r.2 then r else sweepLoopR fin c rest r.1
    else sweepLoopR fin c rest s

/-- `GC_Sweep`: when the release loop is left by an exception the pending list is *not* released -/
def sweepWithR (fin : St → Addr → St × Bool) (c : Cfg) (s : St) (marks order : List Addr) : St × Bool :=
  let pend := pendingOf s marks order
  let reg' := s.reg.filter (fun e => !swept marks e)
  let s1 := { s with reg := reg', pending := pend.map some, mitems := threshold reg'.length, marked := [] }
  let r := sweepLoopR fin c pend s1
  if r.2 then r else ({ r.1 with pending := [] }, false)

def gcSetR (sw : St → List Addr → List Addr → St × Bool) (c : Cfg) (s : St) (a : Addr) (root : Bool)
    (marks order : List Addr) : St × Bool :=
  if !s.running then (s, false) else
  let s1 := { s with reg := s.reg ++ [⟨a, root⟩] }
  if s1.reg.length > s1.mitems && !(c.setGuardsSweep && !s.pending.isEmpty) then sw s1 (markBits c s1 marks) order
  else (s1, false)

/-- `dealloc(destruct(a))` when the destructors of the objects `rs` raise (at the end of their bodies) -/
def finaliseR (rs : List Addr) : Nat → Cfg → St → Addr → St × Bool
  | 0, _, s, _ => (s, false)
  | fuel + 1, c, s, a =>
    let s1 := { s with log := s.log ++ [Ev.fin a] }
    let r2 := (s.dallocOf a).foldl
      (fun (r : St × Bool) d =>
        if r.2 then r else gcSetR (sweepWithR (finaliseR rs fuel c) c) c r.1 d.addr false d.marks d.order) (s1, false)
    let r3 := (s.ownsOf a).foldl
      (fun (r : St × Bool) x => if r.2 then r else gcRemR (finaliseR rs fuel c) c r.1 x) r2
    let r4 := if !r3.2 && s.nulldel.contains a then (gcRemNull c r3.1, false) else r3
    if r4.2 then r4
    else if rs.contains a then (r4.1, true)
    else ({ r4.1 with log := r4.1.log ++ [Ev.free a] }, false)

def sweepR (rs : List Addr) (c : Cfg) (s : St) (marks order : List Addr) : St × Bool :=
  sweepWithR (finaliseR rs (fuelFor s) c) c s marks order

def allocByR (rs : List Addr) (c : Cfg) (s : St) (a : Addr) (k : Kind) (marks order : List Addr) : St × Bool :=
  match k with
  | .raw => (s, false)
  | _ => gcSetR (sweepR rs c) c s a (k == .root) marks order

/-- one operation when the destructors of `rs` raise; the Bool says that an exception arrived in the program (which
    catches it; at teardown nobody does: `Uncaught …`, the process exits with status 1) -/
def stepR (rs : List Addr) (c : Cfg) (s : St) : Op → St × Bool
  | .new a k owned marks order =>
    let r := allocByR rs c s a k marks order
    -- the exception comes out of `alloc`: the constructor does not run
    if r.2 then r else ({ r.1 with owns := (a, owned) :: r.1.owns }, false)
  | .del a k =>
    match k with
    | .raw => finaliseR rs (fuelFor s) c s a
    | _ => gcRemR (finaliseR rs (fuelFor s) c) c s a
  | .collect marks order => sweepR rs c s (markBits c s marks) order
  | .teardown order => sweepR rs c s (teardownBits c s) order
  | .alloc a k marks order => allocByR rs c s a k marks order
  | .dealloc a _ => finaliseR rs (fuelFor s) c s a
  | op => (step c s op, false)

/-- state of the second layer: the collector, the type edges, the raising destructors, and what has gone wrong so far -/
structure XSt where
  core : St
  /-- (instance, its run-time Type object) -/
  types : List (Addr × Addr)
  /-- objects whose destructor raises -/
  raises : List Addr
  /-- number of exceptions that a destructor run by the collector sent into the program so far -/
  escaped : Nat
deriving Repr, Inhabited

def XSt.init : XSt := ⟨St.init, [], [], 0⟩

/-- the second layer is the core model until a raising destructor is declared -/
def stepX (c : Cfg) (x : XSt) (op : Op) : XSt :=
  match op with
  | .typed b t => { x with types := (b, t) :: x.types }
  | .raises a => { x with raises := a :: x.raises }
  | op =>
    if x.raises.isEmpty then { x with core := step c x.core op }
    else
      let r := stepR x.raises c x.core op
      { x with core := r.1, escaped := x.escaped + (if r.2 then 1 else 0) }

def runX (c : Cfg) (x : XSt) (ops : List Op) : XSt := ops.foldl (stepX c) x

/-- **a run-time Type object released before one of its instances**: some `free t` of the ledger `log` comes at a moment
    when an instance `b` of `t` has not been released (`freed` = what had been released before `log` started) -/
def releasedFirstFrom (freed : List Addr) (types : List (Addr × Addr)) : List Ev → Bool
  | [] => false
  | Ev.free a :: rest =>
    types.any (fun p => p.2 == a && p.1 != a && !freed.contains p.1) || releasedFirstFrom (a :: freed) types rest
  | _ :: rest => releasedFirstFrom freed types rest

def XSt.releasedFirst (x : XSt) : Bool := releasedFirstFrom [] x.types x.core.log

end Cello.Life
