/-
  Cello/RBTreeWord.lean — the parent-and-colour word of a Tree node (engine `tree`, C03), core Lean only.

  A node of src/Tree.c starts with three link words: left, right, and ONE word that holds the parent pointer with the colour
  in its low bit.  Four functions touch that word — `Tree_Get_Parent`, `Tree_Set_Parent`, `Tree_Set_Color`, `Tree_Get_Color`
  (`Tree_Set_Red/Black`, `Tree_Is_Red/Black` are calls of these) — and everything else in Tree.c goes through them.  The
  zipper model of Cello/RBTree.lean keeps parent and colour apart (`Frame.c`, the `Path`); this file is what ties the two:
  the expressions the four functions compute are read from the source on every run (`CelloGen.Tree.getParentExpr` …, PW
  terms over the local `ptr`), evaluated here on words (`pwEval`), and `C03_parent_word_current_source` says that with
  them the word IS a pair (parent address, colour) for even addresses (`encodeW`): reading gives back what was written,
  `Tree_Set_Parent` keeps the colour, `Tree_Set_Color` keeps the parent.

  Words and addresses are natural numbers; `e & (~1)`, `e | 1`, `e & 1` are evaluated arithmetically (`x - x % 2`,
  `x + (1 - x % 2)`, `x % 2`), which is what they are on unsigned machine words.
-/
import CelloGen.Tree
import Cello.RBTree
namespace Cello.RB
open CelloGen.Tree (PW)

/-- the value of an expression over `ptr` -/
def pwEval (x : Nat) : PW → Nat
  | .arg => x
  | .clearLow e => pwEval x e - pwEval x e % 2
  | .setLow e => pwEval x e + (1 - pwEval x e % 2)
  | .low e => pwEval x e % 2

/-- `Tree_Get_Parent`: from the word -/
def getParentWith (e : PW) (w : Nat) : Nat := pwEval w e
/-- `Tree_Get_Color` of a node that is not NULL: from the word, non-zero = red -/
def getColorWith (e : PW) (w : Nat) : Bool := pwEval w e != 0
/-- `Tree_Set_Parent(m, node, ptr)`: the new word, from the old word `w` (its colour is tested) and `ptr` -/
def setParentWith (gc : PW) (testRed : Bool) (thenE elseE : PW) (w p : Nat) : Nat :=
  if getColorWith gc w == testRed then pwEval p thenE else pwEval p elseE
/-- `Tree_Set_Color(m, node, col)`: `ptr = Tree_Get_Parent(m, node)`, then the new word -/
def setColorWith (gp : PW) (testCol : Bool) (thenE elseE : PW) (w : Nat) (col : Bool) : Nat :=
  if col == testCol then pwEval (getParentWith gp w) thenE else pwEval (getParentWith gp w) elseE

/-! the four functions of the source as it is now -/
def getParentW (w : Nat) : Nat := getParentWith CelloGen.Tree.getParentExpr w
def getColorW (w : Nat) : Bool := getColorWith CelloGen.Tree.getColorExpr w
def setParentW (w p : Nat) : Nat :=
  setParentWith CelloGen.Tree.getColorExpr CelloGen.Tree.setParentTestRed CelloGen.Tree.setParentThen CelloGen.Tree.setParentElse w p
def setColorW (w : Nat) (col : Bool) : Nat :=
  setColorWith CelloGen.Tree.getParentExpr CelloGen.Tree.setColorTestCol CelloGen.Tree.setColorThen CelloGen.Tree.setColorElse w col

/-- the word that stands for (parent at address `a`, colour `c`) -/
def encodeW (a : Nat) (c : Color) : Nat := a + (if c = .R then 1 else 0)

def colorOfW (w : Nat) : Color := if getColorW w then .R else .B

/-- the word of a node fresh from `Tree_Alloc`: `calloc` (0), `Tree_Set_Parent(m, node, NULL)`, `Tree_Set_Red(m, node)` -/
def allocW : Nat := setColorW (setParentW 0 0) true

/-! ## the link table of a whole tree, through the words

    Every node gets an address (16 · (preorder index + 1): `calloc` returns 16-aligned blocks); its word is built the way the
    code builds it — `Tree_Alloc`, then `Tree_Set_Parent` to the parent's address, then `Tree_Set_Color` to the node's
    colour — and READ BACK with `Tree_Get_Parent` / `Tree_Get_Color`.  `linkTable` lists per node in preorder: key, address
    read back as parent (0 = NULL), colour read back. The driver prints it beside the harness's decoding of the raw words. -/

variable {α β : Type}

/-- preorder: (key, address, parent address, colour) as the model has them -/
def nodesPre : T α β → Nat → Nat → List (α × Nat × Nat × Color) × Nat
  | .nil, _, next => ([], next)
  | .node c l k _ r, parent, next =>
    let me := 16 * (next + 1)
    let rl := nodesPre l me (next + 1)
    let rr := nodesPre r me rl.2
    ((k, me, parent, c) :: (rl.1 ++ rr.1), rr.2)

/-- per node: key, own address, parent and colour decoded from the word the accessors build -/
def linkTable (t : T α β) : List (α × Nat × Nat × Color) :=
  (nodesPre t 0 0).1.map (fun e =>
    let w := setColorW (setParentW allocW e.2.2.1) (e.2.2.2 = .R)
    (e.1, e.2.1, getParentW w, colorOfW w))

end Cello.RB
