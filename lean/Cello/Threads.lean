/-
  Cello/Threads.lean — executable model of Cello's thread bookkeeping (src/Thread.c, src/Start.c `start_in/stop_in`,
  GC_Current / GC_New / GC_Del / GC_Set / GC_Rem / GC_Sweep of src/GC.c, Exception_New / Exception_Del /
  Exception_Current of src/Exception.c, the lazily filled class cache of src/Type.c `Type_Instance`) for property C13.

  What is mirrored
  ----------------
  * `current(Thread)` (Thread_Current: pthread_getspecific(Thread_Key_Wrapper), or the lazily created main wrapper) is
    the *only* way the library reaches per-thread state.  The model makes that explicit: the global state is
    `thr : Tid → TS`, and the step of a local operation executed by thread `t` is `lstep … t op (g.thr t)` — it is
    handed the component of `t` and nothing else (plus the process-wide class cache, see below).
  * `TS` is `struct Thread` together with what hangs off its `tls` table: the collector under the reserved key
    "__GC" (`gc`), the exception record under "__Exception" (`exc`, = `Cello.Exn.St`), the user's keys (`tls`).
  * `LOp.begin_` / `LOp.end_` are the prologue and epilogue of `Thread_Init_Run`, in the order of the UNIX variant:
        pthread_setspecific; is_running = true; gc = new_raw(GC, &bottom); exc = new_raw(Exception);
        x = call_with(func, args);
        del_raw(args); del_raw(gc); del_raw(exc);
    `del_raw(gc)` is `GC_Del`: `GC_Unmark; GC_Sweep` — a sweep **without a mark phase**, from clear mark bits (commit
    d8f0c4f): every non-root entry is finalised — then `rem(current(Thread), "__GC")`.  The order of the last two calls is read from the source (`Cfg.gcFirst`,
    CelloGen.Thr.teardownGcFirst): before commit 7de4bbc the exception record was deleted first, and a destructor
    that enters a `try` block during the teardown sweep found no `current(Exception)` — `get` raises KeyError, which
    needs `current(Exception)` again: unbounded recursion, the process dies (`Out.crash`).
  * allocation: `alloc_by` → `set(current(GC), self, root)` → `GC_Set_Ptr` (a pointer already present is left alone);
    `del` → `rem(current(GC), self)` → `GC_Rem_Ptr`: looked up in the *calling* thread's registry; found → removed and
    finalised, not found → nothing happens (so `del` of another thread's object finalises nothing).
  * a collection (`GC_Mark; GC_Sweep`, triggered inside `GC_Set` when `nitems > mitems`) is the separate op
    `LOp.collect stack`: marked = the thread's TLS values (`mark(current(Thread), …)`) ∪ roots ∪ `stack`, where `stack`
    stands for whatever the conservative scan of the thread's own stack finds (any list: the theorems quantify over it).
    A C-level `new` is therefore `LOp.new` optionally followed by a `LOp.collect S` for some `S`.
  * the class cache (`Type_Cache_Entry`): a process-wide memo shared by all threads; a miss runs `Type_Scan` (the
    declaration, `Cfg.scan`) and stores a non-NULL result.  It only ever stores the declared value.
  * Mutex: `pthread_mutex_t` of the default kind as a `holder : Option Tid` machine: `lock` is enabled when free
    (otherwise the caller blocks: the event does not happen, `Out.blocked` — also for a relock by the holder, which
    deadlocks), `trylock` never blocks and returns whether it acquired (EBUSY → `false`), `unlock` by the holder
    releases; `unlock` by anyone else is undefined behaviour of the primitive (`Out.ub`).  `with (x in m)` is
    `start_in(m)` … `stop_in(m)` = `Mutex_Lock` … `Mutex_Unlock` through the `Start` instance of `Mutex`: same events.
    The translation of primitive error codes into exceptions (`lockTr`, `trylockTr`, `unlockTr`, `joinTr`) is as coded
    (`joinTrOld`: `Thread_Join` before commit 484991f, which had no case for EDEADLK; `Cfg.joinIgnoresDeadlk` selects it).
  * a Thread object whose run has been joined may be called again (`spawn` of a `done`, joined thread): a new pthread
    with the same `struct Thread`; its thread-local table, ledger and published cell persist, the collector and the
    exception record are created afresh by the prologue.
  * `join u` (Thread_Join → pthread_join) is enabled only when `u` has finished `Thread_Init_Run` (phase `done`).
    A Thread object that was never called has `thread == 0`: Thread_Join returns at once (`Out.nothread`).

  * a Thread object made the documented way, `var x = new(Thread, f)`, is an object of the *creator's* collector
    (`G.wraps`: thread `u`'s `struct Thread` is the managed object `⟨s, thrBase + u⟩` of thread `s`; op-file line
    `s newthr u` = `.loc s (.new (thrBase+u) false false)` followed by `.bind s u`).  `GC_Mark_Item` → `GC_Recurse` calls
    the `Mark` instance of whatever registered object it meets; for a Thread object that is `Thread_Mark` →
    `mark(t->tls, gc, f)`: **the mark phase of `s` walks the thread-local table of `u`** (`foreignMarks`; `Cfg.foreignMark`
    is read from the source: `Thread_Mark` does not test `self is current(Thread)`).  In the model the walk is an atomic
    read at operation granularity: own objects of `s` that `u`'s table refers to are marked.  In C it is an unsynchronised
    read of a table its owner rewrites (set/rem, prologue and epilogue of `Thread_Init_Run`): KF-C13-mark-foreign-tls.
    GUARDED variant (`Cfg.foreignMark = false`: `if (self is current(Thread)) { mark(t->tls, gc, f); }`, commit 80c795e,
    withdrawn by commit 0a0ad73): the Thread object of another thread is a leaf of the mark phase (`foreignMarks … = []`);
    then nothing keeps alive an object that is held only through the table of a Thread object that is not running.
    When a sweep (collection, `del`, teardown) of `s` finalises the Thread object, `Thread_Del` frees `u`'s table:
    for a live `u` that is a use after free (`wrapperKilled` → `Out.ub`, not executed), afterwards `call`/`join` on
    the dead Thread object is `ub` (`wrapperGone`).  Thread objects as thread-local *values* are not modelled (`tset` of a
    serial ≥ `thrBase` is `bad`).
  * `join(current(Thread))`: `pthread_join` reports EDEADLK, for which `Thread_Join` raises ResourceError (commit 484991f):
    the caller's exception record takes the exception (`caught`), nothing else changes, the outcome is `raised`.
    OLD variant (`Cfg.joinIgnoresDeadlk = true`): `Thread_Join` had no case for EDEADLK and returned at once
    (`Out.early`) while the thread function was running: the repaired defect KF-C13-join-edeadlk.
  * `pubo o` / `rdo u`: the thread stores a pointer into a Ref of the joiner (`ref(out, o)`), the joiner dereferences
    it.  The teardown of `u` finalises every non-root object `u` allocated before `join` can return, so such a pointer
    dangles (`Out.dangling`): KF-C13-join-result-finalised.

  * `call(x, a…)`: `Thread_Call` keeps `t->args = assign(alloc_raw(type_of(args)), args)` — a **raw** copy of the argument
    tuple: pointers to the argument objects in a block no collector knows; `Thread_Mark` presents `t->tls` only.  Model:
    `G.args` (per Thread object: the pointers in `t->args`); `Ev.spawn` is `call(x)` (an empty tuple), the event
    `Ev.arg t u os` that follows it while `u` is still `ready` is the tuple `os` of `call(x, os…)` (the copy is made before
    `pthread_create`; nothing of `u` can be observed before its prologue, so the order of the two halves is not
    observable); `Ev.rdarg u i` is `get(args, $I(i))` in the thread function followed by a use of the object.  Nothing
    marks through `t->args`: a collection of the argument's owner that does not find the object elsewhere (its own stack,
    thread-local values, roots) finalises it while the thread uses it (`Out.dangling`): KF-C13-thread-arg-collected.

  What the model cannot exhibit: data races and memory-model effects (the model is sequentially consistent at op
  granularity), the pthread implementation, signals.  The C harness covers those by running real threads.
-/
import Cello.Exn

namespace Cello.Thr

abbrev Tid := Nat

/-- an object's name: the thread that allocated it and a per-thread serial.  Ops may name *any* object (also another
    thread's); the owner is part of the name only so that theorems can talk about it. -/
structure Obj where
  owner : Tid
  k : Nat
deriving DecidableEq, Repr, Inhabited

/-- `struct GC`, abstractly: the registry entries `(ptr, root)` -/
structure GC where
  reg : List (Obj × Bool)
deriving DecidableEq, Repr, Inhabited

/-- `GC_Set_Ptr`: a pointer that is already registered is left alone -/
def GC.set (g : GC) (o : Obj) (root : Bool) : GC :=
  if g.reg.any (fun e => e.1 = o) then g else { reg := g.reg ++ [(o, root)] }

/-- `GC_Rem_Ptr`: found → entry removed, object finalised; not found → nothing. Returns the finalised objects. -/
def GC.rem (g : GC) (o : Obj) : GC × List Obj :=
  if g.reg.any (fun e => e.1 = o) then ({ reg := g.reg.filter (fun e => e.1 ≠ o) }, [o]) else (g, [])

/-- `GC_Sweep` after a mark phase that marked `marked`: unmarked non-root entries are unlisted and finalised -/
def GC.sweep (g : GC) (marked : List Obj) : GC × List Obj :=
  ({ reg := g.reg.filter (fun e => e.2 || marked.contains e.1) },
   (g.reg.filter (fun e => !(e.2 || marked.contains e.1))).map (·.1))

inductive Phase where
  | unborn     -- Thread object exists, `call` not yet made (a joined Thread object may be called again: done → ready)
  | ready      -- `Thread_Call` done (pthread created), `Thread_Init_Run` prologue not yet observed
  | running    -- between prologue and epilogue of `Thread_Init_Run` (the main thread: always)
  | done       -- `Thread_Init_Run` has returned
deriving DecidableEq, Repr, Inhabited

/-- per-thread component: `struct Thread` + its tls table's contents + the harness-visible ledger -/
structure TS where
  phase : Phase
  gc : Option GC            -- tls["__GC"]
  exc : Option Exn.St       -- tls["__Exception"]
  tls : List (String × Obj) -- the user's keys (insertion order; a key occurs once)
  used : List Nat           -- serials this thread has used for named objects (reuse is rejected)
  xd : List Nat             -- serials of own objects whose destructor enters a try block (try { throw } catch)
  ngarb : Nat               -- anonymous garbage objects allocated so far (serials `garbBase + i`)
  fin : List Obj            -- ledger: every object finalised by this thread's collector, in order
  pub : Nat                 -- a cell written by this thread, read by others (after join)
  pubo : Option Obj         -- a pointer written by this thread into a Ref of the joiner (`ref(out, o)`)
deriving DecidableEq, Repr, Inhabited

def TS.unborn : TS := ⟨.unborn, none, none, [], [], [], 0, [], 0, none⟩
/-- the main thread after `Cello_Main`'s prologue (`new_raw(GC, &bottom)`; `Thread_Current` made `Exception_Main`) -/
def TS.main : TS := ⟨.running, some ⟨[]⟩, some Exn.St.init, [], [], [], 0, [], 0, none⟩

/-- serials ≥ `garbBase` are anonymous garbage (never held, never named by an op) -/
def garbBase : Nat := 1000000

/-- serial `thrBase + u` (below `garbBase`) names the Thread object of thread `u` when it was made with `new(Thread, f)` -/
def thrBase : Nat := 900000

inductive Errno where
  | zero | einval | edeadlk | ebusy | eperm | esrch | eagain
deriving DecidableEq, Repr, Inhabited

inductive Exc where
  | valueError | resourceError | keyError | outOfMemoryError | busyError
deriving DecidableEq, Repr, Inhabited

/-- the exception objects as addresses of `Cello.Exn` (harness `kind_obj` k is the address k+1; 0 is NULL) -/
def Exc.code : Exc → Nat
  | .valueError => 2 | .keyError => 3 | .busyError => 6 | .resourceError => 7 | .outOfMemoryError => 8

/-- the object bound at top level of a thread's exception program (programs of this engine do not rethrow it) -/
def topBound : Nat := 1

/-- `Mutex_Lock`: `if (err is EINVAL) throw ValueError; if (err is EDEADLK) throw ResourceError;` anything else returns -/
def lockTr : Errno → Option Exc
  | .einval => some .valueError
  | .edeadlk => some .resourceError
  | _ => none

/-- `Mutex_Trylock`: `if (err == EBUSY) return false; if (err is EINVAL) throw ValueError; return true;` -/
def trylockTr : Errno → Except Exc Bool
  | .ebusy => .ok false
  | .einval => .error .valueError
  | _ => .ok true

/-- `Mutex_Unlock`: EINVAL → ValueError, EPERM → ResourceError -/
def unlockTr : Errno → Option Exc
  | .einval => some .valueError
  | .eperm => some .resourceError
  | _ => none

/-- `Thread_Join`: EINVAL → ValueError, ESRCH → ValueError, EDEADLK → ResourceError (commit 484991f) -/
def joinTr : Errno → Option Exc
  | .einval => some .valueError
  | .esrch => some .valueError
  | .edeadlk => some .resourceError
  | _ => none

/-- OLD variant: `Thread_Join` before commit 484991f — EINVAL → ValueError, ESRCH → ValueError, nothing for EDEADLK -/
def joinTrOld : Errno → Option Exc
  | .einval => some .valueError
  | .esrch => some .valueError
  | _ => none

/-- does a table `[(errno, action)]` extracted from `Thread_Join` (CelloGen.Thr.joinErr) lack a case for EDEADLK? -/
def joinIgnoresDeadlkOf (tab : List (String × String)) : Bool := (tab.lookup "EDEADLK").isNone

/-- `Thread_Call` (pthread_create): EINVAL → ValueError, EAGAIN → OutOfMemoryError, EBUSY → BusyError -/
def createTr : Errno → Option Exc
  | .einval => some .valueError
  | .eagain => some .outOfMemoryError
  | .ebusy => some .busyError
  | _ => none

/-- `Thread_Stop` (pthread_kill): EINVAL → ValueError, ESRCH → ValueError -/
def stopTr : Errno → Option Exc
  | .einval => some .valueError
  | .esrch => some .valueError
  | _ => none

inductive PFn where
  | lock | trylock | unlock | join
  | create   -- `pthread_create` under `Thread_Call` (extension round)
  | stop     -- `pthread_kill` under `Thread_Stop` (extension round)
deriving DecidableEq, Repr, Inhabited

/-- operations that act on the executing thread's own component only -/
inductive LOp where
  | begin_                                  -- prologue of Thread_Init_Run (observed by the thread function)
  | end_                                    -- the thread function returns: epilogue of Thread_Init_Run
  | new (k : Nat) (root : Bool) (xdtor : Bool) -- new / new_root of a probe object named (self, k); xdtor: its destructor uses try/throw/catch
  | del (o : Obj)                           -- del(o): any object, also a foreign one
  | collect (stack : List Nat)              -- GC_Mark (TLS, roots, `stack` = own serials found on the stack); GC_Sweep
  | churn (n : Nat)                         -- n garbage allocations (never held)
  | tset (key : String) (o : Obj)           -- set(current(Thread), key, o)
  | tget (key : String)                     -- get(current(Thread), key)   (KeyError when absent)
  | tmem (key : String)
  | trem (key : String)                     -- rem(current(Thread), key)   (KeyError when absent)
  | exn (p : Exn.Prog)                      -- a try/throw/catch program on the thread's own Exception
  | lookup (ty cls : Nat)                   -- type_instance(ty, cls) isnt NULL (through the shared cache)
  | pub (v : Nat)                           -- write the thread's published cell
  | pubo (o : Obj)                          -- ref(out, o): store a pointer to `o` in the joiner's Ref
  | perr (f : PFn) (e : Errno)              -- the pthread primitive under lock/trylock/unlock/join fails with `e`
  | work (kind seed n : Nat)                -- a computation on the thread's own heap whose result the model does not compute
deriving Repr, Inhabited

inductive Out where
  | dead                                    -- the thread is not running: the event cannot happen
  | crash                                   -- unbounded recursion in exception_throw: the process dies
  | bad                                     -- ill-formed use (serial reused, spawn of a spawned thread …)
  | ok
  | begun (depth : Nat) (gc exc : Bool)
  | ledger (fin : List Obj)                 -- cumulative ledger after end_/collect
  | fin (objs : List Obj)                   -- objects finalised by this call (del)
  | val (o : Obj)
  | raised (e : Exc)
  | bool (b : Bool)
  | exn (trace : List Exn.Ev) (sig : Exn.Sig) (depth : Nat)
  | num (n : Nat)
  -- synchronisation
  | blocked                                 -- not enabled: the caller would block
  | ub                                      -- undefined behaviour of the pthread primitive
  | acquired | released | tried (b : Bool) | joined | nothread | spawned
  | early                                   -- OLD variant only: join returned although the thread function is still running (EDEADLK ignored)
  | dangling (o : Obj)                      -- the pointer read refers to an object that has been finalised
  | noval                                   -- nothing was published
deriving Repr, Inhabited, DecidableEq

structure Cfg where
  gcFirst : Bool                  -- Thread_Init_Run deletes the collector before the exception record (CelloGen.Thr.teardownGcFirst)
  consume : Bool                  -- CelloGen.Exn.catchConsumes
  maxDepth : Nat                  -- CelloGen.Exn.maxDepth
  scan : Nat × Nat → Bool         -- Type_Scan(type, class) isnt NULL: the declaration
  foreignMark : Bool              -- Thread_Mark marks `t->tls` of *any* Thread object GC_Recurse meets (CelloGen.Thr.threadMarkUnguarded; false = the guarded variant of commit 80c795e, withdrawn by 0a0ad73)
  joinIgnoresDeadlk : Bool        -- OLD variant when true: Thread_Join has no case for EDEADLK (joinIgnoresDeadlkOf CelloGen.Thr.joinErr; false since commit 484991f)

/-- the error translation of `Thread_Join` in the variant `cfg` describes -/
def joinTrOf (cfg : Cfg) : Errno → Option Exc := if cfg.joinIgnoresDeadlk then joinTrOld else joinTr

/-- filled (non-NULL) cache words, process-wide -/
abbrev Cache := List (Nat × Nat)

/-- `Type_Cache_Entry`: hit → the stored word; miss → `Type_Scan`, stored when non-NULL -/
def cacheLookup (cfg : Cfg) (c : Cache) (key : Nat × Nat) : Cache × Bool :=
  if c.contains key then (c, true)
  else if cfg.scan key then (key :: c, true) else (c, false)

/-- a Cello exception raised by an op and caught by the caller (`V_TRY`): try … throw … catch-all leave
    `obj` = the exception, `active` = false, depth as before -/
def caught (e : Exc) (s : Option Exn.St) : Option Exn.St :=
  s.map (fun s => { s with obj := e.code, active := false })

def tlsSet (l : List (String × Obj)) (key : String) (o : Obj) : List (String × Obj) :=
  if l.any (fun e => e.1 = key) then l.map (fun e => if e.1 = key then (key, o) else e) else l ++ [(key, o)]

def garbage (t : Tid) (from_ n : Nat) : List Obj := (List.range n).map (fun i => ⟨t, garbBase + from_ + i⟩)

def GC.setAll (g : GC) (os : List Obj) : GC := os.foldl (fun g o => g.set o false) g

/-- the destructors of the objects in `dead` run; those of `xd` objects enter a try block, throw and catch: they need
    the thread's Exception record (`exc`).  `none` = there is no record: `current(Exception)` raises KeyError, which
    needs `current(Exception)`: the process dies. -/
def runDtors (xd : List Nat) (dead : List Obj) (exc : Option Exn.St) : Option (Option Exn.St) :=
  if dead.any (fun o => xd.contains o.k) then
    match exc with
    | none => none
    | some s => some (caught .valueError (some s))
  else some exc

/-- a local operation of a thread that is running (between prologue and epilogue of Thread_Init_Run).
    `fm` ("foreign marks"): what the mark phase of a collection finds in the thread-local tables of *other* threads
    whose Thread objects it reaches (`foreignMarks`, computed by `step`; `[]` for a thread running alone) -/
def lrun (cfg : Cfg) (t : Tid) (c : Cache) (fm : List Obj) (op : LOp) (ts : TS) : TS × Cache × Out :=
  match op with
  | .begin_ => (ts, c, .dead)
  | .end_ =>
    -- del_raw(exc): rem "__Exception";  del_raw(gc): GC_Sweep with nothing marked, rem "__GC"
    match ts.gc with
    | none => ({ ts with phase := .done, exc := none }, c, .ledger ts.fin)
    | some g =>
      let (_, dead) := g.sweep []
      let fin := ts.fin ++ dead
      -- the record the destructors find during the teardown sweep depends on the order of the two del_raw calls
      match runDtors ts.xd dead (if cfg.gcFirst then ts.exc else none) with
      | none => ({ ts with phase := .done, exc := none, gc := none, fin := fin }, c, .crash)
      | some _ => ({ ts with phase := .done, exc := none, gc := none, fin := fin }, c, .ledger fin)
  | .new k root xdtor =>
    if ts.used.contains k || k ≥ garbBase then (ts, c, .bad) else
    match ts.gc with
    | none => (ts, c, .raised .keyError)
    | some g => ({ ts with gc := some (g.set ⟨t, k⟩ root), used := k :: ts.used,
                           xd := if xdtor then k :: ts.xd else ts.xd }, c, .ok)
  | .del o =>
    match ts.gc with
    | none => (ts, c, .raised .keyError)
    | some g =>
      let (g', dead) := g.rem o
      match runDtors ts.xd dead ts.exc with
      | none => ({ ts with gc := some g', fin := ts.fin ++ dead }, c, .crash)
      | some e' => ({ ts with gc := some g', fin := ts.fin ++ dead, exc := e' }, c, .fin dead)
  | .collect stack =>
    match ts.gc with
    | none => (ts, c, .raised .keyError)
    | some g =>
      let marked := ts.tls.map (·.2) ++ stack.map (fun k => (⟨t, k⟩ : Obj)) ++ fm
      let (g', dead) := g.sweep marked
      let fin := ts.fin ++ dead
      match runDtors ts.xd dead ts.exc with
      | none => ({ ts with gc := some g', fin := fin }, c, .crash)
      | some e' => ({ ts with gc := some g', fin := fin, exc := e' }, c, .ledger fin)
  | .churn n =>
    match ts.gc with
    | none => (ts, c, .raised .keyError)
    | some g => ({ ts with gc := some (g.setAll (garbage t ts.ngarb n)), ngarb := ts.ngarb + n }, c, .ok)
  | .tset key o =>
    if o.k ≥ thrBase then (ts, c, .bad)      -- Thread objects / garbage as thread-local values: not modelled
    else ({ ts with tls := tlsSet ts.tls key o }, c, .ok)
  | .tget key =>
    match ts.tls.lookup key with
    | some o => (ts, c, .val o)
    | none => ({ ts with exc := caught .keyError ts.exc }, c, .raised .keyError)
  | .tmem key => (ts, c, .bool (ts.tls.any (fun e => e.1 = key)))
  | .trem key =>
    if ts.tls.any (fun e => e.1 = key) then ({ ts with tls := ts.tls.filter (fun e => e.1 ≠ key) }, c, .ok)
    else ({ ts with exc := caught .keyError ts.exc }, c, .raised .keyError)
  | .exn p =>
    match ts.exc with
    | none => (ts, c, .raised .keyError)
    | some s =>
      let (s', tr, sg) := Exn.run cfg.consume cfg.maxDepth p topBound s
      ({ ts with exc := some s' }, c, .exn tr sg s'.depth)
  | .lookup ty cls =>
    let (c', b) := cacheLookup cfg c (ty, cls)
    (ts, c', .bool b)
  | .pub v => ({ ts with pub := v }, c, .ok)
  | .pubo o => ({ ts with pubo := some o }, c, .ok)
  | .work _ _ _ => (ts, c, .ok)
  | .perr f e =>
    match f with
    | .lock => match lockTr e with
      | some x => ({ ts with exc := caught x ts.exc }, c, .raised x)
      | none => (ts, c, .ok)
    | .trylock => match trylockTr e with
      | .error x => ({ ts with exc := caught x ts.exc }, c, .raised x)
      | .ok b => (ts, c, .bool b)
    | .unlock => match unlockTr e with
      | some x => ({ ts with exc := caught x ts.exc }, c, .raised x)
      | none => (ts, c, .ok)
    | .join => match joinTrOf cfg e with
      | some x => ({ ts with exc := caught x ts.exc }, c, .raised x)
      | none => (ts, c, .ok)
    -- `Thread_Call` whose `pthread_create` reports `e`: no thread exists, the caller's exception record takes the exception
    -- (the raw copy of the argument tuple stays with the Thread object until `Thread_Del`; neither flag is touched)
    | .create => match createTr e with
      | some x => ({ ts with exc := caught x ts.exc }, c, .raised x)
      | none => (ts, c, .ok)
    -- `Thread_Stop` whose `pthread_kill` reports `e`
    | .stop => match stopTr e with
      | some x => ({ ts with exc := caught x ts.exc }, c, .raised x)
      | none => (ts, c, .ok)

/-- one local operation of thread `t` on its own component (and the shared class cache) -/
def lstep (cfg : Cfg) (t : Tid) (c : Cache) (fm : List Obj) (op : LOp) (ts : TS) : TS × Cache × Out :=
  match op with
  | .begin_ =>
    if ts.phase = .ready then
      ({ ts with phase := .running, gc := some ⟨[]⟩, exc := some Exn.St.init }, c, .begun 0 true true)
    else (ts, c, .dead)
  | op => if ts.phase = .running then lrun cfg t c fm op ts else (ts, c, .dead)

/-- the same operation when the class cache is replaced by the declaration itself (the specification of the cache) -/
def lstepSpec (cfg : Cfg) (t : Tid) (fm : List Obj) (op : LOp) (ts : TS) : TS × Out :=
  match op with
  | .lookup ty cls => if ts.phase = .running then (ts, .bool (cfg.scan (ty, cls))) else (ts, .dead)
  | op => let r := lstep cfg t [] fm op ts; (r.1, r.2.2)

/-! ### the whole process -/

def upd {α : Type} (f : Nat → α) (i : Nat) (v : α) : Nat → α := fun j => if j = i then v else f j

structure G where
  thr : Tid → TS
  cache : Cache
  holder : Nat → Option Tid     -- per Mutex: who holds the pthread mutex
  counter : Nat → Nat           -- shared plain counters
  reg : Tid → Nat               -- per thread: the value it loaded (non-atomic `counter++` = ld; st)
  joined : Tid → Bool           -- pthread_join already performed on this thread
  wraps : List (Tid × Obj)      -- Thread objects made with `new(Thread, f)`: (thread, the managed object that is its `struct Thread`);
                                -- a thread without an entry has a raw wrapper (new_raw / static / the main wrapper): no collector meets it
  args : List (Tid × List Obj)  -- `t->args` of the Thread objects: the pointers in the raw copy of the argument tuple `Thread_Call` made
                                -- (no entry = the empty tuple of `call(x)`); an entry of a thread that has finished is stale (freed by the epilogue)

def G.init : G :=
  { thr := fun t => if t = 0 then TS.main else TS.unborn, cache := [], holder := fun _ => none,
    counter := fun _ => 0, reg := fun _ => 0, joined := fun _ => false, wraps := [], args := [] }

inductive Ev where
  | loc (t : Tid) (op : LOp)
  | spawn (t u : Tid)                 -- call(thread_u, …): Thread_Call
  | join (t u : Tid)                  -- join(thread_u)
  | lock (t : Tid) (m : Nat)          -- lock(m) / start_in(m) (entry of `with`)
  | trylock (t : Tid) (m : Nat)
  | unlock (t : Tid) (m : Nat)        -- unlock(m) / stop_in(m) (exit of `with`)
  | winc (t : Tid) (m c : Nat)        -- with (x in m) { counter[c]++ }  as one event
  | ld (t : Tid) (c : Nat)            -- reg := counter[c]
  | st (t : Tid) (c : Nat)            -- counter[c] := reg + 1
  | rd (t u : Tid)                    -- read thread u's published cell
  | bind (t u : Tid)                  -- the object ⟨t, thrBase+u⟩ just allocated by t is `new(Thread, f)`: thread u's `struct Thread`
  | rdo (t u : Tid)                   -- dereference the pointer thread u published (`deref(out)`)
  | arg (t u : Tid) (os : List Obj)   -- the argument tuple of `call(thread_u, os…)`: `t->args = assign(alloc_raw(type_of(args)), args)` (follows `spawn t u`)
  | rdarg (t : Tid) (i : Nat)         -- thread t, in its function: `get(args, $I(i))` and a use of that object
deriving Repr, Inhabited

def Ev.tid : Ev → Tid
  | .loc t _ | .spawn t _ | .join t _ | .lock t _ | .trylock t _ | .unlock t _ | .winc t _ _ | .ld t _ | .st t _
  | .rd t _ | .bind t _ | .rdo t _ | .arg t _ _ | .rdarg t _ => t

def running (g : G) (t : Tid) : Bool := (g.thr t).phase = .running

/-! ### collector-managed Thread objects -/

/-- `o` is an entry of the thread's registry -/
def registered (ts : TS) (o : Obj) : Bool :=
  match ts.gc with
  | none => false
  | some g => g.reg.any (fun e => e.1 = o)

/-- between `call` and the return of `Thread_Init_Run` -/
def isLive (p : Phase) : Bool := p = .ready || p = .running

/-- the threads whose `struct Thread` the mark phase of `t` reaches when the stack scan finds the own serials `stack`
    (Thread objects are never roots and never thread-local values in this model) -/
def heldThreads (g : G) (t : Tid) (stack : List Nat) : List Tid :=
  g.wraps.filterMap (fun uw =>
    if uw.2.owner = t && stack.contains uw.2.k && registered (g.thr t) uw.2 then some uw.1 else none)

def heldOf (g : G) (t : Tid) : LOp → List Tid
  | .collect stack => heldThreads g t stack
  | _ => []

/-- `GC_Recurse` → `Thread_Mark` → `mark(t->tls, gc, f)` for every Thread object reached: the values of those threads'
    thread-local tables, as the mark phase of `t` reads them -/
def foreignMarks (cfg : Cfg) (g : G) (t : Tid) (op : LOp) : List Obj :=
  if cfg.foreignMark then (heldOf g t op).flatMap (fun u => (g.thr u).tls.map (·.2)) else []

/-- the step of `t` that led to `ts'` finalised the Thread object of a live thread (`Thread_Del` frees its table) -/
def wrapperKilled (g : G) (t : Tid) (ts' : TS) : Bool :=
  g.wraps.any (fun uw => isLive (g.thr uw.1).phase && uw.2.owner = t && registered (g.thr t) uw.2 && !registered ts' uw.2)

/-- thread `u`'s Thread object was collector-managed and has been finalised -/
def wrapperGone (g : G) (u : Tid) : Bool :=
  match g.wraps.lookup u with
  | none => false
  | some w => !registered (g.thr w.owner) w

/-- `⟨t, thrBase+u⟩` is a non-root entry of `t`'s registry, `u` has not been called and has no Thread object yet -/
def canBind (g : G) (t u : Tid) : Bool :=
  (g.thr u).phase = .unborn && (g.wraps.lookup u).isNone &&
  (match (g.thr t).gc with | some gc => gc.reg.contains ((⟨t, thrBase + u⟩ : Obj), false) | none => false)

/-- a collection of `t` walks the table of a thread that may be writing it (a data race in C; atomic in the model) -/
def raceEv (cfg : Cfg) (g : G) : Ev → Bool
  | .loc t op => cfg.foreignMark && (heldOf g t op).any (fun u => isLive (g.thr u).phase)
  | _ => false

def step (cfg : Cfg) (g : G) : Ev → G × Out
  | .loc t op =>
    let (ts, c, o) := lstep cfg t g.cache (foreignMarks cfg g t op) op (g.thr t)
    if wrapperKilled g t ts then (g, .ub) else ({ g with thr := upd g.thr t ts, cache := c }, o)
  | .spawn t u =>
    if !running g t then (g, .dead)
    else if wrapperGone g u then (g, .ub)         -- `call` on a Thread object that has been finalised
    else if (g.thr u).phase = .unborn then
      ({ g with thr := upd g.thr u { g.thr u with phase := .ready }, args := g.args.filter (fun a => a.1 ≠ u) }, .spawned)
    else if (g.thr u).phase = .done ∧ g.joined u = true then
      -- the Thread object is called again after its previous run was joined: a new pthread (`t->thread` is
      -- overwritten), the same `struct Thread` and so the same thread-local table
      ({ g with thr := upd g.thr u { g.thr u with phase := .ready }, joined := upd g.joined u false,
                args := g.args.filter (fun a => a.1 ≠ u) }, .spawned)
    else (g, .bad)
  | .join t u =>
    if !running g t then (g, .dead)
    else if wrapperGone g u then (g, .ub)         -- `join` on a Thread object that has been finalised
    else if t = u then
      -- pthread_join(self) = EDEADLK; what `Thread_Join` makes of it: ResourceError, taken by the caller's exception
      -- record (OLD variant: no case for EDEADLK, the call returns at once)
      match joinTrOf cfg .edeadlk with
      | none => (g, .early)
      | some x => ({ g with thr := upd g.thr t { g.thr t with exc := caught x (g.thr t).exc } }, .raised x)
    else match (g.thr u).phase with
      | .unborn => (g, .nothread)                  -- `if (not t->thread) return;`
      | .done => if g.joined u then (g, .ub) else ({ g with joined := upd g.joined u true }, .joined)
      | _ => (g, .blocked)
  | .lock t m =>
    if !running g t then (g, .dead)
    else match g.holder m with
      | none => ({ g with holder := upd g.holder m (some t) }, .acquired)
      | some _ => (g, .blocked)
  | .trylock t m =>
    if !running g t then (g, .dead)
    else match g.holder m with
      | none => ({ g with holder := upd g.holder m (some t) }, .tried true)
      | some _ => (g, .tried false)
  | .unlock t m =>
    if !running g t then (g, .dead)
    else if g.holder m = some t then ({ g with holder := upd g.holder m none }, .released)
    else (g, .ub)
  | .winc t m c =>
    if !running g t then (g, .dead)
    else match g.holder m with
      | none => ({ g with counter := upd g.counter c (g.counter c + 1), reg := upd g.reg t (g.counter c) },
                 .num (g.counter c + 1))
      | some _ => (g, .blocked)
  | .ld t c =>
    if !running g t then (g, .dead) else ({ g with reg := upd g.reg t (g.counter c) }, .num (g.counter c))
  | .st t c =>
    if !running g t then (g, .dead) else ({ g with counter := upd g.counter c (g.reg t + 1) }, .num (g.reg t + 1))
  | .rd t u =>
    if !running g t then (g, .dead) else (g, .num (g.thr u).pub)
  | .bind t u =>
    if !running g t then (g, .dead)
    else if canBind g t u then
      ({ g with wraps := (u, ⟨t, thrBase + u⟩) :: g.wraps }, .ok)
    else (g, .bad)
  | .rdo t u =>
    if !running g t then (g, .dead)
    else match (g.thr u).pubo with
      | none => (g, .noval)
      | some o => if (g.thr o.owner).fin.contains o then (g, .dangling o) else (g, .val o)
  | .arg t u os =>
    -- the tuple of `call(x, os…)`: enabled between `Thread_Call` and the prologue of the new thread
    if !running g t then (g, .dead)
    else if (g.thr u).phase = .ready then ({ g with args := (u, os) :: g.args.filter (fun a => a.1 ≠ u) }, .ok)
    else (g, .bad)
  | .rdarg t i =>
    if !running g t then (g, .dead)
    else match (g.args.lookup t).bind (fun os => os[i]?) with
      | none => (g, .noval)                        -- no such argument
      | some o => if (g.thr o.owner).fin.contains o then (g, .dangling o) else (g, .val o)

/-- execute a schedule (any list of events: any number of threads, any interleaving); returns the trace -/
def run (cfg : Cfg) : List Ev → G → G × List (Ev × Out)
  | [], g => (g, [])
  | e :: s, g =>
    let (g1, o) := step cfg g e
    let (g2, tr) := run cfg s g1
    (g2, (e, o) :: tr)

/-! ### projections and solo runs -/

/-- what the schedule does to thread `u`'s component: its own local operations (a `join` of itself that raised is one:
    the thread's `pthread_join` failed with EDEADLK), and the moment it is spawned -/
inductive Act where
  | op (o : LOp) (fm : List Obj)    -- `fm`: what the mark phase of a collection is handed from the tables of Thread objects (`[]`: nothing)
  | born
deriving Repr, Inhabited

/-- the projection of an execution (trace) onto thread `u` -/
def proj (u : Tid) : List (Ev × Out) → List Act
  | [] => []
  | (.loc t op, _) :: s => if t = u then .op op [] :: proj u s else proj u s
  | (.spawn _ v, .spawned) :: s => if v = u then .born :: proj u s else proj u s
  | (.join t v, .raised _) :: s => if t = u ∧ v = u then .op (.perr .join .edeadlk) [] :: proj u s else proj u s
  | _ :: s => proj u s

/-- thread `u` running alone: the projected actions, threaded through a class cache of its own (`fm` of an action: the
    contents of the tables of Thread objects that are *not running* which a collection of `u` is handed — data, like a
    container `u` holds; `proj` hands nothing, `projM` hands the tables of the finished / not yet called Thread objects) -/
def solo (cfg : Cfg) (u : Tid) : List Act → Cache → TS → TS × List Out
  | [], _, ts => (ts, [])
  | .op o fm :: as, c, ts =>
    let (ts1, c1, out) := lstep cfg u c fm o ts
    let (ts2, outs) := solo cfg u as c1 ts1
    (ts2, out :: outs)
  | .born :: as, c, ts =>
    solo cfg u as c (if ts.phase = .unborn ∨ ts.phase = .done then { ts with phase := .ready } else ts)

/-! ### the isolation hypothesis: what a collection may meet, and: no sweep frees the Thread object of a live thread -/

/-- event `e` in state `g` does not finalise the Thread object `new(Thread, f)` of a live thread (`Thread_Del` would free
    that thread's table under it: `Out.ub`, not executed) -/
def keepsWrappersEv (cfg : Cfg) (g : G) : Ev → Bool
  | .loc t op => !wrapperKilled g t (lstep cfg t g.cache (foreignMarks cfg g t op) op (g.thr t)).1
  | _ => true

/-- **no sweep (collection, `del`, teardown) of the schedule finalises the Thread object of a thread that is live** —
    the program joins a thread before it drops its Thread object.  Decidable. -/
def KeepsWrappers (cfg : Cfg) : List Ev → G → Bool
  | [], _ => true
  | e :: s, g => keepsWrappersEv cfg g e && KeepsWrappers cfg s (step cfg g e).1

/-- a thread whose `struct Thread` a foreign collection can walk without reading anything and without racing:
    not started or finished, and its thread-local table is empty -/
def quiet (ts : TS) : Bool := (ts.phase = .unborn || ts.phase = .done) && ts.tls.isEmpty

/-- event `e` in state `g` keeps the threads isolated: a collection meets Thread objects of quiet threads only (or
    `Thread_Mark` does not walk foreign tables at all), and no sweep finalises the Thread object of a live thread -/
def isolatedEv (cfg : Cfg) (g : G) : Ev → Bool
  | .loc t op =>
    (!cfg.foreignMark || (heldOf g t op).all (fun u => quiet (g.thr u))) && keepsWrappersEv cfg g (.loc t op)
  | _ => true

/-- **no thread's collection meets the collector-managed Thread object of a thread that is running or has thread-local
    values** (and none frees the Thread object of a live thread), at every step of the schedule.  Decidable.
    In the guarded variant (`cfg.foreignMark = false`) this is `KeepsWrappers`. -/
def Isolated (cfg : Cfg) : List Ev → G → Bool
  | [], _ => true
  | e :: s, g => isolatedEv cfg g e && Isolated cfg s (step cfg g e).1

/-! ### narrower isolation: a collection may walk any table as long as the walk of a *live* thread's table changes nothing -/

/-- the part of `foreignMarks` that comes from Thread objects whose thread is not live (never called, or finished): those
    tables are written by nobody (the model has no `set` on a Thread object other than `current(Thread)`), they are data
    the collecting thread holds through `x` -/
def frozenMarks (cfg : Cfg) (g : G) (t : Tid) (op : LOp) : List Obj :=
  if cfg.foreignMark then ((heldOf g t op).filter (fun u => !isLive (g.thr u).phase)).flatMap (fun u => (g.thr u).tls.map (·.2)) else []

/-- the sweep of this collection finalises the same objects whether or not the tables of the *live* threads whose Thread
    objects it reaches are walked: every non-root entry of the collecting thread's registry is marked through all the
    walked tables iff it is marked through the thread's own marks and the tables of the threads that are not live -/
def walkNeutral (cfg : Cfg) (g : G) (t : Tid) : LOp → Bool
  | .collect stack =>
    match (g.thr t).gc with
    | none => true
    | some gc =>
      let own := (g.thr t).tls.map (·.2) ++ stack.map (fun k => (⟨t, k⟩ : Obj))
      gc.reg.all (fun e => e.2 || ((own ++ foreignMarks cfg g t (.collect stack)).contains e.1 ==
                                   (own ++ frozenMarks cfg g t (.collect stack)).contains e.1))
  | _ => true

/-- event `e` keeps the threads isolated in the narrow sense: no sweep frees the Thread object of a live thread, and a
    collection that walks the table of a live thread is not influenced by it (`walkNeutral`) -/
def isolatedEvN (cfg : Cfg) (g : G) : Ev → Bool
  | .loc t op => walkNeutral cfg g t op && keepsWrappersEv cfg g (.loc t op)
  | _ => true

/-- **the logical territory of KF-C13-mark-foreign-tls, exactly**: at no step does the table of a *live* thread decide
    what a collection of another thread finalises (and no sweep frees the Thread object of a live thread).  Decidable.
    Weaker than `Isolated` (`isolatedN_of_isolated`): collections by the maker between `call(x)` and `join(x)`, and tables
    left behind by finished threads, are inside. -/
def IsolatedN (cfg : Cfg) : List Ev → G → Bool
  | [], _ => true
  | e :: s, g => isolatedEvN cfg g e && IsolatedN cfg s (step cfg g e).1

/-- the projection of a schedule onto thread `u`, executed from `g`: like `proj`, and every local operation is handed
    the contents of the tables of the not-live Thread objects its mark phase reaches (`frozenMarks`) -/
def actM (cfg : Cfg) (u : Tid) (g : G) (e : Ev) : Out → List Act :=
  fun o => match e, o with
  | .loc t op, _ => if t = u then [Act.op op (frozenMarks cfg g t op)] else []
  | .spawn _ v, .spawned => if v = u then [Act.born] else []
  | .join t v, .raised _ => if t = u ∧ v = u then [Act.op (.perr .join .edeadlk) []] else []
  | _, _ => []

def projM (cfg : Cfg) (u : Tid) : List Ev → G → List Act
  | [], _ => []
  | e :: s, g => actM cfg u g e (step cfg g e).2 ++ projM cfg u s (step cfg g e).1

/-! ### arguments handed to a thread (`call(x, a…)`) -/

/-- the argument objects of the threads that are live (between `call` and the return of `Thread_Init_Run`) -/
def liveArgs (g : G) : List Obj :=
  g.args.flatMap (fun a => if isLive (g.thr a.1).phase then a.2 else [])

/-- `o` is not a plain `new` entry of the thread's registry: it is a root (`new_root`) or not managed at all (`new_raw`) -/
def rootReg (ts : TS) (o : Obj) : Bool :=
  match ts.gc with
  | none => true
  | some g => !g.reg.contains (o, false)

/-- the program itself does not destroy an argument a live thread was given: it hands over objects that have not been
    finalised, their owner does not `del` them and does not return (teardown) while they are plain `new` objects -/
def argsNotDestroyedEv (g : G) : Ev → Bool
  | .arg _ _ os => os.all (fun o => !(g.thr o.owner).fin.contains o)
  | .loc t (.del o) => !(liveArgs g).contains o || o.owner ≠ t     -- `del` of another thread's object finalises nothing
  | .loc t .end_ => (liveArgs g).all (fun o => o.owner ≠ t || rootReg (g.thr t) o)
  | _ => true

/-- … and every collection of an argument's owner finds the object elsewhere: on the owner's stack, among its
    thread-local values, or as a root (nothing marks through `t->args`) -/
def argSafeEv (g : G) : Ev → Bool
  | .loc t (.collect stack) =>
    (liveArgs g).all (fun o => o.owner ≠ t || stack.contains o.k || (g.thr t).tls.any (fun e => e.2 = o) || rootReg (g.thr t) o)
  | e => argsNotDestroyedEv g e

def ArgsNotDestroyed (cfg : Cfg) : List Ev → G → Bool
  | [], _ => true
  | e :: s, g => argsNotDestroyedEv g e && ArgsNotDestroyed cfg s (step cfg g e).1

/-- **the arguments of live threads are kept by their owners**: at every step of the schedule.  Decidable. -/
def ArgsSafe (cfg : Cfg) : List Ev → G → Bool
  | [], _ => true
  | e :: s, g => argSafeEv g e && ArgsSafe cfg s (step cfg g e).1

/-- number of steps of the schedule outside `ArgsSafe` (the driver prints it) -/
def argUnsafe (cfg : Cfg) : List Ev → G → Nat
  | [], _ => 0
  | e :: s, g => (if argSafeEv g e then 0 else 1) + argUnsafe cfg s (step cfg g e).1

/-- number of steps of the schedule at which a collection walks the table of a live thread -/
def races (cfg : Cfg) : List Ev → G → Nat
  | [], _ => 0
  | e :: s, g => (if raceEv cfg g e then 1 else 0) + races cfg s (step cfg g e).1

/-- the outputs of thread `u`'s local operations in a trace (and the exception out of a `join` of itself) -/
def localOuts (u : Tid) : List (Ev × Out) → List Out
  | [] => []
  | (.loc t _, o) :: tr => if t = u then o :: localOuts u tr else localOuts u tr
  | (.join t v, .raised x) :: tr => if t = u ∧ v = u then .raised x :: localOuts u tr else localOuts u tr
  | _ :: tr => localOuts u tr

/-! ### trace predicates (also evaluated by the driver on every schedule it runs) -/

/-- +1 for every acquisition of `m` by `t` in the trace, −1 for every release (never below 0 in a UB-free trace) -/
def inside (t : Tid) (m : Nat) : List (Ev × Out) → Int
  | [] => 0
  | (.lock t' m', .acquired) :: tr => (if t' = t ∧ m' = m then 1 else 0) + inside t m tr
  | (.trylock t' m', .tried true) :: tr => (if t' = t ∧ m' = m then 1 else 0) + inside t m tr
  | (.unlock t' m', .released) :: tr => (if t' = t ∧ m' = m then -1 else 0) + inside t m tr
  | _ :: tr => inside t m tr

def isUB : Out → Bool
  | .ub => true
  | _ => false

/-- no event of the trace ran into undefined behaviour of a pthread primitive -/
def noUB (tr : List (Ev × Out)) : Bool := tr.all (fun eo => !isUB eo.2)

/-- the outcome says the event did not happen (the thread does not exist / is blocked) -/
def notExecuted : Out → Bool
  | .dead => true
  | .blocked => true
  | _ => false

/-! ### text protocol (shared with harness/h_thr.c) -/

def Obj.show (o : Obj) : String := s!"{o.owner}.{o.k}"

def Exc.show : Exc → String
  | .valueError => "ValueError" | .resourceError => "ResourceError" | .keyError => "KeyError"
  | .outOfMemoryError => "OutOfMemoryError" | .busyError => "BusyError"

/-- insertion sort on serials (output canonicalisation) -/
def sortNat (l : List Nat) : List Nat :=
  l.foldl (fun acc x => (acc.takeWhile (· ≤ x)) ++ [x] ++ (acc.dropWhile (· ≤ x))) []

/-- ledger as printed: named serials sorted, garbage counted -/
def showLedger (fin : List Obj) : String :=
  let named := sortNat ((fin.filter (fun o => o.k < thrBase)).map (·.k))     -- Thread objects are not listed
  let ng := (fin.filter (fun o => o.k ≥ garbBase)).length
  s!"fin=[{",".intercalate (named.map toString)}] garbage={ng}"

def Out.show : Out → String
  | .dead => "dead"
  | .crash => "crash"
  | .bad => "bad"
  | .ok => "ok"
  | .begun d g e => s!"begun depth={d} gc={if g then 1 else 0} exc={if e then 1 else 0}"
  | .ledger l => showLedger l
  | .fin objs => s!"fin={objs.length}"
  | .val o => s!"val={o.show}"
  | .raised e => e.show
  | .bool b => if b then "1" else "0"
  | .exn tr sg d => s!"trace={Exn.showTrace tr} end={sg.show} depth={d}"
  | .num n => s!"n={n}"
  | .blocked => "blocked"
  | .ub => "ub"
  | .acquired => "acquired"
  | .released => "released"
  | .tried b => if b then "tried=1" else "tried=0"
  | .joined => "joined"
  | .nothread => "nothread"
  | .spawned => "spawned"
  | .early => "early"
  | .dangling o => s!"dangling={o.show}"
  | .noval => "noval"

end Cello.Thr
