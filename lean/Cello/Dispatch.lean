/-
  Cello/Dispatch.lean — executable model of Cello's type-class dispatch (src/Type.c, the Cello()/Instance() macros of
  include/Cello.h) and the specification it is proved against (CelloProofs/Props/C08.lean).

  Mirrors (default build: CELLO_CACHE on, all checks on):
    struct Type { var cls; var name; var inst; };
    type object = header | CELLO_CACHE_NUM cache words | ("__Name") ("__Size") | (cls, name, inst)* | (NULL, NULL, NULL)
    Type_Scan                 two loops over the triples: by memoised class pointer, then by name with memoisation
    Type_Cache_Entry(i, lit)  if (cls is lit) { inst = ((var*)self)[i]; if NULL { inst = Type_Scan(self, lit); ((var*)self)[i] = inst; } return inst; }
    Type_Instance             the Type_Cache_Entry list, then Type_Scan
    Type_Implements, Type_Method_At_Offset, Type_Implements_Method_At_Offset, Type_Of, cast, Type_New

  Conventions: a class pointer is a value `Cls` (`cls is lit` is equality of these values: two class objects with the
  same name are two different values); an instance pointer is `Inst` (identity + which member words are non-NULL);
  NULL is `none`.  Core Lean only.
  Last sections: NULL as the class argument (`scanNull`); the heap of several type objects whose CLASS objects are
  themselves run-time type objects — names read when a lookup runs, addresses memoised, `Type_New` rewriting `__Name`
  in place, deletion and re-use of an address (`Heap`, `Heap.construct`, `Heap.retarget`, `Heap.step`, `specHeap`).
-/
namespace Cello.Dispatch

/-- a class object (any Type object can be used as a class): pointer identity + its `__Name` -/
structure Cls where
  id : Nat
  name : String
deriving DecidableEq, Repr, Inhabited

/-- an instance struct: pointer identity + for every member word whether it is non-NULL -/
structure Inst where
  id : Nat
  members : List Bool
deriving DecidableEq, Repr, Inhabited

/-- one `(cls, name, inst)` triple of a type object; `memo` is the lazily written `cls` word -/
structure Entry where
  memo : Option Cls
  name : String
  inst : Inst
deriving DecidableEq, Repr, Inhabited

/-- a type object: `hdr` = the header's type word is already `Type` (statically declared types start with NULL),
    `sentinel` = this object is `Terminal` (the object that ends every argument tuple, see `thrown`),
    the cache words, the instance triples (the terminator is the end of the list) -/
structure TypeRec where
  hdr : Bool
  sentinel : Bool := false
  cache : List (Option Inst)
  entries : List Entry
deriving DecidableEq, Repr, Inhabited

inductive Exc where
  | TypeError | ValueError | ClassError | OutOfMemoryError | FormatError
deriving DecidableEq, Repr, Inhabited

/-- result of a fallible operation; `ub` = the C code would read outside an object -/
inductive Outcome (α : Type) where
  | ok (a : α)
  | raised (e : Exc)
  | ub
deriving DecidableEq, Repr, Inhabited

/-- the class object `Terminal` of the library; it is also the marker that ends every `tuple(...)` -/
def terminalCls : Cls := ⟨0, "Terminal"⟩

/-- `throw(E, fmt, args…)` = `exception_throw(E, fmt, tuple(args…))` formats its message before it raises `E`.  An argument
    that is the `Terminal` object ends the argument tuple early; the format then lacks an argument and `print_to_with`
    raises FormatError in place of `E` (known finding KF-C08-terminal-message). `argIsTerminal`: one flag per argument. -/
def thrown (e : Exc) (argIsTerminal : List Bool) : Exc := if argIsTerminal.any id then .FormatError else e

/-! ### specification -/

/-- **Spec.** What the type declares for a class name: the instance of the first triple with that name. -/
def declared : List Entry → String → Option Inst
  | [], _ => none
  | e :: es, n => if e.name = n then some e.inst else declared es n

/-- the immutable part of a triple -/
def Entry.skel (e : Entry) : String × Inst := (e.name, e.inst)

/-! ### Type_Scan -/

/-- first loop: `while (t->name) { if (t->cls is cls) return t->inst; t++; }` -/
def scanPtr (cls : Cls) : List Entry → Option Inst
  | [] => none
  | e :: es => if e.memo = some cls then some e.inst else scanPtr cls es

/-- second loop: `if (strcmp(t->name, Type_Builtin_Name(cls)) is 0) { t->cls = cls; return t->inst; }` -/
def scanName (cls : Cls) : List Entry → List Entry × Option Inst
  | [] => ([], none)
  | e :: es =>
    if e.name = cls.name then ({ e with memo := some cls } :: es, some e.inst)
    else let r := scanName cls es; (e :: r.1, r.2)

/-- `Type_Scan(self, cls)` for `self` a type object: the `type_of(self) isnt Type` test passes (and fills the header
    word of a statically declared type); then the two loops. -/
def scan (t : TypeRec) (cls : Cls) : TypeRec × Option Inst :=
  let t := { t with hdr := true }
  match scanPtr cls t.entries with
  | some i => (t, some i)
  | none => let r := scanName cls t.entries; ({ t with entries := r.1 }, r.2)

/-! ### Type_Instance and friends -/

/-- the first `Type_Cache_Entry(i, lit)` whose `cls is lit` test succeeds -/
def slotOf (slots : List (Nat × Cls)) (cls : Cls) : Option (Nat × Cls) :=
  slots.find? (fun s => s.2 = cls)

/-- `Type_Instance(self, cls)` for `self` a type object. `slots` is the Type_Cache_Entry list. -/
def instanceOf (slots : List (Nat × Cls)) (t : TypeRec) (cls : Cls) : TypeRec × Outcome (Option Inst) :=
  match slotOf slots cls with
  | some (i, lit) =>
    if h : i < t.cache.length then
      match t.cache[i] with
      | some inst => (t, .ok (some inst))
      | none =>
        let r := scan t lit
        ({ r.1 with cache := r.1.cache.set i r.2 }, .ok r.2)
    else (t, .ub)           -- `((var*)self)[i]` outside the cache words
  | none => let r := scan t cls; (r.1, .ok r.2)

/-- `Type_Implements`: `Type_Scan(self, cls) isnt NULL` (does not use the cache) -/
def implementsT (t : TypeRec) (cls : Cls) : TypeRec × Bool :=
  let r := scan t cls; (r.1, r.2.isSome)

/-- the member test `*((var*)(((char*)inst) + offset))` with `offset = k * sizeof(var)` -/
def memberAt (inst : Inst) (k : Nat) : Outcome Bool :=
  if h : k < inst.members.length then .ok inst.members[k] else .ub

/-- `Type_Method_At_Offset`: ClassError when the class is absent or the member NULL; otherwise the instance, nothing is called -/
def methodAt (slots : List (Nat × Cls)) (t : TypeRec) (cls : Cls) (k : Nat) : TypeRec × Outcome Inst :=
  match instanceOf slots t cls with
  | (t1, .ok none) => (t1, .raised (thrown .ClassError [t.sentinel, cls = terminalCls]))
  | (t1, .ok (some inst)) =>
    match memberAt inst k with
    | .ok true => (t1, .ok inst)
    | .ok false => (t1, .raised (thrown .ClassError [t.sentinel, cls = terminalCls, false]))
    | .raised e => (t1, .raised e)
    | .ub => (t1, .ub)
  | (t1, .raised e) => (t1, .raised e)
  | (t1, .ub) => (t1, .ub)

/-- `Type_Implements_Method_At_Offset` (uses Type_Scan, not the cache) -/
def implementsMethodAt (t : TypeRec) (cls : Cls) (k : Nat) : TypeRec × Outcome Bool :=
  match scan t cls with
  | (t1, none) => (t1, .ok false)
  | (t1, some inst) => (t1, memberAt inst k)

/-- white-box reset used by the harness between runs: all cache words and memoised class pointers back to NULL -/
def reset (t : TypeRec) : TypeRec :=
  { t with cache := t.cache.map (fun _ => none), entries := t.entries.map (fun e => { e with memo := none }) }

/-! ### histories of lookups on one type object -/

inductive Op where
  | lookup (cls : Cls)
  | implements (cls : Cls)
  | methodAt (cls : Cls) (k : Nat)
  | implementsMethodAt (cls : Cls) (k : Nat)
  | reset
deriving DecidableEq, Repr, Inhabited

inductive Obs where
  | inst (r : Outcome (Option Inst))
  | bool (b : Outcome Bool)
  | meth (r : Outcome Inst)
  | unit
deriving DecidableEq, Repr, Inhabited

def applyOp (slots : List (Nat × Cls)) (t : TypeRec) : Op → TypeRec × Obs
  | .lookup cls => let r := instanceOf slots t cls; (r.1, .inst r.2)
  | .implements cls => let r := implementsT t cls; (r.1, .bool (.ok r.2))
  | .methodAt cls k => let r := methodAt slots t cls k; (r.1, .meth r.2)
  | .implementsMethodAt cls k => let r := implementsMethodAt t cls k; (r.1, .bool r.2)
  | .reset => (reset t, .unit)

/-- run a history, collecting what each lookup returned -/
def runOps (slots : List (Nat × Cls)) : TypeRec → List Op → TypeRec × List Obs
  | t, [] => (t, [])
  | t, op :: ops =>
    let r := applyOp slots t op
    let rs := runOps slots r.1 ops
    (rs.1, r.2 :: rs.2)

/-- **Spec of one lookup**, a function of the declaration only (`sent`: the type object is `Terminal`) -/
def specObs (sent : Bool) (D : String → Option Inst) : Op → Obs
  | .lookup cls => .inst (.ok (D cls.name))
  | .implements cls => .bool (.ok (D cls.name).isSome)
  | .methodAt cls k =>
    match D cls.name with
    | none => .meth (.raised (thrown .ClassError [sent, cls = terminalCls]))
    | some inst =>
      match memberAt inst k with
      | .ok true => .meth (.ok inst)
      | .ok false => .meth (.raised (thrown .ClassError [sent, cls = terminalCls, false]))
      | .raised e => .meth (.raised e)
      | .ub => .meth .ub
  | .implementsMethodAt cls k =>
    match D cls.name with
    | none => .bool (.ok false)
    | some inst => .bool (memberAt inst k)
  | .reset => .unit

/-! ### invariants (executable) -/

def memoOKb (D : String → Option Inst) (es : List Entry) : Bool :=
  es.all (fun e => match e.memo with
    | none => true
    | some c => c.name = e.name && D e.name = some e.inst)

def cacheOKb (D : String → Option Inst) (slots : List (Nat × Cls)) (cache : List (Option Inst)) : Bool :=
  slots.all (fun s => match cache[s.1]? with
    | none => false
    | some none => true
    | some (some i) => D s.2.name = some i)

/-- the executable invariant of a type object relative to its own declaration -/
def invb (slots : List (Nat × Cls)) (t : TypeRec) : Bool :=
  memoOKb (declared t.entries) t.entries && cacheOKb (declared t.entries) slots t.cache

/-- a freshly built type object (Cello()/CelloEmpty() static initialiser or Type_New): empty cache, no memo -/
def mkType (cacheNum : Nat) (hdr : Bool) (es : List (String × Inst)) (sentinel : Bool := false) : TypeRec :=
  { hdr := hdr, sentinel := sentinel, cache := List.replicate cacheNum none, entries := es.map (fun p => ⟨none, p.1, p.2⟩) }

/-- `Type_New`: OutOfMemoryError above CELLO_MAX_INSTANCES, otherwise the record with the instances in argument order -/
def typeNew (cacheNum maxInstances : Nat) (es : List (String × Inst)) : Outcome TypeRec :=
  if es.length > maxInstances then .raised .OutOfMemoryError else .ok (mkType cacheNum true es)

/-! ### concurrency: a lookup as a sequence of atomic word accesses

  Shared mutable words of a type object: the header type word, the cache words, the `cls` word of every triple.
  Names and instance pointers never change after construction.  One step = at most one access to a mutable word. -/

/-- where `Type_Scan`'s result goes: returned to the caller, or first stored into cache word `i` -/
inductive Ret where
  | direct
  | fill (i : Nat)
deriving DecidableEq, Repr, Inhabited

inductive PC where
  | start (useCache : Bool) (cls : Cls)        -- Type_Instance (true) / Type_Scan via Type_Implements (false)
  | hdrRead (cls : Cls) (ret : Ret)            -- Type_Scan → type_of(self): read head->type
  | hdrWrite (cls : Cls) (ret : Ret)           --   head->type = Type
  | scanP (cls : Cls) (pos : Nat) (ret : Ret)  -- first loop at triple `pos`: read t->cls
  | scanN (cls : Cls) (pos : Nat) (ret : Ret)  -- second loop at triple `pos`: strcmp on the (immutable) name
  | memoWrite (cls : Cls) (pos : Nat) (ret : Ret)   -- t->cls = cls
  | cacheWrite (cls : Cls) (i : Nat) (v : Option Inst)   -- ((var*)self)[i] = inst
  | done (cls : Cls) (v : Option Inst)
  | stuck                                      -- access outside the object
deriving DecidableEq, Repr, Inhabited

def finish (cls : Cls) (ret : Ret) (v : Option Inst) : PC :=
  match ret with
  | .direct => .done cls v
  | .fill i => .cacheWrite cls i v

/-- one atomic step of one lookup against the shared type object -/
def step (slots : List (Nat × Cls)) (t : TypeRec) : PC → TypeRec × PC
  | .start true cls =>
    match slotOf slots cls with
    | some (i, lit) =>
      if h : i < t.cache.length then
        match t.cache[i] with
        | some inst => (t, .done cls (some inst))
        | none => (t, .hdrRead lit (.fill i))
      else (t, .stuck)
    | none => (t, .hdrRead cls .direct)
  | .start false cls => (t, .hdrRead cls .direct)
  | .hdrRead cls ret => if t.hdr then (t, .scanP cls 0 ret) else (t, .hdrWrite cls ret)
  | .hdrWrite cls ret => ({ t with hdr := true }, .scanP cls 0 ret)
  | .scanP cls pos ret =>
    match t.entries[pos]? with
    | none => (t, .scanN cls 0 ret)
    | some e => if e.memo = some cls then (t, finish cls ret (some e.inst)) else (t, .scanP cls (pos + 1) ret)
  | .scanN cls pos ret =>
    match t.entries[pos]? with
    | none => (t, finish cls ret none)
    | some e => if e.name = cls.name then (t, .memoWrite cls pos ret) else (t, .scanN cls (pos + 1) ret)
  | .memoWrite cls pos ret =>
    match t.entries[pos]? with
    | none => (t, .stuck)
    | some e => ({ t with entries := t.entries.set pos { e with memo := some cls } }, finish cls ret (some e.inst))
  | .cacheWrite cls i v => ({ t with cache := t.cache.set i v }, .done cls v)
  | .done cls v => (t, .done cls v)
  | .stuck => (t, .stuck)

/-- a thread: the lookup in progress, the lookups still to do, the results obtained so far (newest first) -/
structure Thread where
  pc : Option PC
  todo : List (Bool × Cls)
  log : List (Cls × Option Inst)
deriving Repr, Inhabited

def Thread.new (todo : List (Bool × Cls)) : Thread := ⟨none, todo, []⟩

/-- one step of a thread: start the next lookup, advance the current one, or record its result -/
def threadStep (slots : List (Nat × Cls)) (t : TypeRec) (th : Thread) : TypeRec × Thread :=
  match th.pc with
  | none =>
    match th.todo with
    | [] => (t, th)
    | (uc, cls) :: rest => (t, { th with pc := some (.start uc cls), todo := rest })
  | some (.done cls v) => (t, { th with pc := none, log := (cls, v) :: th.log })
  | some pc => let r := step slots t pc; (r.1, { th with pc := some r.2 })

structure Sys where
  shared : TypeRec
  threads : List Thread
deriving Repr, Inhabited

/-- the scheduler picks thread `tid` for one step (an out-of-range id is a no-op) -/
def sysStep (slots : List (Nat × Cls)) (s : Sys) (tid : Nat) : Sys :=
  match s.threads[tid]? with
  | none => s
  | some th =>
    let r := threadStep slots s.shared th
    { shared := r.1, threads := s.threads.set tid r.2 }

def runSched (slots : List (Nat × Cls)) : Sys → List Nat → Sys
  | s, [] => s
  | s, tid :: sched => runSched slots (sysStep slots s tid) sched

/-- run one lookup alone to completion (fuel = number of steps allowed) -/
def runSolo (slots : List (Nat × Cls)) : Nat → TypeRec → PC → TypeRec × PC
  | 0, t, pc => (t, pc)
  | fuel + 1, t, pc =>
    match pc with
    | .done _ _ => (t, pc)
    | .stuck => (t, pc)
    | _ => let r := step slots t pc; runSolo slots fuel r.1 r.2

/-- number of steps that always suffices for one lookup on a record with `n` triples -/
def soloFuel (n : Nat) : Nat := 2 * n + 8

def Thread.finished (th : Thread) : Bool := th.pc.isNone && th.todo.isEmpty

/-! ### objects, type_of, cast (world level) -/

inductive Magic where
  | good | dead | bad
deriving DecidableEq, Repr, Inhabited

/-- what a `var self` can point at -/
inductive Self where
  | null
  | typeObj (tid : Nat)                   -- a type object (good magic; header type NULL or Type)
  | obj (magic : Magic) (tid : Nat)       -- any other object; its header type word points at type object `tid`
deriving DecidableEq, Repr, Inhabited

/-- the type objects of a program by number; `theType` is the number of `Type` itself -/
structure World where
  slots : List (Nat × Cls)
  theType : Nat
  types : List (Nat × TypeRec)
deriving Repr, Inhabited

def World.get (w : World) (tid : Nat) : Option TypeRec := (w.types.find? (fun p => p.1 = tid)).map (·.2)

def World.isSentinel (w : World) (tid : Nat) : Bool := ((w.get tid).map (·.sentinel)).getD false

def World.put (w : World) (tid : Nat) (t : TypeRec) : World :=
  if w.types.any (fun p => p.1 = tid) then
    { w with types := w.types.map (fun p => if p.1 = tid then (tid, t) else p) }
  else { w with types := w.types ++ [(tid, t)] }

/-- `Type_Of`: NULL → ValueError; freed or foreign magic → ValueError; a NULL header type word (static type object) is
    filled with `Type`; returns the header type word (a type number). -/
def typeOfW (w : World) : Self → World × Outcome Nat
  | .null => (w, .raised .ValueError)
  | .obj .dead _ => (w, .raised .ValueError)
  | .obj .bad _ => (w, .raised .ValueError)
  | .obj .good tid => (w, .ok tid)
  | .typeObj tid =>
    match w.get tid with
    | none => (w, .ub)
    | some t => (w.put tid { t with hdr := true }, .ok w.theType)

/-- `Type_Scan(self, cls)` for arbitrary `self`: `type_of(self) isnt Type` → TypeError -/
def typeScanW (w : World) (self : Self) (cls : Cls) : World × Outcome (Option Inst) :=
  match typeOfW w self with
  | (w1, .ok ty) =>
    match self with
    | .typeObj tid =>
      match w1.get tid with
      | none => (w1, .ub)
      | some t => let r := scan t cls; (w1.put tid r.1, .ok r.2)
    | _ => if ty = w.theType then (w1, .ub)   -- an object whose header claims to be a Type but is not one
           else (w1, .raised (thrown .TypeError [w.isSentinel ty]))
  | (w1, .raised e) => (w1, .raised e)
  | (w1, .ub) => (w1, .ub)

/-- `Type_Instance(self, cls)` for arbitrary `self`: a cached class reads `((var*)self)[i]` before any check -/
def typeInstanceW (w : World) (self : Self) (cls : Cls) : World × Outcome (Option Inst) :=
  match self with
  | .typeObj tid =>
    match w.get tid with
    | none => (w, .ub)
    | some t => let r := instanceOf w.slots t cls; (w.put tid r.1, r.2)
  | _ =>
    match slotOf w.slots cls with
    | some _ => (w, .ub)
    | none => typeScanW w self cls

/-- `instance(self, cls) = Type_Instance(Type_Of(self), cls)` -/
def instanceW (w : World) (self : Self) (cls : Cls) : World × Outcome (Option Inst) :=
  match typeOfW w self with
  | (w1, .ok ty) => typeInstanceW w1 (.typeObj ty) cls
  | (w1, .raised e) => (w1, .raised e)
  | (w1, .ub) => (w1, .ub)

/-- `implements(self, cls) = Type_Implements(Type_Of(self), cls)`; `type_implements(self, cls)` is `typeScanW` + `isSome` -/
def implementsW (w : World) (self : Self) (cls : Cls) : World × Outcome Bool :=
  match typeOfW w self with
  | (w1, .ok ty) =>
    match typeScanW w1 (.typeObj ty) cls with
    | (w2, .ok r) => (w2, .ok r.isSome)
    | (w2, .raised e) => (w2, .raised e)
    | (w2, .ub) => (w2, .ub)
  | (w1, .raised e) => (w1, .raised e)
  | (w1, .ub) => (w1, .ub)

/-- `Type_Method_At_Offset(self, cls, k*sizeof(var), _)` for arbitrary `self` -/
def typeMethodAtW (w : World) (self : Self) (cls : Cls) (k : Nat) : World × Outcome Inst :=
  let sent := match self with | .typeObj tid => w.isSentinel tid | _ => false
  match typeInstanceW w self cls with
  | (w1, .ok none) => (w1, .raised (thrown .ClassError [sent, cls = terminalCls]))
  | (w1, .ok (some inst)) =>
    match memberAt inst k with
    | .ok true => (w1, .ok inst)
    | .ok false => (w1, .raised (thrown .ClassError [sent, cls = terminalCls, false]))
    | .raised e => (w1, .raised e)
    | .ub => (w1, .ub)
  | (w1, .raised e) => (w1, .raised e)
  | (w1, .ub) => (w1, .ub)

/-- `method_at_offset(self, …) = Type_Method_At_Offset(Type_Of(self), …)` -/
def methodAtW (w : World) (self : Self) (cls : Cls) (k : Nat) : World × Outcome Inst :=
  match typeOfW w self with
  | (w1, .ok ty) => typeMethodAtW w1 (.typeObj ty) cls k
  | (w1, .raised e) => (w1, .raised e)
  | (w1, .ub) => (w1, .ub)

/-- `Type_Implements_Method_At_Offset` for arbitrary `self` -/
def typeImplementsMethodAtW (w : World) (self : Self) (cls : Cls) (k : Nat) : World × Outcome Bool :=
  match typeScanW w self cls with
  | (w1, .ok none) => (w1, .ok false)
  | (w1, .ok (some inst)) => (w1, memberAt inst k)
  | (w1, .raised e) => (w1, .raised e)
  | (w1, .ub) => (w1, .ub)

def implementsMethodAtW (w : World) (self : Self) (cls : Cls) (k : Nat) : World × Outcome Bool :=
  match typeOfW w self with
  | (w1, .ok ty) => typeImplementsMethodAtW w1 (.typeObj ty) cls k
  | (w1, .raised e) => (w1, .raised e)
  | (w1, .ub) => (w1, .ub)

inductive CastRes where
  | self          -- `return self`
  | custom        -- the type's own `cast` member was called
deriving DecidableEq, Repr, Inhabited

/-- `cast(self, type)`; `castCls` is the class object `Cast` -/
def castW (castCls : Cls) (w : World) (self : Self) (ty : Nat) : World × Outcome CastRes :=
  let tail (w2 : World) : World × Outcome CastRes :=
    match typeOfW w2 self with
    | (w3, .ok t') => if t' = ty then (w3, .ok .self) else (w3, .raised (thrown .ValueError [w3.isSentinel t', w3.isSentinel ty]))
    | (w3, .raised e) => (w3, .raised e)
    | (w3, .ub) => (w3, .ub)
  match instanceW w self castCls with
  | (w2, .ok none) => tail w2
  | (w2, .ok (some c)) =>
    match memberAt c 0 with
    | .ok true => (w2, .ok .custom)
    | .ok false => tail w2
    | .raised e => (w2, .raised e)
    | .ub => (w2, .ub)
  | (w2, .raised e) => (w2, .raised e)
  | (w2, .ub) => (w2, .ub)

/-! ### the raw storage of a run-time type object; `Type_New` word by word; life cycle

  A type object made by `new(Type, …)` / `alloc(Type)` is `CELLO_NBUILTINS + CELLO_MAX_INSTANCES + 1` cells of three words
  (`struct Type { var cls; var name; var inst; }`).  The first `CELLO_CACHE_NUM` words are the cache words, cell
  `CELLO_CACHE_NUM/3` is `__Name`, the next `__Size`, the instance triples start at cell `CELLO_NBUILTINS` and end with
  the first cell whose `name` word is NULL.  `Type_New` (the `construct_with` member of `Type`'s `New` instance) writes
  into whatever storage it is given: calloc'ed memory from `Type_Alloc`, caller-provided storage, or — after
  `destruct(T); construct(T, …)` — the previous incarnation of the same type object with its warmed cache words,
  memoised class pointers and old triples.  `Type` has no destructor (`Instance(New, Type_New, NULL)`): `destruct` leaves
  every word as it is. -/

/-- one word of the storage -/
inductive Word where
  | null
  | cls (c : Cls)          -- a class pointer (memoised `cls` word of a triple)
  | str (s : String)       -- a `char*`
  | inst (i : Inst)        -- an instance pointer
  | num (n : Nat)          -- `(var)(uintptr_t)size`
deriving DecidableEq, Repr, Inhabited

/-- the layout constants of src/Type.c / include/Cello.h -/
structure Layout where
  cacheNum : Nat           -- CELLO_CACHE_NUM
  nBuiltins : Nat          -- CELLO_NBUILTINS
  maxInstances : Nat       -- CELLO_MAX_INSTANCES
deriving DecidableEq, Repr, Inhabited

/-- number of cells `Type_Alloc` reserves: `CELLO_NBUILTINS + CELLO_MAX_INSTANCES + 1` -/
def Layout.cells (L : Layout) : Nat := L.nBuiltins + L.maxInstances + 1

/-- `t[k] = (struct Type){ a, b, c };` — three word stores -/
def writeCell (mem : List Word) (k : Nat) (a b c : Word) : List Word :=
  ((mem.set (3 * k) a).set (3 * k + 1) b).set (3 * k + 2) c

/-- `for (i = from; i < from + cnt; i++) { t[i] = (struct Type){ NULL, NULL, NULL }; }` -/
def clearCells : Nat → Nat → List Word → List Word
  | _, 0, mem => mem
  | i, cnt + 1, mem => clearCells (i + 1) cnt (writeCell mem i .null .null .null)

/-- `for (i = 2; i < len(args); i++) { t[CELLO_NBUILTINS-2+i] = (struct Type){ NULL, c_str(type_of(ins)), ins }; }` (`j = i-2`) -/
def writeInsts (nb : Nat) : Nat → List (String × Inst) → List Word → List Word
  | _, [], mem => mem
  | j, (nm, ins) :: rest, mem => writeInsts nb (j + 1) rest (writeCell mem (nb + j) .null (.str nm) (.inst ins))

/-- **`Type_New(self, args)`** on storage `mem` with ANY previous contents: OutOfMemoryError above CELLO_MAX_INSTANCES
    before anything is written; otherwise, in this order: the `CELLO_CACHE_NUM/3` cache cells := NULL triples, cell
    `cache_entries` := `__Name`, cell `cache_entries+1` := `__Size`, one triple per instance from cell `CELLO_NBUILTINS`
    with a NULL `cls` word, then the NULL terminator triple.  Nothing else is written.  `ub`: a store outside the storage. -/
def typeNewRaw (L : Layout) (mem : List Word) (name : String) (size : Nat) (es : List (String × Inst)) :
    List Word × Outcome Unit :=
  if es.length > L.maxInstances then (mem, .raised .OutOfMemoryError)
  else if mem.length < 3 * (L.nBuiltins + es.length + 1) || mem.length < 3 * (L.cacheNum / 3 + 2) then (mem, .ub)
  else
    let ce := L.cacheNum / 3
    let m1 := clearCells 0 ce mem
    let m2 := writeCell m1 ce .null (.str "__Name") (.str name)
    let m3 := writeCell m2 (ce + 1) .null (.str "__Size") (.num size)
    let m4 := writeInsts L.nBuiltins 0 es m3
    (writeCell m4 (L.nBuiltins + es.length) .null .null .null, .ok ())

/-- the whole storage of a run-time type object: the record the lookups work on, the `__Name`/`__Size` cells, and the
    words after the terminator triple that no lookup ever reads (remains of earlier, longer incarnations) -/
structure Store where
  trec : TypeRec
  name : String
  size : Nat
  rest : List Word
deriving DecidableEq, Repr, Inhabited

def Word.ofInst : Option Inst → Word
  | none => .null
  | some i => .inst i

def Word.ofCls : Option Cls → Word
  | none => .null
  | some c => .cls c

def Entry.words (e : Entry) : List Word := [Word.ofCls e.memo, .str e.name, .inst e.inst]

/-- the words of a type object in storage order -/
def Store.toRaw (s : Store) : List Word :=
  s.trec.cache.map Word.ofInst ++ ([.null, .str "__Name", .str s.name, .null, .str "__Size", .num s.size] ++
    (s.trec.entries.flatMap Entry.words ++ ([.null, .null, .null] ++ s.rest)))

/-- cache words as the lookups read them: NULL or an instance pointer (anything else has no reading) -/
def viewCache : List Word → Option (List (Option Inst))
  | [] => some []
  | .null :: ws => (viewCache ws).map (none :: ·)
  | .inst i :: ws => (viewCache ws).map (some i :: ·)
  | _ :: _ => none

/-- the triples as `Type_Scan` walks them: until the first cell whose `name` word is NULL; also what follows that cell -/
def viewEntries : List Word → Option (List Entry × List Word)
  | .null :: .null :: .null :: rest => some ([], rest)
  | .null :: .str nm :: .inst i :: rest => (viewEntries rest).map (fun r => (⟨none, nm, i⟩ :: r.1, r.2))
  | .cls c :: .str nm :: .inst i :: rest => (viewEntries rest).map (fun r => (⟨some c, nm, i⟩ :: r.1, r.2))
  | _ => none

/-- read a storage back as a type object, with the indices the C code uses: cache word `i` is `((var*)self)[i]`,
    the name is `t[CELLO_CACHE_NUM/3].inst`, the size `t[CELLO_CACHE_NUM/3+1].inst`, the triples start at cell
    `CELLO_NBUILTINS`.  `none`: the storage is not a well-formed type object. -/
def Store.ofRaw (L : Layout) (hdr sentinel : Bool) (mem : List Word) : Option Store :=
  let ce := L.cacheNum / 3
  match viewCache (mem.take L.cacheNum), mem[3 * ce + 2]?, mem[3 * (ce + 1) + 2]?, viewEntries (mem.drop (3 * L.nBuiltins)) with
  | some cache, some (.str name), some (.num size), some (es, rest) =>
    some { trec := { hdr := hdr, sentinel := sentinel, cache := cache, entries := es }, name := name, size := size, rest := rest }
  | _, _, _, _ => none

/-- `construct_with(self, args)` on a storage with any contents (`self`'s header already names `Type`) -/
def constructAt (L : Layout) (hdr sentinel : Bool) (mem : List Word) (name : String) (size : Nat)
    (es : List (String × Inst)) : Option Store × Outcome Unit :=
  let r := typeNewRaw L mem name size es
  match r.2 with
  | .ok _ => (Store.ofRaw L hdr sentinel r.1, .ok ())
  | .raised e => (none, .raised e)
  | .ub => (none, .ub)

/-- `destruct(T); construct(T, name, size, instances…)` IN PLACE: `destruct` finds no destructor and changes nothing,
    `Type_New` then runs on the words of the previous incarnation.  A refused construction leaves the object as it was. -/
def constructIn (L : Layout) (s : Store) (name : String) (size : Nat) (es : List (String × Inst)) : Store × Outcome Unit :=
  match constructAt L s.trec.hdr s.trec.sentinel s.toRaw name size es with
  | (some s', .ok _) => (s', .ok ())
  | (none, .ok _) => (s, .ub)
  | (_, .raised e) => (s, .raised e)
  | (_, .ub) => (s, .ub)

/-- what an instance list declares: for a class name, the instance of the first argument of that class -/
def declOf (es : List (String × Inst)) : String → Option Inst :=
  fun nm => (es.find? (fun p => p.1 = nm)).map (·.2)

/-- life-cycle histories of one type object: lookups (and white-box resets) interleaved with re-constructions in place -/
inductive LOp where
  | look (op : Op)
  | construct (name : String) (size : Nat) (es : List (String × Inst))
deriving DecidableEq, Repr, Inhabited

inductive LObs where
  | look (o : Obs)
  | constructed (r : Outcome Unit)
deriving DecidableEq, Repr, Inhabited

def applyLife (L : Layout) (slots : List (Nat × Cls)) (s : Store) : LOp → Store × LObs
  | .look op => let r := applyOp slots s.trec op; ({ s with trec := r.1 }, .look r.2)
  | .construct name size es => let r := constructIn L s name size es; (r.1, .constructed r.2)

def runLife (L : Layout) (slots : List (Nat × Cls)) : Store → List LOp → Store × List LObs
  | s, [] => (s, [])
  | s, op :: ops =>
    let r := applyLife L slots s op
    let rs := runLife L slots r.1 ops
    (rs.1, r.2 :: rs.2)

/-- **Spec of a life-cycle history**: every lookup answers from the declaration currently in force — the instance list of
    the last successful construction — and a construction succeeds exactly when it has at most CELLO_MAX_INSTANCES instances -/
def specLife (maxInstances : Nat) (sent : Bool) : (String → Option Inst) → List LOp → List LObs
  | _, [] => []
  | D, .look op :: ops => .look (specObs sent D op) :: specLife maxInstances sent D ops
  | D, .construct _ _ es :: ops =>
    if es.length > maxInstances then .constructed (.raised .OutOfMemoryError) :: specLife maxInstances sent D ops
    else .constructed (.ok ()) :: specLife maxInstances sent (declOf es) ops

/-- the declaration in force after a history -/
def declAfter (maxInstances : Nat) : (String → Option Inst) → List LOp → (String → Option Inst)
  | D, [] => D
  | D, .look _ :: ops => declAfter maxInstances D ops
  | D, .construct _ _ es :: ops => if es.length > maxInstances then declAfter maxInstances D ops else declAfter maxInstances (declOf es) ops

/-! ### NULL as the class argument (misuse; outside "every class", modelled so that the audited file says what the code does)

  `Type_Instance(self, NULL)`: no `Type_Cache_Entry` matches (`cls is lit` compares with the address of a library class);
  `Type_Scan(self, NULL)`: the first loop's test `t->cls is cls` is TRUE for the first triple whose `cls` word is still NULL
  (not yet memoised) and returns its instance; when every triple is memoised the second loop evaluates
  `Type_Builtin_Name(NULL)` — a read through the NULL pointer — unless there is no triple at all (the loop body never runs). -/

/-- `Type_Scan(self, NULL)` / `Type_Instance(self, NULL)` for `self` a type object -/
def scanNull (t : TypeRec) : TypeRec × Outcome (Option Inst) :=
  let t := { t with hdr := true }
  match t.entries.find? (fun e => e.memo.isNone) with
  | some e => (t, .ok (some e.inst))
  | none => if t.entries.isEmpty then (t, .ok none) else (t, .ub)

/-! ### class objects are type objects: their names are read when a lookup runs, their addresses are memoised

  Any type object can be used as a class.  `Type_Scan` memoises the ADDRESS of the class object in the `cls` word of the
  matching triple and later answers by address alone (first loop), while the by-name loop reads the class's `__Name` at
  the time of the lookup.  A run-time type object has no destructor and `Type_New` rewrites `__Name` in place, and a
  deleted type object's address can be handed out again by the allocator: both change what a memoised address MEANS
  without touching the word that holds it.

  Representation: a `Cls` value is "address + the `__Name` of the object that lives there NOW" — `name` is a derived
  attribute of the pointee.  `Heap.retarget` is therefore part of every write of `__Name`: all `cls` words that hold the
  address read, from then on, as the class with the new name (the words themselves are not written by the C code).
  Equality of `Cls` values is pointer equality as long as every `cls` word's derived name is the current name of its
  pointee or the pointee is dead (`Coherent`, proved to be preserved; `ptrEq_iff_eq`).  Library classes (static, never
  re-constructed) have address 0 in this numbering and are told apart by their names; the run-time type object at heap
  address `a` is the class value `⟨a + 1, name⟩`. -/

/-- a reference to a class object in a program: a library class, or the run-time type object living at an address -/
inductive CRef where
  | lib (name : String)
  | rt (addr : Nat)
deriving DecidableEq, Repr, Inhabited

/-- the run-time type objects of a program: their records (by address; also the records of the static type objects a
    program uses, which never change name) and the `__Name` cell of every LIVE run-time type object -/
structure Heap where
  w : World
  names : List (Nat × String)
deriving Repr, Inhabited

def Heap.nameAt (h : Heap) (a : Nat) : Option String := (h.names.find? (fun p => p.1 = a)).map (·.2)

/-- the class value a reference denotes now: `Type_Builtin_Name(cls)` read at the time of the lookup; `none`: nothing lives there -/
def Heap.resolve (h : Heap) : CRef → Option Cls
  | .lib n => some ⟨0, n⟩
  | .rt a => (h.nameAt a).map (fun n => ⟨a + 1, n⟩)

/-- every `cls` word of the record that holds address `id` now reads as the class named `name` -/
def retargetEntry (id : Nat) (name : String) (e : Entry) : Entry :=
  match e.memo with
  | some c => if c.id = id then { e with memo := some ⟨id, name⟩ } else e
  | none => e

def retargetRec (id : Nat) (name : String) (t : TypeRec) : TypeRec :=
  { t with entries := t.entries.map (retargetEntry id name) }

/-- the effect of writing `name` into the `__Name` cell of the object at `addr` on every alias of that address -/
def Heap.retarget (h : Heap) (addr : Nat) (name : String) : Heap :=
  { h with w := { h.w with types := h.w.types.map (fun p => (p.1, retargetRec (addr + 1) name p.2)) } }

/-- `Type_New` at address `addr` — a new run-time type object there (fresh storage, or storage of a deleted type object
    that the allocator hands out again) or `destruct(T); construct(T, …)` of the live one in place: refused above
    CELLO_MAX_INSTANCES with nothing written; otherwise `__Name` := `name` (seen through every alias of the address) and
    the record becomes the fresh record of the instance list (`C08_reconstruct_in_place`: what the word-level `Type_New`
    produces from any previous contents). -/
def Heap.construct (L : Layout) (h : Heap) (addr : Nat) (name : String) (es : List (String × Inst)) : Heap × Outcome Unit :=
  if es.length > L.maxInstances then (h, .raised .OutOfMemoryError)
  else
    let hs : Bool × Bool := match h.w.get addr with
      | some t => (t.hdr, t.sentinel)
      | none => (true, false)
    let h1 := h.retarget addr name
    ({ w := h1.w.put addr (mkType L.cacheNum hs.1 es hs.2), names := (addr, name) :: h1.names.filter (fun p => p.1 ≠ addr) }, .ok ())

/-- `del(T)`: the object is gone; `cls` words elsewhere that hold its address are NOT touched (they dangle) -/
def Heap.delete (h : Heap) (addr : Nat) : Heap :=
  { w := { h.w with types := h.w.types.filter (fun p => p.1 ≠ addr) }, names := h.names.filter (fun p => p.1 ≠ addr) }

/-- the four lookups -/
inductive Look where
  | inst | impl | meth (k : Nat) | implMeth (k : Nat)
deriving DecidableEq, Repr, Inhabited

def Look.op : Look → Cls → Op
  | .inst, c => .lookup c
  | .impl, c => .implements c
  | .meth k, c => .methodAt c k
  | .implMeth k, c => .implementsMethodAt c k

/-- histories over SEVERAL type objects: lookups (type-level entry points; the object-level ones are these on
    `type_of(self)`, `C08_entry_points`), white-box resets, casts of objects, constructions / re-constructions in place
    (of types AND of type objects used as classes by other types), deletions -/
inductive HOp where
  | look (tid : Nat) (l : Look) (c : CRef)
  | reset (tid : Nat)
  | cast (tid ty : Nat)                 -- cast(an object whose type is `tid`, type object `ty`)
  | castType (tid ty : Nat)             -- cast(the type object `tid` itself, type object `ty`)
  | construct (addr : Nat) (name : String) (es : List (String × Inst))
  | delete (addr : Nat)
deriving DecidableEq, Repr, Inhabited

inductive HObs where
  | look (o : Obs)
  | cast (r : Outcome CastRes)
  | constructed (r : Outcome Unit)
  | unit
  | ub                                  -- a dead type object or a dead class object is used
deriving DecidableEq, Repr, Inhabited

def castClsLib : Cls := ⟨0, "Cast"⟩

/-- one world-level lookup through the entry points of the library -/
def lookW (w : World) (tid : Nat) (l : Look) (cls : Cls) : World × Obs :=
  match l with
  | .inst => let r := typeInstanceW w (.typeObj tid) cls; (r.1, .inst r.2)
  | .impl =>
    let r := typeScanW w (.typeObj tid) cls
    (r.1, .bool (match r.2 with | .ok v => .ok v.isSome | .raised e => .raised e | .ub => .ub))
  | .meth k => let r := typeMethodAtW w (.typeObj tid) cls k; (r.1, .meth r.2)
  | .implMeth k => let r := typeImplementsMethodAtW w (.typeObj tid) cls k; (r.1, .bool r.2)

def Heap.step (L : Layout) (h : Heap) : HOp → Heap × HObs
  | .look tid l c =>
    match h.w.get tid, h.resolve c with
    | some _, some cls => let r := lookW h.w tid l cls; ({ h with w := r.1 }, .look r.2)
    | _, _ => (h, .ub)
  | .reset tid =>
    match h.w.get tid with
    | some t => ({ h with w := h.w.put tid (reset t) }, .unit)
    | none => (h, .ub)
  | .cast tid ty =>
    match h.w.get tid with
    | some _ => let r := castW castClsLib h.w (.obj .good tid) ty; ({ h with w := r.1 }, .cast r.2)
    | none => (h, .ub)
  | .castType tid ty =>
    match h.w.get tid, h.w.get h.w.theType with
    | some _, some _ => let r := castW castClsLib h.w (.typeObj tid) ty; ({ h with w := r.1 }, .cast r.2)
    | _, _ => (h, .ub)
  | .construct addr name es => let r := h.construct L addr name es; (r.1, .constructed r.2)
  | .delete addr => (h.delete addr, .unit)

def Heap.run (L : Layout) : Heap → List HOp → Heap × List HObs
  | h, [] => (h, [])
  | h, op :: ops =>
    let r := h.step L op
    let rs := Heap.run L r.1 ops
    (rs.1, r.2 :: rs.2)

/-- all `cls` words of a record -/
def memosOf (t : TypeRec) : List Cls := t.entries.filterMap (·.memo)

/-- **the hypothesis under which a write of `__Name` at `addr` is harmless**: every `cls` word of every record that holds
    the address already reads as a class of that name (vacuous when no record memoises the address: a class nobody has
    looked up yet, or after the caches were reset; true when the type object is re-constructed under its old name) -/
def Heap.nameWriteSafe (h : Heap) (addr : Nat) (name : String) : Bool :=
  h.w.types.all (fun p => (memosOf p.2).all (fun c => c.id ≠ addr + 1 || c.name = name))

/-- the executable side condition of a history: evaluated on the states the history itself produces -/
def Heap.safe (L : Layout) : Heap → List HOp → Bool
  | _, [] => true
  | h, op :: ops =>
    (match op with
     | .construct addr name es => es.length > L.maxInstances || h.nameWriteSafe addr name
     | _ => true) && Heap.safe L (h.step L op).1 ops

/-- what a history may depend on: for every address the declaration in force (with the `Terminal` flag) and the name -/
structure Abs where
  decl : Nat → Option (Bool × (String → Option Inst))
  name : Nat → Option String

def Heap.abs (h : Heap) : Abs :=
  { decl := fun tid => (h.w.get tid).map (fun t => (t.sentinel, declared t.entries)), name := h.nameAt }

def Abs.resolve (a : Abs) : CRef → Option Cls
  | .lib n => some ⟨0, n⟩
  | .rt x => (a.name x).map (fun n => ⟨x + 1, n⟩)

def Abs.sent (a : Abs) (tid : Nat) : Bool := ((a.decl tid).map (·.1)).getD false

/-- **Spec of cast** as a function of the declaration of the object's type: the type's own `cast` member if it has one,
    otherwise `self` exactly for the object's own type and ValueError for any other -/
def specCast (D : String → Option Inst) (sentT sentTy : Bool) (tid ty : Nat) : Outcome CastRes :=
  let tail : Outcome CastRes := if tid = ty then .ok .self else .raised (thrown .ValueError [sentT, sentTy])
  match D castClsLib.name with
  | none => tail
  | some c =>
    match memberAt c 0 with
    | .ok true => .ok .custom
    | .ok false => tail
    | .raised e => .raised e
    | .ub => .ub

/-- **Spec of a history over several type objects**: a function of the declarations and names only -/
def specHeap (maxInstances : Nat) (theType : Nat) : Abs → List HOp → List HObs
  | _, [] => []
  | a, .look tid l c :: ops =>
    (match a.decl tid, a.resolve c with
     | some d, some cls => HObs.look (specObs d.1 d.2 (l.op cls))
     | _, _ => .ub) :: specHeap maxInstances theType a ops
  | a, .reset tid :: ops => (if (a.decl tid).isSome then HObs.unit else .ub) :: specHeap maxInstances theType a ops
  | a, .cast tid ty :: ops =>
    (match a.decl tid with
     | some d => HObs.cast (specCast d.2 d.1 (a.sent ty) tid ty)
     | none => .ub) :: specHeap maxInstances theType a ops
  | a, .castType tid ty :: ops =>
    (match a.decl tid, a.decl theType with
     | some _, some dT => HObs.cast (specCast dT.2 dT.1 (a.sent ty) theType ty)
     | _, _ => .ub) :: specHeap maxInstances theType a ops
  | a, .construct addr name es :: ops =>
    if es.length > maxInstances then .constructed (.raised .OutOfMemoryError) :: specHeap maxInstances theType a ops
    else .constructed (.ok ()) :: specHeap maxInstances theType
      { decl := fun x => if x = addr then some (a.sent addr, declOf es) else a.decl x,
        name := fun x => if x = addr then some name else a.name x } ops
  | a, .delete addr :: ops =>
    .unit :: specHeap maxInstances theType
      { decl := fun x => if x = addr then none else a.decl x, name := fun x => if x = addr then none else a.name x } ops

/-- the executable heap invariant (evaluated by the driver on every state it reaches outside the known finding's
    territory): every record satisfies `invb`, has `n` cache words, and every `cls` word reads as the class that lives
    at its address now (or its pointee is dead) -/
def Heap.okb (n : Nat) (h : Heap) : Bool :=
  h.w.types.all (fun p => invb h.w.slots p.2 && p.2.cache.length == n &&
    (memosOf p.2).all (fun c => c.id == 0 || h.nameAt (c.id - 1) == some c.name || h.nameAt (c.id - 1) == none))

/-! ### the strings a run-time type object does NOT own (known finding KF-C08-borrowed-name)

  `Type_New` stores POINTERS, not texts: `t[cache_entries+0] = { NULL, "__Name", (var)c_str(name) }` keeps the `char*` that
  lives INSIDE the caller's String object, and `{ NULL, (var)c_str(type_of(ins)), ins }` copies the `__Name` word of the
  class object into the triple.  Everything above this section treats a name as a TEXT (a value fixed by the
  construction).  That is what the code does as long as nobody writes the characters the pointers point at: a string
  literal, or a buffer the caller never touches again.  When the caller overwrites the buffer (`char buf[] = "Alpha";
  T = new(Type, $S(buf), …); strcpy(buf, "Beta")`), every `__Name` cell and every triple name word that points into it
  reads the new text at the next `strcmp` — no function of the library was called on any of these type objects.  (A buffer
  that is released — the String object collected or re-assigned — makes the same words dangle: a read of freed memory.)

  `XHeap` = a `Heap` plus the provenance of the `char*` words: which caller's buffer a `__Name` cell and a triple's name
  word point into.  `XOp.construct` is `Type_New` with the name given as a pointer (`NameArg`) and the instances given by
  their class OBJECTS (the triple copies the class's `__Name` word, pointer and all); `XOp.scribble` is the caller's write. -/

/-- the `name` argument of `Type_New`: `$S("literal")` (static storage nobody writes) or `$S(buf)` / a String object whose
    characters live in the caller's buffer `b` -/
inductive NameArg where
  | lit (s : String)
  | buf (b : Nat)
deriving DecidableEq, Repr, Inhabited

structure XHeap where
  h : Heap
  bufs : List (Nat × String)              -- caller-owned character buffers: their text now
  nameBuf : List (Nat × Nat)              -- address of a type object ↦ the buffer its `__Name` cell points into (absent: static storage)
  tripleBuf : List ((Nat × Nat) × Nat)    -- (address, index of a triple) ↦ the buffer the triple's name word points into
deriving Repr, Inhabited

def XHeap.ofHeap (h : Heap) : XHeap := { h := h, bufs := [], nameBuf := [], tripleBuf := [] }

def XHeap.bufText (x : XHeap) (b : Nat) : Option String := (x.bufs.find? (fun p => p.1 = b)).map (·.2)

def XHeap.readName (x : XHeap) : NameArg → Option String
  | .lit s => some s
  | .buf b => x.bufText b

def XHeap.bufOfName (x : XHeap) (addr : Nat) : Option Nat := (x.nameBuf.find? (fun p => p.1 = addr)).map (·.2)

/-- the buffer `c_str(type_of(ins))` points into: the `__Name` word of the class object, copied as it is -/
def XHeap.bufOfCls (x : XHeap) : CRef → Option Nat
  | .lib _ => none
  | .rt a => x.bufOfName a

/-- the type object at `addr` is gone or written afresh: its own words no longer point anywhere (name words of OTHER type
    objects that were copied from its `__Name` cell keep pointing where they point) -/
def XHeap.forget (x : XHeap) (addr : Nat) : XHeap :=
  { x with nameBuf := x.nameBuf.filter (fun p => p.1 ≠ addr), tripleBuf := x.tripleBuf.filter (fun p => p.1.1 ≠ addr) }

inductive XOp where
  | op (o : HOp)                            -- any operation of `HOp` (a construction there has its texts in storage nobody writes)
  | construct (addr : Nat) (name : NameArg) (es : List (CRef × Inst))
  | scribble (b : Nat) (text : String)      -- the caller writes `text` into its buffer `b`
deriving Repr, Inhabited

/-- the name TEXTS a construction sees when it runs -/
def XHeap.namedRow (x : XHeap) (es : List (CRef × Inst)) : Option (List (String × Inst)) :=
  es.mapM (fun p => (x.h.resolve p.1).map (fun c => (c.name, p.2)))

/-- the value-level operation an `XOp` amounts to when it runs (`none`: a caller's write, or a construction from an unknown
    buffer / an instance whose class object is dead) -/
def XHeap.lower (x : XHeap) : XOp → Option HOp
  | .op o => some o
  | .construct addr nm es =>
    match x.readName nm, x.namedRow es with
    | some name, some named => some (.construct addr name named)
    | _, _ => none
  | .scribble _ _ => none

/-- every name word of the record whose index satisfies `hit` reads `text` from now on -/
def renameTriples (hit : Nat → Bool) (text : String) (t : TypeRec) : TypeRec :=
  { t with entries := ((List.range t.entries.length).zip t.entries).map (fun p => if hit p.1 then { p.2 with name := text } else p.2) }

/-- the caller's write seen from the type objects: every `__Name` cell that points into buffer `b` reads `text` (through
    every memoised pointer to that object too), every triple name word that points into it reads `text`; no word of any
    type object is written -/
def XHeap.scribbled (x : XHeap) (b : Nat) (text : String) : Heap :=
  let addrs := (x.nameBuf.filter (fun p => p.2 = b)).map (·.1)
  let h1 := addrs.foldl (fun h a =>
    let h' := h.retarget a text
    { h' with names := h'.names.map (fun p => if p.1 = a then (a, text) else p) }) x.h
  { h1 with w := { h1.w with types := h1.w.types.map (fun p =>
      (p.1, renameTriples (fun i => x.tripleBuf.any (fun q => q.1 = (p.1, i) && q.2 = b)) text p.2)) } }

/-- one operation: the heap after it, what it answers (a caller's write answers nothing) -/
def XHeap.step (L : Layout) (x : XHeap) : XOp → XHeap × List HObs
  | .scribble b text =>
    ({ x with h := x.scribbled b text, bufs := (b, text) :: x.bufs.filter (fun p => p.1 ≠ b) }, [])
  | op =>
    match x.lower op with
    | none => (x, [.ub])
    | some o =>
      let r := x.h.step L o
      let refused : Bool := match o with
        | .construct _ _ es => es.length > L.maxInstances
        | _ => false
      let x1 : XHeap :=
        if refused then x else
        match op, o with
        | .construct addr nm es, _ =>
          let x0 := x.forget addr
          { x0 with
            nameBuf := (match nm with | .buf b => [(addr, b)] | .lit _ => []) ++ x0.nameBuf,
            tripleBuf := ((List.range es.length).zip es).filterMap (fun p => (x.bufOfCls p.2.1).map (fun b => ((addr, p.1), b))) ++ x0.tripleBuf }
        | _, .construct addr _ _ => x.forget addr
        | _, .delete addr => x.forget addr
        | _, _ => x
      ({ x1 with h := r.1 }, [r.2])

def XHeap.run (L : Layout) : XHeap → List XOp → XHeap × List HObs
  | x, [] => (x, [])
  | x, op :: ops =>
    let r := x.step L op
    let rs := XHeap.run L r.1 ops
    (rs.1, r.2 ++ rs.2)

/-- the same history with every name taken as the TEXT it had when `Type_New` ran (what a type object that owned its
    strings would see): constructions lowered when they run, the caller's writes dropped -/
def XHeap.values (L : Layout) : XHeap → List XOp → List HOp
  | _, [] => []
  | x, op :: ops => (match x.lower op with | some o => [o] | none => []) ++ XHeap.values L (x.step L op).1 ops

/-- no `__Name` cell and no triple name word points into buffer `b` -/
def XHeap.unused (x : XHeap) (b : Nat) : Bool := x.nameBuf.all (fun p => p.2 ≠ b) && x.tripleBuf.all (fun p => p.2 ≠ b)

/-- the side condition of one operation -/
def XOp.quietIn (x : XHeap) : XOp → Bool
  | .scribble b _ => x.unused b
  | xo => (x.lower xo).isSome

/-- **the hypothesis under which names are texts**: whenever the caller writes into a buffer, no `__Name` cell and no triple
    name word of any type object points into it (evaluated on the states the history itself produces); and every
    construction finds its name buffer and the class objects of its instances alive -/
def XHeap.quiet (L : Layout) : XHeap → List XOp → Bool
  | _, [] => true
  | x, op :: ops => op.quietIn x && XHeap.quiet L (x.step L op).1 ops

end Cello.Dispatch
