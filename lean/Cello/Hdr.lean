/-
  Cello/Hdr.lean — executable model of Cello's object headers (engine `hdr`, property C19).

  Mirrors (code as it is in /repo now):
    include/Cello.h   struct Header {type, alloc, magic}; alloc_stack / $ ; CelloObject (static: type NULL, AllocStatic)
    src/Alloc.c       header_init, alloc_by (calloc + header_init(.., AllocHeap) + registration), dealloc
                      (class checks -> ResourceError, fill, free), del_by (collector for standard/root,
                      `dealloc(destruct(self))` for raw), copy
    src/Type.c        Type_Of (magic check, NULL type means Type), Type_Alloc, size
    src/Array.c List.c Table.c Tree.c   element births: Array_Alloc, List_Alloc, Table_Set_Move, Tree_Alloc write
                      (element type, AllocData); the operations that create, move and drop elements
    src/String.c Tuple.c   the `header(self)->alloc is AllocStack or AllocStatic` guards of every reallocating function
    src/GC.c          registry membership (GC_Set only from alloc_by); GC_Rem / GC_Rem_Ptr (an object found on the pending
                      list is struck off and finalised; an object found in the registry is erased and finalised);
                      GC_Sweep (phase 1: the unmarked non-root entries leave the registry for the pending list, in slot
                      order; phase 2: every slot that is still non-NULL is cleared and its object finalised); GC_Del /
                      Cello_Exit (a sweep with nothing marked)
    src/Pointer.c     Box_New / Box_Assign / Box_Ref / Box_Del: the destructor of a Box `del`s what the Box points to, so
                      releases nest: a destructor running inside `del`, `del_raw`, a sweep or the teardown deletes another
                      object, which may itself be waiting in the same sweep (chains, rings, a Box that owns itself)
                      A Box on the stack (`$(Box, x)`, the documented idiom) holds the pointer as it is; `destruct` of it
                      is Box_Del (the pointee is deleted through the collector, the Box cleared); `del_raw` of it runs
                      Box_Del and only then reaches `dealloc`, which refuses the Box (KF-C19-delraw-embedded)
    src/Tuple.c Array.c   objects embedded in containers may own a malloc block themselves: a Tuple element its `items`,
                      an Array element its backing store, a String element its characters (`Scalar.tup / .arr / .str`).
                      Tuple_Del / String_Del let class `data` through, Array_Del has no guard: `destruct` / `del_raw` of
                      such an element frees that block and leaves the pointer dangling (`.tupFreed / .arrFreed / .strFreed`)
    src/Alloc.c       del_by: `dealloc(destruct(self))`; whether a class test comes first is read from the source
                      (`Config.delRawClassFirst`: not in the code that exists; the repair proposed for KF-C19-delraw-embedded)
    src/Iter.c        what Range / Slice / Zip / Filter / Map hand out; what `copy` of such a view object does (`copyViewOutcome`)
    src/GC.c          the type pointer of a header is not traced (GC_Recurse, GC_Mark_Item) and GC_Sweep releases in slot order:
                      a run-time Type object can be released before, or under, its instances (`Obj.usesRt`, `St.typeLost`)

  Everything a source change can flip is a parameter (`Config`) whose current value `Config.current` is computed from
  the generated CelloGen/Hdr.lean; the theorems of CelloProofs/Props/C19.lean are proved for every `Config` that is
  `Sound` and `Sound Config.current` is decided over the generated tables.

  Core Lean only (the driver links against this file).
-/
import CelloGen.Hdr

namespace Cello.Hdr

/-- first entry with this key -/
def assoc {β : Type} (k : Nat) : List (Nat × β) → Option β
  | [] => none
  | p :: r => if p.1 = k then some p.2 else assoc k r

/-! ## configuration read from the source -/

/-- the allocation-class guard of one reallocating function of String.c / Tuple.c -/
structure Guard where
  classes : List Nat      -- allocation classes the guard refuses
  exc : String            -- exception it throws
  first : Bool            -- no mutation of the object precedes the guard
  boundsFirst : Bool      -- an IndexOutOfBoundsError check precedes the guard
deriving Repr, DecidableEq, Inhabited

def isGuardEv : CelloGen.Hdr.Ev → Bool
  | .guard _ _ => true
  | _ => false

/-- does this event change the object (directly, or by calling another reallocating function of the file)? -/
def isMutating : CelloGen.Hdr.Ev → Bool
  | .mutate _ => true
  | .call f => (CelloGen.Hdr.reallocFns.lookup f).isSome
  | _ => false

def guardFromEvents (evs : List CelloGen.Hdr.Ev) : Guard :=
  let pre := evs.takeWhile (fun e => !isGuardEv e)
  match evs.dropWhile (fun e => !isGuardEv e) with
  | .guard cs exc :: _ =>
    { classes := cs, exc := exc, first := !(pre.any isMutating),
      boundsFirst := pre.any (fun e => e == .throw "IndexOutOfBoundsError") }
  | _ => { classes := [], exc := "", first := false, boundsFirst := false }

def guardOf (fn : String) : Guard :=
  match CelloGen.Hdr.reallocFns.lookup fn with
  | some evs => guardFromEvents evs
  | none => { classes := [], exc := "", first := false, boundsFirst := false }

/-- does the function leave by `if (cond) { return; }` before its guard and before any mutation? -/
def selfReturnFirst (fn cond : String) : Bool :=
  match CelloGen.Hdr.reallocFns.lookup fn with
  | some evs => (evs.takeWhile (fun e => !isGuardEv e && !isMutating e)).contains (.retIf cond)
  | none => false

/-- class written by the header site `(fn, type expression)`; 0 (no class) when the site no longer exists -/
def siteClass (fn ty : String) : Nat :=
  match CelloGen.Hdr.headerSites.find? (fun x => x.1 == fn && x.2.1 == ty) with
  | some x => x.2.2
  | none => 0

def isReleaseEv : CelloGen.Hdr.DeallocEv → Bool
  | .fill => true
  | .free => true
  | _ => false

/-- the class checks of `dealloc` that come before the block is filled or freed -/
def deallocRefusedOf (evs : List CelloGen.Hdr.DeallocEv) : List (Nat × String) :=
  (evs.takeWhile (fun e => !isReleaseEv e)).filterMap (fun e => match e with
    | .classCheck c exc => some (c, exc)
    | _ => none)

/-- when an object is un-listed (pending slot cleared / registry entry erased) relative to its finalisation -/
inductive When where
  | before | after | never
deriving DecidableEq, Repr, Inhabited

/-- position of the un-listing event `c` relative to the finalisation in a list of events read from the source -/
def whenOf (c : CelloGen.Hdr.GcEv) (evs : List CelloGen.Hdr.GcEv) : When :=
  match evs.findIdx? (· == c), evs.findIdx? (· == .finalise) with
  | some i, some j => if i < j then .before else .after
  | some _, none => .before
  | none, _ => .never

structure Config where
  cStatic : Nat
  cStack : Nat
  cHeap : Nat
  cData : Nat
  magic : Nat
  bAllocBy : Nat          -- class written by alloc_by
  bTypeAlloc : Nat        -- Type_Alloc
  bStack : Nat            -- alloc_stack / $
  bStaticObj : Nat        -- CelloObject
  bArray : Nat            -- Array_Alloc
  bList : Nat             -- List_Alloc
  bTableK : Nat           -- Table_Set_Move (key)
  bTableV : Nat           -- Table_Set_Move (value)
  bTreeK : Nat            -- Tree_Alloc (key)
  bTreeV : Nat            -- Tree_Alloc (value)
  writesType : Bool       -- header_init writes the type / the class / the magic number
  writesAlloc : Bool
  writesMagic : Bool
  deallocRefused : List (Nat × String)
  sDel : Guard
  sAssign : Guard
  sConcat : Guard
  sResize : Guard
  tDel : Guard
  tAssign : Guard
  tPush : Guard
  tPop : Guard
  tPushAt : Guard
  tPopAt : Guard
  tConcat : Guard
  tResize : Guard
  regStandard : Option Bool
  regRaw : Option Bool
  regRoot : Option Bool
  delViaCollector : Bool
  delRawDestructFirst : Bool
  delRawClassFirst : Bool -- del_by refuses an object that is not on the heap *before* it runs the destructor (not in the code that exists)
  gcSetOnlyAllocBy : Bool
  roundArray : Bool
  roundList : Bool
  roundTable : Bool
  roundTree : Bool
  typeBlock : Nat
  swClear : When          -- GC_Sweep's release loop: the pending slot is cleared before / after / never relative to `dealloc(destruct(item))`
  swFinalises : Bool      -- ... and the loop finalises the objects it finds
  swUnlistsFirst : Bool   -- GC_Sweep: the victims leave the registry (phase 1) before the first of them is finalised (phase 2)
  remPendClear : When     -- GC_Rem_Ptr, object found on the pending list: slot cleared before / after / never
  remPendFinalises : Bool -- ... and the object is finalised there
  remRegErase : When      -- GC_Rem_Ptr, object found in the registry: entry erased before / after / never
  boxDelDeletes : Bool    -- Box_Del `del`s the pointee
  sAssignSelfReturns : Bool -- String_Assign: `if (val is s->val) { return; }` before the guard and before any mutation (fix 744a45f)
deriving Repr

/-- the configuration of the code that is in /repo now -/
def Config.current : Config :=
  { cStatic := CelloGen.Hdr.allocStatic, cStack := CelloGen.Hdr.allocStack,
    cHeap := CelloGen.Hdr.allocHeap, cData := CelloGen.Hdr.allocData,
    magic := CelloGen.Hdr.magicNum,
    bAllocBy := siteClass "alloc_by" "type", bTypeAlloc := siteClass "Type_Alloc" "Type",
    bStack := siteClass "alloc_stack" "T", bStaticObj := siteClass "CelloObject" "NULL",
    bArray := siteClass "Array_Alloc" "a->type", bList := siteClass "List_Alloc" "l->type",
    bTableK := siteClass "Table_Set_Move" "t->ktype", bTableV := siteClass "Table_Set_Move" "t->vtype",
    bTreeK := siteClass "Tree_Alloc" "m->ktype", bTreeV := siteClass "Tree_Alloc" "m->vtype",
    writesType := CelloGen.Hdr.headerInitWrites.contains "type",
    writesAlloc := CelloGen.Hdr.headerInitWrites.contains "alloc",
    writesMagic := CelloGen.Hdr.headerInitWrites.contains "magic",
    deallocRefused := deallocRefusedOf CelloGen.Hdr.deallocEvents,
    sDel := guardOf "String_Del", sAssign := guardOf "String_Assign", sConcat := guardOf "String_Concat",
    sResize := guardOf "String_Resize",
    tDel := guardOf "Tuple_Del", tAssign := guardOf "Tuple_Assign", tPush := guardOf "Tuple_Push",
    tPop := guardOf "Tuple_Pop", tPushAt := guardOf "Tuple_Push_At", tPopAt := guardOf "Tuple_Pop_At",
    tConcat := guardOf "Tuple_Concat", tResize := guardOf "Tuple_Resize",
    regStandard := CelloGen.Hdr.regStandard, regRaw := CelloGen.Hdr.regRaw, regRoot := CelloGen.Hdr.regRoot,
    delViaCollector := CelloGen.Hdr.delStandardViaCollector,
    delRawDestructFirst := CelloGen.Hdr.delRawDestructThenDealloc,
    delRawClassFirst := CelloGen.Hdr.delRawClassCheckFirst,
    gcSetOnlyAllocBy := CelloGen.Hdr.gcSetSites == ["alloc_by"],
    roundArray := CelloGen.Hdr.arrayRoundsSize, roundList := CelloGen.Hdr.listRoundsSize,
    roundTable := CelloGen.Hdr.tableRoundsSize, roundTree := CelloGen.Hdr.treeRoundsSize,
    typeBlock := 24 * (2 + CelloGen.Hdr.cacheNum / 3 + CelloGen.Hdr.maxInstances + 1),
    swClear := whenOf .clear CelloGen.Hdr.sweepLoopEvents,
    swFinalises := CelloGen.Hdr.sweepLoopEvents.contains .finalise,
    swUnlistsFirst := CelloGen.Hdr.sweepPhases == [.reset, .collect, .release, .reset],
    remPendClear := whenOf .clear CelloGen.Hdr.remPendingEvents,
    remPendFinalises := CelloGen.Hdr.remPendingEvents.contains .finalise,
    remRegErase := whenOf .erase CelloGen.Hdr.remRegistryEvents,
    boxDelDeletes := CelloGen.Hdr.boxDelEvents == [.test, .finalise, .clear],
    sAssignSelfReturns := selfReturnFirst "String_Assign" "val is s->val" }

/-- a guard that protects stack and static objects, before anything is changed, and lets heap and embedded ones through -/
def Guard.Protects (cfg : Config) (g : Guard) : Bool :=
  g.first && g.classes.contains cfg.cStack && g.classes.contains cfg.cStatic &&
  !g.classes.contains cfg.cHeap && !g.classes.contains cfg.cData && g.exc == "ValueError"

/-- what the theorems need from the source (decided for `Config.current` in Props/C19.lean) -/
def Config.Sound (cfg : Config) : Bool :=
  -- four distinct classes
  cfg.cStatic != cfg.cStack && cfg.cStatic != cfg.cHeap && cfg.cStatic != cfg.cData &&
  cfg.cStack != cfg.cHeap && cfg.cStack != cfg.cData && cfg.cHeap != cfg.cData &&
  -- every birth place writes its class
  cfg.bAllocBy == cfg.cHeap && cfg.bTypeAlloc == cfg.cHeap && cfg.bStack == cfg.cStack &&
  cfg.bStaticObj == cfg.cStatic && cfg.bArray == cfg.cData && cfg.bList == cfg.cData &&
  cfg.bTableK == cfg.cData && cfg.bTableV == cfg.cData && cfg.bTreeK == cfg.cData && cfg.bTreeV == cfg.cData &&
  cfg.writesType && cfg.writesAlloc && cfg.writesMagic &&
  -- dealloc refuses the three non-heap classes with ResourceError before it fills or frees, and does not refuse heap
  assoc cfg.cStatic cfg.deallocRefused == some "ResourceError" &&
  assoc cfg.cStack cfg.deallocRefused == some "ResourceError" &&
  assoc cfg.cData cfg.deallocRefused == some "ResourceError" &&
  (assoc cfg.cHeap cfg.deallocRefused).isNone &&
  -- the String / Tuple guards
  cfg.sDel.Protects cfg && cfg.sAssign.Protects cfg && cfg.sConcat.Protects cfg && cfg.sResize.Protects cfg &&
  cfg.tDel.Protects cfg && cfg.tAssign.Protects cfg && cfg.tPush.Protects cfg && cfg.tPop.Protects cfg &&
  cfg.tPushAt.Protects cfg && cfg.tPopAt.Protects cfg && cfg.tConcat.Protects cfg && cfg.tResize.Protects cfg &&
  -- registration
  cfg.regStandard == some false && cfg.regRaw == none && cfg.regRoot == some true &&
  cfg.delViaCollector && cfg.gcSetOnlyAllocBy &&
  -- the collector un-lists an object (pending slot cleared, registry entry erased) before it finalises it, on every path
  cfg.swClear == .before && cfg.swFinalises && cfg.swUnlistsFirst &&
  cfg.remPendClear == .before && cfg.remPendFinalises && cfg.remRegErase == .before && cfg.boxDelDeletes

/-! ## objects -/

inductive Ty where
  | type | int | string | tuple | array | list | table | tree | ref | range | box
  | builtin (name : String)   -- any other built-in type (only its static Type object is ever observed)
  | rt (k : Nat)              -- run-time type number k, made with new(Type, ...)
deriving DecidableEq, Repr, Inhabited

def Ty.name : Ty → String
  | .type => "Type" | .int => "Int" | .string => "String" | .tuple => "Tuple" | .array => "Array"
  | .list => "List" | .table => "Table" | .tree => "Tree" | .ref => "Ref" | .range => "Range" | .box => "Box"
  | .builtin n => n | .rt k => s!"RT{k}"

def Ty.ofName (n : String) : Ty :=
  if n == "Type" then .type else if n == "Int" then .int else if n == "String" then .string
  else if n == "Tuple" then .tuple else if n == "Array" then .array else if n == "List" then .list
  else if n == "Table" then .table else if n == "Tree" then .tree else if n == "Ref" then .ref
  else if n == "Range" then .range else if n == "Box" then .box
  else if n.startsWith "RT" then (match (n.drop 2).toString.toNat? with | some k => .rt k | none => .builtin n)
  else .builtin n

/-- `sizeof(struct T)` of the built-in types used here (x86-64) -/
def builtinSize : Ty → Nat
  | .type => 0 | .int => 8 | .string => 8 | .tuple => 8 | .array => 40 | .list => 40 | .table => 72
  | .tree => 48 | .ref => 8 | .range => 32 | .box => 8 | .builtin _ => 0 | .rt _ => 0

/-- `struct Header`: the type pointer (NULL in static Cello types until `Type_Of` fills it), the class, the magic number -/
structure Header where
  ty : Option Ty
  alloc : Nat
  magic : Nat
deriving DecidableEq, Repr, Inhabited

/-- `header_init(head, type, alloc)` -/
def headerInit (cfg : Config) (ty : Ty) (alloc : Nat) : Header :=
  { ty := if cfg.writesType then some ty else none,
    alloc := if cfg.writesAlloc then alloc else 0,
    magic := if cfg.writesMagic then cfg.magic else 0 }

/-- the header words of `CelloObject`: `NULL, (var)AllocStatic, (var)CELLO_MAGIC_NUM` -/
def staticHeader (cfg : Config) : Header := { ty := none, alloc := cfg.bStaticObj, magic := cfg.magic }

/-- `Type_Of`: `none` = ValueError (bad magic number); a NULL type pointer means `Type` -/
def typeOf (cfg : Config) (h : Header) : Option Ty :=
  if h.magic = cfg.magic then some (h.ty.getD .type) else none

inductive Scalar where
  | int (v : Int)
  | str (s : String)
  | strFreed          -- a String whose buffer was freed by its destructor (dangling `val`)
  | raw (w : Int)     -- object of a run-time type: its first word
  | tup (items : List Nat)   -- an embedded Tuple: the handles of its items (`items` is its own malloc block)
  | tupFreed          -- an embedded Tuple whose `items` block was freed by Tuple_Del (dangling `items`)
  | arr (vals : List Int)    -- an embedded Array of Int (its backing store is its own malloc block)
  | arrFreed (n : Nat)       -- an embedded Array whose backing store was freed by Array_Del (dangling `data`, `nitems` still n ≥ 1)
deriving DecidableEq, Repr, Inhabited

/-- the value owns a block that its destructor has already freed: every use of it reads released memory -/
def Scalar.dangling : Scalar → Bool
  | .strFreed => true | .tupFreed => true | .arrFreed _ => true | _ => false

/-- does the type of the value have a destructor that touches memory?  (String_Del, Tuple_Del, Array_Del; Int and the
    run-time struct types have none) -/
def Scalar.hasDestructor : Scalar → Bool
  | .int _ => false | .raw _ => false | _ => true

/-- an object embedded in a container: header, bytes reserved after it, value -/
structure Elem where
  hdr : Header
  cap : Nat
  val : Scalar
deriving DecidableEq, Repr, Inhabited

inductive SeqKind where | array | list
deriving DecidableEq, Repr, Inhabited
inductive MapKind where | table | tree
deriving DecidableEq, Repr, Inhabited

inductive Body where
  | scalar (v : Scalar)
  | tuple (items : List Nat)                    -- handles of the items (pointers)
  | seq (k : SeqKind) (ety : Ty) (elems : List Elem)
  | map (k : MapKind) (kty vty : Ty) (ents : List (Elem × Elem))   -- kept sorted by key
  | ref (target : Nat)
  | box (val : Option Nat)                      -- a Box: the handle it points to (`none` = NULL); its destructor `del`s it
  | tyobj (t : Ty) (size : Nat)                 -- a Type object (static built-in or run-time)
  | destroyed                                   -- after its destructor ran
deriving DecidableEq, Repr, Inhabited

structure Obj where
  hdr : Header
  cap : Nat       -- bytes reserved after the header
  body : Body
  live : Bool     -- false once released
deriving DecidableEq, Repr, Inhabited

structure St where
  objs : List (Nat × Obj)      -- handle ↦ object
  reg : List (Nat × Bool)      -- the collector's registry: handle, root flag
  pending : List (Option Nat)  -- `freelist[0 .. freenum)` while a sweep is under way: `none` = a slot that was cleared
  freed : List Nat             -- every release of an object's block, in order
  rtSizes : List (Nat × Nat)   -- `__Size` of the run-time types
deriving Repr, Inhabited

def St.init : St := { objs := [], reg := [], pending := [], freed := [], rtSizes := [] }

def St.get (s : St) (id : Nat) : Option Obj := assoc id s.objs

def St.isLive (s : St) (id : Nat) : Bool :=
  match s.get id with
  | some o => o.live
  | none => false

/-- is the object an item of some live Tuple? (a dangling item would be dereferenced by the collector's mark phase) -/
def St.referenced (s : St) (id : Nat) : Bool :=
  s.objs.any (fun p => p.2.live && (match p.2.body with | .tuple items => items.contains id | _ => false))

/-- live, and not the `Terminal` object (which ends every argument list and every Tuple, so it cannot be passed or stored) -/
def St.usableArg (s : St) (id : Nat) : Bool :=
  match s.get id with
  | some o => o.live && o.body != .tyobj (.builtin "Terminal") 0
  | none => false

/-- is the object what some live Box points to? (its destructor will `del` it) -/
def St.owned (s : St) (id : Nat) : Bool :=
  s.objs.any (fun p => p.2.live && p.2.body == .box (some id))

/-- can be put into a Tuple: usable, no live Box owns it (a Tuple must never hold an object that a destructor releases
    behind its back: the collector's mark phase dereferences the items of every live Tuple), and not a Box itself (the
    message of a refused `dealloc` shows the Tuple with its items, and `Box_Show` follows the pointer: a ring of Boxes
    would be shown for ever) -/
def St.usableItem (s : St) (id : Nat) : Bool :=
  s.usableArg id && !s.owned id &&
  (match s.get id with
   | some o => (match o.body with | .box _ => false | _ => true)
   | none => false)

/-- neither a Box nor a Ref (showing such an object follows its pointer) -/
def St.plainPointee (s : St) (id : Nat) : Bool :=
  match s.get id with
  | some o => (match o.body with | .box _ => false | .ref _ => false | _ => true)
  | none => false

/-- can be given to a Box: usable, not a Type object, not an item of a live Tuple -/
def St.ownable (s : St) (id : Nat) : Bool :=
  s.usableArg id && !s.referenced id &&
  (match s.get id with
   | some o => (match o.body with | .tyobj _ _ => false | _ => true)
   | none => false)

def St.sizeOf (s : St) : Ty → Nat
  | .rt k => (assoc k s.rtSizes).getD 0
  | t => builtinSize t

def round8 (n : Nat) : Nat := ((n + 7) / 8) * 8
def slotCap (round : Bool) (n : Nat) : Nat := if round then round8 n else n

def St.isReg (s : St) (id : Nat) : Bool := s.reg.any (fun p => p.1 == id)

/-- change the body of every entry with this handle; headers are never touched -/
def St.updBody (s : St) (id : Nat) (f : Body → Body) : St :=
  { s with objs := s.objs.map (fun p => if p.1 = id then (p.1, { p.2 with body := f p.2.body }) else p) }

/-- `free` of the object's block -/
def St.release (s : St) (id : Nat) : St :=
  { s with objs := s.objs.map (fun p => if p.1 = id then (p.1, { p.2 with live := false }) else p),
           freed := s.freed ++ [id] }

def St.unreg (s : St) (id : Nat) : St := { s with reg := s.reg.filter (fun p => p.1 != id) }

inductive Outcome where
  | ok
  | raised (e : String)
  | ub                   -- undefined behaviour in C (invalid free / realloc, use of freed memory)
deriving DecidableEq, Repr, Inhabited

/-! ## births -/

inductive Route where
  | new | newRaw | newRoot | alloc | allocRaw | allocRoot | stack | static
deriving DecidableEq, Repr, Inhabited

def Route.isHeap : Route → Bool
  | .stack => false | .static => false | _ => true

/-- `alloc_by(type, method)`: what `set(current(GC), self, $I(root))` does for this route -/
def Route.registers (cfg : Config) : Route → Option Bool
  | .new => cfg.regStandard | .alloc => cfg.regStandard
  | .newRaw => cfg.regRaw | .allocRaw => cfg.regRaw
  | .newRoot => cfg.regRoot | .allocRoot => cfg.regRoot
  | .stack => none | .static => none

/-- the header and reserved bytes of an object of type `ty` born by `r` -/
def birthHeader (cfg : Config) (s : St) (r : Route) (ty : Ty) : Header × Nat :=
  match r with
  | .stack => (headerInit cfg ty cfg.bStack, builtinSize ty)                 -- alloc_stack(T)
  | .static => (headerInit cfg ty cfg.cStatic, builtinSize ty)               -- hand-made static object (harness)
  | _ =>
    if ty = .type then (headerInit cfg .type cfg.bTypeAlloc, cfg.typeBlock)  -- Type_Alloc
    else (headerInit cfg ty cfg.bAllocBy, s.sizeOf ty)                       -- alloc_by: calloc(1, sizeof(Header)+size(type))

def St.birth (cfg : Config) (s : St) (id : Nat) (r : Route) (ty : Ty) (body : Body) : St :=
  let (h, cap) := birthHeader cfg s r ty
  { s with objs := s.objs ++ [(id, { hdr := h, cap := cap, body := body, live := true })],
           reg := match r.registers cfg with
             | some root => s.reg ++ [(id, root)]
             | none => s.reg }

/-- `Array_Alloc` / `List_Alloc` / `Table_Set_Move` / `Tree_Alloc`: header of an embedded object -/
def mkElem (cfg : Config) (s : St) (cls : Nat) (round : Bool) (ety : Ty) (v : Scalar) : Elem :=
  { hdr := headerInit cfg ety cls, cap := slotCap round (s.sizeOf ety), val := v }

def seqElem (cfg : Config) (s : St) (k : SeqKind) (ety : Ty) (v : Scalar) : Elem :=
  match k with
  | .array => mkElem cfg s cfg.bArray cfg.roundArray ety v
  | .list => mkElem cfg s cfg.bList cfg.roundList ety v

def mapEntry (cfg : Config) (s : St) (k : MapKind) (kty vty : Ty) (key val : Scalar) : Elem × Elem :=
  match k with
  | .table => (mkElem cfg s cfg.bTableK cfg.roundTable kty key, mkElem cfg s cfg.bTableV cfg.roundTable vty val)
  | .tree => (mkElem cfg s cfg.bTreeK cfg.roundTree kty key, mkElem cfg s cfg.bTreeV cfg.roundTree vty val)

/-- offset of the value's header inside a Tree node: three links, the key's header, the key's slot
    (`Tree_Alloc`: `3 * sizeof(var) + sizeof(struct Header) + m->ksize`) -/
def treeValHeaderOffset (cfg : Config) (ksize : Nat) : Nat := 3 * 8 + 24 + slotCap cfg.roundTree ksize

/-- `struct Header` holds pointers: it must sit at a multiple of 8 -/
def treeValHeaderAligned (cfg : Config) (ksize : Nat) : Bool := treeValHeaderOffset cfg ksize % 8 == 0

/-! ## values -/

def Scalar.fits (v : Scalar) (t : Ty) : Bool :=
  match v, t with
  | .int _, .int => true
  | .str _, .string => true
  | .raw _, .rt _ => true
  | .tup _, .tuple => true
  | .arr _, .array => true
  | _, _ => false

def keyLt (a b : Scalar) : Bool :=
  match a, b with
  | .int x, .int y => x < y
  | .str x, .str y => x < y
  | _, _ => false

def insertEnt (e : Elem × Elem) : List (Elem × Elem) → List (Elem × Elem)
  | [] => [e]
  | x :: r => if keyLt e.1.val x.1.val then e :: x :: r else x :: insertEnt e r

/-- the (type, value) of an object that can be copied into a container -/
def St.srcScalar (cfg : Config) (s : St) (id : Nat) : Option (Ty × Scalar) :=
  match s.get id with
  | some o =>
    if o.live then
      match o.body, typeOf cfg o.hdr with
      | .scalar v, some t => some (t, v)
      | _, _ => none
    else none
  | none => none

/-- can be an item of a Tuple that is embedded in a container: a live Int or String that is not on the heap (so nothing the
    embedded Tuple points to is ever released behind its back) and that no live Box owns -/
def St.fixedItem (cfg : Config) (s : St) (id : Nat) : Bool :=
  s.usableItem id &&
  (match s.get id with
   | some o => o.hdr.alloc != cfg.cHeap &&
      (match o.body with | .scalar (.int _) => true | .scalar (.str _) => true | _ => false)
   | none => false)

def allSomeInts : List Elem → Option (List Int)
  | [] => some []
  | e :: r => (match e.val, allSomeInts r with | .int v, some l => some (v :: l) | _, _ => none)

/-- the (type, value) of an object that `assign` can copy into a container slot: a scalar, a Tuple whose items are all
    `fixedItem`s (Tuple_Assign copies the pointers), an Array of Int (Array_Assign copies the elements) -/
def St.srcValue (cfg : Config) (s : St) (id : Nat) : Option (Ty × Scalar) :=
  match s.srcScalar cfg id with
  | some r => some r
  | none =>
    match s.get id with
    | some o =>
      if o.live then
        match o.body, typeOf cfg o.hdr with
        | .tuple items, some .tuple => if items.all (s.fixedItem cfg) then some (.tuple, .tup items) else none
        | .seq .array .int es, some .array => (allSomeInts es).map (fun vs => (Ty.array, Scalar.arr vs))
        | _, _ => none
      else none
    | none => none

/-! ## dealloc, destruct, del -/

/-- `dealloc` of a whole object (the type has no `dealloc` of its own) -/
def dealloc (cfg : Config) (s : St) (id : Nat) (o : Obj) : St × Outcome :=
  match assoc o.hdr.alloc cfg.deallocRefused with
  | some e =>
    -- throw(e, "... %$ ...", self): the argument list `tuple(self)` ends at the first `Terminal`, so when `self` is the
    -- `Terminal` object itself the message has no argument and FormatError is raised instead
    (s, .raised (if o.body = .tyobj (.builtin "Terminal") 0 then "FormatError" else e))
  | none => if o.hdr.alloc = cfg.cHeap then (s.release id, .ok) else (s, .ub)

/-- `dealloc` of an embedded object; the message of the exception shows the object (`%$`) -/
def deallocElem (cfg : Config) (e : Elem) : Outcome :=
  match assoc e.hdr.alloc cfg.deallocRefused with
  | some exc => if e.val.dangling then .ub else .raised exc
  | none => .ub

/-- `destruct` of a whole object: String_Del / Tuple_Del are guarded, the containers free their backing store -/
def destructBody (cfg : Config) (h : Header) (b : Body) : Body × Outcome :=
  match b with
  | .scalar (.str _) =>
    if cfg.sDel.classes.contains h.alloc then (b, .raised cfg.sDel.exc)
    else if h.alloc = cfg.cHeap || h.alloc = cfg.cData then (.destroyed, .ok) else (b, .ub)
  | .tuple _ =>
    if cfg.tDel.classes.contains h.alloc then (b, .raised cfg.tDel.exc)
    else if h.alloc = cfg.cHeap || h.alloc = cfg.cData then (.destroyed, .ok) else (b, .ub)
  | .seq _ _ _ => (.destroyed, .ok)
  | .map _ _ _ _ => (.destroyed, .ok)
  | _ => (b, .ok)

/-- `destruct` of an embedded object: String_Del and Tuple_Del let class `data` through (the containers destruct their
    elements that way) and free the block the object owns without clearing the pointer; Array_Del has no guard at all -/
def destructElem (cfg : Config) (e : Elem) : Elem × Outcome :=
  match e.val with
  | .str _ =>
    if cfg.sDel.classes.contains e.hdr.alloc then (e, .raised cfg.sDel.exc)
    else if e.hdr.alloc = cfg.cHeap || e.hdr.alloc = cfg.cData then ({ e with val := .strFreed }, .ok) else (e, .ub)
  | .tup _ =>
    if cfg.tDel.classes.contains e.hdr.alloc then (e, .raised cfg.tDel.exc)
    else if e.hdr.alloc = cfg.cHeap || e.hdr.alloc = cfg.cData then ({ e with val := .tupFreed }, .ok) else (e, .ub)
  | .tupFreed => (e, .ub)                       -- `free(t->items)` of a block that is already free
  | .arr vals =>
    -- Array_Del: destruct of every element (Int: nothing), `free(a->data)`; an empty Array has no backing store
    if vals.isEmpty then (e, .ok) else ({ e with val := .arrFreed vals.length }, .ok)
  | .arrFreed _ => (e, .ub)                     -- `destruct(Array_Item(a, i))` reads the released backing store
  | _ => (e, .ok)

inductive FreeOp where
  | dealloc | deallocRaw | deallocRoot | del | delRaw | delRoot | destruct
deriving DecidableEq, Repr, Inhabited

def FreeOp.name : FreeOp → String
  | .dealloc => "dealloc" | .deallocRaw => "dealloc_raw" | .deallocRoot => "dealloc_root"
  | .del => "del" | .delRaw => "del_raw" | .delRoot => "del_root" | .destruct => "destruct"

def FreeOp.viaCollector : FreeOp → Bool
  | .del => true | .delRoot => true | _ => false

/-! ## the collector's release paths

  `dealloc(destruct(x))` nests: the destructor of a Box `del`s its pointee through `GC_Rem`, which finalises that object
  in turn if the collector still lists it — in the registry, or on the pending list of the sweep that is under way.
  The recursion ends because an object is un-listed *before* its destructor runs (`Config.swClear`, `remPendClear`,
  `remRegErase` = `.before` in the code that exists), so the `del` that comes back to it finds nothing.  The other
  orders are modelled too (they are what a reordering of those statements gives): the same object is then finalised
  again while its first destructor is still running, which ends in the use of a released block (`Outcome.ub`). -/

/-- `freelist[i] = NULL` for the slot that holds `x` -/
def strike (x : Nat) (p : List (Option Nat)) : List (Option Nat) :=
  p.map (fun o => if o = some x then none else o)

/-- `GC_Rem` → `GC_Rem_Ptr(gc, x)`, with `fin s y` = `dealloc(destruct(y))` in state `s`: pending list first, then the registry;
    an exception leaves through every frame, so the statements after a failing call are not executed -/
def gcRem (fin : St → Nat → St × Outcome) (cfg : Config) (s : St) (x : Nat) : St × Outcome :=
  if s.pending.contains (some x) then
    if cfg.remPendFinalises then
      match cfg.remPendClear with
      | .before => fin { s with pending := strike x s.pending } x
      | .after =>
        (match fin s x with
         | (s1, .ok) => ({ s1 with pending := strike x s1.pending }, .ok)
         | r => r)
      | .never => fin s x
    else
      (match cfg.remPendClear with
       | .never => (s, .ok)
       | _ => ({ s with pending := strike x s.pending }, .ok))
  else if s.isReg x then
    match cfg.remRegErase with
    | .before => fin (s.unreg x) x
    | .after =>
      (match fin s x with
       | (s1, .ok) => (s1.unreg x, .ok)
       | r => r)
    | .never => fin s x
  else (s, .ok)

/-- `dealloc(destruct(id))`.  `fuel` bounds the nesting of destructors; `fuelFor` always suffices when objects are
    un-listed first (theorem `finalise_ok`): every nested call is preceded by the removal of one object from the registry or
    the pending list.  Out of fuel = unbounded recursion in C: reported as `ub`, so that nothing holds because of it. -/
def finalise : Nat → Config → St → Nat → St × Outcome
  | 0, _, s, _ => (s, .ub)
  | fuel + 1, cfg, s, id =>
    match s.get id with
    | none => (s, .ub)
    | some o =>
      if !o.live then (s, .ub) else          -- the destructor of a released object: use of a freed block
      match o.body with
      | .box (some x) =>
        if cfg.boxDelDeletes then
          -- Box_Del: `if (obj) { del(obj); }  Box_Ref(self, NULL);` then dealloc
          (match gcRem (finalise fuel cfg) cfg s x with
           | (s1, .ok) =>
             if s1.isLive id then dealloc cfg (s1.updBody id (fun _ => .box none)) id { o with body := .box none }
             else (s1, .ub)                   -- the Box itself was released by the nested deletions
           | r => r)
        else dealloc cfg (s.updBody id (fun _ => .box none)) id { o with body := .box none }
      | _ =>
        let (b, out) := destructBody cfg o.hdr o.body
        match out with
        | .ok => dealloc cfg (s.updBody id (fun _ => b)) id { o with body := b }
        | other => (s, other)

/-- number of objects the collector lists -/
def St.listed (s : St) : Nat := s.reg.length + (s.pending.filter Option.isSome).length

def fuelFor (s : St) : Nat := s.listed + 2

/-- `destruct(self)` without `dealloc`.  Box_Del: `if (obj) { del(obj); }  Box_Ref(self, NULL);` — the documented way to
    end the life of what a stack Box (`$(Box, x)`) holds -/
def destructObj (cfg : Config) (s : St) (id : Nat) (o : Obj) : St × Outcome :=
  match o.body with
  | .box (some x) =>
    if cfg.boxDelDeletes then
      (match gcRem (finalise (fuelFor s) cfg) cfg s x with
       | (s1, .ok) => (s1.updBody id (fun _ => .box none), .ok)
       | r => r)
    else (s.updBody id (fun _ => .box none), .ok)
  | _ =>
    let (b, out) := destructBody cfg o.hdr o.body
    (s.updBody id (fun _ => b), out)

/-- a freeing operation applied to a whole live object -/
def freeObj (cfg : Config) (s : St) (f : FreeOp) (id : Nat) (o : Obj) : St × Outcome :=
  match f with
  | .dealloc | .deallocRaw | .deallocRoot => dealloc cfg s id o
  | .destruct => destructObj cfg s id o
  | .del | .delRoot =>
    -- rem(current(GC), self): GC_Rem_Ptr ignores a pointer that is neither pending nor registered
    if cfg.delViaCollector then gcRem (finalise (fuelFor s) cfg) cfg s id
    else finalise (fuelFor s) cfg s id
  | .delRaw =>
    -- dealloc(destruct(self)); with the class check first (`delRawClassFirst`, not in the code that exists) an object
    -- that is not on the heap goes straight to `dealloc`, which refuses it
    if cfg.delRawClassFirst && o.hdr.alloc != cfg.cHeap then dealloc cfg s id o
    else finalise (fuelFor s) cfg s id

/-- a freeing operation applied to an embedded object -/
def freeElem (cfg : Config) (f : FreeOp) (e : Elem) : Elem × Outcome :=
  match f with
  | .dealloc | .deallocRaw | .deallocRoot => (e, deallocElem cfg e)
  | .destruct => destructElem cfg e
  | .del | .delRoot =>
    if cfg.delViaCollector then (e, .ok)       -- never registered: GC_Rem_Ptr does nothing
    else
      let (e1, out) := destructElem cfg e
      match out with
      | .ok => (e1, deallocElem cfg e1)
      | other => (e1, other)
  | .delRaw =>
    if cfg.delRawClassFirst && e.hdr.alloc != cfg.cHeap then (e, deallocElem cfg e)
    else
      let (e1, out) := destructElem cfg e
      match out with
      | .ok => (e1, deallocElem cfg e1)
      | other => (e1, other)

/-! ## guarded in-place operations of String and Tuple -/

/-- bounds check, allocation-class guard and mutation of one reallocating function, in the order the source has them -/
def runGuarded (cfg : Config) (g : Guard) (alloc : Nat) (bounds : Option String) (b : Body) (m : Body → Body) :
    Body × Outcome :=
  match (if g.boundsFirst then bounds else none) with
  | some e => (b, .raised e)
  | none =>
    if g.classes.contains alloc then
      if g.first then (b, .raised g.exc) else (m b, .raised g.exc)
    else
      match (if g.boundsFirst then none else bounds) with
      | some e => (b, .raised e)
      | none => if alloc = cfg.cHeap || alloc = cfg.cData then (m b, .ok) else (b, .ub)

def strLen (s : String) : Nat := s.toList.length
def strTake (s : String) (n : Nat) : String := String.ofList (s.toList.take n)

def dropPrefix? : List Char → List Char → Option (List Char)
  | [], r => some r
  | _ :: _, [] => none
  | p :: ps, c :: cs => if p = c then dropPrefix? ps cs else none

/-- remove the first occurrence of `pat` (String_Rem) -/
def removeFirst (pat : List Char) : List Char → Option (List Char)
  | [] => if pat.isEmpty then some [] else none
  | c :: cs =>
    match dropPrefix? pat (c :: cs) with
    | some r => some r
    | none => (removeFirst pat cs).map (c :: ·)

/-- index normalisation `i < 0 ? n+i : i` and the test `i < 0 or i >= n` -/
def normIdx (n : Nat) (i : Int) : Option Nat :=
  let j := if i < 0 then (n : Int) + i else i
  if j < 0 ∨ j ≥ (n : Int) then none else some j.toNat

inductive InPlace where
  | resize (n : Nat)
  | concat (src : Nat)
  | assign (src : Nat)
  | push (src : Nat)
  | pop
  | pushAt (src : Nat) (i : Int)
  | popAt (i : Int)
  | rem (src : Nat)
  | set (key : Nat) (val : Nat)      -- maps only
deriving DecidableEq, Repr, Inhabited

def InPlace.srcs : InPlace → List Nat
  | .concat x => [x] | .assign x => [x] | .push x => [x] | .pushAt x _ => [x] | .rem x => [x] | .set k v => [k, v]
  | _ => []

def InPlace.name : InPlace → String
  | .resize _ => "resize" | .concat _ => "concat" | .assign _ => "assign" | .push _ => "push" | .pop => "pop"
  | .pushAt _ _ => "push_at" | .popAt _ => "pop_at" | .rem _ => "rem" | .set _ _ => "set"

/-- result of an in-place operation: new body, outcome; `none` = the operation is outside what the engine exercises
    (wrong argument types, a class the type does not implement): both sides print `skip` -/
abbrev IPRes := Option (Body × Outcome)

def stringOp (cfg : Config) (s : St) (alloc : Nat) (cur : String) (op : InPlace) : IPRes :=
  let b := Body.scalar (.str cur)
  match op with
  | .resize n =>
    some (runGuarded cfg cfg.sResize alloc none b (fun _ => .scalar (.str (if n > strLen cur then cur else strTake cur n))))
  | .concat src =>
    match s.srcScalar cfg src with
    | some (.string, .str t) => some (runGuarded cfg cfg.sConcat alloc none b (fun _ => .scalar (.str (cur ++ t))))
    | _ => none
  | .assign src =>
    match s.srcScalar cfg src with
    | some (.string, .str t) => some (runGuarded cfg cfg.sAssign alloc none b (fun _ => .scalar (.str t)))
    | _ => none
  | .rem src =>
    match s.srcScalar cfg src with
    | some (.string, .str t) =>
      (match removeFirst t.toList cur.toList with
       | some r => some (.scalar (.str (String.ofList r)), .ok)      -- in place, no guard, no realloc
       | none => some (b, .raised "ValueError"))
    | _ => none
  | _ => none

def isTupleLike (s : St) (id : Nat) : Option (List Nat) :=
  match s.get id with
  | some o => if o.live then (match o.body with | .tuple items => some items | _ => none) else none
  | none => none

def insertAt (l : List Nat) (i : Nat) (x : Nat) : List Nat := l.take i ++ [x] ++ l.drop i

def tupleOp (cfg : Config) (s : St) (alloc : Nat) (items : List Nat) (op : InPlace) : IPRes :=
  let b := Body.tuple items
  let n := items.length
  match op with
  | .push src =>
    if s.usableItem src then some (runGuarded cfg cfg.tPush alloc none b (fun _ => .tuple (items ++ [src]))) else none
  | .pop =>
    some (runGuarded cfg cfg.tPop alloc (if n = 0 then some "IndexOutOfBoundsError" else none) b
      (fun _ => .tuple (items.take (n - 1))))
  | .pushAt src i =>
    if s.usableItem src then
      match normIdx n i with
      | none => some (runGuarded cfg cfg.tPushAt alloc (some "IndexOutOfBoundsError") b id)
      | some j => some (runGuarded cfg cfg.tPushAt alloc none b (fun _ => .tuple (insertAt items j src)))
    else none
  | .popAt i =>
    match normIdx n i with
    | none => some (runGuarded cfg cfg.tPopAt alloc (some "IndexOutOfBoundsError") b id)
    | some j => some (runGuarded cfg cfg.tPopAt alloc none b (fun _ => .tuple (items.eraseIdx j)))
  | .concat src =>
    -- Tuple_Concat walks the argument with foreach: a Tuple with a repeated item is known finding F13 (C11)
    match isTupleLike s src with
    | some more =>
      if more.eraseDups.length = more.length then some (runGuarded cfg cfg.tConcat alloc none b (fun _ => .tuple (items ++ more)))
      else none
    | none => none
  | .assign src =>
    match isTupleLike s src with
    | some more => some (runGuarded cfg cfg.tAssign alloc none b (fun _ => .tuple more))
    | none => none
  | .resize m =>
    -- guard first, then `n < m ? realloc : throw FormatError`
    some (runGuarded cfg { cfg.tResize with boundsFirst := false } alloc
      (if m < n then none else some "FormatError") b (fun _ => .tuple (items.take m)))
  | .rem src =>
    -- Tuple_Rem: first item `eq` to the argument, then Tuple_Pop_At; absent → ValueError. Exercised on tuples of Ints.
    match s.srcScalar cfg src with
    | some (.int, .int v) =>
      let vals := items.map (fun i => s.srcScalar cfg i)
      if vals.all (fun x => match x with | some (.int, .int _) => true | _ => false) then
        match vals.findIdx? (fun x => x == some (Ty.int, Scalar.int v)) with
        | some j => some (runGuarded cfg cfg.tPopAt alloc none b (fun _ => .tuple (items.eraseIdx j)))
        | none => some (b, .raised "ValueError")
      else none
    | _ => none
  | _ => none

def seqOp (cfg : Config) (s : St) (k : SeqKind) (ety : Ty) (es : List Elem) (op : InPlace) : IPRes :=
  let b := Body.seq k ety es
  let n := es.length
  let mk (v : Scalar) : Elem := seqElem cfg s k ety v
  match op with
  | .push src =>
    match s.srcValue cfg src with
    | some (t, v) => if t = ety then some (.seq k ety (es ++ [mk v]), .ok) else none
    | none => none
  | .pop =>
    if n = 0 then some (b, .raised "IndexOutOfBoundsError") else some (.seq k ety (es.take (n - 1)), .ok)
  | .pushAt src i =>
    match s.srcValue cfg src with
    | some (t, v) =>
      if t = ety then
        match k with
        | .array =>
          -- i < 0 ? (n+1)+i : i ; refused when i < 0 or i > n (checked before anything is changed)
          let j := if i < 0 then (n : Int) + 1 + i else i
          if j < 0 ∨ j > (n : Int) then some (b, .raised "IndexOutOfBoundsError")
          else some (.seq k ety (es.take j.toNat ++ [mk v] ++ es.drop j.toNat), .ok)
        | .list =>
          -- List_Push_At: i == 0 links at the head, otherwise before List_At(i)
          if i = 0 then some (.seq k ety (mk v :: es), .ok)
          else match normIdx n i with
            | none => some (b, .raised "IndexOutOfBoundsError")
            | some j => some (.seq k ety (es.take j ++ [mk v] ++ es.drop j), .ok)
      else none
    | none => none
  | .popAt i =>
    match normIdx n i with
    | none => some (b, .raised "IndexOutOfBoundsError")
    | some j => some (.seq k ety (es.eraseIdx j), .ok)
  | .resize m =>
    if m = 0 then some (.seq k ety [], .ok)
    else if m < n then some (.seq k ety (es.take m), .ok)
    else match k with
      | .array => some (b, .ok)                      -- capacity only
      | .list =>
        -- List_Resize appends zeroed elements (List_Alloc)
        if m = n then some (b, .ok) else
        (match ety with
         | .int => some (.seq k ety (es ++ List.replicate (m - n) (mk (.int 0))), .ok)
         | .rt _ => some (.seq k ety (es ++ List.replicate (m - n) (mk (.raw 0))), .ok)
         | _ => none)                                -- a zeroed String has no buffer: not exercised
  | .concat src =>
    match s.get src with
    | some o =>
      if o.live then
        match o.body with
        | .seq _ ety2 more => if ety2 = ety then some (.seq k ety (es ++ more.map (fun e => mk e.val)), .ok) else none
        | _ => none
      else none
    | none => none
  | _ => none

def mapOp (cfg : Config) (s : St) (k : MapKind) (kty vty : Ty) (ents : List (Elem × Elem)) (op : InPlace) : IPRes :=
  let b := Body.map k kty vty ents
  match op with
  | .set key val =>
    match s.srcScalar cfg key, s.srcValue cfg val with
    | some (tk, kv), some (tv, vv) =>
      if tk = kty ∧ tv = vty ∧ (kty = .int ∨ kty = .string) then
        if ents.any (fun e => e.1.val == kv) then
          match k with
          | .table =>   -- destruct the old pair, memcpy the freshly initialised entry over it
            some (.map k kty vty (ents.map (fun e => if e.1.val = kv then mapEntry cfg s k kty vty kv vv else e)), .ok)
          | .tree =>    -- assign into the existing key and value (their headers stay)
            some (.map k kty vty (ents.map (fun e => if e.1.val = kv then ({ e.1 with val := kv }, { e.2 with val := vv }) else e)), .ok)
        else some (.map k kty vty (insertEnt (mapEntry cfg s k kty vty kv vv) ents), .ok)
      else none
    | _, _ => none
  | .rem key =>
    match s.srcScalar cfg key with
    | some (tk, kv) =>
      if tk = kty then
        if ents.any (fun e => e.1.val == kv) then some (.map k kty vty (ents.filter (fun e => e.1.val != kv)), .ok)
        else some (b, .raised "KeyError")
      else none
    | none => none
  | .resize m =>
    if m = 0 then some (.map k kty vty [], .ok)
    else match k with
      | .table => if m < ents.length then some (b, .raised "FormatError") else some (b, .ok)   -- rehash: entries are memcpy'd
      | .tree => some (b, .raised "FormatError")
  | _ => none

/-- an in-place operation on a whole live object -/
def inPlaceObj (cfg : Config) (s : St) (o : Obj) (op : InPlace) : IPRes :=
  match o.body with
  | .scalar (.str cur) => stringOp cfg s o.hdr.alloc cur op
  | .tuple items => tupleOp cfg s o.hdr.alloc items op
  | .seq k ety es => seqOp cfg s k ety es op
  | .map k kty vty ents => mapOp cfg s k kty vty ents op
  | .tyobj _ _ =>
    (match op with
     | .assign _ => some (o.body, .raised "ValueError")     -- Type_Assign
     | .resize _ => some (o.body, .raised "ClassError")     -- Type does not implement Resize
     | _ => none)
  | _ => none

/-- an in-place operation on an embedded String -/
def inPlaceElem (cfg : Config) (s : St) (e : Elem) (op : InPlace) : Option (Elem × Outcome) :=
  match e.val with
  | .str cur =>
    match stringOp cfg s e.hdr.alloc cur op with
    | some (.scalar v, out) => some ({ e with val := v }, out)
    | _ => none
  | _ => none

/-! ## targets -/

inductive Target where
  | obj (id : Nat)
  | elem (id : Nat) (i : Nat)     -- i-th element of an Array / List
  | key (id : Nat) (i : Nat)      -- key of the i-th entry (sorted by key) of a Table / Tree
  | val (id : Nat) (i : Nat)
deriving DecidableEq, Repr, Inhabited

def Target.id : Target → Nat
  | .obj id => id | .elem id _ => id | .key id _ => id | .val id _ => id

def Body.elemAt (b : Body) (t : Target) : Option Elem :=
  match b, t with
  | .seq _ _ es, .elem _ i => es[i]?
  | .map _ _ _ ents, .key _ i => (ents[i]?).map (·.1)
  | .map _ _ _ ents, .val _ i => (ents[i]?).map (·.2)
  | _, _ => none

def Body.setElemAt (b : Body) (t : Target) (e : Elem) : Body :=
  match b, t with
  | .seq k ety es, .elem _ i => .seq k ety (es.set i e)
  | .map k kty vty ents, .key _ i =>
    (match ents[i]? with | some p => .map k kty vty (ents.set i (e, p.2)) | none => .map k kty vty ents)
  | .map k kty vty ents, .val _ i =>
    (match ents[i]? with | some p => .map k kty vty (ents.set i (p.1, e)) | none => .map k kty vty ents)
  | b, _ => b

/-- the embedded object a target designates, in a live container -/
def St.elemOf (s : St) (t : Target) : Option Elem :=
  match t with
  | .obj _ => none
  | _ => match s.get t.id with
    | some o => if o.live then o.body.elemAt t else none
    | none => none

/-! ## iteration -/

/-- (type, class) of one handed-out object; `none` type = bad magic -/
abbrev Seen := Option Ty × Nat

def seenElem (cfg : Config) (e : Elem) : Seen := (typeOf cfg e.hdr, e.hdr.alloc)

def St.seenObj (cfg : Config) (s : St) (id : Nat) : Option Seen :=
  match s.get id with
  | some o => if o.live then some (typeOf cfg o.hdr, o.hdr.alloc) else none
  | none => none

/-- forward iteration over a container: the objects it hands out (Tuple: its items; dead or unknown items are skipped by
    the harness and shown as `none`) -/
def St.iterate (cfg : Config) (s : St) (id : Nat) : Option (List (Option Seen)) :=
  match s.get id with
  | some o =>
    if o.live then
      match o.body with
      | .seq _ _ es => some (es.map (fun e => some (seenElem cfg e)))
      | .map _ _ _ ents => some (ents.map (fun e => some (seenElem cfg e.1)))
      | .tuple items => if items.eraseDups.length = items.length then some (items.map (fun i => s.seenObj cfg i)) else none
      | _ => none
    else none
  | none => none

/-- values of a map, in key order (`get(m, key)` for every key) -/
def St.mapValues (cfg : Config) (s : St) (id : Nat) : Option (List (Option Seen)) :=
  match s.get id with
  | some o =>
    if o.live then
      match o.body with
      | .map _ _ _ ents => some (ents.map (fun e => some (seenElem cfg e.2)))
      | _ => none
    else none
  | none => none

/-- number of items a Range yields going forward (`Range_Iter_Init` / `Range_Iter_Next`), by simulation with fuel -/
def rangeCount (start stop step : Int) : Nat :=
  if step = 0 then 0
  else if step > 0 then (if start ≥ stop then 0 else ((stop - 1 - start) / step + 1).toNat)
  else (if stop - 1 < start then 0 else ((stop - 1 - start) / (-step) + 1).toNat)

inductive View where
  | slice (id : Nat) (start : Nat)       -- slice(x, $I(start), _)
  | reverse (id : Nat)                   -- reverse(x)
  | zip (a b : Nat)                      -- zip(a, b): hands out its own stack Tuple
  | enumerate (id : Nat)                 -- enumerate(x) = zip(range(len), x)
  | filter (id : Nat)                    -- filter(x, f), f accepts every second item
  | map (id : Nat)                       -- map(x, identity)
  | rangeStack (a b c : Int)             -- range(a, b, c): hands out its `$I(0)`
  | rangeHeap (a b c : Int)              -- new(Range, a, b, c): hands out its `new(Int)`
deriving DecidableEq, Repr, Inhabited

def everySecond {α : Type} : List α → List α
  | [] => []
  | [x] => [x]
  | x :: _ :: r => x :: everySecond r

/-- what forward iteration over a view hands out -/
def St.viewItems (cfg : Config) (s : St) (v : View) : Option (List (Option Seen)) :=
  match v with
  | .slice id k => (s.iterate cfg id).map (fun l => l.drop k)
  | .reverse id => (s.iterate cfg id).map List.reverse
  | .zip a b =>
    match s.iterate cfg a, s.iterate cfg b with
    | some la, some lb => some (List.replicate (min la.length lb.length) (some (some Ty.tuple, cfg.bStack)))
    | _, _ => none
  | .enumerate id => (s.iterate cfg id).map (fun l => List.replicate l.length (some (some Ty.tuple, cfg.bStack)))
  | .filter id => (s.iterate cfg id).map everySecond
  | .map id => s.iterate cfg id
  | .rangeStack a b c => some (List.replicate (rangeCount a b c) (some (some Ty.int, cfg.bStack)))
  | .rangeHeap a b c => some (List.replicate (rangeCount a b c) (some (some Ty.int, cfg.bAllocBy)))

/-! ## the collector -/

/-- **the type edge**: the header of the object (or the element / key / value slots of the container) points to the Type
    object of run-time type `k`.  `type_of`, every method call, the destructor and `dealloc` of the object go through that
    pointer; the collector neither marks through it nor orders releases by it. -/
def Obj.usesRt (o : Obj) (k : Nat) : Bool :=
  o.hdr.ty == some (.rt k) ||
    (match o.body with
     | .seq _ ety _ => ety == .rt k
     | .map _ kty vty _ => kty == .rt k || vty == .rt k
     | _ => false)

/-- … and its finalisation goes through that pointer: `destruct(x)` looks the destructor up in `type_of(x)`; the destructor
    of a container destructs its elements — an **empty** container's destructor never touches the element type -/
def Obj.usesRtAtDel (o : Obj) (k : Nat) : Bool :=
  o.hdr.ty == some (.rt k) ||
    (match o.body with
     | .seq _ ety es => ety == .rt k && !es.isEmpty
     | .map _ kty vty ents => (kty == .rt k || vty == .rt k) && !ents.isEmpty
     | _ => false)

/-- is some live object of run-time type `k`, or a container of such objects, still around? -/
def St.typeInUse (s : St) (k : Nat) : Bool :=
  s.objs.any (fun p => p.2.live && p.2.usesRt k)

/-- the live objects whose header (or element slots) point to the Type object of run-time type `k` -/
def St.usersOf (s : St) (k : Nat) : List Nat := (s.objs.filter (fun p => p.2.live && p.2.usesRt k)).map (·.1)

/-- the live objects whose finalisation reads the Type object of run-time type `k` -/
def St.finUsersOf (s : St) (k : Nat) : List Nat := (s.objs.filter (fun p => p.2.live && p.2.usesRtAtDel k)).map (·.1)

/-- the run-time type number, if the handle is a run-time Type object -/
def St.rtOf (s : St) (id : Nat) : Option Nat :=
  match s.get id with
  | some o => (match o.body with | .tyobj (.rt k) _ => some k | _ => none)
  | none => none

def St.isTypeInUse (s : St) (id : Nat) : Bool :=
  match s.get id with
  | some o => (match o.body with | .tyobj (.rt k) _ => s.typeInUse k | _ => false)
  | none => false

/-- a collector run in which exactly `victims` are found unreachable: GC_Sweep frees the registered, non-root ones.
    One filter is left: an object that is an item of a live Tuple is never a victim (a Tuple marks its items; a dangling item
    is KF-C01-dangling-tuple-item, property C01) — the theorems of Props/C19.lean state it as a hypothesis on `victims`.
    A run-time Type object is a victim like any other: nothing in GC_Recurse / GC_Mark_Item follows the type pointer of a
    header, so a Type that only the headers of its instances refer to is found unreachable (KF-C19-type-outlived). -/
def St.sweepVictims (s : St) (victims : List Nat) : List Nat :=
  (s.reg.filter (fun p => victims.contains p.1 && !p.2 && !s.referenced p.1)).map (·.1)

/-- the slot order of a collection: the victims listed in `order` first, in that order, then the others (in registration
    order).  The slot order of the registry depends on the addresses; it is a parameter of every collection, the theorems
    hold for every order. -/
def arrange : List Nat → List Nat → List Nat
  | [], cand => cand
  | o :: os, cand => if cand.contains o then o :: arrange os (cand.erase o) else arrange os cand

/-- GC_Sweep's release loop over the pending list as phase 1 built it (`todo`): a slot that is still non-NULL is cleared
    and its object finalised -/
def sweepLoop (fuel : Nat) (cfg : Config) : List Nat → St → St × Outcome
  | [], s => (s, .ok)
  | a :: rest, s =>
    if s.pending.contains (some a) then
      if cfg.swFinalises then
        let r :=
          match cfg.swClear with
          | .before => finalise fuel cfg { s with pending := strike a s.pending } a
          | .after =>
            (match finalise fuel cfg s a with
             | (s1, .ok) => ({ s1 with pending := strike a s1.pending }, .ok)
             | r => r)
          | .never => finalise fuel cfg s a
        match r with
        | (s', .ok) => sweepLoop fuel cfg rest s'
        | r => r
      else
        (match cfg.swClear with
         | .never => sweepLoop fuel cfg rest s
         | _ => sweepLoop fuel cfg rest { s with pending := strike a s.pending })
    else sweepLoop fuel cfg rest s

/-- GC_Sweep when exactly the registered objects `vs` (in slot order) are unmarked and not roots: they leave the registry
    for the pending list, then the release loop runs, then the list is dropped (not when an exception leaves the loop) -/
def St.collect (cfg : Config) (s : St) (vs : List Nat) : St × Outcome :=
  let s1 := { s with reg := s.reg.filter (fun p => !vs.contains p.1), pending := vs.map some }
  match sweepLoop (fuelFor s1) cfg vs s1 with
  | (s2, .ok) => ({ s2 with pending := [] }, .ok)
  | r => r

/-- a collector run in which exactly `victims` are found unreachable, the registry being laid out as `order` says:
    the new state, the blocks released (in order), the outcome -/
def St.sweep (cfg : Config) (s : St) (victims order : List Nat) : St × List Nat × Outcome :=
  let r := s.collect cfg (arrange order (s.sweepVictims victims))
  (r.1, r.1.freed.drop s.freed.length, r.2)

/-- the teardown (`GC_Del`, from `Cello_Exit`): a sweep with nothing marked — every registered object that is not a root -/
def St.exitVictims (s : St) : List Nat := (s.reg.filter (fun p => !p.2)).map (·.1)

def St.teardown (cfg : Config) (s : St) (order : List Nat) : St × List Nat × Outcome :=
  let r := s.collect cfg (arrange order s.exitVictims)
  (r.1, r.1.freed.drop s.freed.length, r.2)

/-! ### the type edge and the release order (KF-C19-type-outlived)

  `rel` is the sequence of blocks a collection released, in order (the release log is exact: an object's destructor and
  `dealloc` run immediately before its block is freed).  Everything is judged in the state `s` *before* the collection. -/

/-- **a Type is released before one of its instances**: somewhere in `rel` the block of a run-time Type object comes before
    the block of an object (or non-empty container) of that type.  When the later object is finalised, `destruct` / `dealloc` call
    `type_of` on it and look methods up in the released Type: use of a freed block. -/
def St.typeFirst (s : St) : List Nat → Bool
  | [] => false
  | a :: rest =>
    (match s.rtOf a with
     | some k => rest.any (fun b => (s.finUsersOf k).contains b)
     | none => false) || s.typeFirst rest

/-- **a Type is released under its living instances**: `rel` holds a run-time Type object, and a live object of that type
    is not in `rel` — it goes on living with a header that points into a freed block; the next `type_of`-dependent use, the
    next mark phase that meets it and the teardown read released memory. -/
def St.typeOrphans (s : St) (rel : List Nat) : Bool :=
  rel.any (fun a => match s.rtOf a with
    | some k => (s.usersOf k).any (fun u => !rel.contains u)
    | none => false)

/-- a forced or threshold collection that released `rel` loses a Type: released before, or under, an instance -/
def St.typeLost (s : St) (rel : List Nat) : Bool := s.typeFirst rel || s.typeOrphans rel

/-- outcome of a collection (`sweep`, `thr`) whose release mechanics ended with `out` after releasing `rel`: undefined
    behaviour as soon as a Type is lost.  The harness observes such a collection in a forked child (which then asks the
    orphans for the name of their type); the program that goes on is the parent, with the state before the collection. -/
def St.sweepOutcome (s : St) (rel : List Nat) (out : Outcome) : Outcome := if s.typeLost rel then .ub else out

/-- outcome of the teardown: the process ends after it, so only "released before an instance is finalised" matters -/
def St.teardownOutcome (s : St) (rel : List Nat) (out : Outcome) : Outcome := if s.typeFirst rel then .ub else out

/-! ## operations -/

inductive Init where
  | int (v : Int)
  | str (t : String)
  | tuple (items : List Nat)
  | ref (target : Nat)
  | box (target : Option Nat)
  | seq (k : SeqKind) (ety : Ty) (vals : List Scalar)
  | map (k : MapKind) (kty vty : Ty) (ents : List (Scalar × Scalar))
  | rtType (k size : Nat)
  | rtObj (k : Nat) (w : Int)
deriving Repr, Inhabited

def Init.ty : Init → Ty
  | .int _ => .int | .str _ => .string | .tuple _ => .tuple | .ref _ => .ref | .box _ => .box
  | .seq .array _ _ => .array | .seq .list _ _ => .list
  | .map .table _ _ _ => .table | .map .tree _ _ _ => .tree
  | .rtType _ _ => .type | .rtObj k _ => .rt k

inductive Op where
  | make (id : Nat) (r : Route) (i : Init)
  | static (id : Nat) (name : String)          -- a built-in static Type object
  | copy (id : Nat) (src : Nat)
  | obs (t : Target)
  | free (f : FreeOp) (t : Target)
  | inplace (op : InPlace) (t : Target)
  | iter (id : Nat) (back : Bool)
  | values (id : Nat)
  | view (v : View)
  | own (id : Nat) (target : Option Nat)        -- ref(box, target): re-point a Box (NULL when `none`)
  | sweep (victims order : List Nat)           -- GC_Sweep with exactly these unmarked, registry laid out as `order`
  | thr (victims order : List Nat)             -- the same sweep, run by GC_Set when a registration exceeds the threshold
  | exit (order : List Nat)                    -- what the teardown at program exit does from here (observed in a forked child)
  | finish
deriving Repr, Inhabited

inductive Obs where
  | bad
  | skip (why : String)
  | made (id : Nat)
  | seen (t : Target)
  | did (name : String) (out : Outcome) (t : Target)
  | items (l : List (Option Seen))
  | swept (how : String) (ids : List Nat) (out : Outcome)
  | fin
deriving Repr, Inhabited

/-- can these scalars be stored in a container of this element type? -/
def allFit (vals : List Scalar) (t : Ty) : Bool := vals.all (fun v => v.fits t)

/-- does the run-time type exist (its Type object is live)? -/
def St.rtLive (s : St) (k : Nat) : Bool :=
  s.objs.any (fun p => p.2.live && p.2.body == .tyobj (.rt k) ((assoc k s.rtSizes).getD 0))

def St.tyUsable (s : St) : Ty → Bool
  | .rt k => s.rtLive k
  | .int => true
  | .string => true
  | .tuple => true
  | .array => true
  | _ => false

/-- a literal that can be stored: the items of an embedded Tuple are `fixedItem`s, at most six -/
def St.storable (cfg : Config) (s : St) : Scalar → Bool
  | .tup items => items.all (s.fixedItem cfg) && items.length ≤ 6
  | v => !v.dangling

def dedupKeys (ents : List (Scalar × Scalar)) : List (Scalar × Scalar) :=
  ents.foldl (fun acc e => if acc.any (fun x => x.1 == e.1) then acc.map (fun x => if x.1 = e.1 then e else x) else acc ++ [e]) []

/-- the body a constructor builds, or `none` when the op is outside what the engine exercises -/
def buildBody (cfg : Config) (s : St) (r : Route) (i : Init) : Option Body :=
  match i with
  | .int v => some (.scalar (.int (match r with | .alloc | .allocRaw | .allocRoot => 0 | _ => v)))
  | .str t => (match r with | .alloc | .allocRaw | .allocRoot => none | _ => some (.scalar (.str t)))
  | .tuple items =>
    (match r with
     | .alloc | .allocRaw | .allocRoot => none
     | _ => if items.all (fun x => s.usableItem x) && items.length ≤ 6 then some (.tuple items) else none)
  | .ref t =>
    (match r with
     | .static => none
     | .new | .newRaw | .newRoot =>
       -- construct_with → assign → Ref_Assign: an argument that is itself a pointer object is dereferenced
       (match s.get t with
        | some o =>
          if s.usableArg t then
            (match o.body with
             | .ref u => some (.ref u)
             | .box _ => none            -- Ref_Assign dereferences a Box too (possibly to NULL): not exercised
             | _ => some (.ref t))
          else none
        | none => none)
     | _ => if s.usableArg t then some (.ref t) else none)
  | .box t =>
    (match r with
     | .static => none
     | .stack =>
       -- `$(Box, x)`: the struct is initialised with the pointer as it is (no Box_Assign).  `dealloc` of a stack Box is
       -- refused with a message that shows the Box and, through Box_Show, what it points to: not a pointer object
       (match t with
        | none => some (.box none)
        | some t => if s.ownable t && s.plainPointee t then some (.box (some t)) else none)
     | .alloc | .allocRaw | .allocRoot => (match t with | none => some (.box none) | some _ => none)   -- zeroed: val = NULL
     | _ =>
       -- Box_New → Box_Assign(self, arg): an argument that is itself a pointer object is dereferenced
       (match t with
        | none => none
        | some t =>
          match s.get t with
          | some o =>
            if s.usableArg t then
              (match o.body with
               | .ref u => if s.ownable u then some (.box (some u)) else none
               | .box none => some (.box none)
               | .box (some u) => if s.ownable u then some (.box (some u)) else none
               | _ => if s.ownable t then some (.box (some t)) else none)
            else none
          | none => none))
  | .seq k ety vals =>
    if r.isHeap && !(r == .alloc || r == .allocRaw || r == .allocRoot) && s.tyUsable ety && allFit vals ety &&
        vals.all (s.storable cfg) then
      some (.seq k ety (vals.map (seqElem cfg s k ety)))
    else none
  | .map k kty vty ents =>
    if r.isHeap && !(r == .alloc || r == .allocRaw || r == .allocRoot) && (kty == .int || kty == .string) && s.tyUsable vty &&
        ents.all (fun e => e.1.fits kty && e.2.fits vty && s.storable cfg e.2) then
      some (.map k kty vty ((dedupKeys ents).foldl (fun acc e => insertEnt (mapEntry cfg s k kty vty e.1 e.2) acc) []))
    else none
  | .rtType k size =>
    (match r with
     | .new | .newRaw | .newRoot =>
       if (assoc k s.rtSizes).isNone && k < 16 && size ≥ 8 && size ≤ 256 then some (.tyobj (.rt k) size) else none
     | _ => none)
  | .rtObj k w =>
    if r.isHeap && s.rtLive k then
      some (.scalar (.raw (match r with | .alloc | .allocRaw | .allocRoot => 0 | _ => w)))
    else none

/-- `copy(self)`: `assign(alloc(type_of(self)), self)`; Type objects refuse -/
def copyBody (cfg : Config) (s : St) (o : Obj) : Option (Ty × Body) :=
  match typeOf cfg o.hdr, o.body with
  | some t, .scalar (.int v) => some (t, .scalar (.int v))
  | some t, .scalar (.str x) => some (t, .scalar (.str x))
  | some t, .scalar (.raw w) => some (t, .scalar (.raw w))
  | some t, .tuple items => some (t, .tuple items)
  | some t, .ref x => some (t, .ref x)
  | some t, .box v => some (t, .box v)            -- Box_Assign(new, old): the same pointee
  | some t, .seq k ety es => some (t, .seq k ety (es.map (fun e => seqElem cfg s k ety e.val)))
  | some t, .map k kty vty ents => some (t, .map k kty vty (ents.map (fun e => mapEntry cfg s k kty vty e.1.val e.2.val)))
  | _, _ => none

/-- **`copy(v)` of a view object** (`Range`, `Slice`, `Zip`, `Filter`, `Map` of src/Iter.c; `none` = not a view type).
    None of them has a `Copy` instance, so `copy` is `assign(alloc(type_of(v)), v)` (src/Alloc.c) and `alloc` returns a zeroed,
    registered object.  `Range_Assign`, `Slice_Assign` and `Zip_Assign` assign *into* a sub-object (`r->value`, `s->range`,
    `z->iters`, `z->values`) that only the constructor creates: `assign(NULL, ..)` → `type_of(NULL)` → ValueError, and the
    half-built object stays registered (KF-C19-copy-view).  Filter and Map have no Assign: the struct is copied.
    Which fields each Assign assigns into without creating them is read from the source (`CelloGen.Hdr.viewCopy`). -/
def copyViewOutcome (name : String) : Option Outcome :=
  match CelloGen.Hdr.viewCopy.find? (fun r => r.1 == name) with
  | some (_, hasCopy, into) => some (if hasCopy || into.isEmpty then .ok else .raised "ValueError")
  | none => none

/-- the built-in static Type objects the engine looks at -/
def knownStatics : List String :=
  ["Type", "Int", "Float", "String", "Tuple", "Array", "List", "Table", "Tree", "Ref", "Box", "Range", "Slice", "Zip",
   "Filter", "Map", "Terminal", "_", "Function", "File", "Mutex", "Thread", "Exception", "GC",
   "TypeError", "ValueError", "ResourceError", "KeyError", "IndexOutOfBoundsError"]

def stepMake (cfg : Config) (s : St) (id : Nat) (r : Route) (i : Init) : St × Obs :=
  if (s.get id).isSome then (s, .bad) else
  (match buildBody cfg s r i with
   | none => (s, .skip "unsupported")
   | some b =>
     let s1 := s.birth cfg id r i.ty b
     let s2 := match i with
       | .rtType k size => { s1 with rtSizes := s1.rtSizes ++ [(k, size)] }
       | _ => s1
     (s2, .made id))

def stepStatic (cfg : Config) (s : St) (id : Nat) (name : String) : St × Obs :=
  if (s.get id).isSome || !knownStatics.contains name then (s, .bad) else
  if s.objs.any (fun p => p.2.body == .tyobj (Ty.ofName name) 0 && p.2.hdr == staticHeader cfg) then (s, .skip "duplicate") else
  ({ s with objs := s.objs ++ [(id, { hdr := staticHeader cfg, cap := 0, body := .tyobj (Ty.ofName name) 0, live := true })] },
   .made id)

def stepCopy (cfg : Config) (s : St) (id : Nat) (src : Nat) : St × Obs :=
  if (s.get id).isSome then (s, .bad) else
  (match s.get src with
   | some o =>
     if !o.live then (s, .skip "dead") else
     (match o.body with
      | .tyobj _ _ => (s, .did "copy" (.raised "ValueError") (.obj src))     -- Type_Copy
      | _ =>
        match copyBody cfg s o with
        | some (t, b) => (s.birth cfg id .new t b, .made id)
        | none => (s, .skip "unsupported"))
   | none => (s, .bad))

/-- the Box points to an object that has been released -/
def St.danglingBox (s : St) (o : Obj) : Bool :=
  match o.body with
  | .box (some x) => !s.isLive x
  | _ => false

/-- **which freeing calls on a whole live object the histories leave out** (both sides print `skip <why>` and the state is
    unchanged), and why:
    * `"misuse"` — a raw release (`dealloc`, `dealloc_raw`, `dealloc_root`, `del_raw`, `destruct`) of an object the collector
      manages: the registry keeps the pointer and the collector finalises the object a second time (a double free by
      construction, outside the contract of those functions);
    * `"misuse"` — `destruct` of a heap object: the block stays allocated with a destructed body, every later release runs
      the destructor again;
    * `"misuse"` — any release of a run-time Type object while objects or containers of that type are alive;
    * `"referenced"` — the release of a heap object that is an item of a live Tuple: the next mark phase dereferences the
      dangling item (known finding KF-C01-dangling-tuple-item, property C01);
    * `"dangling"` — `dealloc` / `dealloc_raw` / `dealloc_root` of a Box that is not on the heap and whose pointee was released
      behind its back (by a `del` or a collector run the program asked for): the message of the refusal shows the Box and,
      through Box_Show, the released pointee — the caller's dangling pointer, not a fault of the refusal.
    Everything else — every freeing operation on every other stack, static and embedded object included — is executed. -/
def St.freeSkip (cfg : Config) (s : St) (f : FreeOp) (id : Nat) (o : Obj) : Option String :=
  if !f.viaCollector && s.isReg id then some "misuse"
  else if f == .destruct && o.hdr.alloc == cfg.cHeap then some "misuse"
  else if s.isTypeInUse id then some "misuse"
  else if o.hdr.alloc == cfg.cHeap && s.referenced id then some "referenced"
  else if (f == .dealloc || f == .deallocRaw || f == .deallocRoot) && o.hdr.alloc != cfg.cHeap && s.danglingBox o then some "dangling"
  else none

def stepFree (cfg : Config) (s : St) (f : FreeOp) (t : Target) : St × Obs :=
  (match s.get t.id with
   | none => (s, .bad)
   | some o =>
     match t with
     | .obj id =>
       if !o.live then
         -- a second `del` of a released object only looks the pointer up in the registry
         (if f.viaCollector && cfg.delViaCollector && !s.isReg id then (s, .did f.name .ok t) else (s, .skip "dead"))
       else
         match s.freeSkip cfg f id o with
         | some why => (s, .skip why)
         | none =>
           let (s1, out) := freeObj cfg s f id o
           (s1, .did f.name out t)
     | _ =>
       if !o.live then (s, .skip "dead") else
       match s.elemOf t with
       | none => (s, .bad)
       | some e =>
         let (e1, out) := freeElem cfg f e
         (s.updBody t.id (fun b => b.setElemAt t e1), .did f.name out t))

/-- `ref(box, target)` (Box_Ref): the old pointee is simply dropped -/
def stepOwn (cfg : Config) (s : St) (id : Nat) (target : Option Nat) : St × Obs :=
  (match s.get id with
   | none => (s, .bad)
   | some o =>
     if !o.live then (s, .skip "dead") else
     match o.body with
     | .box _ =>
       (match target with
        | none => (s.updBody id (fun _ => .box none), .did "own" .ok (.obj id))
        | some t =>
          if s.ownable t && (o.hdr.alloc == cfg.cHeap || s.plainPointee t) then
            (s.updBody id (fun _ => .box (some t)), .did "own" .ok (.obj id))
          else (s, .skip "unsupported"))
     | _ => (s, .skip "unsupported"))

def stepInplace (cfg : Config) (s : St) (ip : InPlace) (t : Target) : St × Obs :=
  (match s.get t.id with
   | none => (s, .bad)
   | some o =>
     if !o.live then (s, .skip "dead") else
     if ip.srcs.contains t.id then
       -- the target among its own arguments.  `assign(s, s)` of a String: `char* val = c_str(obj); if (val is s->val) { return; }`
       -- (fix 744a45f) — before the allocation-class guard, so also a stack or static String is left as it is and nothing is
       -- raised; in the code before the fix the same call reallocated the buffer and copied from the released one (heap) or
       -- raised ValueError (stack, static): that variant, and every other aliasing operand, stays outside the histories
       (match ip, t, o.body with
        | .assign _, .obj _, .scalar (.str _) =>
          if cfg.sAssignSelfReturns then (s, .did "assign" .ok t) else (s, .skip "self")
        | _, _, _ => (s, .skip "self")) else
     match t with
     | .obj id =>
       (match inPlaceObj cfg s o ip with
        | none => (s, .skip "unsupported")
        | some (b, out) => (s.updBody id (fun _ => b), .did ip.name out t))
     | _ =>
       match s.elemOf t with
       | none => (s, .bad)
       | some e =>
         match inPlaceElem cfg s e ip with
         | none => (s, .skip "unsupported")
         | some (e1, out) => (s.updBody t.id (fun b => b.setElemAt t e1), .did ip.name out t))

def step (cfg : Config) (s : St) (op : Op) : St × Obs :=
  match op with
  | .make id r i => stepMake cfg s id r i
  | .static id name => stepStatic cfg s id name
  | .copy id src => stepCopy cfg s id src
  | .obs t =>
    (match s.get t.id with
     | some o => if !o.live then (s, .skip "dead") else
        (match t with
         | .obj _ => (s, .seen t)
         | _ => if (s.elemOf t).isSome then (s, .seen t) else (s, .bad))
     | none => (s, .bad))
  | .free f t => stepFree cfg s f t
  | .inplace ip t => stepInplace cfg s ip t
  | .iter id back =>
    (match s.iterate cfg id with
     | some l => (s, .items (if back then l.reverse else l))
     | none => (s, .skip "unsupported"))
  | .values id =>
    (match s.mapValues cfg id with
     | some l => (s, .items l)
     | none => (s, .skip "unsupported"))
  | .view v =>
    (match s.viewItems cfg v with
     | some l => (s, .items l)
     | none => (s, .skip "unsupported"))
  | .own id target => stepOwn cfg s id target
  | .sweep victims order =>
    let r := s.sweep cfg victims order
    if s.typeLost r.2.1 then (s, .swept "sweep" r.2.1 .ub) else (r.1, .swept "sweep" r.2.1 r.2.2)
  | .thr victims order =>
    let r := s.sweep cfg victims order
    if s.typeLost r.2.1 then (s, .swept "thr" r.2.1 .ub) else (r.1, .swept "thr" r.2.1 r.2.2)
  | .exit order =>
    let r := s.teardown cfg order
    (s, .swept "exit" r.2.1 (s.teardownOutcome r.2.1 r.2.2))   -- the program that goes on is the parent: its state is unchanged
  | .finish => (s, .fin)

def run (cfg : Config) (s : St) (ops : List Op) : St := ops.foldl (fun st op => (step cfg st op).1) s

end Cello.Hdr
