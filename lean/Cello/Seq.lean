/-
  Cello/Seq.lean — the LIST-LEVEL executable model of the three sequence containers of Cello as they are in /repo now
  (src/Array.c, src/List.c, src/Tuple.c; dispatch through src/Push.c, Get.c, Concat.c, Resize.c, Cmp.c, Assign.c),
  plus the abstract `List α` specification they are compared with (namespace `Spec`).

  This level keeps the control flow of the C functions (index normalisation, order of checks, capacity arithmetic, the
  walk of `List_At`, identity-based Tuple iteration) but writes the storage mechanisms as list operations.  The level
  below — cells + memmove + realloc, nodes + link/unlink, pointer cells + Terminal — is Cello/SeqStore.lean; it is what the
  driver runs and compares with the C representation, and CelloProofs shows that each of its steps is the step defined here.

  Conventions (DESIGN.md §5): `size_t` → `Nat`, `int64_t` → `Int`; an operation returns the new state *also when it
  raises*; the order of checks and mutations is the order in the C text; a read or write outside the object is the
  outcome `ub` (CelloProofs shows that it is never produced).  Core Lean only.

  * `Arr`  = `struct Array` : the element records `items` (nitems = their number) and the capacity `nslots`;
             `memmove`s are list surgery (`take`/`drop`), `Array_Reserve_More/Less` are mirrored literally.
  * `Lst`  = `struct List`  : the chain read from `head` along `next`, and the counter `nitems` the struct keeps
             separately; `List_At` is the two-ended walk of the C code.
  * `Tup`  = `struct Tuple` : the pointers stored before the first `Terminal` cell; iteration and `mem` go through
             `Tuple_Iter_Next`, which finds the current position by *pointer identity* (`ident`).
-/
import Cello.Sort

namespace Cello.Seq

/-- the exceptions the sequence code throws -/
inductive Exc where
  | indexOutOfBounds | valueError | formatError | classError
deriving Repr, DecidableEq

def Exc.name : Exc → String
  | .indexOutOfBounds => "IndexOutOfBoundsError"
  | .valueError => "ValueError"
  | .formatError => "FormatError"
  | .classError => "ClassError"

/-- outcome of an operation -/
inductive Res (β : Type) where
  | ok (v : β)
  | raised (e : Exc)
  | ub                   -- the C code would have left the object (never produced: CelloProofs)
deriving Repr, DecidableEq

/-- `i = i < 0 ? n+i : i` -/
def normIdx (n : Nat) (i : Int) : Int := if i < 0 then (n : Int) + i else i

/-- two indices name the same position of a sequence of length `n` -/
def sameIdx (n : Nat) (i k : Int) : Bool := normIdx n i == normIdx n k

/-- the index normalisation of `Array_Push_At`: `i = i < 0 ? (n+1)+i : i` (against the length *after* the insertion) -/
def pushIdx (n : Nat) (i : Int) : Int := if i < 0 then ((n : Int) + 1) + i else i

/-- follow `next` (or `prev`, on the reversed chain) `k` times from the first node; `none` = fell off the chain -/
def walk {α : Type} : List α → Nat → Option α
  | [], _ => none
  | x :: _, 0 => some x
  | _ :: xs, k + 1 => walk xs k

/-- the iterator protocol driven to the end: start from `cur` (`none` = `Terminal`), read, advance.
    `none` as a result = the loop is still running when the fuel is used up, or a read left the object. -/
def collect {σ α : Type} (next : σ → Option σ) (read : σ → Option α) : Nat → Option σ → Option (List α)
  | _, none => some []
  | 0, some _ => none
  | fuel + 1, some c =>
    match read c with
    | none => none
    | some x => (collect next read fuel (next c)).map (x :: ·)

/-! ## Array -/

structure Arr (α : Type) where
  items : List α
  nslots : Nat
deriving Repr

/-- `Array_Reserve_More` after `nitems` was set to `n` -/
def reserveMore (n nslots : Nat) : Nat := if n > nslots then n + n / 2 else nslots
/-- `Array_Reserve_Less` after `nitems` was set to `n` -/
def reserveLess (n nslots : Nat) : Nat := if nslots > n + n / 2 then n else nslots

namespace Arr
variable {α : Type}

def nitems (a : Arr α) : Nat := a.items.length

/-- `Array_New` with the given initial elements: `nslots = nitems = len(args)-1` -/
def new (xs : List α) : Arr α := ⟨xs, xs.length⟩
/-- `Array_Clear` -/
def clear (_ : Arr α) : Arr α := ⟨[], 0⟩

def push (a : Arr α) (x : α) : Arr α × Res Unit :=
  ({ items := a.items ++ [x], nslots := reserveMore (a.nitems + 1) a.nslots }, .ok ())

def pop (a : Arr α) : Arr α × Res Unit :=
  if a.nitems = 0 then (a, .raised .indexOutOfBounds)
  else ({ items := a.items.dropLast, nslots := reserveLess (a.nitems - 1) a.nslots }, .ok ())

/-- `Array_Push_At`: a negative index is normalised against `nitems+1`, `i = nitems` is accepted; the check comes
    before any mutation (after fix 1929a3d) -/
def pushAt (a : Arr α) (x : α) (i : Int) : Arr α × Res Unit :=
  let j := pushIdx a.nitems i
  if j < 0 ∨ j > (a.nitems : Int) then (a, .raised .indexOutOfBounds)
  else
    let k := j.toNat
    ({ items := a.items.take k ++ x :: a.items.drop k, nslots := reserveMore (a.nitems + 1) a.nslots }, .ok ())

def popAt (a : Arr α) (i : Int) : Arr α × Res Unit :=
  let j := normIdx a.nitems i
  if j < 0 ∨ j ≥ (a.nitems : Int) then (a, .raised .indexOutOfBounds)
  else
    let k := j.toNat
    ({ items := a.items.take k ++ a.items.drop (k + 1), nslots := reserveLess (a.nitems - 1) a.nslots }, .ok ())

def get (a : Arr α) (i : Int) : Res α :=
  let j := normIdx a.nitems i
  if j < 0 ∨ j ≥ (a.nitems : Int) then .raised .indexOutOfBounds
  else match a.items[j.toNat]? with
    | some x => .ok x
    | none => .ub

def set (a : Arr α) (i : Int) (x : α) : Arr α × Res Unit :=
  let j := normIdx a.nitems i
  if j < 0 ∨ j ≥ (a.nitems : Int) then (a, .raised .indexOutOfBounds)
  else ({ a with items := a.items.set j.toNat x }, .ok ())

/-- `Array_Mem`: `for i < nitems: if eq(item i, obj) return true` -/
def mem [BEq α] (a : Arr α) (x : α) : Bool := a.items.any (· == x)

/-- `Array_Rem`: `Array_Pop_At` of the first `i` with `eq(item i, obj)`, `ValueError` when there is none -/
def rem [BEq α] (a : Arr α) (x : α) : Arr α × Res Unit :=
  match a.items.findIdx? (· == x) with
  | some i => a.popAt (i : Int)
  | none => (a, .raised .valueError)

/-- `Array_Concat`: `nitems += len(obj); Reserve_More;` then the elements are assigned in place -/
def concat (a : Arr α) (ys : List α) : Arr α × Res Unit :=
  ({ items := a.items ++ ys, nslots := reserveMore (a.nitems + ys.length) a.nslots }, .ok ())

/-- `Array_Resize`: `n = 0` clears; otherwise elements beyond `n` are destroyed and the capacity becomes exactly `n`
    (a larger `n` only reserves: `nitems` does not change) -/
def resize (a : Arr α) (n : Nat) : Arr α × Res Unit :=
  if n = 0 then (a.clear, .ok ()) else ({ items := a.items.take n, nslots := n }, .ok ())

/-- `Array_Assign` (obj is not self).  `indexed` = the source implements `Len` and `Get` (Array, List, Tuple, Slice, Range …):
    clear, then `nitems = nslots = len(obj)` and the records are assigned in place.  Otherwise (an iterator-only source such
    as `filter(…)`): clear, then `foreach (item in obj) Array_Push(self, item)` — the contents are the same, the capacity is
    what the pushes leave. -/
def assign (a : Arr α) (ys : List α) (indexed : Bool := true) : Arr α × Res Unit :=
  if indexed then (⟨ys, ys.length⟩, .ok ())
  else (ys.foldl (fun a y => (a.push y).1) a.clear, .ok ())

/-- `Array_Sort_By` -/
def sortBy (a : Arr α) (f : α → α → Bool) : Arr α × Res Unit :=
  ({ a with items := Sort.sortList f a.items }, .ok ())

/-- `copy(a)` = `assign(alloc(Array), a)`: assign into a zeroed struct -/
def copy (a : Arr α) : Arr α := ((⟨[], 0⟩ : Arr α).assign a.items).1

/- iteration: an iterator is the address of an element record, i.e. its index -/
def iterInit (a : Arr α) : Option Nat := if a.nitems = 0 then none else some 0
def iterNext (a : Arr α) (k : Nat) : Option Nat := if k ≥ a.nitems - 1 then none else some (k + 1)
def iterLast (a : Arr α) : Option Nat := if a.nitems = 0 then none else some (a.nitems - 1)
def iterPrev (_ : Arr α) (k : Nat) : Option Nat := if k ≤ 0 then none else some (k - 1)
/-- `foreach (x in a)` -/
def iterFwd (a : Arr α) : Option (List α) := collect a.iterNext (fun k => a.items[k]?) (a.nitems + 1) a.iterInit
/-- `iter_last` / `iter_prev` to the end -/
def iterBwd (a : Arr α) : Option (List α) := collect a.iterPrev (fun k => a.items[k]?) (a.nitems + 1) a.iterLast

end Arr

/-! ## List -/

/-- Element types, as far as `List_Resize` is concerned.  Growing a List links nodes that come straight from `calloc`
    (`List_Alloc`): all-zero records with a header, never constructed.  `zeroOk = true`: that record IS a value of the type,
    namely `default` (Int: 0, Float: 0.0, the byte-record types of the harness).  `zeroOk = false`: it is not an object the
    type's own operations accept — String: `val = NULL`, so `eq` / `cmp` / `show` / `hash` / `len` on it are `strcmp(NULL, …)`,
    `strlen(NULL)` (reproduced: `l = new(List, String, $S("a")); resize(l, 3); mem(l, $S("zz"))` → SIGSEGV); any type that
    owns storage is like that.  Known finding KF-C04-list-resize-raw (same root as C05's KF-C05-list-resize-raw). -/
class ZeroIsValue (α : Type) extends Inhabited α where
  zeroOk : Bool

instance : ZeroIsValue Int := ⟨true⟩
instance : ZeroIsValue Nat := ⟨true⟩

/-- a String-like element (what the harness kinds AS / LS hold): the all-zero record is not a value -/
structure StrElem where
  v : Int
deriving Repr, DecidableEq, Inhabited
instance : ZeroIsValue StrElem := ⟨false⟩

structure Lst (α : Type) where
  items : List α        -- the chain from `head` along `next`
  nitems : Nat          -- the counter field
deriving Repr

namespace Lst
variable {α : Type}

/-- `List_New` starts empty and pushes its arguments -/
def empty : Lst α := ⟨[], 0⟩
def clear (_ : Lst α) : Lst α := ⟨[], 0⟩

/-- `List_At`: normalise, check, then walk from the nearer end.  Returns the position of the node reached and
    its element. -/
def nodeAt (l : Lst α) (i : Int) : Res (Nat × α) :=
  let j := normIdx l.nitems i
  if j < 0 ∨ j ≥ (l.nitems : Int) then .raised .indexOutOfBounds
  else
    let k := j.toNat
    if k ≤ l.nitems / 2 then
      match walk l.items k with
      | some x => .ok (k, x)
      | none => .ub
    else
      let back := l.nitems - k - 1
      match walk l.items.reverse back with
      | some x => .ok (l.items.length - 1 - back, x)
      | none => .ub

/-- `List_Push`: `List_Link(l, item, l->tail, NULL); nitems++` -/
def push (l : Lst α) (x : α) : Lst α × Res Unit :=
  ({ items := l.items ++ [x], nitems := l.nitems + 1 }, .ok ())

/-- `List_Pop`: unlink the tail -/
def pop (l : Lst α) : Lst α × Res Unit :=
  if l.nitems = 0 then (l, .raised .indexOutOfBounds)
  else ({ items := l.items.dropLast, nitems := l.nitems - 1 }, .ok ())

/-- `List_Push_At`: key 0 links at the head; any other key goes through `List_At` (negative keys count from the
    *old* length, `i = nitems` is refused) and the new node is linked before the node found.  Since fix 4077d96 the
    index is validated before the new element is allocated and assigned (allocation is not part of this model, so
    the order shows only in that nothing at all happens on the error path). -/
def pushAt (l : Lst α) (x : α) (i : Int) : Lst α × Res Unit :=
  if i = 0 then ({ items := x :: l.items, nitems := l.nitems + 1 }, .ok ())
  else match l.nodeAt i with
    | .ok (k, _) => ({ items := l.items.take k ++ x :: l.items.drop k, nitems := l.nitems + 1 }, .ok ())
    | .raised e => (l, .raised e)
    | .ub => (l, .ub)

/-- `List_Pop_At`: unlink the node found by `List_At` -/
def popAt (l : Lst α) (i : Int) : Lst α × Res Unit :=
  match l.nodeAt i with
  | .ok (k, _) => ({ items := l.items.take k ++ l.items.drop (k + 1), nitems := l.nitems - 1 }, .ok ())
  | .raised e => (l, .raised e)
  | .ub => (l, .ub)

def get (l : Lst α) (i : Int) : Res α :=
  match l.nodeAt i with
  | .ok (_, x) => .ok x
  | .raised e => .raised e
  | .ub => .ub

def set (l : Lst α) (i : Int) (x : α) : Lst α × Res Unit :=
  match l.nodeAt i with
  | .ok (k, _) => ({ l with items := l.items.set k x }, .ok ())
  | .raised e => (l, .raised e)
  | .ub => (l, .ub)

/-- `List_Mem`: walk from `head` while `item` -/
def mem [BEq α] (l : Lst α) (x : α) : Bool := l.items.any (· == x)

/-- `List_Rem`: unlink the first node with `eq(item, obj)`; `ValueError` when the walk reaches NULL -/
def rem [BEq α] (l : Lst α) (x : α) : Lst α × Res Unit :=
  match l.items.findIdx? (· == x) with
  | some k => ({ items := l.items.take k ++ l.items.drop (k + 1), nitems := l.nitems - 1 }, .ok ())
  | none => (l, .raised .valueError)

/-- `List_Concat`: `foreach (item in obj) List_Push(self, item)` -/
def concat (l : Lst α) (ys : List α) : Lst α × Res Unit :=
  (ys.foldl (fun l y => (l.push y).1) l, .ok ())

/-- `List_Resize`: 0 clears; pop the tail while `n < nitems`; link zero-initialised nodes while `n > nitems` -/
def resize [Inhabited α] (l : Lst α) (n : Nat) : Lst α × Res Unit :=
  if n = 0 then (l.clear, .ok ())
  else
    let pops := l.nitems - n
    let l1 : Lst α := { items := l.items.take (l.items.length - pops), nitems := l.nitems - pops }
    let adds := n - l1.nitems
    ({ items := l1.items ++ List.replicate adds default, nitems := l1.nitems + adds }, .ok ())

/-- `List_Assign` (obj is not self): clear, then push `get(obj, i)` for `i < len(obj)`.  There is no iterator branch: a source
    without `Len` (`indexed = false`, e.g. `filter(…)`) makes `len(obj)` raise `ClassError` — after the List was cleared. -/
def assign (l : Lst α) (ys : List α) (indexed : Bool := true) : Lst α × Res Unit :=
  if indexed then l.clear.concat ys else (l.clear, .raised .classError)

/-- `List` has no `Sort` instance: `sort_by` raises `ClassError` in `method` -/
def sortBy (l : Lst α) (_ : α → α → Bool) : Lst α × Res Unit := (l, .raised .classError)

def copy (l : Lst α) : Lst α := ((⟨[], 0⟩ : Lst α).assign l.items).1

/- iteration: an iterator is a node, i.e. its position in the chain -/
def iterInit (l : Lst α) : Option Nat := if l.nitems = 0 then none else some 0
/-- `*List_Next(curr)`, NULL → Terminal -/
def iterNext (l : Lst α) (k : Nat) : Option Nat := if k + 1 < l.items.length then some (k + 1) else none
def iterLast (l : Lst α) : Option Nat := if l.nitems = 0 then none else some (l.items.length - 1)
def iterPrev (_ : Lst α) (k : Nat) : Option Nat := if k = 0 then none else some (k - 1)
def iterFwd (l : Lst α) : Option (List α) := collect l.iterNext (fun k => l.items[k]?) (l.items.length + 1) l.iterInit
def iterBwd (l : Lst α) : Option (List α) := collect l.iterPrev (fun k => l.items[k]?) (l.items.length + 1) l.iterLast

end Lst

/-! ## Tuple -/

structure Tup (α : Type) where
  items : List α        -- the cells before the first `Terminal`
deriving Repr

namespace Tup
variable {α : Type}

/-- `Tuple_Len`: scan to `Terminal` -/
def len (t : Tup α) : Nat := t.items.length

def push (t : Tup α) (x : α) : Tup α × Res Unit := ({ items := t.items ++ [x] }, .ok ())

def pop (t : Tup α) : Tup α × Res Unit :=
  if t.len = 0 then (t, .raised .indexOutOfBounds) else ({ items := t.items.dropLast }, .ok ())

/-- `Tuple_Push_At`: normalised against the old length, `i = len` refused -/
def pushAt (t : Tup α) (x : α) (i : Int) : Tup α × Res Unit :=
  let j := normIdx t.len i
  if j < 0 ∨ j ≥ (t.len : Int) then (t, .raised .indexOutOfBounds)
  else
    let k := j.toNat
    ({ items := t.items.take k ++ x :: t.items.drop k }, .ok ())

def popAt (t : Tup α) (i : Int) : Tup α × Res Unit :=
  let j := normIdx t.len i
  if j < 0 ∨ j ≥ (t.len : Int) then (t, .raised .indexOutOfBounds)
  else
    let k := j.toNat
    ({ items := t.items.take k ++ t.items.drop (k + 1) }, .ok ())

def get (t : Tup α) (i : Int) : Res α :=
  let j := normIdx t.len i
  if j < 0 ∨ j ≥ (t.len : Int) then .raised .indexOutOfBounds
  else match t.items[j.toNat]? with
    | some x => .ok x
    | none => .ub

def set (t : Tup α) (i : Int) (x : α) : Tup α × Res Unit :=
  let j := normIdx t.len i
  if j < 0 ∨ j ≥ (t.len : Int) then (t, .raised .indexOutOfBounds)
  else ({ items := t.items.set j.toNat x }, .ok ())

/- iteration by identity: `ident` = the address of the object a cell points to -/
def iterInit (t : Tup α) : Option α := t.items.head?
/-- `Tuple_Iter_Next`: the cell after the *first* cell that holds `curr`; the cell after the last item is `Terminal` -/
def iterNext (ident : α → Nat) (t : Tup α) (c : α) : Option α :=
  match t.items.findIdx? (fun y => ident y == ident c) with
  | some i => t.items[i + 1]?
  | none => none
def iterLast (t : Tup α) : Option α := t.items.getLast?
/-- `Tuple_Iter_Prev`: Terminal when `curr` is the first cell, else the cell before the first cell holding `curr` -/
def iterPrev (ident : α → Nat) (t : Tup α) (c : α) : Option α :=
  match t.items.head? with
  | none => none
  | some h =>
    if ident h == ident c then none
    else match t.items.findIdx? (fun y => ident y == ident c) with
      | some i => t.items[i - 1]?
      | none => none
def iterFwd (ident : α → Nat) (t : Tup α) (fuel : Nat) : Option (List α) :=
  collect (t.iterNext ident) some fuel t.iterInit
def iterBwd (ident : α → Nat) (t : Tup α) (fuel : Nat) : Option (List α) :=
  collect (t.iterPrev ident) some fuel t.iterLast

/-- the loop of `Tuple_Mem`: `foreach (obj in self) if (eq(obj, item)) return true;` -/
def memLoop [BEq α] (ident : α → Nat) (t : Tup α) (x : α) : Nat → Option α → Option Bool
  | _, none => some false
  | 0, some _ => none
  | fuel + 1, some c => if c == x then some true else memLoop ident t x fuel (t.iterNext ident c)
/-- `Tuple_Mem`; `none` = still looping after `fuel` steps -/
def mem [BEq α] (ident : α → Nat) (t : Tup α) (x : α) (fuel : Nat) : Option Bool :=
  memLoop ident t x fuel t.iterInit

/-- `Tuple_Rem` (after fix e74ffe8): `Tuple_Pop_At` of the first `i` with `eq(item, items[i])`, else `ValueError` -/
def rem [BEq α] (t : Tup α) (x : α) : Tup α × Res Unit :=
  match t.items.findIdx? (fun y => x == y) with
  | some i => t.popAt (i : Int)
  | none => (t, .raised .valueError)

def concat (t : Tup α) (ys : List α) : Tup α × Res Unit := ({ items := t.items ++ ys }, .ok ())

/-- `Tuple_Resize`: only shrinking is possible; `n ≥ len` raises `FormatError` -/
def resize (t : Tup α) (n : Nat) : Tup α × Res Unit :=
  if n < t.len then ({ items := t.items.take n }, .ok ()) else (t, .raised .formatError)

/-- `Tuple_Assign`.  From an object with `Len` and `Get` (`indexed`): realloc to `len+1` cells, store `get(obj, i)`, Terminal.
    From an iterator-only source (`filter(…)`): `foreach (item in obj) Tuple_Push(self, item)` — with NO clear first: the
    items are appended to what the Tuple holds (known finding KF-C04-tuple-assign-iter unless the Tuple is empty). -/
def assign (t : Tup α) (ys : List α) (indexed : Bool := true) : Tup α × Res Unit :=
  if indexed then ({ items := ys }, .ok ()) else ({ items := t.items ++ ys }, .ok ())

def sortBy (t : Tup α) (f : α → α → Bool) : Tup α × Res Unit := ({ items := Sort.sortList f t.items }, .ok ())

def copy (t : Tup α) : Tup α := ((⟨[]⟩ : Tup α).assign t.items).1

end Tup

/-! ## Aliased arguments: `assign(x, x)`, `concat(x, x)` (known finding KF-C04-self-concat) and an Array's own element as
  the argument of `push` / `push_at` (known finding KF-C04-push-own-element)

  These are what the C functions do when `obj` *is* `self` or points *into* `self`; they are not reachable through `Op`
  (whose arguments are values).  `assign(x, x)` is generated (ops `assign s s`); `concat(x, x)` and the bad region of
  `push(a, get(a, k))` are excluded from generated cases and exercised by the `kfself` / `kfown` witness ops in a forked
  child. -/

/-- `assign(a, a)` since fix a3140e4: `Array_Assign` returns at once when `self is obj` -/
def Arr.assignSelf (a : Arr α) : Arr α × Res Unit := (a, .ok ())

/-- `assign(l, l)` since fix a3140e4: `List_Assign` returns at once when `self is obj` -/
def Lst.assignSelf (l : Lst α) : Lst α × Res Unit := (l, .ok ())

/-- OLD (before fix a3140e4): `Array_Assign` called `Array_Clear(self)` first and then read `len(obj)` — of the cleared object -/
def Arr.assignSelfOld (a : Arr α) : Arr α × Res Unit := let c := a.clear; c.assign c.items

/-- OLD (before fix a3140e4): `List_Assign` called `List_Clear(self)` first, then pushed `get(obj, i)` for `i < len(obj) = 0` -/
def Lst.assignSelfOld (l : Lst α) : Lst α × Res Unit := let c := l.clear; c.assign c.items

/-- `push(a, get(a, k))` on an Array: `obj` is the address of record `k` of the block.  `Array_Push` does `nitems++`,
    `Array_Reserve_More` (a `realloc` when the capacity is exceeded: the block may move and `obj` then points into freed
    memory — the read in `assign` is a use after free), `Array_Alloc(nitems-1)` (zeroes the *new* record, not `k`), and
    only then `assign(record nitems-1, obj)`. -/
def Arr.pushElem (a : Arr α) (k : Int) : Arr α × Res Unit :=
  match a.get k with
  | .raised e => (a, .raised e)
  | .ub => (a, .ub)
  | .ok x => if a.nitems + 1 > a.nslots then (a, .ub) else a.push x

/-- `push_at(a, get(a, k), i)` on an Array: after the bounds check `nitems++`, `Array_Reserve_More` (as above: `.ub` when
    it has to `realloc`), then `memmove` shifts records `i … n-1` up by one, `Array_Alloc(i)` ZEROES record `i`, and only
    then `assign(record i, obj)` reads record `k` — which by now holds: the old item `k` if `k < i`, the zeroed record if
    `k = i`, the old item `k-1` if `k > i`.  `cells` below is the block after memmove + zero. -/
def Arr.pushAtElem [Inhabited α] (a : Arr α) (k i : Int) : Arr α × Res Unit :=
  match a.get k with
  | .raised e => (a, .raised e)
  | .ub => (a, .ub)
  | .ok _ =>
    let j := pushIdx a.nitems i
    if j < 0 ∨ j > (a.nitems : Int) then (a, .raised .indexOutOfBounds)
    else if a.nitems + 1 > a.nslots then (a, .ub)
    else
      let jj := j.toNat
      let kk := (normIdx a.nitems k).toNat
      let cells := a.items.take jj ++ default :: a.items.drop jj
      match cells[kk]? with
      | none => (a, .ub)
      | some x => ({ items := cells.set jj x, nslots := a.nslots }, .ok ())

/-- `push(l, get(l, k))` / `push_at(l, get(l, k), i)` on a List: the new node is allocated and assigned (a copy of the
    element is taken) *before* it is linked, and nothing moves: same as passing the value -/
def Lst.pushElem (l : Lst α) (k : Int) : Lst α × Res Unit :=
  match l.get k with
  | .ok x => l.push x | .raised e => (l, .raised e) | .ub => (l, .ub)
def Lst.pushAtElem (l : Lst α) (k i : Int) : Lst α × Res Unit :=
  match l.get k with
  | .ok x => l.pushAt x i | .raised e => (l, .raised e) | .ub => (l, .ub)

/-- read the elements named by `ks` in order: what `tuple(get(x, k0), get(x, k1), …)` evaluates before the call; the first
    index out of range raises -/
def getAll (get : Int → Res α) : List Int → Res (List α)
  | [] => .ok []
  | k :: ks =>
    match get k with
    | .raised e => .raised e
    | .ub => .ub
    | .ok x => match getAll get ks with
      | .ok xs => .ok (x :: xs)
      | r => r

/-- `concat(a, tuple(get(a, k0), get(a, k1), …))` on an Array: the operand holds POINTERS to records of the block.
    `Array_Concat` does `nitems += len(obj); Array_Reserve_More` (a `realloc` when the capacity is exceeded: the pointers
    then point into freed memory) and only then `foreach (item in obj) assign(record, item)` — a use after free exactly
    when the Array has to grow and the operand is not empty (known finding KF-C04-push-own-element, site Array_Concat).
    With spare capacity the records named by the operand are not touched before they are read: same as passing values. -/
def Arr.concatElems (a : Arr α) (ks : List Int) : Arr α × Res Unit :=
  match getAll a.get ks with
  | .raised e => (a, .raised e)
  | .ub => (a, .ub)
  | .ok xs => if xs ≠ [] ∧ a.nitems + xs.length > a.nslots then (a, .ub) else a.concat xs

/-- `assign(a, tuple(get(a, k0), …))` on an Array: `Array_Assign` calls `Array_Clear(self)` — every record destroyed, the
    block freed — BEFORE it reads `get(obj, i)`: with a non-empty operand of pointers into that block every read is a
    use after free (same known finding, site Array_Assign).  An empty operand just clears. -/
def Arr.assignElems (a : Arr α) (ks : List Int) : Arr α × Res Unit :=
  match getAll a.get ks with
  | .raised e => (a, .raised e)
  | .ub => (a, .ub)
  | .ok xs => if xs ≠ [] then (a, .ub) else a.assign []

/-- `concat(l, tuple(get(l, k0), …))` on a List: each item is copied into a fresh node by `List_Push`; nothing moves and
    nothing is freed: same as passing the values -/
def Lst.concatElems (l : Lst α) (ks : List Int) : Lst α × Res Unit :=
  match getAll l.get ks with
  | .raised e => (l, .raised e)
  | .ub => (l, .ub)
  | .ok xs => l.concat xs

/-- `assign(l, tuple(get(l, k0), …))` on a List: `List_Assign` calls `List_Clear(self)` — every node destroyed and freed —
    before it reads the operand: use after free for a non-empty operand (same known finding, site List_Assign) -/
def Lst.assignElems (l : Lst α) (ks : List Int) : Lst α × Res Unit :=
  match getAll l.get ks with
  | .raised e => (l, .raised e)
  | .ub => (l, .ub)
  | .ok xs => if xs ≠ [] then (l, .ub) else l.assign []

/-- `set(a, i, get(a, k))` on an Array: `Array_Set` checks `i` and then does `assign(record i, obj)` with `obj` = the address of
    record `k`.  Nothing moves, so for `i ≠ k` (after normalisation) this is `set(a, i, v)`.  For `i = k` it is `assign(x, x)` ON THE
    ELEMENT: Int and the byte-record types copy the record onto itself; `String_Assign` returns at once since fix 744a45f
    (`val is s->val`).  `elemSelfAssignOk = false` is the String code BEFORE that fix: `realloc` of the buffer, then `strcpy`
    from the old one — a use after free. -/
def Arr.setElem (a : Arr α) (i k : Int) (elemSelfAssignOk : Bool := true) : Arr α × Res Unit :=
  match a.get k with
  | .raised e => (a, .raised e)
  | .ub => (a, .ub)
  | .ok x =>
    if !elemSelfAssignOk && sameIdx a.nitems i k then (a, .ub) else a.set i x

/-- `set(l, i, get(l, k))` on a List: `assign(List_At(l, i), obj)` — the same, on nodes -/
def Lst.setElem (l : Lst α) (i k : Int) (elemSelfAssignOk : Bool := true) : Lst α × Res Unit :=
  match l.get k with
  | .raised e => (l, .raised e)
  | .ub => (l, .ub)
  | .ok x =>
    if !elemSelfAssignOk && sameIdx l.nitems i k then (l, .ub) else l.set i x

/-- `rem(x, get(x, k))`: the scan compares every element with the one passed (for its own position: `eq(x, x)`), the element is
    not read again after the first match was found: same as passing the value (all three types; for a Tuple the argument
    order of `eq` is the other one) -/
def Arr.remElem [BEq α] (a : Arr α) (k : Int) : Arr α × Res Unit :=
  match a.get k with
  | .ok x => a.rem x | .raised e => (a, .raised e) | .ub => (a, .ub)
def Lst.remElem [BEq α] (l : Lst α) (k : Int) : Lst α × Res Unit :=
  match l.get k with
  | .ok x => l.rem x | .raised e => (l, .raised e) | .ub => (l, .ub)
def Tup.remElem [BEq α] (t : Tup α) (k : Int) : Tup α × Res Unit :=
  match t.get k with
  | .ok x => t.rem x | .raised e => (t, .raised e) | .ub => (t, .ub)

/-- `assign(t, t)`: `Tuple_Assign` reallocs to the same size and stores `get(self, i)` at `i`: no change -/
def Tup.assignSelf (t : Tup α) : Tup α × Res Unit := t.assign t.items

/-- `concat(a, a)`: `nitems += n; Array_Reserve_More;` then `foreach (item in self)` runs over the *new* `nitems = 2n`
    records and writes record `n+i ← record i` for `i = 0 … 2n-1`: the visible records `0 … 2n-1` end up as
    `items ++ items`, but records up to `3n-1` are written — outside the store unless the capacity is at least `3n`
    (it is exactly `3n` when Reserve_More had to grow, i.e. when the old capacity was below `2n`). -/
def Arr.concatSelf (a : Arr α) : Arr α × Res Unit :=
  let n := a.nitems
  let nslots := reserveMore (n + n) a.nslots
  if n > 0 ∧ 3 * n > nslots then (a, .ub)
  else ({ items := a.items ++ a.items, nslots := nslots }, .ok ())

/-- the loop of `List_Concat(l, l)`: `foreach (item in self) List_Push(self, item)` — the iterator is a node of the
    list that is being extended -/
def Lst.concatSelfLoop : Nat → Lst α → Option Nat → Option (Lst α)
  | _, l, none => some l
  | 0, _, some _ => none
  | fuel + 1, l, some k =>
    match l.items[k]? with
    | none => none
    | some x =>
      let l' := (l.push x).1
      concatSelfLoop fuel l' (l'.iterNext k)
/-- `concat(l, l)`; `none` = still looping after `fuel` steps -/
def Lst.concatSelf (l : Lst α) (fuel : Nat) : Option (Lst α) := Lst.concatSelfLoop fuel l l.iterInit

/-- `concat(t, t)`: the block is reallocated to `2n+1` cells and the first store `items[n] = items[0]` overwrites
    `Terminal`; from then on `Tuple_Iter_Next` (which looks `curr` up from cell 0) cycles through the first `n` cells
    for ever while the write index keeps growing: cell `2n+1` is outside the block.  An empty Tuple is left alone. -/
def Tup.concatSelf (t : Tup α) : Tup α × Res Unit :=
  if t.len = 0 then (t, .ok ()) else (t, .ub)

/-! ## Operations as data, and runs -/

inductive Op (α : Type) where
  | push (x : α) | pop | pushAt (x : α) (i : Int) | popAt (i : Int) | set (i : Int) (x : α)
  | rem (x : α) | concat (ys : List α) | append (x : α) | resize (n : Nat)
  | sort (f : α → α → Bool) | assign (ys : List α) (indexed : Bool)

variable {α : Type}

/-- `assign` from a source that has no `Len`/`Get` (an iterator-only source such as `filter(…)`) -/
def Op.iterAssign : Op α → Bool
  | .assign _ false => true
  | _ => false

def Arr.step [BEq α] (a : Arr α) : Op α → Arr α × Res Unit
  | .push x => a.push x | .pop => a.pop | .pushAt x i => a.pushAt x i | .popAt i => a.popAt i
  | .set i x => a.set i x | .rem x => a.rem x | .concat ys => a.concat ys | .append x => a.push x
  | .resize n => a.resize n | .sort f => a.sortBy f | .assign ys b => a.assign ys b

/-- the territory of known finding KF-C04-list-resize-raw: `resize(l, n)` beyond the length of a List whose element type does
    not have the all-zero record as a value -/
def Lst.rawGrow [ZeroIsValue α] (l : Lst α) : Op α → Bool
  | .resize n => !ZeroIsValue.zeroOk α && decide (n > l.nitems)
  | _ => false

/-- `resize` in `rawGrow` territory does what `List_Resize` does (the state is the grown List) and reports `.ub`: the List now
    counts records that were never constructed and that no operation of the element type accepts -/
def Lst.step [BEq α] [ZeroIsValue α] (l : Lst α) : Op α → Lst α × Res Unit
  | .push x => l.push x | .pop => l.pop | .pushAt x i => l.pushAt x i | .popAt i => l.popAt i
  | .set i x => l.set i x | .rem x => l.rem x | .concat ys => l.concat ys | .append x => l.push x
  | .resize n => if l.rawGrow (.resize n) then ((l.resize n).1, .ub) else l.resize n
  | .sort f => l.sortBy f | .assign ys b => l.assign ys b

def Tup.step [BEq α] (t : Tup α) : Op α → Tup α × Res Unit
  | .push x => t.push x | .pop => t.pop | .pushAt x i => t.pushAt x i | .popAt i => t.popAt i
  | .set i x => t.set i x | .rem x => t.rem x | .concat ys => t.concat ys | .append x => t.push x
  | .resize n => t.resize n | .sort f => t.sortBy f | .assign ys b => t.assign ys b

/-- run a history; stops at the first operation that does not complete normally and reports it -/
def runOps {σ : Type} (step : σ → Op α → σ × Res Unit) : σ → List (Op α) → σ × Res Unit
  | s, [] => (s, .ok ())
  | s, op :: ops =>
    match step s op with
    | (s', .ok ()) => runOps step s' ops
    | r => r

/-! ## Specification: the abstract sequence -/
namespace Spec

/-- the position named by a positive or negative index in a sequence of length `n`; `none` = out of range -/
def idx (n : Nat) (i : Int) : Option Nat :=
  if 0 ≤ i ∧ i < (n : Int) then some i.toNat
  else if i < 0 ∧ -(n : Int) ≤ i then some ((n : Int) + i).toNat
  else none

def get (l : List α) (i : Int) : Option α := (idx l.length i).bind (fun k => l[k]?)

def mem [BEq α] (l : List α) (x : α) : Bool := l.any (· == x)

/-- the insertion positions `Array_Push_At` accepts: `0 … n` and `-(n+1) … -1` (−1 appends) -/
def arrInsIdx (n : Nat) (i : Int) : Option Nat :=
  if 0 ≤ i ∧ i ≤ (n : Int) then some i.toNat
  else if i < 0 ∧ -((n : Int) + 1) ≤ i then some ((n : Int) + 1 + i).toNat
  else none

/-- abstract effect of an operation on an Array; `none` = an argument is out of range for this type -/
def arrStep [BEq α] (l : List α) : Op α → Option (List α)
  | .push x => some (l ++ [x])
  | .pop => if l.isEmpty then none else some l.dropLast
  | .pushAt x i => (arrInsIdx l.length i).map (fun k => l.insertIdx k x)
  | .popAt i => (idx l.length i).map (fun k => l.eraseIdx k)
  | .set i x => (idx l.length i).map (fun k => l.set k x)
  | .rem x => if mem l x then some (l.erase x) else none
  | .concat ys => some (l ++ ys)
  | .append x => some (l ++ [x])
  | .resize n => some (l.take n)
  | .sort f => some (Sort.sortList f l)
  | .assign ys _ => some ys

/-- … on a List: `push_at` takes key 0 always, otherwise an index of an existing element (inserting before it);
    `resize` pads with zero-initialised elements — in range only for element types whose zero record is a value; there is no `sort` -/
def lstStep [BEq α] [ZeroIsValue α] (l : List α) : Op α → Option (List α)
  | .push x => some (l ++ [x])
  | .pop => if l.isEmpty then none else some l.dropLast
  | .pushAt x i => if i = 0 then some (x :: l) else (idx l.length i).map (fun k => l.insertIdx k x)
  | .popAt i => (idx l.length i).map (fun k => l.eraseIdx k)
  | .set i x => (idx l.length i).map (fun k => l.set k x)
  | .rem x => if mem l x then some (l.erase x) else none
  | .concat ys => some (l ++ ys)
  | .append x => some (l ++ [x])
  | .resize n =>     -- growth is in range only when the zero record is a value of the element type (`ZeroIsValue`; KF-C04-list-resize-raw)
    if ZeroIsValue.zeroOk α || decide (n ≤ l.length) then some (l.take n ++ List.replicate (n - l.length) default) else none
  | .sort _ => none
  | .assign ys indexed => if indexed then some ys else none     -- a List can only be assigned from a source with Len and Get

/-- … on a Tuple: `push_at` needs an index of an existing element; `resize` only shrinks; `assign` from an iterator-only
    source is in range only for an empty Tuple (the documented use `var y = new(Tuple); assign(y, filter(…))`) -/
def tupStep [BEq α] (l : List α) : Op α → Option (List α)
  | .push x => some (l ++ [x])
  | .pop => if l.isEmpty then none else some l.dropLast
  | .pushAt x i => (idx l.length i).map (fun k => l.insertIdx k x)
  | .popAt i => (idx l.length i).map (fun k => l.eraseIdx k)
  | .set i x => (idx l.length i).map (fun k => l.set k x)
  | .rem x => if l.any (fun y => x == y) then some (l.eraseP (fun y => x == y)) else none
  | .concat ys => some (l ++ ys)
  | .append x => some (l ++ [x])
  | .resize n => if n < l.length then some (l.take n) else none
  | .sort f => some (Sort.sortList f l)
  | .assign ys indexed => if indexed || l.isEmpty then some ys else none   -- iterator-only source: see `Tup.assign`, KF-C04-tuple-assign-iter

/-- abstract run of a history; `none` as soon as an argument is out of range -/
def run (step : List α → Op α → Option (List α)) : List α → List (Op α) → Option (List α)
  | l, [] => some l
  | l, op :: ops => (step l op).bind (fun l' => run step l' ops)

end Spec

end Cello.Seq
