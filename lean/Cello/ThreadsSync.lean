/-
  Cello/ThreadsSync.lean — extension round for C13: the synchronisation wrappers of src/Thread.c as
  *wrapper = translation table ∘ pthread primitive*, at the granularity of the small-step model.

  `Cello/Threads.lean` gives `step` for `lock / trylock / unlock / join` directly as a holder / phase machine.  Here
  the same four events are assembled from three separate ingredients, so that each can be tied to its own source:

  * the **primitive** (`pmLock`, `pmTrylock`, `pmUnlock`, `pJoin`): what `pthread_mutex_lock / _trylock / _unlock`
    of a default-kind mutex and `pthread_join` do in a sequentially consistent world — return an error code, do not
    return (`blocks`), or are undefined (`undef`).  TRUSTED as a description of pthread (the harness runs the real ones).
  * the **flag test** of the wrapper (`if (not t->thread) { return; }` of `Thread_Join`: `threadField`), whose position
    before the primitive call is read from the source (`CelloGen.Thr.joinGuardsThread`).
  * the **translation** of the primitive's error code: the tables `[(errno, action)]` the translator extracts from
    `Mutex_Lock`, `Mutex_Trylock`, `Mutex_Unlock`, `Thread_Join` (`CelloGen.Thr.lockErr …`), interpreted by `trTable` /
    `tryTable`.

  `syncStep tabs` is the composition.  `CelloProofs/Props/C13.lean` proves that for the tables of the current source it is
  `step` (theorem `C13_sync_step_is_translated_primitive`), so every theorem about `step` (mutual exclusion, join) is a
  theorem about "extracted table applied to the primitive's return value".
-/
import Cello.Threads

namespace Cello.Thr

/-- what a pthread primitive does when it is called -/
inductive Prim where
  | ret (e : Errno)     -- it returns `e` (0 = success)
  | blocks              -- it does not return now: the event does not happen (the caller waits)
  | undef               -- undefined behaviour of the primitive
deriving DecidableEq, Repr, Inhabited

/-- the C name of an error code, as it occurs in the extracted tables -/
def Errno.cname : Errno → String
  | .zero => "0" | .einval => "EINVAL" | .edeadlk => "EDEADLK" | .ebusy => "EBUSY" | .eperm => "EPERM"
  | .esrch => "ESRCH" | .eagain => "EAGAIN"

def excNamed : String → Option Exc
  | "ValueError" => some .valueError | "ResourceError" => some .resourceError | "KeyError" => some .keyError
  | "OutOfMemoryError" => some .outOfMemoryError | "BusyError" => some .busyError | _ => none

/-- a `void` wrapper with the extracted table `tab`: which exception does it raise when the primitive returned `e`
    (`none`: it returns normally) -/
def trTable (tab : List (String × String)) (e : Errno) : Option Exc := (tab.lookup e.cname).bind excNamed

/-- what a `bool` wrapper (Mutex_Trylock) makes of the primitive's return value -/
inductive TryRet where
  | val (b : Bool)
  | raises (x : Exc)
  | malformed           -- the table names something that is neither `true`/`false` nor a known exception
deriving DecidableEq, Repr, Inhabited

/-- `Mutex_Trylock` with the extracted table `tab` and final `return dflt;` -/
def tryTable (tab : List (String × String)) (dflt : String) (e : Errno) : TryRet :=
  match tab.lookup e.cname with
  | some a =>
    if a = "false" then .val false else if a = "true" then .val true
    else match excNamed a with
      | some x => .raises x
      | none => .malformed
  | none => if dflt = "true" then .val true else if dflt = "false" then .val false else .malformed

/-- the extracted tables of the four wrappers -/
structure SyncTabs where
  lock : List (String × String)
  trylock : List (String × String)
  tryDefault : String
  unlock : List (String × String)
  join : List (String × String)

/-! ### the primitives (default-kind mutex; sequentially consistent) -/

/-- `pthread_mutex_lock`: free → 0 (now held by the caller); held (by anyone, the caller included: a default mutex is
    not recursive and not error-checking) → the caller waits -/
def pmLock (h : Option Tid) : Prim :=
  match h with
  | none => .ret .zero
  | some _ => .blocks

/-- `pthread_mutex_trylock`: free → 0 (now held by the caller); held → EBUSY.  Never waits. -/
def pmTrylock (h : Option Tid) : Prim :=
  match h with
  | none => .ret .zero
  | some _ => .ret .ebusy

/-- `pthread_mutex_unlock` by `t`: holder → 0 (now free); anyone else → undefined for a default mutex -/
def pmUnlock (h : Option Tid) (t : Tid) : Prim :=
  if h = some t then .ret .zero else .undef

/-- `pthread_join(target)` called by `t` on the pthread of Thread object `u`, which is in phase `ph`; `j`: that pthread has
    been joined already -/
def pJoin (t u : Tid) (ph : Phase) (j : Bool) : Prim :=
  if t = u then .ret .edeadlk                 -- the caller joins itself
  else match ph with
    | .done => if j then .undef else .ret .zero   -- terminated: returns at once; a second join of the same pthread is undefined
    | .unborn => .undef                        -- there is no pthread (never reached through the wrapper: `threadField`)
    | _ => .blocks                             -- still running: the caller waits

/-- the holder after a primitive that may have acquired the mutex for `t`: only a return value of 0 acquires -/
def acquireIf (g : G) (m : Nat) (t : Tid) (e : Errno) : G :=
  if e = .zero then { g with holder := upd g.holder m (some t) } else g

/-- the caller's exception record takes the exception a wrapper raises; nothing else changes -/
def raiseIn (g : G) (t : Tid) (x : Exc) : G :=
  { g with thr := upd g.thr t { g.thr t with exc := caught x (g.thr t).exc } }

/-- `t->thread` of `u`'s Thread object is non-zero: `Thread_Call` (pthread_create) or, for the main wrapper,
    `Thread_Current` has stored a pthread id; nothing ever clears it -/
def threadField (g : G) (u : Tid) : Bool := !((g.thr u).phase == .unborn)

/-- **wrapper = translation ∘ primitive.**  `none`: not one of the four synchronisation events. -/
def syncStep (tabs : SyncTabs) (g : G) : Ev → Option (G × Out)
  | .lock t m => some <|
    if !running g t then (g, .dead)
    else match pmLock (g.holder m) with
      | .blocks => (g, .blocked)
      | .undef => (g, .ub)
      | .ret e => match trTable tabs.lock e with
        | some x => (raiseIn (acquireIf g m t e) t x, .raised x)
        | none => if e = .zero then (acquireIf g m t e, .acquired) else (g, .ok)   -- a failure the wrapper does not report
  | .trylock t m => some <|
    if !running g t then (g, .dead)
    else match pmTrylock (g.holder m) with
      | .blocks => (g, .blocked)
      | .undef => (g, .ub)
      | .ret e => match tryTable tabs.trylock tabs.tryDefault e with
        | .raises x => (raiseIn (acquireIf g m t e) t x, .raised x)
        | .val b => (acquireIf g m t e, .tried b)
        | .malformed => (g, .bad)
  | .unlock t m => some <|
    if !running g t then (g, .dead)
    else match pmUnlock (g.holder m) t with
      | .blocks => (g, .blocked)
      | .undef => (g, .ub)
      | .ret e => match trTable tabs.unlock e with
        | some x => (raiseIn g t x, .raised x)
        | none => if e = .zero then ({ g with holder := upd g.holder m none }, .released) else (g, .ok)
  | .join t u => some <|
    if !running g t then (g, .dead)
    else if wrapperGone g u then (g, .ub)                 -- the Thread object itself has been freed
    else if !threadField g u then (g, .nothread)          -- `if (not t->thread) { return; }` — the primitive is not called
    else match pJoin t u (g.thr u).phase (g.joined u) with
      | .blocks => (g, .blocked)
      | .undef => (g, .ub)
      | .ret e => match trTable tabs.join e with
        | some x => (raiseIn g t x, .raised x)
        | none => if e = .zero then ({ g with joined := upd g.joined u true }, .joined)
                  else (g, .early)                        -- `Thread_Join` returns although `pthread_join` failed
  | _ => none

/-- which branch of a wrapper a synchronisation event took (driver statistics) -/
def syncBranch (g : G) : Ev → String
  | .lock _ m => match pmLock (g.holder m) with | .ret _ => "lock-ret0" | .blocks => "lock-blocks" | .undef => "lock-undef"
  | .trylock _ m => match pmTrylock (g.holder m) with | .ret .zero => "trylock-ret0" | .ret _ => "trylock-ebusy" | _ => "trylock-other"
  | .unlock t m => match pmUnlock (g.holder m) t with | .ret _ => "unlock-ret0" | .undef => "unlock-undef" | .blocks => "unlock-other"
  | .join t u =>
    if !threadField g u then "join-nothread"
    else match pJoin t u (g.thr u).phase (g.joined u) with
      | .ret .zero => "join-ret0" | .ret _ => "join-edeadlk" | .blocks => "join-blocks" | .undef => "join-undef"
  | _ => ""

end Cello.Thr
