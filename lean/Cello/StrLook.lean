import Cello.Str
/-!
# `String_Look` (src/String.c): reading a shown String back into a heap String

`look_from(self, input, pos)` / `scan_from(input, pos, "%$", self)` with `self` a String reach `String_Look`:

    String_Clear(self);
    var chr = $I(0);
    pos = scan_from(input, pos, "%c", chr);
    if (c_int(chr) isnt '\"') { throw(FormatError, …); }
    while (true) {
      pos = scan_from(input, pos, "%c", chr);
      if (c_int(chr) == '"') { break; }
      if (c_int(chr) == '\\') {
        pos = scan_from(input, pos, "%c", chr);
        switch (c_int(chr)) { case 'a': String_Concat(self, $S("\a")); break; … default: throw(FormatError, …); }
        continue;
      }
      char buffer[2]; buffer[0] = (char)c_int(chr); buffer[1] = '\0';
      String_Concat(self, $S(buffer));
    }
    return pos;

It is a mutator of the target made of the two reallocating functions of the property: one `String_Clear`, then one
`String_Concat` (realloc to `len + 1 + 1`, `strcat`) per character read.  The model below mirrors that control flow on the
buffer-level model of `Cello.Str`: the input is another String (`String_Format_From`: `vsscanf(val + pos, "%c%n", …)`), so a
read at `pos` sees the byte at `pos` of the input's text, and at the terminator `vsscanf` returns EOF (`err < 1`:
FormatError "Unable to input Char!").  The quote characters, the escape lead, the escape table and the position of
`String_Clear` are read from the source on every run (`CelloGen.Str.lookParams`).

An exception leaves with the target holding what was appended so far (C15's known finding KF-C15-look-clobbers-target is about
that being observable); for C16 the point is that the target is a well-formed C string inside its allocation on every path.
-/
namespace Cello.Str

/-- what `String_Look` reads from its own source text -/
structure LookParams where
  /-- the first statement is `String_Clear(self);` -/
  clearsFirst : Bool
  /-- `if (c_int(chr) isnt '\"') { throw(FormatError, …) }` after the first read -/
  quoteOpen : Byte
  /-- `if (c_int(chr) == '"') { break; }` -/
  quoteClose : Byte
  /-- `if (c_int(chr) == '\\') { … }` -/
  escLead : Byte
  /-- `case 'a': String_Concat(self, $S("\a")); break;` … : the character after the lead ↦ the text appended -/
  escapes : List (Byte × List Byte)
deriving Repr, DecidableEq, Inhabited

/-- the table `String_Look` must hold to read back what `String_Show` writes: `escTable` turned round -/
def unescTable : List (Byte × List Byte) := escTable.map fun p => (p.2, [p.1])

/-- the parameters this file was written against -/
def LookParams.modelled : LookParams :=
  { clearsFirst := true, quoteOpen := 34, quoteClose := 34, escLead := 92, escapes := unescTable }

/-- `String_Look` without its `String_Clear` (a variant to refute) -/
def LookParams.noClear : LookParams := { LookParams.modelled with clearsFirst := false }

structure LookParams.Lawful (L : LookParams) : Prop where
  clears : L.clearsFirst = true
  qo : L.quoteOpen = 34
  qc : L.quoteClose = 34
  lead : L.escLead = 92
  esc : L.escapes = unescTable

theorem LookParams.modelled_lawful : LookParams.modelled.Lawful := ⟨rfl, rfl, rfl, rfl, rfl⟩

/-- the `while (true)` loop; `rest` = the input's text from the read position on (`val + pos`), `[]` = the terminator:
    `scan_from(…, "%c", …)` then raises FormatError.  Every character read is appended with `String_Concat` (model `concat`:
    the realloc of `strlen + 1 + 1` bytes and the `strcat`). -/
def lookLoop (P : Params) (L : LookParams) (J : Nat → Byte) : List Byte → Str → Nat → List Acc → Res
  | [], s, _, lg => ⟨s, .raised .FormatError, lg⟩                        -- "Unable to input Char!"
  | c :: rest, s, pos, lg =>
    if c == L.quoteClose then ⟨s, .ok (pos + 1), lg⟩                     -- `break; … return pos;`
    else if c == L.escLead then
      match rest with
      | [] => ⟨s, .raised .FormatError, lg⟩                              -- the input ends after the backslash
      | e :: rest' =>
        match L.escapes.lookup e with
        | none => ⟨s, .raised .FormatError, lg⟩                          -- "Unknown Escape Sequence"
        | some t =>
          let r := concat P J s t
          lookLoop P L J rest' r.st (pos + 2) (lg ++ r.log)
    else
      let r := concat P J s [c]                                          -- `buffer[0] = (char)c_int(chr); String_Concat(self, $S(buffer));`
      lookLoop P L J rest r.st (pos + 1) (lg ++ r.log)

/-- `String_Look(self, input, pos)` where `inp` is the text of the input String and `pos ≤ |inp|`; `out = .ok pos'`: the position
    returned (just behind the closing quote) -/
def look (P : Params) (L : LookParams) (J : Nat → Byte) (s : Str) (inp : List Byte) (pos : Nat) : Res :=
  let r0 : Res := if L.clearsFirst then clear P J s else ⟨s, .ok 0, []⟩
  match inp.drop pos with
  | [] => ⟨r0.st, .raised .FormatError, r0.log⟩                          -- nothing to read: "Unable to input Char!"
  | c :: rest =>
    if c != L.quoteOpen then ⟨r0.st, .raised .FormatError, r0.log⟩       -- "String literal does not start with quotation marks!"
    else lookLoop P L J rest r0.st (pos + 1) r0.log

/-! ### the same reader without a buffer: which texts are appended, what comes out -/

/-- the operands of the `String_Concat` calls of the loop, in order, and how it ends -/
def lookTexts (L : LookParams) : List Byte → Nat → List (List Byte) × Outcome
  | [], _ => ([], .raised .FormatError)
  | c :: rest, pos =>
    if c == L.quoteClose then ([], .ok (pos + 1))
    else if c == L.escLead then
      match rest with
      | [] => ([], .raised .FormatError)
      | e :: rest' =>
        match L.escapes.lookup e with
        | none => ([], .raised .FormatError)
        | some t => (t :: (lookTexts L rest' (pos + 2)).1, (lookTexts L rest' (pos + 2)).2)
    else ([c] :: (lookTexts L rest (pos + 1)).1, (lookTexts L rest (pos + 1)).2)

/-- `String_Look` as a history of the property's own operations (`clear`, then one `concat` per character) and its outcome -/
def lookOps (L : LookParams) (inp : List Byte) (pos : Nat) : List Op × Outcome :=
  let pre : List Op := if L.clearsFirst then [.clear] else []
  match inp.drop pos with
  | [] => (pre, .raised .FormatError)
  | c :: rest =>
    if c != L.quoteOpen then (pre, .raised .FormatError)
    else (pre ++ (lookTexts L rest (pos + 1)).1.map Op.concat, (lookTexts L rest (pos + 1)).2)

/-- what `String_Show` writes for the text `x` (the quoted, escaped form; `showVal (.str x)` as plain bytes) -/
def escBytes (b : Byte) : List Byte :=
  match escOf b with
  | some e => [92, e]
  | none => [b]

def shownText (x : List Byte) : List Byte := 34 :: (x.flatMap escBytes ++ [34])

/-- branch statistics of one `look` for the driver: (plain characters, escapes, how it ended: 0 ok, 1 no opening quote,
    2 input ran out, 3 unknown escape) -/
def lookStats (L : LookParams) (inp : List Byte) (pos : Nat) : Nat × Nat × Nat :=
  let rec go : Nat → List Byte → Nat → Nat → Nat × Nat × Nat
    | 0, _, _, _ => (0, 0, 2)
    | _ + 1, [], p, e => (p, e, 2)
    | fuel + 1, c :: rest, p, e =>
      if c == L.quoteClose then (p, e, 0)
      else if c == L.escLead then
        match rest with
        | [] => (p, e, 2)
        | x :: rest' => if (L.escapes.lookup x).isSome then go fuel rest' p (e + 1) else (p, e, 3)
      else go fuel rest (p + 1) e
  match inp.drop pos with
  | [] => (0, 0, 2)
  | c :: rest => if c != L.quoteOpen then (0, 0, 1) else go (rest.length + 1) rest 0 0

end Cello.Str
