/-
  Cello/Sort.lean — model of the in-place quicksort of src/Array.c (Array_Sort_Partition / Array_Sort_Part /
  Array_Sort_By) and src/Tuple.c (Tuple_Sort_Partition / Tuple_Sort_Part / Tuple_Sort_By).  Both files contain the
  same algorithm; Array swaps element records with `swap` (memswap of the bytes), Tuple swaps pointers.

      p = l + (r - l) / 2;  swap(p, r);                       -- middle pivot moved to the right end
      s = l;
      for (i = l; i < r; i++) if (f(item i, item r)) { swap(i, s); s++; }
      swap(s, r);  return s;                                  -- Lomuto partition
      Sort_Part(l, r): if (l < r) { s = partition(l, r); Sort_Part(l, s-1); Sort_Part(s+1, r); }
      Sort_By: Sort_Part(0, len-1)

  Core Lean only (the driver links this).  The backing store is a Lean `Array` (O(1) swap) — the model's `Arr`/`Tup`
  convert their item list to it and back.

  Index type: the C code uses `int64_t` for l, r, s.  Every index that is *dereferenced* is ≥ 0; the only negative
  value that occurs is `r = -1` (from `len-1` on an empty container or from `s-1` with `s = 0`, and then `l = 0`), and it
  is only compared: `0 < -1` is false.  With `Nat` and truncated subtraction the same call has `r = 0` and the guard
  `0 < 0` is false as well, so `Nat` indices take the same branches.
-/
namespace Cello.Sort

variable {α : Type}

/-- the `for (i = l; i < r; i++)` loop of `*_Sort_Partition`: `n` iterations left, current `i`, store `a`, boundary `s`.
    A read outside the store (undefined behaviour in C; shown unreachable in CelloProofs) leaves the state alone. -/
def partLoop (f : α → α → Bool) (r : Nat) : Nat → Nat → Array α → Nat → Array α × Nat
  | 0, _, a, s => (a, s)
  | n + 1, i, a, s =>
    match a[i]?, a[r]? with
    | some x, some piv =>
      if f x piv then partLoop f r n (i + 1) (a.swapIfInBounds i s) (s + 1)
      else partLoop f r n (i + 1) a s
    | _, _ => partLoop f r n (i + 1) a s

/-- `*_Sort_Partition(a, l, r, f)`; returns the store and the final position `s` of the pivot -/
def partition (f : α → α → Bool) (a : Array α) (l r : Nat) : Array α × Nat :=
  let p := l + (r - l) / 2
  let a := a.swapIfInBounds p r
  match partLoop f r (r - l) l a l with
  | (a, s) => (a.swapIfInBounds s r, s)

theorem partLoop_snd (f : α → α → Bool) (r : Nat) :
    ∀ (n i : Nat) (a : Array α) (s : Nat), s ≤ (partLoop f r n i a s).2 ∧ (partLoop f r n i a s).2 ≤ s + n := by
  intro n
  induction n with
  | zero => intro i a s; simp [partLoop]
  | succ n ih =>
    intro i a s
    unfold partLoop
    split
    · split
      · have := ih (i + 1) (a.swapIfInBounds i s) (s + 1); omega
      · have := ih (i + 1) a s; omega
    · have := ih (i + 1) a s; omega

/-- the pivot lands inside the range: this is what makes the recursion of `*_Sort_Part` terminate -/
theorem partition_snd_eq (f : α → α → Bool) (a : Array α) (l r : Nat) :
    (partition f a l r).2 = (partLoop f r (r - l) l (a.swapIfInBounds (l + (r - l) / 2) r) l).2 := by
  unfold partition
  dsimp only

theorem partition_snd (f : α → α → Bool) (a : Array α) (l r : Nat) (h : l ≤ r) :
    l ≤ (partition f a l r).2 ∧ (partition f a l r).2 ≤ r := by
  rw [partition_snd_eq]
  have := partLoop_snd f r (r - l) l (a.swapIfInBounds (l + (r - l) / 2) r) l
  omega

/-- `*_Sort_Part(a, l, r, f)` by well-founded recursion on `r - l` -/
def sortPart (f : α → α → Bool) (a : Array α) (l r : Nat) : Array α :=
  if h : l < r then
    match hp : partition f a l r with
    | (a1, s) =>
      have hs : l ≤ s ∧ s ≤ r := by
        have := partition_snd f a l r (Nat.le_of_lt h); rw [hp] at this; exact this
      let a2 := sortPart f a1 l (s - 1)
      sortPart f a2 (s + 1) r
  else a
termination_by r - l
decreasing_by
  · omega
  · omega

/-- `*_Sort_By(self, f)`: `Sort_Part(self, 0, len-1, f)` -/
def sortBy (f : α → α → Bool) (a : Array α) : Array α := sortPart f a 0 (a.size - 1)

/-- the same on a list of items (what `Arr`/`Tup` call) -/
def sortList (f : α → α → Bool) (l : List α) : List α := (sortBy f l.toArray).toList

end Cello.Sort
