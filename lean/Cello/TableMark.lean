/-
  Cello/TableMark.lean — third layer of the model of src/Table.c (engine `table`, C02): the two functions of the Table class
  that READ the whole slot array on behalf of another subsystem and that users reach in ordinary use without naming them:

    * `Table_Mark` (Table.c:671-679) — the collector's view of a table: `for i < nslots: if (Table_Key_Hash(t, i) isnt 0)
      { f(gc, Table_Key(t, i)); f(gc, Table_Val(t, i)); }`.  Every collection that reaches a Table (a managed table, a table
      held in a managed container, a Thread's table) runs it; an object it fails to report is freed while the table still
      binds it, an address it reports from an empty record is zeroed memory read as a header.
    * `Table_Hash` (Table.c:295-307) — `hash(t)`: `h = 0; for curr = Table_Iter_Init .. Table_Iter_Next: h = h ^ hash(curr) ^
      hash(vurr)` with `vurr = curr + ksize + sizeof(struct Header)` (the value object of the same record).  A Table used as
      a key of another Table, `hash(t)` of two tables with the same bindings built in different orders.

  `Cello.Table.Op` / `AOp` / `Obs` are imported by other engines and stay as they are: the new operations are a wrapper
  (`XOp`, `XObs`, `stepX`, `runX`) around `stepA`.  Core Lean only.
-/
import Cello.Table
namespace Cello.Table
open RH

variable {κ ν : Type} [DecidableEq κ]

/-! ### `Table_Mark` -/

/-- one call `f(gc, p)` of the marking callback: which record `p` lies in and which of its two objects it is, with the
    value that object holds -/
inductive Reported (κ ν : Type) where
  | key (slot : Nat) (k : κ)
  | val (slot : Nat) (v : ν)
deriving Repr, DecidableEq

/-- the record the reported object lies in -/
def Reported.slot : Reported κ ν → Nat
  | .key i _ => i
  | .val i _ => i

/-- the `for` loop of `Table_Mark` from slot `i` on, over the remaining records: an empty record (`Table_Key_Hash` is 0) is
    skipped, an occupied one reports its key object, then its value object -/
def markLoop : List (Option (Entry κ ν)) → Nat → List (Reported κ ν)
  | [], _ => []
  | none :: r, i => markLoop r (i + 1)
  | some e :: r, i => .key i e.key :: .val i e.val :: markLoop r (i + 1)

/-- **`Table_Mark(self, gc, f)`**: the calls of `f`, in order (a table with `nslots = 0` reports nothing; `nitems` is not
    consulted) -/
def mark (t : Tab κ ν) : List (Reported κ ν) := markLoop t.slots.toList 0

/-- the reports read as bindings: a key object followed by the value object of the same record.  `none`: the calls do not
    come in such pairs -/
def pairsOf : List (Reported κ ν) → Option (List (κ × ν))
  | [] => some []
  | .key i k :: .val j v :: r => if i = j then (pairsOf r).map ((k, v) :: ·) else none
  | _ => none

/-! ### `Table_Hash` -/

/-- the accumulation step `h = h ^ hash(curr) ^ hash(vurr)` -/
def hashStep (hk : κ → Nat) (hv : ν → Nat) (h : Nat) (p : κ × ν) : Nat := h ^^^ hk p.1 ^^^ hv p.2

/-- **`Table_Hash(self)`**: `h = 0`, then the walk `Table_Iter_Init` / `Table_Iter_Next` (`foreach`: the key object of each
    occupied record in slot order, with the value object of the same record) folded with `hashStep`.  `hk` / `hv`: `hash` of a
    key / value object (functions of the value: C10). -/
def tableHash (hk : κ → Nat) (hv : ν → Nat) (t : Tab κ ν) : Nat := (foreach t).foldl (hashStep hk hv) 0

/-- what the MAP says the hash of a table is: the same fold over its bindings (in any order: `specHash_perm`) -/
def Spec.hash (hk : κ → Nat) (hv : ν → Nat) (m : Spec κ ν) : Nat := m.foldl (hashStep hk hv) 0

/-! ### histories with `mark` and `hash` -/

inductive XOp (κ ν : Type) where
  | base (op : AOp κ ν)
  /-- `Table_Mark(tables[t], gc, f)` with a recording `f` -/
  | mark (t : Nat)
  /-- `hash(tables[t])` -/
  | hash (t : Nat)
deriving Repr

inductive XObs (κ ν : Type) where
  | base (o : Obs κ ν)
  | marked (l : List (Reported κ ν))
  | hashed (h : Nat)
deriving Repr

def stepX (cfg : Cfg) (hash : κ → Nat) (asKey : ν → Option κ) (asVal : κ → Option ν) (hk : κ → Nat) (hv : ν → Nat)
    (ts : List (Tab κ ν)) : XOp κ ν → Except Fail (List (Tab κ ν) × XObs κ ν)
  | .base op =>
    match stepA cfg hash asKey asVal ts op with
    | .error f => .error f
    | .ok (ts', o) => .ok (ts', .base o)
  | .mark t =>
    match ts[t]? with
    | none => .ok (ts, .base .badOp)
    | some tb => .ok (ts, .marked (mark tb))
  | .hash t =>
    match ts[t]? with
    | none => .ok (ts, .base .badOp)
    | some tb => .ok (ts, .hashed (tableHash hk hv tb))

def runX (cfg : Cfg) (hash : κ → Nat) (asKey : ν → Option κ) (asVal : κ → Option ν) (hk : κ → Nat) (hv : ν → Nat) :
    List (Tab κ ν) → List (XOp κ ν) → Except Fail (List (Tab κ ν) × List (XObs κ ν))
  | ts, [] => .ok (ts, [])
  | ts, op :: ops =>
    match stepX cfg hash asKey asVal hk hv ts op with
    | .error f => .error f
    | .ok (ts', o) =>
      match runX cfg hash asKey asVal hk hv ts' ops with
      | .error f => .error f
      | .ok (ts'', os) => .ok (ts'', o :: os)

/-- what the specification observes: for `mark` the bindings themselves (every key object and every value object the map
    holds must be reported, nothing else), for `hash` the fold over the bindings -/
inductive XSpecObs (κ ν : Type) where
  | base (o : Obs κ ν)
  | bindings (m : Spec κ ν)
  | hashed (h : Nat)

def specStepX (asKey : ν → Option κ) (asVal : κ → Option ν) (hk : κ → Nat) (hv : ν → Nat) (ms : List (Spec κ ν)) :
    XOp κ ν → List (Spec κ ν) × XSpecObs κ ν
  | .base op => ((specStepA asKey asVal ms op).1, .base (specStepA asKey asVal ms op).2)
  | .mark t =>
    match ms[t]? with
    | none => (ms, .base .badOp)
    | some m => (ms, .bindings m)
  | .hash t =>
    match ms[t]? with
    | none => (ms, .base .badOp)
    | some m => (ms, .hashed (Spec.hash hk hv m))

def specRunX (asKey : ν → Option κ) (asVal : κ → Option ν) (hk : κ → Nat) (hv : ν → Nat) :
    List (Spec κ ν) → List (XOp κ ν) → List (Spec κ ν) × List (XSpecObs κ ν)
  | ms, [] => (ms, [])
  | ms, op :: ops =>
    let (ms', o) := specStepX asKey asVal hk hv ms op
    let (ms'', os) := specRunX asKey asVal hk hv ms' ops
    (ms'', o :: os)

end Cello.Table
