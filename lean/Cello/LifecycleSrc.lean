/-
  Cello/LifecycleSrc.lean — the life-cycle model instantiated with what the translator (translate/g_life.py) read from
  the current source: which halves of fix 5c00ad8, of fix d8f0c4f (`GC_Unmark`), fix d3e4e44 (NULL guard of `GC_Rem_Ptr`) and of the
  repair proposed for KF-C06-dtor-alloc are present.  The driver runs `step sourceCfg`; the theorem
  `C06_current_source` (CelloProofs/Props/C06.lean) states that this is the configuration the theorems are about.
-/
import Cello.Lifecycle
import CelloGen.Life

namespace Cello.Life

/-- the collector as the source has it now -/
def sourceCfg : Cfg :=
  ⟨CelloGen.Life.remFinalisesPending, CelloGen.Life.sweepNullsSlot, CelloGen.Life.setGuardsSweep, CelloGen.Life.teardownRepeats,
   CelloGen.Life.markClearsFirst, CelloGen.Life.teardownUnmarks, CelloGen.Life.remGuardsNull⟩

/-- everything else the model takes from the source: routes of `alloc…`/`dealloc…`/`del_by`, `Box_Del`, stop checks,
    teardown, threshold, the pending list being a field of the collector, the sweep clearing the mark bits of survivors, `dealloc` not touching the registry -/
def sourceShapeAsModelled : Bool :=
  CelloGen.Life.setIgnoredWhenStopped && CelloGen.Life.remIgnoredWhenStopped &&
  CelloGen.Life.teardownSweeps && CelloGen.Life.exitTearsDown &&
  CelloGen.Life.threadCreatesCollector && CelloGen.Life.threadTearsDown &&
  CelloGen.Life.delRoutes && CelloGen.Life.boxDelDeletes &&
  CelloGen.Life.allocRoutes && CelloGen.Life.deallocRoutes && !CelloGen.Life.deallocUnregisters &&
  CelloGen.Life.sweepPendingInCollector && CelloGen.Life.sweepClearsMarks &&
  (CelloGen.Life.thresholdDiv == 2) && (CelloGen.Life.thresholdAdd == 1)

end Cello.Life
