/-
  Cello/Registry.lean — executable model of the collector's registry (src/GC.c as it is now, after the `fix:` commits):
  GC_Ideal_Size, GC_Rehash, GC_Resize_More/Less, GC_Set_Ptr, GC_Mem_Ptr, GC_Rem_Ptr (NULL test, pending-list strike-off,
  backward shift), GC_Mark_Item (bounds filter + probe + mark bit), GC_Unmark, the prologue and the root loop of GC_Mark,
  GC_Sweep (in-place compaction, mark clearing, shrink, finalisation of the pending list with removals issued by
  destructors), GC_Set, GC_Rem, GC_Del (unmark + sweep), start/stop; and the same with destructors that leave by an
  exception (`execR`, `finaliseLoopR`, `gcSweepR`, `gcSetR`, `gcRemR`: no frame of GC.c has a handler — what each frame skips
  when the exception unwinds through it).
  Core Lean only.  The slot array is `RH.Slots Nat Payload n` with `n` a field of the state (sigma type), so the loops of
  Cello/RH.lean and the lemmas of CelloProofs/Lemmas/RH*.lean apply to the executed model directly.

  `none` as a result means: the C code would divide by zero / never leave a probing loop / run out of the nesting the model
  provides / call `destruct(NULL)` (only in the variant before fix d3e4e44, `remNullGuard := false`: GC_Rem_Ptr with
  ptr = NULL while GC_Sweep finalises matched a struck-off slot — an exception raised inside the collector).  The property
  theorems show it does not happen from well-formed states with the source as it is now; the `…_old_refuted` theorems of
  Props/C17.lean exhibit it for the explicit OLD variants `gcCfgOldRem` / `gcCfgOldMark`.
-/
import Cello.RH
import CelloGen.Reg

namespace RH
variable {κ ε : Type} {n : Nat}

/-- the inner `while (true)` of GC_Rem_Ptr / GC_Sweep / Table_Rem: the slot `j` has just been zeroed; move the following
    entries one slot back while they are away from their home slot. -/
def shiftLoop : (fuel : Nat) → Slots κ ε n → (j : Nat) → (hj : j < n) → Option (Slots κ ε n)
  | 0, _, _, _ => none
  | fuel+1, s, j, hj =>
    match s[next n j]'(next_lt hj) with
    | none => some s
    | some e =>
      if dist n (next n j) e.home > 0 then
        shiftLoop fuel ((s.set j (some e) hj).set (next n j) none (next_lt hj)) (next n j) (next_lt hj)
      else some s

/-- zero slot `i`, then shift back -/
def eraseAt (s : Slots κ ε n) (i : Nat) (hi : i < n) : Option (Slots κ ε n) :=
  shiftLoop n (s.set i none hi) i hi

/-- number of occupied slots -/
def occ (s : Slots κ ε n) : Nat := s.countP Option.isSome

end RH

namespace Cello.Registry
open RH

/-- the source-derived parameters (instantiated from CelloGen/Reg.lean by the driver and by the theorems) -/
structure Cfg where
  primes : List Nat          -- GC_Primes
  loadNum : Nat              -- GC_Load_Factor = loadNum / loadDen
  loadDen : Nat
  sizeBump : Nat             -- the `+1` of GC_Ideal_Size
  hashShift : Nat            -- GC_Hash
  tieGe : Bool               -- GC_Set_Ptr: `j >= p`
  mitemsOf : Nat → Nat       -- collection threshold after a sweep / a removal
  remNullGuard : Bool        -- GC_Rem_Ptr: `if (gc->nslots is 0 or ptr is NULL) { return; }` (false: `nslots` only, before d3e4e44)
  markUnmarks : Bool         -- GC_Mark: GC_Unmark(gc) after the `nitems is 0` test (false: no clearing, before d8f0c4f)
  delUnmarks : Bool          -- GC_Del: GC_Unmark(gc) before GC_Sweep(gc)

/-- `GC_Hash` -/
def hashOf (c : Cfg) (p : Nat) : Nat := p >>> c.hashShift

/-- second loop of GC_Ideal_Size: first multiple `last * i` (i = 0, 1, …) that is `>= size` -/
def multLoop (last size : Nat) : (fuel i : Nat) → Option Nat
  | 0, _ => none
  | fuel+1, i => if last * i ≥ size then some (last * i) else multLoop last size fuel (i+1)

/-- `GC_Ideal_Size` (the double division is exact for the sizes in question: checked against the C function) -/
def idealSize (c : Cfg) (size : Nat) : Option Nat :=
  let size := (size + c.sizeBump) * c.loadDen / c.loadNum
  match c.primes.find? (fun p => p ≥ size) with
  | some p => some p
  | none => multLoop (c.primes.getLastD 0) size (size + 1) 0

structure Payload where
  root : Bool
  marked : Bool
deriving DecidableEq, Repr

abbrev Ent := RH.Entry Nat Payload

/-- `struct GC` (without `bottom`): slot array of `n` entries keyed by address -/
structure Reg where
  n : Nat
  slots : RH.Slots Nat Payload n
  nitems : Nat
  mitems : Nat
  minptr : Nat
  maxptr : Nat
  running : Bool
  pending : Array (Option Nat)     -- `freelist[0..freenum)`; non-empty only while GC_Sweep finalises

def uintptrMax : Nat := 2^64 - 1

/-- state after GC_New on zeroed memory -/
def Reg.init : Reg :=
  { n := 0, slots := Vector.replicate 0 none, nitems := 0, mitems := 0, minptr := uintptrMax, maxptr := 0, running := true, pending := #[] }

/-- the probing-and-displacing loop of GC_Set_Ptr, including its early return on an equal pointer -/
def setPtrLoop {n : Nat} (ge : Bool) : (fuel : Nat) → Slots Nat Payload n → Ent → (i j : Nat) → (hi : i < n) → Option (Slots Nat Payload n)
  | 0, _, _, _, _, _ => none
  | fuel+1, s, c, i, j, hi =>
    match s[i] with
    | none => some (s.set i (some c))
    | some r =>
      if r.key = c.key then some s
      else
        let p := dist n i r.home
        if (if ge then j ≥ p else j > p) then setPtrLoop ge fuel (s.set i (some c)) r (next n i) (p+1) (next_lt hi)
        else setPtrLoop ge fuel s c (next n i) (j+1) (next_lt hi)

/-- `GC_Set_Ptr` (`% nslots` with `nslots = 0` is a division by zero) -/
def setPtr {n : Nat} (c : Cfg) (s : Slots Nat Payload n) (p : Nat) (root : Bool) : Option (Slots Nat Payload n) :=
  if hn : 0 < n then
    setPtrLoop c.tieGe n s ⟨p, hashOf c p % n, ⟨root, false⟩⟩ (hashOf c p % n) 0 (Nat.mod_lt _ hn)
  else none

/-- the re-insertion loop of GC_Rehash over the old entries in slot order (root flag kept, mark dropped) -/
def reinsert {m : Nat} (c : Cfg) : List (Option Ent) → Slots Nat Payload m → Option (Slots Nat Payload m)
  | [], t => some t
  | none :: es, t => reinsert c es t
  | some e :: es, t =>
    match setPtr c t e.key e.val.root with
    | none => none
    | some t' => reinsert c es t'

/-- `GC_Rehash` -/
def rehash (c : Cfg) (r : Reg) (newSize : Nat) : Option Reg :=
  match reinsert c r.slots.toList (Vector.replicate newSize none) with
  | none => none
  | some t => some { r with n := newSize, slots := t }

/-- `GC_Resize_More` -/
def resizeMore (c : Cfg) (r : Reg) : Option Reg :=
  match idealSize c r.nitems with
  | none => none
  | some ns => if ns > r.n then rehash c r ns else some r

/-- `GC_Resize_Less` -/
def resizeLess (c : Cfg) (r : Reg) : Option Reg :=
  match idealSize c r.nitems with
  | none => none
  | some ns => if ns < r.n then rehash c r ns else some r

/-- `GC_Mem_Ptr` -/
def memPtr (c : Cfg) (r : Reg) (p : Nat) : Option Bool :=
  if hn : 0 < r.n then RH.lookup (hashOf c) r.slots p hn else some false

/-- `GC_Rem_Ptr` up to (not including) its final `dealloc(destruct(…))`: the new state and the object to finalise.
    First `if (gc->nslots is 0 or ptr is NULL) { return; }` (the NULL half since fix d3e4e44: `c.remNullGuard`).
    The strike-off scan compares the raw words `gc->freelist[i] is ptr`; a slot that has been struck off (or whose object
    GC_Sweep is finalising right now) holds NULL, so without the NULL test `ptr = NULL` matches it and the code runs
    `dealloc(destruct(NULL))`: `type_of(NULL)` raises ValueError inside the collector (outcome `none`: the C code does not
    continue normally) — reachable only with `remNullGuard := false`. -/
def remPtr (c : Cfg) (r : Reg) (p : Nat) : Option (Reg × Option Nat) :=
  if hn : 0 < r.n then
    if c.remNullGuard && p == 0 then some (r, none) else
    match r.pending.findIdx? (fun x => x.getD 0 == p) with
    | some i => if p = 0 then none else some ({ r with pending := r.pending.setIfInBounds i none }, some p)
    | none =>
      match findLoop r.slots p r.n (hashOf c p % r.n) 0 (Nat.mod_lt _ hn) with
      | none => none
      | some none => some (r, none)
      | some (some i) =>
        match eraseAt r.slots i.1 i.2 with
        | none => none
        | some s' => some ({ r with slots := s', nitems := r.nitems - 1 }, some p)
  else some (r, none)

/-- what runs between two states: `fin p` = `dealloc(destruct(p))`, `rem x` = `GC_Rem(gc, x)` -/
inductive Cmd where
  | fin (p : Nat)
  | rem (x : Nat)

/-- `GC_Rem` and the finalisation it triggers.  `K p` lists the objects the destructor of `p` deletes (in order);
    the result carries the addresses deallocated, in order.  `fuel` bounds the nesting of destructors. -/
def exec (c : Cfg) (K : Nat → List Nat) : (fuel : Nat) → Reg → Cmd → Option (Reg × List Nat)
  | 0, _, _ => none
  | fuel+1, r, .fin p =>
    match (K p).foldl (fun (acc : Option (Reg × List Nat)) y =>
        match acc with
        | none => none
        | some (r', t) =>
          match exec c K fuel r' (.rem y) with
          | none => none
          | some (r'', t') => some (r'', t ++ t')) (some (r, [])) with
    | none => none
    | some (r', t) => some (r', t ++ [p])
  | fuel+1, r, .rem x =>
    if !r.running then some (r, [])
    else
      match remPtr c r x with
      | none => none
      | some (r1, fi) =>
        match (match fi with
               | none => some (r1, [])
               | some p => exec c K fuel r1 (.fin p)) with
        | none => none
        | some (r2, t) =>
          match resizeLess c r2 with
          | none => none
          | some r3 => some ({ r3 with mitems := c.mitemsOf r3.nitems }, t)

def nestFuel (r : Reg) : Nat := 2 * (r.nitems + r.pending.size) + 4

/-- `GC_Rem` -/
def gcRem (c : Cfg) (K : Nat → List Nat) (r : Reg) (x : Nat) : Option (Reg × List Nat) :=
  exec c K (nestFuel r) r (.rem x)

/-- probing loop of GC_Mark_Item: sets the mark bit of an unmarked entry for `p` (the recursion into the object is C01's) -/
def markLoop {n : Nat} (s : Slots Nat Payload n) (p : Nat) : (fuel i j : Nat) → (hi : i < n) → Option (Slots Nat Payload n)
  | 0, _, _, _ => none
  | fuel+1, i, j, hi =>
    match s[i] with
    | none => some s
    | some e =>
      if j > dist n i e.home then some s
      else if e.key = p ∧ e.val.marked = false then some (s.set i (some { e with val := { e.val with marked := true } }))
      else markLoop s p fuel (next n i) (j+1) (next_lt hi)

/-- `GC_Mark_Item` on a leaf object: alignment and `[minptr, maxptr]` filter, then the probe -/
def markSlot {n : Nat} (c : Cfg) (lo hi : Nat) (s : Slots Nat Payload n) (p : Nat) : Option (Slots Nat Payload n) :=
  if p % 8 ≠ 0 ∨ p < lo ∨ p > hi then some s
  else if hn : 0 < n then markLoop s p n (hashOf c p % n) 0 (Nat.mod_lt _ hn)
  else none

def markAllSlots {n : Nat} (c : Cfg) (lo hi : Nat) : Slots Nat Payload n → List Nat → Option (Slots Nat Payload n)
  | s, [] => some s
  | s, p :: ps => match markSlot c lo hi s p with
    | none => none
    | some s' => markAllSlots c lo hi s' ps

/-- GC_Mark_Item for each address of the list -/
def markAll (c : Cfg) (r : Reg) (ps : List Nat) : Option Reg :=
  match markAllSlots c r.minptr r.maxptr r.slots ps with
  | none => none
  | some s => some { r with slots := s }

def markItem (c : Cfg) (r : Reg) (p : Nat) : Option Reg := markAll c r [p]

/-- the "Mark Roots" loop of GC_Mark -/
def markRoots (r : Reg) : Reg :=
  { r with slots := r.slots.map (fun o => o.map (fun e => if e.val.root then { e with val := { e.val with marked := true } } else e)) }

/-- second loop of GC_Sweep, and the loop of GC_Unmark -/
def clearMarks {n : Nat} (s : Slots Nat Payload n) : Slots Nat Payload n :=
  s.map (fun o => o.map (fun e => { e with val := { e.val with marked := false } }))

/-- `GC_Unmark`: mark bits left behind by a mark phase that was left by an exception -/
def unmark (r : Reg) : Reg := { r with slots := clearMarks r.slots }

/-- the state GC_Mark marks from: GC_Unmark first (since fix d8f0c4f: `c.markUnmarks`) -/
def markStart (c : Cfg) (r : Reg) : Reg := if c.markUnmarks then unmark r else r

/-- `GC_Mark` as far as the registry sees it: nothing when `nitems is 0`; otherwise GC_Unmark, the roots, and GC_Mark_Item
    on each address the thread-local storage, the roots' contents and the stack lead to (`marks`; the tracing is C01's) -/
def gcMark (c : Cfg) (r : Reg) (marks : List Nat) : Option Reg :=
  if r.nitems = 0 then some r else markAll c (markRoots (markStart c r)) marks

/-- first loop of GC_Sweep: `while (i < nslots)` in-place compaction; returns slots, freelist, nitems -/
def sweepLoop {n : Nat} : (fuel : Nat) → Slots Nat Payload n → (i : Nat) → Array (Option Nat) → Nat →
    Option (Slots Nat Payload n × Array (Option Nat) × Nat)
  | 0, _, _, _, _ => none
  | fuel+1, s, i, pend, ni =>
    if hi : i < n then
      match s[i] with
      | none => sweepLoop fuel s (i+1) pend ni
      | some e =>
        if e.val.marked then sweepLoop fuel s (i+1) pend ni
        else if !e.val.root && !e.val.marked then
          match eraseAt s i hi with
          | none => none
          | some s' => sweepLoop fuel s' i (pend.push (some e.key)) (ni - 1)
        else sweepLoop fuel s (i+1) pend ni
    else some (s, pend, ni)

/-- last loop of GC_Sweep: finalise what is still listed, slot by slot (a destructor may strike later slots off).  The C loop
    reads the word and skips it when it is NULL (`if (item)`): `none` here; an object at address 0 is never registered
    (`okOp`: allocation does not return NULL), so `some 0` does not occur. -/
def finaliseLoop (c : Cfg) (K : Nat → List Nat) : (todo : Nat) → (i : Nat) → Reg → List Nat → Option (Reg × List Nat)
  | 0, _, r, t => some (r, t)
  | todo+1, i, r, t =>
    match r.pending[i]? with
    | some (some p) =>
      let r1 := { r with pending := r.pending.setIfInBounds i none }
      match exec c K (nestFuel r1 + 1) r1 (.fin p) with
      | none => none
      | some (r2, t') => finaliseLoop c K todo (i+1) r2 (t ++ t')
    | _ => finaliseLoop c K todo (i+1) r t

/-- `GC_Sweep` -/
def gcSweep (c : Cfg) (K : Nat → List Nat) (r : Reg) : Option (Reg × List Nat) :=
  match sweepLoop (2 * r.n + 1) r.slots 0 #[] r.nitems with
  | none => none
  | some (s, pend, ni) =>
    match resizeLess c { r with slots := clearMarks s, nitems := ni, pending := pend } with
    | none => none
    | some r1 =>
      let r2 := { r1 with mitems := c.mitemsOf r1.nitems }
      match finaliseLoop c K r2.pending.size 0 r2 [] with
      | none => none
      | some (r3, t) => some ({ r3 with pending := #[] }, t)

/-- `GC_Set`; `marks` = the addresses the mark phase reaches if the threshold triggers a collection (roots are marked by
    GC_Mark itself) -/
def gcSet (c : Cfg) (K : Nat → List Nat) (r : Reg) (p : Nat) (root : Bool) (marks : List Nat) : Option (Reg × List Nat) :=
  if !r.running then some (r, [])
  else
    match resizeMore c { r with nitems := r.nitems + 1, maxptr := if p > r.maxptr then p else r.maxptr,
                                minptr := if p < r.minptr then p else r.minptr } with
    | none => none
    | some r1 =>
      match setPtr c r1.slots p root with
      | none => none
      | some s =>
        let r2 := { r1 with slots := s }
        if r2.nitems > r2.mitems then
          match gcMark c r2 marks with
          | none => none
          | some r3 => gcSweep c K r3
        else some (r2, [])

/-- `GC_Del` as far as the registry goes (before the arrays are freed): GC_Unmark (since fix d8f0c4f: `c.delUnmarks`), then
    GC_Sweep — everything but the roots is finalised, whatever mark bits an interrupted mark phase left -/
def gcDel (c : Cfg) (K : Nat → List Nat) (r : Reg) : Option (Reg × List Nat) :=
  gcSweep c K (if c.delUnmarks then unmark r else r)

def gcStart (r : Reg) : Reg := { r with running := true }
def gcStop (r : Reg) : Reg := { r with running := false }

/-! ### destructors that raise

`R p = true`: the destructor of `p`, after the deletions `K p`, leaves by an exception (a library example: `File_Del` →
`File_Close` throws IOError when `fclose` fails).  No function of GC.c has a handler, so the exception unwinds through every
frame of the collector that is active: `dealloc` of the object is not reached; an enclosing destructor does not continue (and
its object is not deallocated either); an enclosing `GC_Rem` skips `GC_Resize_Less` and the threshold update; the release loop
of `GC_Sweep` is left at once and `free(gc->freelist); gc->freelist = NULL; gc->freenum = 0` is skipped — the pending list
stays as it is (known finding KF-C17-dtor-raise).  The third component of a result says whether an exception is propagating.
With `R = fun _ => false` these are `exec` / `finaliseLoop` / `gcSweep` / `gcSet` (`execR_noRaise`, … in
Lemmas/RegistryRaise.lean); the driver runs these. -/

/-- `GC_Rem` / finalisation with raising destructors -/
def execR (c : Cfg) (K : Nat → List Nat) (R : Nat → Bool) : (fuel : Nat) → Reg → Cmd → Option (Reg × List Nat × Bool)
  | 0, _, _ => none
  | fuel+1, r, .fin p =>
    match (K p).foldl (fun (acc : Option (Reg × List Nat × Bool)) y =>
        match acc with
        | none => none
        | some (r', t, ex) =>
          if ex then some (r', t, true)          -- unwinding: the rest of the destructor does not run
          else
            match execR c K R fuel r' (.rem y) with
            | none => none
            | some (r'', t', ex') => some (r'', t ++ t', ex')) (some (r, [], false)) with
    | none => none
    | some (r', t, ex) =>
      if ex then some (r', t, true)              -- `dealloc` is not reached
      else if R p then some (r', t, true)        -- the destructor itself raises, after its deletions
      else some (r', t ++ [p], false)
  | fuel+1, r, .rem x =>
    if !r.running then some (r, [], false)
    else
      match remPtr c r x with
      | none => none
      | some (r1, fi) =>
        match (match fi with
               | none => some (r1, [], false)
               | some p => execR c K R fuel r1 (.fin p)) with
        | none => none
        | some (r2, t, ex) =>
          if ex then some (r2, t, true)          -- GC_Resize_Less and the threshold update are skipped
          else
            match resizeLess c r2 with
            | none => none
            | some r3 => some ({ r3 with mitems := c.mitemsOf r3.nitems }, t, false)

/-- `GC_Rem` with raising destructors -/
def gcRemR (c : Cfg) (K : Nat → List Nat) (R : Nat → Bool) (r : Reg) (x : Nat) : Option (Reg × List Nat × Bool) :=
  execR c K R (nestFuel r) r (.rem x)

/-- last loop of GC_Sweep with raising destructors: left at the first exception -/
def finaliseLoopR (c : Cfg) (K : Nat → List Nat) (R : Nat → Bool) : (todo : Nat) → (i : Nat) → Reg → List Nat → Option (Reg × List Nat × Bool)
  | 0, _, r, t => some (r, t, false)
  | todo+1, i, r, t =>
    match r.pending[i]? with
    | some (some p) =>
      let r1 := { r with pending := r.pending.setIfInBounds i none }
      match execR c K R (nestFuel r1 + 1) r1 (.fin p) with
      | none => none
      | some (r2, t', ex) =>
        if ex then some (r2, t ++ t', true)
        else finaliseLoopR c K R todo (i+1) r2 (t ++ t')
    | _ => finaliseLoopR c K R todo (i+1) r t

/-- `GC_Sweep` with raising destructors: when the release loop is left by an exception the pending list is neither freed nor
    reset — `freelist[0..freenum)` keeps the words of the objects not yet finalised -/
def gcSweepR (c : Cfg) (K : Nat → List Nat) (R : Nat → Bool) (r : Reg) : Option (Reg × List Nat × Bool) :=
  match sweepLoop (2 * r.n + 1) r.slots 0 #[] r.nitems with
  | none => none
  | some (s, pend, ni) =>
    match resizeLess c { r with slots := clearMarks s, nitems := ni, pending := pend } with
    | none => none
    | some r1 =>
      let r2 := { r1 with mitems := c.mitemsOf r1.nitems }
      match finaliseLoopR c K R r2.pending.size 0 r2 [] with
      | none => none
      | some (r3, t, ex) => if ex then some (r3, t, true) else some ({ r3 with pending := #[] }, t, false)

/-- `GC_Set` with raising destructors (an exception out of the collection it triggers leaves `alloc` / `new`: the new object
    is registered already) -/
def gcSetR (c : Cfg) (K : Nat → List Nat) (R : Nat → Bool) (r : Reg) (p : Nat) (root : Bool) (marks : List Nat) :
    Option (Reg × List Nat × Bool) :=
  if !r.running then some (r, [], false)
  else
    match resizeMore c { r with nitems := r.nitems + 1, maxptr := if p > r.maxptr then p else r.maxptr,
                                minptr := if p < r.minptr then p else r.minptr } with
    | none => none
    | some r1 =>
      match setPtr c r1.slots p root with
      | none => none
      | some s =>
        let r2 := { r1 with slots := s }
        if r2.nitems > r2.mitems then
          match gcMark c r2 marks with
          | none => none
          | some r3 => gcSweepR c K R r3
        else some (r2, [], false)

/-- no destructor raises -/
def noR : Nat → Bool := fun _ => false

/-! ### executable invariant (evaluated by the driver on every dumped state) -/

/-- one slot of the invariant: stored home, support by the predecessor, bounds, and the probe finds this very slot
    (which gives distinctness of the keys) -/
def slotOk (c : Cfg) (r : Reg) (i : Nat) (hi : i < r.n) : Bool :=
  match r.slots[i] with
  | none => true
  | some e =>
    e.home == hashOf c e.key % r.n
    && (dist r.n i e.home == 0 ||
        (match r.slots[prev r.n i]'(prev_lt hi) with
         | none => false
         | some e' => dist r.n i e.home ≤ dist r.n (prev r.n i) e'.home + 1))
    && r.minptr ≤ e.key && e.key ≤ r.maxptr
    && findLoop r.slots e.key r.n (hashOf c e.key % r.n) 0 (Nat.mod_lt _ (Nat.lt_of_le_of_lt (Nat.zero_le _) hi)) == some (some ⟨i, hi⟩)

def invB (c : Cfg) (r : Reg) : Bool :=
  (List.range r.n).all (fun i => if hi : i < r.n then slotOk c r i hi else true)
  && r.nitems == occ r.slots && (r.n == 0 || r.nitems < r.n)

/-- the parameters of the source as it is now (regenerated from src/GC.c on every run) -/
def gcCfg : Cfg :=
  { primes := CelloGen.Reg.gcPrimes, loadNum := CelloGen.Reg.gcLoadNum, loadDen := CelloGen.Reg.gcLoadDen,
    sizeBump := CelloGen.Reg.gcSizeBump, hashShift := CelloGen.Reg.gcHashShift, tieGe := CelloGen.Reg.gcTieGe,
    mitemsOf := CelloGen.Reg.gcMitems, remNullGuard := CelloGen.Reg.gcRemNullGuard,
    markUnmarks := CelloGen.Reg.gcMarkUnmarksFirst, delUnmarks := CelloGen.Reg.gcDelUnmarksFirst }

/-- OLD variant: GC_Rem_Ptr as it was before fix d3e4e44 (no NULL test before the strike-off scan) -/
def gcCfgOldRem : Cfg := { gcCfg with remNullGuard := false }

/-- OLD variant: GC_Mark and GC_Del as they were before fix d8f0c4f (no GC_Unmark) -/
def gcCfgOldMark : Cfg := { gcCfg with markUnmarks := false, delUnmarks := false }

end Cello.Registry
