/-
  Cello/IterExprSrc.lean — `denoteSrc`: the object an expression of the op files denotes, built from the terms EXTRACTED from the
  sources wherever translate/g_iter.py extracts one (engine `iter`, property C11):
      (table …)   → `tableSrcI`      (Table_Iter_Last / Table_Iter_Prev as loop programs)
      (slice …)   → `sliceStackSrc`  (Slice_Arg statement by statement, with C's conversions)
      (filter …)  → `filterSrcI`     (which protocol calls the four Filter functions make)
  everything else as `denote`.  The driver walks BOTH objects for every `W` / `V` op and reports a difference as an extra
  observation (the harness never prints one, so a difference is a failing input): on the unchanged tree
  C11_table_source_lawful / C11_slice_stack_source / C11_filter_source say there is none.
  Core Lean only.
-/
import Cello.IterExpr
import Cello.IterSrc

namespace Cello.Iter

mutual
def denoteSrc : Expr → Except String (Iterable Val)
  | .table slots => .ok (tableSrcI (slots.map (fun o => o.map Val.int)))
  | .slice e args => match denoteSrc e with
    | .ok I => match I.len with
      | some n => match sliceStackSrc n args with
        | some (a, b, c) => .ok (sliceI I n a b c)
        | none => .error "slice-args"
      | none => .error "no-len"
    | .error m => .error m
  | .zip es => match denoteSrcList es with
    | .ok Is => .ok (embI (zipI Is) Val.tup)
    | .error m => .error m
  | .enum e => match denoteSrc e with
    | .ok I => match I.len with
      | some n => .ok (embI (enumI I n Val.int) Val.tup)
      | none => .error "no-len"
    | .error m => .error m
  | .filter e m r => match denoteSrc e with
    | .ok I => .ok (filterSrcI I (testPred m r) filterFuel)
    | .error m => .error m
  | .map e a b => match denoteSrc e with
    | .ok I => .ok (mapI I (testFun a b))
    | .error m => .error m
  | e => denote e
def denoteSrcList : List Expr → Except String (List (Iterable Val))
  | [] => .ok []
  | e :: es => match denoteSrc e, denoteSrcList es with
    | .ok I, .ok Is => .ok (I :: Is)
    | .error m, _ => .error m
    | _, .error m => .error m
end

/-- does the expression contain a node whose model is built from an extracted term -/
partial def Expr.usesExtracted : Expr → Bool
  | .table _ => true
  | .slice _ _ => true
  | .filter _ _ _ => true
  | .zip es => es.any Expr.usesExtracted
  | .enum e => e.usesExtracted
  | .map e _ _ => e.usesExtracted
  | _ => false

end Cello.Iter
