/-
  Cello/HeapOps.lean — the op-file interpreter of engine `gcmark` on the model: the same histories that
  harness/h_gcmark.c executes on the real collector (allocation, pointer stores, container insert/remove, roots of
  the three kinds, explicit del, collections) executed on `Cello.Heap` (`gcMark`, `sweep`).
  Objects are named by small integers; the model gives object `i` the synthetic address `addrOf i` (the marker only
  depends on alignment, the pointer bounds, and which words are registered addresses).
-/
import Cello.Heap
import Cello.HeapRec
import Std.Data.HashMap
import Std.Data.HashSet

namespace Cello.Heap

/-- hash-set implementation of the mark bits (used by the driver; the theorems hold for every `MarkSet`) -/
def hashSet : MarkSet (Std.HashSet Addr) where
  empty := {}
  mem a s := s.contains a
  insert a s := s.insert a
  mem_empty := by intro a; exact Std.HashSet.contains_empty
  mem_insert := by
    intro a b s
    rw [Std.HashSet.contains_insert]
    cases h : (b == a) <;> cases h' : (a == b) <;> simp_all

/-- a registered heap backed by a hash map -/
def Heap.ofHashMap (hm : Std.HashMap Addr Entry) (minptr maxptr : Nat) : Heap where
  lookup a := hm[a]?
  regs := hm.keys
  minptr := minptr
  maxptr := maxptr
  complete := by
    intro a e he
    rw [Std.HashMap.mem_keys, Std.HashMap.mem_iff_isSome_getElem?, he]
    rfl

inductive Tok where
  | nil | obj (id : Nat) | mis (id : Nat) | int (id : Nat) | lo | hi | small (k : Nat)
deriving Repr, Inhabited, DecidableEq

def Tok.isObj : Tok → Bool | .obj _ => true | _ => false
def Tok.isObjOrNil : Tok → Bool | .obj _ => true | .nil => true | _ => false

inductive Kind where
  | P | M | R | B | A | L | T | U | E | F | H
deriving Repr, Inhabited, DecidableEq

def Kind.isWords : Kind → Bool | .P | .M | .R | .B => true | _ => false
def Kind.isSeq : Kind → Bool | .A | .L | .H => true | _ => false
def Kind.isIntMap : Kind → Bool | .T | .E => true | _ => false
def Kind.isRefMap : Kind → Bool | .U | .F => true | _ => false

structure MObj where
  kind : Kind
  k : Nat                 -- word slots (P/M/R/B)
  root : Bool
  owner : Option Nat      -- the Box that owns this object
  el : Array Tok          -- slots, elements or map values
  key : Array Int         -- map keys (T/E integers, U/F object ids)
deriving Repr, Inhabited

def nRoots : Nat := 64
def nTls : Nat := 64
def maxObj : Nat := 131072

structure MState where
  objs : Std.HashMap Nat MObj := {}
  used : Std.HashSet Nat := {}
  roots : Array Tok := Array.replicate nRoots Tok.nil
  tls : Array (Option Tok) := Array.replicate nTls none
  full : Bool := false
  started : Bool := false
  ghost : Std.HashSet Nat := {}   -- full mode: targets of Tuples / ProbeMs that became garbage (may not be deleted by hand: KF-C01-dangling-tuple-item)
  minId : Option Nat := none      -- lowest / highest object ever registered: gc->minptr / gc->maxptr
  maxId : Option Nat := none
  -- statistics (driver's `S` line)
  nMarked : Nat := 0
  nFreed : Nat := 0
  nCollect : Nat := 0

def addrBase : Nat := 2 ^ 40
def addrOf (id : Nat) : Addr := addrBase + 64 * (id + 1)
def idOfAddr (a : Addr) : Option Nat :=
  if a > addrBase ∧ (a - addrBase) % 64 = 0 then some ((a - addrBase) / 64 - 1) else none

def canaryOf (id : Nat) : Nat := 0xA5A5000000000001 ||| (id <<< 4)

def tokWord : Tok → Word
  | .nil => 0
  | .obj id => addrOf id
  | .mis id => addrOf id + 4
  | .int id => addrOf id + 8
  | .lo => 8
  | .hi => 2 ^ 64 - 8
  | .small k => k

def refObj (t : Tok) : Obj := .raw "Ref" [tokWord t]

/-- the representation the collector sees for object `id` -/
def toObj (id : Nat) (o : MObj) : Obj :=
  match o.kind with
  | .P => .raw "Probe" ([id, canaryOf id] ++ o.el.toList.map tokWord)
  | .M => .tup "ProbeM" ((o.el.toList.filter (· ≠ Tok.nil)).map tokWord)
  | .R => .raw "Ref" (o.el.toList.map tokWord)
  | .B => .raw "Box" (o.el.toList.map tokWord)
  | .A => .cont "Array" (o.el.toList.map refObj)
  | .L => .cont "List" (o.el.toList.map refObj)
  | .T => .cont "Table" ((o.key.toList.zip o.el.toList).flatMap fun (k, v) => [.raw "Int" [k.toNat], refObj v])
  | .U => .cont "Table" ((o.key.toList.zip o.el.toList).flatMap fun (k, v) => [.raw "Ref" [addrOf k.toNat], refObj v])
  | .E => .cont "Tree" ((o.key.toList.zip o.el.toList).flatMap fun (k, v) => [.raw "Int" [k.toNat], refObj v])
  | .F => .cont "Tree" ((o.key.toList.zip o.el.toList).flatMap fun (k, v) => [.raw "Ref" [addrOf k.toNat], refObj v])
  | .H => .tup "Tuple" (o.el.toList.map tokWord)

/-- `current(Thread)`: its `tls` Table (String → Ref) holds "__GC" → the collector itself (not registered) and the entries set by the history -/
def threadObj (st : MState) : Obj :=
  .thr "Thread" (.cont "Table"
    ([.raw "String" [0], .raw "Ref" [16]] ++
      st.tls.toList.flatMap fun e => match e with | some t => [.raw "String" [0], refObj t] | none => []))

def MState.heap (st : MState) : Heap :=
  let hm : Std.HashMap Addr Entry := st.objs.fold (fun acc id o => acc.insert (addrOf id) ⟨toObj id o, o.root⟩) {}
  Heap.ofHashMap hm
    (match st.minId with | some i => addrOf i | none => 2 ^ 64 - 1)
    (match st.maxId with | some i => addrOf i | none => 0)

def MState.usable (st : MState) (id : Nat) : Bool := st.objs.contains id
def MState.owned (st : MState) (id : Nat) : Bool :=
  match st.objs[id]? with
  | some o => match o.owner with | some b => st.usable b | none => false
  | none => false

def MState.tokOk (st : MState) : Tok → Bool
  | .obj id | .mis id | .int id => st.usable id && !st.owned id
  | _ => true

/-- does a usable object other than `id`, a stack slot other than `exceptSlot`, or a TLS entry hold a pointer to `id`? -/
def MState.hasIncoming (st : MState) (id : Nat) (exceptSlot : Option Nat) : Bool :=
  st.objs.fold (fun acc i o =>
    acc || (i != id && (o.el.any (· == Tok.obj id) || (o.kind.isRefMap && o.key.any (· == (id : Int)))))) false
  || (st.roots.toList.zipIdx.any fun (t, j) => some j != exceptSlot && t == Tok.obj id)
  || st.tls.any (· == some (Tok.obj id))

/-- ids as the harness prints them: `count:hash[:[list]]` -/
def setText (ids : List Nat) : String :=
  let ids := (ids.toArray.qsort (· < ·)).toList
  let h := ids.foldl (fun h i => (h * 31 + (i + 1)) % 4294967296) 0
  let base := s!"{ids.length}:{h}"
  if ids.length ≤ 48 then base ++ ":[" ++ ",".intercalate (ids.map toString) ++ "]" else base

/-- the mark phase on the current state with the given extra root words; returns the marked usable ids -/
def MState.markedIds (st : MState) (useSlots : Bool) (words : List Word) : List Nat × Std.HashSet Addr :=
  let h := st.heap
  let stack := (if useSlots then st.roots.toList.map tokWord else []) ++ words
  let m := gcMark hashSet Cfg.current h (threadObj st) stack
  (st.objs.keys.filter (fun i => m.contains (addrOf i)), m)

/-- full mode: whatever is not reachable from the current roots must never be used again -/
def MState.checkpoint (st : MState) : MState × List Nat :=
  let (live, _) := st.markedIds true []
  let liveSet : Std.HashSet Nat := Std.HashSet.ofList live
  let ghost := st.objs.fold (fun g i o =>
    if !liveSet.contains i && (o.kind = .H || o.kind = .M) then
      o.el.foldl (fun g t => match t with | .obj j => if j < maxObj then g.insert j else g | _ => g) g
    else g) st.ghost
  ({ st with objs := st.objs.filter (fun i _ => liveSet.contains i), ghost }, live)

def parseNatDigits (s : String) : Option Nat :=
  if s.isEmpty then none else if s.all Char.isDigit then s.toNat? else none

/-- `parse_long` of the harness: optional '-', digits, at most 12 characters -/
def parseLong (s : String) : Option Int :=
  if s.length > 12 then none
  else if s.startsWith "-" then (parseNatDigits (s.drop 1).toString).map (fun n => - (n : Int))
  else (parseNatDigits s).map (fun n => (n : Int))

def parseTok (s : String) : Option Tok :=
  if s = "n" then some .nil else if s = "lo" then some .lo else if s = "hi" then some .hi
  else
    let rest := (s.drop 1).toString
    match s.front, parseNatDigits rest with
    | 'o', some n => some (.obj n)
    | 'm', some n => some (.mis n)
    | 'i', some n => some (.int n)
    | 's', some n => if n < 2 ^ 30 then some (.small n) else none
    | _, _ => none

def parseKind (s : String) : Option (Kind × Bool) :=
  let (ks, rf) := if s.length = 2 ∧ s.back = '!' then ((s.take 1).toString, true) else (s, false)
  let k : Option Kind := match ks with
    | "P" => some .P | "M" => some .M | "R" => some .R | "B" => some .B | "A" => some .A | "L" => some .L
    | "T" => some .T | "U" => some .U | "E" => some .E | "F" => some .F | "H" => some .H | _ => none
  k.map (·, rf)

/-- `-` (nowhere) or `s<j>` -/
def parseWhere (s : String) : Option (Option Nat) :=
  if s = "-" then some none
  else if s.startsWith "s" then
    match parseLong (s.drop 1).toString with
    | some v => if 0 ≤ v ∧ v < (nRoots : Int) then some (some v.toNat) else none
    | none => none
  else none

def chainKind (s : String) : Option Kind :=
  match s with
  | "R" => some .R | "P" => some .P | "A" => some .A | "H" => some .H | "U" => some .U | "L" => some .L | "E" => some .E | _ => none

def natOf (v : Int) : Option Nat := if 0 ≤ v then some v.toNat else none

/-- register a new object (`alloc` → `GC_Set`), store it in a stack slot, full mode: checkpoint -/
def MState.doNew (st : MState) (id : Nat) (kind : Kind) (k : Nat) (rf : Bool) (boxTgt : Option Nat) (slot : Option Nat) :
    MState × List Nat :=
  let el : Array Tok := if kind.isWords then Array.replicate k Tok.nil else #[]
  let el := match kind, boxTgt with | .B, some t => el.setIfInBounds 0 (Tok.obj t) | _, _ => el
  let o : MObj := { kind, k := if kind.isWords then k else 0, root := rf, owner := none, el, key := #[] }
  let objs := st.objs.insert id o
  let objs := match kind, boxTgt with
    | .B, some t => objs.modify t (fun ot => { ot with owner := some id })
    | _, _ => objs
  let st := { st with
    objs, used := st.used.insert id
    roots := match slot with | some j => st.roots.setIfInBounds j (Tok.obj id) | none => st.roots
    minId := some (match st.minId with | some m => min m id | none => id)
    maxId := some (match st.maxId with | some m => max m id | none => id) }
  if st.full then st.checkpoint else (st, [])

def MObj.mapFind (o : MObj) (key : Int) : Option Nat := o.key.findIdx? (· == key)

def MState.mapSet (st : MState) (id : Nat) (key : Int) (t : Tok) : MState :=
  { st with objs := st.objs.modify id fun o =>
      match o.mapFind key with
      | some i => { o with el := o.el.setIfInBounds i t }
      | none => { o with el := o.el.push t, key := o.key.push key } }

def MState.seqPush (st : MState) (id : Nat) (t : Tok) : MState :=
  { st with objs := st.objs.modify id fun o => { o with el := o.el.push t } }

def MState.link (st : MState) (a b : Nat) : MState :=
  match st.objs[a]? with
  | none => st
  | some o =>
    if o.kind.isWords then { st with objs := st.objs.modify a fun o => { o with el := o.el.setIfInBounds 0 (Tok.obj b) } }
    else if o.kind.isSeq then st.seqPush a (Tok.obj b)
    else if o.kind.isIntMap then st.mapSet a 7 (Tok.obj b)
    else st.mapSet a (b : Int) (Tok.obj b)

/-- explicit del: the object leaves the registry; a Box takes the object it owns with it -/
def MState.del (st : MState) (id : Nat) : Nat → MState × Nat
  | 0 => (st, 0)
  | fuel + 1 =>
    match st.objs[id]? with
    | none => (st, 0)
    | some o =>
      let st1 := { st with objs := st.objs.erase id }
      match o.kind, o.el[0]? with
      | .B, some (Tok.obj t) => if st1.usable t then let (s2, n) := st1.del t fuel; (s2, n + 1) else (st1, 1)
      | _, _ => (st1, 1)

def bad (st : MState) : MState × List String := (st, ["O bad-op"])

/-- one op line (already split into words) -/
def MState.step (st : MState) (w : List String) : MState × List String :=
  if w.length > 40 then bad st else
  match w with
  | ["mode", m] =>
    if st.started then bad st
    else if m = "full" then ({ st with full := true, started := true }, ["O mode full"])
    else if m = "exact" then ({ st with full := false, started := true }, ["O mode exact"])
    else bad st
  | "new" :: args =>
    let st := { st with started := true }
    match args with
    | [ids, ks, arg, wh] =>
      match (parseLong ids).bind natOf, parseKind ks, parseWhere wh with
      | some id, some (kind, rf), some slot =>
        if id ≥ maxObj || st.used.contains id then bad st else
        let go (k : Nat) (bt : Option Nat) : MState × List String :=
          let (st', live) := st.doNew id kind k rf bt slot
          (st', [if st.full then s!"O new {id} live={setText live}" else s!"O new {id}"])
        match kind with
        | .P =>
          match (parseLong arg).bind natOf with
          | some k => if k = 1 ∨ k = 2 ∨ k = 4 ∨ k = 8 then go k none else bad st
          | none => bad st
        | .B =>
          match (parseLong arg).bind natOf with
          | some t =>
            match st.objs[t]? with
            | some ot =>
              if st.owned t || st.ghost.contains t || ot.kind = .B || ot.root || st.hasIncoming t slot then bad st else go 1 (some t)
            | none => bad st
          | none => bad st
        | _ => if arg ≠ "-" then bad st else go (if kind = .M then 4 else if kind = .R then 1 else 0) none
      | _, _, _ => bad st
    | _ => bad st
  | "pair" :: args =>
    let st := { st with started := true }
    match args with
    | [ias, ibs, wh] =>
      match (parseLong ias).bind natOf, (parseLong ibs).bind natOf, parseWhere wh with
      | some ia, some ib, some slot =>
        if ia ≥ maxObj || ib ≥ maxObj || ia = ib || st.used.contains ia || st.used.contains ib then bad st
        else if st.full && slot.isNone then bad st
        else
          let full := st.full
          let (s1, _) := ({ st with full := false }).doNew ia .R 1 false none none
          let (s2, _) := s1.doNew ib .R 1 false none slot
          let s3 := { (s2.link ib ia) with full := full }
          let (s4, live) := if full then s3.checkpoint else (s3, [])
          (s4, [if full then s!"O pair {ia} {ib} live={setText live}" else s!"O pair {ia} {ib}"])
      | _, _, _ => bad st
    | _ => bad st
  | ["store", ids, slots, toks] =>
    match (parseLong ids).bind natOf, parseLong slots, parseTok toks with
    | some id, some slot, some t =>
      match st.objs[id]? with
      | some o =>
        if !st.tokOk t then bad st
        else if !(o.kind = .P ∨ o.kind = .M ∨ o.kind = .R) ∨ slot < 0 ∨ slot ≥ (o.k : Int) then bad st
        else if o.kind = .M ∧ !t.isObjOrNil then bad st
        else ({ st with objs := st.objs.modify id fun o => { o with el := o.el.setIfInBounds slot.toNat t } }, ["O ok"])
      | none => bad st
    | _, _, _ => bad st
  | ["push", ids, toks] =>
    match (parseLong ids).bind natOf, parseTok toks with
    | some id, some t =>
      match st.objs[id]? with
      | some o =>
        if !o.kind.isSeq || !st.tokOk t then bad st
        else if !(t.isObj || (t = Tok.nil && o.kind ≠ .H)) then bad st
        else (st.seqPush id t, ["O ok"])
      | none => bad st
    | _, _ => bad st
  | ["pop", ids, idxs] =>
    match (parseLong ids).bind natOf, parseLong idxs with
    | some id, some idx =>
      match st.objs[id]? with
      | some o =>
        if !o.kind.isSeq || idx < 0 || idx ≥ (o.el.size : Int) then bad st
        else ({ st with objs := st.objs.modify id fun o => { o with el := o.el.eraseIdxIfInBounds idx.toNat } }, ["O ok"])
      | none => bad st
    | _, _ => bad st
  | ["aset", ids, idxs, toks] =>
    match (parseLong ids).bind natOf, parseLong idxs, parseTok toks with
    | some id, some idx, some t =>
      match st.objs[id]? with
      | some o =>
        if !o.kind.isSeq || idx < 0 || idx ≥ (o.el.size : Int) || !st.tokOk t then bad st
        else if !(t.isObj || (t = Tok.nil && o.kind ≠ .H)) then bad st
        else ({ st with objs := st.objs.modify id fun o => { o with el := o.el.setIfInBounds idx.toNat t } }, ["O ok"])
      | none => bad st
    | _, _, _ => bad st
  | ["tset", ids, keys, toks] =>
    match (parseLong ids).bind natOf, parseLong keys, parseTok toks with
    | some id, some key, some t =>
      match st.objs[id]? with
      | some o =>
        if !st.tokOk t || !t.isObjOrNil then bad st
        else if o.kind.isRefMap then
          (if key < 0 || !st.usable key.toNat || st.owned key.toNat then bad st else (st.mapSet id key t, ["O ok"]))
        else if o.kind.isIntMap then (st.mapSet id key t, ["O ok"])
        else bad st
      | none => bad st
    | _, _, _ => bad st
  | ["trem", ids, keys] =>
    match (parseLong ids).bind natOf, parseLong keys with
    | some id, some key =>
      match st.objs[id]? with
      | some o =>
        if !(o.kind.isIntMap || o.kind.isRefMap) then bad st else
        match o.mapFind key with
        | none => bad st
        | some i =>
          if o.kind.isRefMap && (key < 0 || !st.usable key.toNat) then bad st
          else
            let last := o.el.size - 1
            let o' := { o with el := (o.el.setIfInBounds i (o.el[last]!)).pop, key := (o.key.setIfInBounds i (o.key[last]!)).pop }
            ({ st with objs := st.objs.insert id o' }, ["O ok"])
      | none => bad st
    | _, _ => bad st
  | ["tls", ks, toks] =>
    match (parseLong ks).bind natOf, parseTok toks with
    | some k, some t =>
      if k ≥ nTls || !st.tokOk t || !t.isObjOrNil then bad st
      else ({ st with tls := st.tls.setIfInBounds k (some t) }, ["O ok"])
    | _, _ => bad st
  | ["tlsrem", ks] =>
    match (parseLong ks).bind natOf with
    | some k =>
      if k ≥ nTls || (st.tls[k]?).join.isNone then bad st
      else ({ st with tls := st.tls.setIfInBounds k none }, ["O ok"])
    | none => bad st
  | ["root", js, toks] =>
    match (parseLong js).bind natOf, parseTok toks with
    | some j, some t =>
      if j ≥ nRoots || !st.tokOk t || !t.isObjOrNil then bad st
      else ({ st with roots := st.roots.setIfInBounds j t }, ["O ok"])
    | _, _ => bad st
  | ["del", ids] =>
    match (parseLong ids).bind natOf with
    | some id =>
      if !st.usable id || st.hasIncoming id none || st.ghost.contains id then bad st
      else
        let (st', n) := st.del id (st.objs.size + 1)
        (st', [s!"O del {n}"])
    | none => bad st
  | "chain" :: args =>
    let st := { st with started := true }
    match args with
    | [ids, ns, ks, wh] =>
      match (parseLong ids).bind natOf, (parseLong ns).bind natOf, chainKind ks, parseWhere wh with
      | some id, some n, some kind, some slot =>
        if n < 1 || id + n > maxObj then bad st
        else if st.full && slot.isNone then bad st
        else if (match slot with | some j => decide (j + 1 ≥ nRoots) | none => false) then bad st
        else if (List.range n).any (fun i => st.used.contains (id + i)) then bad st
        else
          let (st', live) := (List.range n).reverse.foldl (fun (acc : MState × List Nat) i =>
              let (s, _) := acc
              let (s1, live) := s.doNew (id + i) kind 1 false none (slot.map (· + i % 2))
              let s2 := if i + 1 < n then s1.link (id + i) (id + i + 1) else s1
              (s2, live)) (st, [])
          (st', [if st.full then s!"O chain {id} {n} live={setText live}" else s!"O chain {id} {n}"])
      | _, _, _, _ => bad st
    | _ => bad st
  | "xcollect" :: toks =>
    if st.full then bad st else
    let st := { st with started := true }
    let ts := toks.map parseTok
    if ts.any (fun t => match t with | some t => !st.tokOk t | none => true) then bad st else
    let words := ts.filterMap (·.map tokWord)
    let h := st.heap
    let m := gcMark hashSet Cfg.current h (threadObj st) words
    let marked := st.objs.keys.filter (fun i => m.contains (addrOf i))
    let (_, pending) := sweep hashSet h m
    let freed := pending.filterMap idOfAddr
    let st' := { st with objs := freed.foldl (fun o i => o.erase i) st.objs
                         nMarked := st.nMarked + marked.length, nFreed := st.nFreed + freed.length, nCollect := st.nCollect + 1 }
    -- cross-check inside the model: the marker with the call structure of GC.c (depth budget 4n+64) sets the same bits
    let recTxt :=
      if st.objs.size ≤ 4000 then
        match gcMarkRec hashSet Cfg.current h (4 * st.objs.size + 64) (threadObj st) words with
        | .ok m2 => if st.objs.keys.all (fun i => m.contains (addrOf i) == m2.contains (addrOf i)) then "agree" else "differ"
        | .deep => "deep"
        | .ub => "ub"
      else "skipped"
    (st', [s!"O x marked={setText marked} freed={setText freed}", s!"R rec={recTxt}"])
  | ["collect"] =>
    if !st.full then bad st else
    let (st', live) := st.checkpoint
    ({ st' with nCollect := st.nCollect + 1, nFreed := st.nFreed + (st.objs.size - st'.objs.size) }, [s!"O c live={setText live}"])
  | ["churn", ns] =>
    match (parseLong ns).bind natOf with
    | some n =>
      if !st.full || n > 100000 then bad st
      else
        let (st', live) := st.checkpoint
        (st', [s!"O churn live={setText live}"])
    | none => bad st
  | ["deepchild", ns, ks] =>
    match (parseLong ns).bind natOf, chainKind ks with
    | some n, some kind =>
      if n < 1 || n > 50000000 || !(kind = .R ∨ kind = .P ∨ kind = .A ∨ kind = .H) then bad st
      else (st, [s!"O deepchild {n}"])
    | _, _ => bad st
  | ["danglechild", k] => if k = "H" || k = "M" then (st, [s!"O danglechild {k}"]) else bad st
  | _ => bad st

end Cello.Heap
