/-
  Cello/HeapOps.lean — the op-file interpreter of engine `gcmark` on the model: the same histories that
  harness/h_gcmark.c executes on the real collector (allocation, pointer stores, container insert/remove, roots of
  the three kinds, explicit del, collections) executed on `Cello.Heap` (`gcMark`, `sweep`).
  Objects are named by small integers; the model gives object `i` the synthetic address `addrOf i` (the marker only
  depends on alignment, the pointer bounds, and which words are registered addresses).
  An exact-mode collection is `gcMarkFrom` (from no bits: `GC_Mark` clears them first, `clearFirstNow`; in a tree without
  `GC_Unmark` from the bits an `xraise` left) + `sweep` + `release`; `xraise` is `GOp.raise` (a prefix of `markEvents`); `xbox` builds a Box
  outside its ownership contract; `newraw` an unregistered container; kind `W` is a Thread object other than `current(Thread)` (`.thr`: its
  table is traced like that of every Thread object, `Cfg.foreignTls`); the 8-slot probe is `ProbeD` (its destructor calls `del(NULL)`: `owns = [0]`).
  Element type X is `ProbeE` (an embedded element holding one plain pointer); `xin k words | op` runs `op` on the statement machine of
  Cello/HeapMid.lean (the statement lists of the current source), takes the k-th view that is a ProbeE destructor / Assign call, and collects on the
  heap in which the container is that intermediate state (words ++ the container ++ the operand as root words); `cin` is the full-mode form.
  Element type D is `ProbeDeep` (an embedded record of three fields whose Assign instance ALLOCATES a fresh object per field): the ops
  `dpush dins daset dtset dconcat dassign` (section at the end), behind `xin k` / `cin k` with `k` = an allocation point of the operation, run on
  `Mid.DMach`; the collection sees the container with the element under assignment partly assigned (`MState.over`).
-/
import Cello.Heap
import Cello.HeapRec
import Cello.HeapMid
import Cello.HeapWalk
import Std.Data.HashMap
import Std.Data.HashSet

namespace Cello.Heap

/-- hash-set implementation of the mark bits (used by the driver; the theorems hold for every `MarkSet`) -/
def hashSet : MarkSet (Std.HashSet Addr) where
  empty := {}
  mem a s := s.contains a
  insert a s := s.insert a
  mem_empty := by intro a; exact Std.HashSet.contains_empty
  mem_insert := by
    intro a b s
    rw [Std.HashSet.contains_insert]
    cases h : (b == a) <;> cases h' : (a == b) <;> simp_all

/-- a registered heap backed by a hash map -/
def Heap.ofHashMap (hm : Std.HashMap Addr Entry) (minptr maxptr : Nat) : Heap where
  lookup a := hm[a]?
  regs := hm.keys
  minptr := minptr
  maxptr := maxptr
  complete := by
    intro a e he
    rw [Std.HashMap.mem_keys, Std.HashMap.mem_iff_isSome_getElem?, he]
    rfl

inductive Tok where
  | nil | obj (id : Nat) | mis (id : Nat) | int (id : Nat) | lo | hi | small (k : Nat)
deriving Repr, Inhabited, DecidableEq

def Tok.isObj : Tok → Bool | .obj _ => true | _ => false
def Tok.isObjOrNil : Tok → Bool | .obj _ => true | .nil => true | _ => false

/-- object kinds: P plain struct, M probe with its own Mark instance, R Ref, B Box, A Array, L List, T Table, E Tree,
    H heap Tuple, W a Thread object (not `current(Thread)`: `new(Thread)`, never started).  (The op-file letters U / F are T / E constructed with Ref keys.) -/
inductive Kind where
  | P | M | R | B | A | L | T | E | H | W
  | Y      -- a Type made at run time: `new(Type, name, size, instances…)`, an ordinary registered object (a leaf for the marker)
  | Q      -- an instance of a run-time Type (one word slot): refers to its Type through its header only (`MObj.ty`)
deriving Repr, Inhabited, DecidableEq

def Kind.isWords : Kind → Bool | .P | .M | .R | .B | .Q => true | _ => false
def Kind.isSeq : Kind → Bool | .A | .L | .H => true | _ => false
def Kind.isArr : Kind → Bool | .A | .L => true | _ => false
def Kind.isMap : Kind → Bool | .T | .E => true | _ => false

/-- the element / key / value types the histories use: Ref (reference-bearing), Int, String, Float (leaf types), and X = `ProbeE`, the
    harness's embedded element type whose destructor / Assign instance can run a collection (one plain pointer, conservatively scanned;
    element / value type only) -/
inductive Ety where
  | R | I | S | F | X
  | D      -- `ProbeDeep`: an embedded record of three pointer fields whose Assign instance allocates a fresh object per field (a deep copy)
deriving Repr, Inhabited, DecidableEq

def Ety.name : Ety → String
  | .R => "Ref" | .I => "Int" | .S => "String" | .F => "Float" | .X => "ProbeE" | .D => "ProbeDeep"

def parseEty (c : Char) : Option Ety :=
  if c = 'R' then some .R else if c = 'I' then some .I else if c = 'S' then some .S else if c = 'F' then some .F
  else if c = 'X' then some .X else if c = 'D' then some .D else none

structure MObj where
  kind : Kind
  k : Nat                 -- word slots (P/M/R/B)
  root : Bool
  owner : Option Nat      -- the Box that owns this object
  el : Array Tok          -- slots, elements or map values
  key : Array Int         -- map keys (integers for Int / String keys, object ids for Ref keys)
  kt : Ety := .R          -- CURRENT key type (T/E); redefined by `assign`
  vt : Ety := .R          -- CURRENT element (A/L) or value (T/E) type; redefined by `assign`
  raw : Bool := false     -- allocated with `new_raw`: never registered with the collector
  ty : Option Nat := none -- Q: the run-time Type object the header's type pointer leads to (`Cello.Heap.TyMap`)
deriving Repr, Inhabited

def MObj.refKeys (o : MObj) : Bool := o.kind.isMap && o.kt == .R

def nRoots : Nat := 64
def nTls : Nat := 64
def maxObj : Nat := 131072

structure MState where
  objs : Std.HashMap Nat MObj := {}
  used : Std.HashSet Nat := {}
  roots : Array Tok := Array.replicate nRoots Tok.nil
  tls : Array (Option Tok) := Array.replicate nTls none
  full : Bool := false
  started : Bool := false
  ghost : Std.HashSet Nat := {}   -- full mode: targets of Tuples / ProbeMs that became garbage (may not be deleted by hand: KF-C01-dangling-tuple-item)
  minId : Option Nat := none      -- lowest / highest object ever registered: gc->minptr / gc->maxptr
  maxId : Option Nat := none
  stale : List Nat := []          -- objects whose registry entry has its mark bit set BETWEEN collections (left by `xraise`)
  /-- inside a container operation on a container of `ProbeDeep` elements: the representation the container's Mark instance presents NOW (an element
      may be partly assigned, which `MObj` cannot express) -/
  over : Option (Nat × Obj) := none
  -- statistics (driver's `S` line)
  nMarked : Nat := 0
  nFreed : Nat := 0
  nCollect : Nat := 0

def addrBase : Nat := 2 ^ 40
def addrOf (id : Nat) : Addr := addrBase + 64 * (id + 1)
def idOfAddr (a : Addr) : Option Nat :=
  if a > addrBase ∧ (a - addrBase) % 64 = 0 then some ((a - addrBase) / 64 - 1) else none

def canaryOf (id : Nat) : Nat := 0xA5A5000000000001 ||| (id <<< 4)

def tokWord : Tok → Word
  | .nil => 0
  | .obj id => addrOf id
  | .mis id => addrOf id + 4
  | .int id => addrOf id + 8
  | .lo => 8
  | .hi => 2 ^ 64 - 8
  | .small k => k

def refObj (t : Tok) : Obj := .raw "Ref" [tokWord t]

/-- the words of an embedded element of type `e` built from token `t`: a Ref holds the word, an Int holds the word as an
    integer (an integer that equals an address is NOT a reference: Int is a leaf type), String / Float hold no word of interest -/
def valWords (e : Ety) (t : Tok) : List Word :=
  match e with
  | .R | .I | .X => [tokWord t]
  | .D => (match t with | .obj b => [addrOf b, addrOf (b + 1), addrOf (b + 2)] | _ => [0, 0, 0])     -- the three fields: objects b, b+1, b+2
  | _ => [0]

def keyWords (e : Ety) (k : Int) : List Word :=
  match e with
  | .R => [addrOf k.toNat]
  | .I => [k.toNat]
  | _ => [0]

def MObj.kvs (o : MObj) : List (List Word × List Word) :=
  (o.key.toList.zip o.el.toList).map fun (k, v) => (keyWords o.kt k, valWords o.vt v)

/-- the representation the collector sees for object `id`: the embedded elements of a container carry the container's
    CURRENT element / key / value types -/
def toObj (id : Nat) (o : MObj) : Obj :=
  match o.kind with
  | .P => .raw (if o.k = 8 then "ProbeD" else "Probe") ([id, canaryOf id] ++ o.el.toList.map tokWord)
  | .M => .tup "ProbeM" ((o.el.toList.filter (· ≠ Tok.nil)).map tokWord)
  | .R => .raw "Ref" (o.el.toList.map tokWord)
  | .B => .raw "Box" (o.el.toList.map tokWord)
  | .A => .cont "Array" (seqElems o.vt.name (o.el.toList.map (valWords o.vt)))
  | .L => .cont "List" (seqElems o.vt.name (o.el.toList.map (valWords o.vt)))
  | .T => .cont "Table" (mapElems o.kt.name o.vt.name o.kvs)
  | .E => .cont "Tree" (mapElems o.kt.name o.vt.name o.kvs)
  | .H => .tup "Tuple" (o.el.toList.map tokWord)
  | .W => .thr "Thread" (.cont "Table" (mapElems o.kt.name o.vt.name o.kvs))     -- `new(Thread)`: tls = Table(String, Ref)
  | .Y => .raw "Type" [0]                                                        -- a leaf type: `GC_Recurse` returns at once
  | .Q => .raw "Probe" ([id, canaryOf id] ++ o.el.toList.map tokWord)              -- the header (and its type pointer) lies in front of these words

mutual
/-- structural equality of representations (for the driver's cross-check of the re-typing ops) -/
def Obj.beq : Obj → Obj → Bool
  | .raw t1 w1, .raw t2 w2 => t1 == t2 && w1 == w2
  | .cont t1 e1, .cont t2 e2 => t1 == t2 && Obj.beqL e1 e2
  | .tup t1 i1, .tup t2 i2 => t1 == t2 && i1 == i2
  | .thr t1 a, .thr t2 b => t1 == t2 && Obj.beq a b
  | _, _ => false
def Obj.beqL : List Obj → List Obj → Bool
  | [], [] => true
  | a :: as, b :: bs => Obj.beq a b && Obj.beqL as bs
  | _, _ => false
end

/-- `current(Thread)`: its `tls` Table (String → Ref) holds "__GC" → the collector itself (not registered) and the entries set by the history -/
def threadObj (st : MState) : Obj :=
  .thr "Thread" (.cont "Table"
    ([.raw "String" [0], .raw "Ref" [16]] ++
      st.tls.toList.flatMap fun e => match e with | some t => [.raw "String" [0], refObj t] | none => []))

def MState.heap (st : MState) : Heap :=
  let hm : Std.HashMap Addr Entry := st.objs.fold (fun acc id o =>
    if o.raw then acc else acc.insert (addrOf id) ⟨(match st.over with | some (i, ob) => if i == id then ob else toObj id o | none => toObj id o), o.root⟩) {}
  Heap.ofHashMap hm
    (match st.minId with | some i => addrOf i | none => 2 ^ 64 - 1)
    (match st.maxId with | some i => addrOf i | none => 0)

/-- the header edges of the current state (`Cello.Heap.TyMap`): instance ↦ its run-time Type object -/
def MState.tyMap (st : MState) : TyMap := fun a =>
  (idOfAddr a).bind fun id => (st.objs[id]?).bind fun o => if o.raw then none else o.ty.map addrOf

/-- `Cello.Heap.typesAnchored` on the current state for a collection with these root words: the Type of every registered instance of a run-time
    type is root-registered or reachable from the roots (outside: known finding KF-C01-type-outlived; the op is refused).  `rootsOnly`: every
    such Type is root-registered (collections inside container operations). -/
def MState.typesAnchored (st : MState) (words : List Word) (rootsOnly : Bool) : Bool :=
  if !st.objs.any (fun _ o => o.ty.isSome) then true
  else if rootsOnly then
    st.objs.all fun _ o => o.raw || match o.ty with
      | none => true
      | some t => match st.objs[t]? with | some ot => ot.root | none => false
  else Cello.Heap.typesAnchored hashSet Cfg.current st.heap st.tyMap (threadObj st) words

def MState.usable (st : MState) (id : Nat) : Bool := st.objs.contains id
def MState.owned (st : MState) (id : Nat) : Bool :=
  match st.objs[id]? with
  | some o => match o.owner with | some b => st.usable b | none => false
  | none => false

def MState.tokOk (st : MState) : Tok → Bool
  | .obj id | .mis id | .int id => st.usable id && !st.owned id
  | _ => true

/-- does a usable object other than `id`, a stack slot other than `exceptSlot`, or a TLS entry hold a pointer to `id`? -/
def MObj.elPointsTo (o : MObj) (id : Nat) : Bool :=
  if o.vt == .D && (o.kind.isArr || o.kind.isMap) then o.el.any fun t => match t with | .obj b => b ≤ id && id ≤ b + 2 | _ => false
  else o.el.any (· == Tok.obj id)

def MState.hasIncoming (st : MState) (id : Nat) (exceptSlot : Option Nat) : Bool :=
  st.objs.fold (fun acc i o =>
    acc || (i != id && (o.elPointsTo id || (o.refKeys && o.key.any (· == (id : Int)))))) false
  || (st.roots.toList.zipIdx.any fun (t, j) => some j != exceptSlot && t == Tok.obj id)
  || st.tls.any (· == some (Tok.obj id))

/-- ids as the harness prints them: `count:hash[:[list]]` -/
def setText (ids : List Nat) : String :=
  let ids := (ids.toArray.qsort (· < ·)).toList
  let h := ids.foldl (fun h i => (h * 31 + (i + 1)) % 4294967296) 0
  let base := s!"{ids.length}:{h}"
  if ids.length ≤ 48 then base ++ ":[" ++ ",".intercalate (ids.map toString) ++ "]" else base

/-- the mark phase on the current state with the given extra root words; returns the marked usable ids -/
def MState.markedIds (st : MState) (useSlots : Bool) (words : List Word) : List Nat × Std.HashSet Addr :=
  let h := st.heap
  let stack := (if useSlots then st.roots.toList.map tokWord else []) ++ words
  let m := gcMark hashSet Cfg.current h (threadObj st) stack
  (st.objs.keys.filter (fun i => m.contains (addrOf i)), m)

/-- full mode: whatever is not reachable from the current roots must never be used again -/
def MState.checkpoint (st : MState) : MState × List Nat :=
  let (live, _) := st.markedIds true []
  let liveSet : Std.HashSet Nat := Std.HashSet.ofList live
  let ghost := st.objs.fold (fun g i o =>
    if !liveSet.contains i && (o.kind = .H || o.kind = .M) then
      o.el.foldl (fun g t => match t with | .obj j => if j < maxObj then g.insert j else g | _ => g) g
    else g) st.ghost
  ({ st with objs := st.objs.filter (fun i _ => liveSet.contains i), ghost }, live)

def parseNatDigits (s : String) : Option Nat :=
  if s.isEmpty then none else if s.all Char.isDigit then s.toNat? else none

/-- `parse_long` of the harness: optional '-', digits, at most 12 characters -/
def parseLong (s : String) : Option Int :=
  if s.length > 12 then none
  else if s.startsWith "-" then (parseNatDigits (s.drop 1).toString).map (fun n => - (n : Int))
  else (parseNatDigits s).map (fun n => (n : Int))

def parseTok (s : String) : Option Tok :=
  if s = "n" then some .nil else if s = "lo" then some .lo else if s = "hi" then some .hi
  else
    let rest := (s.drop 1).toString
    match s.front, parseNatDigits rest with
    | 'o', some n => some (.obj n)
    | 'm', some n => some (.mis n)
    | 'i', some n => some (.int n)
    | 's', some n => if n < 2 ^ 30 then some (.small n) else none
    | _, _ => none

/-- kind letter → (kind, default key type, default element / value type) -/
def kindOfLetter (ks : String) : Option (Kind × Ety × Ety) :=
  match ks with
  | "P" => some (.P, .R, .R) | "M" => some (.M, .R, .R) | "R" => some (.R, .R, .R) | "B" => some (.B, .R, .R)
  | "A" => some (.A, .R, .R) | "L" => some (.L, .R, .R)
  | "T" => some (.T, .I, .R) | "U" => some (.T, .R, .R) | "E" => some (.E, .I, .R) | "F" => some (.E, .R, .R)
  | "H" => some (.H, .R, .R) | "W" => some (.W, .S, .R) | "Y" => some (.Y, .R, .R) | "Q" => some (.Q, .R, .R) | _ => none

def parseKind (s : String) : Option ((Kind × Ety × Ety) × Bool) :=
  let (ks, rf) := if s.length = 2 ∧ s.back = '!' then ((s.take 1).toString, true) else (s, false)
  (kindOfLetter ks).map (·, rf)

/-- the type argument of `new` for a container: `-` (the kind's defaults), one letter (A/L: element type) or two letters
    (T/U/E/F: key type R|I|S, value type R|I|S|F) -/
def parseTypes (kind : Kind) (kt vt : Ety) (arg : String) : Option (Ety × Ety) :=
  if arg = "-" then some (kt, vt)
  else if kind.isArr ∧ arg.length = 1 then (parseEty arg.front).map (kt, ·)
  else if kind.isMap ∧ arg.length = 2 then
    match parseEty arg.front, parseEty arg.back with
    | some k, some v => if k = .F ∨ k = .X ∨ k = .D then none else some (k, v)
    | _, _ => none
  else none

/-- `-` (nowhere) or `s<j>` -/
def parseWhere (s : String) : Option (Option Nat) :=
  if s = "-" then some none
  else if s.startsWith "s" then
    match parseLong (s.drop 1).toString with
    | some v => if 0 ≤ v ∧ v < (nRoots : Int) then some (some v.toNat) else none
    | none => none
  else none

def chainKind (s : String) : Option (Kind × Ety × Ety) :=
  match s with
  | "R" | "P" | "A" | "H" | "U" | "L" | "E" => kindOfLetter s
  | _ => none

def natOf (v : Int) : Option Nat := if 0 ≤ v then some v.toNat else none

/-- register a new object (`alloc` → `GC_Set`), store it in a stack slot, full mode: checkpoint -/
def MState.doNewObj (st : MState) (id : Nat) (o : MObj) (boxTgt : Option Nat) (slot : Option Nat) :
    MState × List Nat :=
  let objs := st.objs.insert id o
  let objs := match o.kind, boxTgt with
    | .B, some t => objs.modify t (fun ot => { ot with owner := some id })
    | _, _ => objs
  let st := { st with
    objs, used := st.used.insert id
    roots := match slot with | some j => st.roots.setIfInBounds j (Tok.obj id) | none => st.roots
    minId := if o.raw then st.minId else some (match st.minId with | some m => min m id | none => id)
    maxId := if o.raw then st.maxId else some (match st.maxId with | some m => max m id | none => id) }
  if st.full then st.checkpoint else (st, [])

def MState.doNewR (st : MState) (id : Nat) (kte : Kind × Ety × Ety) (k : Nat) (rf : Bool) (boxTgt : Option Nat) (slot : Option Nat)
    (raw : Bool) : MState × List Nat :=
  let kind := kte.1
  let el : Array Tok := if kind.isWords then Array.replicate k Tok.nil else #[]
  let el := match kind, boxTgt with | .B, some t => el.setIfInBounds 0 (Tok.obj t) | _, _ => el
  let o : MObj := { kind, k := if kind.isWords then k else 0, root := rf, owner := none, el, key := #[], kt := kte.2.1, vt := kte.2.2, raw }
  st.doNewObj id o boxTgt slot

def MState.doNew (st : MState) (id : Nat) (kte : Kind × Ety × Ety) (k : Nat) (rf : Bool) (boxTgt : Option Nat) (slot : Option Nat) :
    MState × List Nat := st.doNewR id kte k rf boxTgt slot false

/-- is the token a pointer to an object allocated with `new_raw`?  A registered Tuple / user Mark instance would hand it to the
    callback, which traces unregistered memory (`GC_Mark_And_Recurse` → `GC_Recurse`): not in the model (`CallbackSafe`) -/
def MState.rawTok (st : MState) : Tok → Bool
  | .obj id => (match st.objs[id]? with | some o => o.raw | none => false)
  | _ => false

/-- the blocks one collection releases: the pending list, plus what the destructors of pending Boxes delete (`Cello.Heap.release`);
    when no pending item owns anything the release loop finalises exactly the pending list (cross-checked by `R rel=`) -/
def releasedAddrs (h h1 : Heap) (pending : List Addr) : List Addr × String :=
  let owners := pending.any fun a => (h.ownsAt a).any (· != 0)      -- `del(NULL)` is a no-op (`remPtr_null`)
  if owners then ((release h h1 pending).finalised, "full")
  else if pending.length ≤ 1500 then
    let f := (release h h1 pending).finalised
    (pending, if f.length == pending.length && f.all pending.contains then "agree" else "differ")
  else (pending, "skipped")

/-- one exact-mode collection on the model: `GC_Mark` from the bits that are set (none, unless an `xraise` left some and `GC_Mark`
    does not clear them first), `GC_Sweep` with its release loop; returns the new state and the observation text -/
def MState.exactCollect (st : MState) (words : List Word) (tag : String) : MState × List String :=
  let h := st.heap
  let started := if clearFirstNow then [] else st.stale.map addrOf
  let m := gcMarkFrom hashSet Cfg.current h (threadObj st) words (seed hashSet started)
  let marked := st.objs.keys.filter (fun i => m.contains (addrOf i))
  let (h1, pending) := sweep hashSet h m
  let (rel, relTxt) := releasedAddrs h h1 pending
  let freed := (rel.filterMap idOfAddr).eraseDups
  let st' := { st with objs := freed.foldl (fun o i => o.erase i) st.objs, stale := []
                       nMarked := st.nMarked + marked.length, nFreed := st.nFreed + freed.length, nCollect := st.nCollect + 1 }
  -- cross-check inside the model: the marker with the call structure of GC.c (depth budget 4n+64) sets the same bits
  let recTxt :=
    if st.objs.size ≤ 4000 && started.isEmpty then
      match gcMarkRec hashSet Cfg.current h (4 * st.objs.size + 64) (threadObj st) words with
      | .ok m2 => if st.objs.keys.all (fun i => m.contains (addrOf i) == m2.contains (addrOf i)) then "agree" else "differ"
      | .deep => "deep"
      | .ub => "ub"
    else "skipped"
  (st', [s!"O {tag} marked={setText marked} freed={setText freed}", s!"R rec={recTxt}", s!"R rel={relTxt}"])

/-- what `Ref_Assign(elem, item)` stores for a stored pointer of a heap Tuple: `deref(item)` when the item is a Ref -/
def MState.derefTok (st : MState) (t : Tok) : Tok :=
  match t with
  | .obj j =>
    match st.objs[j]? with
    | some oj => if oj.kind = .R then (oj.el[0]?).getD Tok.nil else t
    | none => t
  | _ => t

/-- `assign(dst, src)` on the histories' objects: `none` = not a combination the histories use -/
def MState.assignObj (st : MState) (od os : MObj) : Option MObj :=
  if od.kind.isArr && os.kind.isArr then some { od with vt := os.vt, el := os.el }
  else if od.kind.isArr && os.kind = .H then
    if os.el.any (fun t => match t with
        | .obj j => (match st.objs[j]? with | some oj => oj.kind = .B | none => true)
        | _ => true) then none
    else some { od with vt := .R, el := os.el.map st.derefTok }
  else if od.kind.isMap && os.kind.isMap then some { od with kt := os.kt, vt := os.vt, el := os.el, key := os.key }
  else if od.kind = .H && os.kind = .H then some { od with el := os.el }
  else none

def MObj.mapFind (o : MObj) (key : Int) : Option Nat := o.key.findIdx? (· == key)

def MState.mapSet (st : MState) (id : Nat) (key : Int) (t : Tok) : MState :=
  { st with objs := st.objs.modify id fun o =>
      match o.mapFind key with
      | some i => { o with el := o.el.setIfInBounds i t }
      | none => { o with el := o.el.push t, key := o.key.push key } }

def MState.seqPush (st : MState) (id : Nat) (t : Tok) : MState :=
  { st with objs := st.objs.modify id fun o => { o with el := o.el.push t } }

def MState.link (st : MState) (a b : Nat) : MState :=
  match st.objs[a]? with
  | none => st
  | some o =>
    if o.kind.isWords then { st with objs := st.objs.modify a fun o => { o with el := o.el.setIfInBounds 0 (Tok.obj b) } }
    else if o.kind.isSeq then st.seqPush a (Tok.obj b)
    else if o.refKeys then st.mapSet a (b : Int) (Tok.obj b)
    else st.mapSet a 7 (Tok.obj b)

/-- explicit del: the object leaves the registry; a Box takes the object it owns with it -/
def MState.del (st : MState) (id : Nat) : Nat → MState × Nat
  | 0 => (st, 0)
  | fuel + 1 =>
    match st.objs[id]? with
    | none => (st, 0)
    | some o =>
      let st1 := { st with objs := st.objs.erase id }
      match o.kind, o.el[0]? with
      | .B, some (Tok.obj t) => if st1.usable t then let (s2, n) := st1.del t fuel; (s2, n + 1) else (st1, 1)
      | _, _ => (st1, 1)

/-! ### a collection INSIDE a container operation (`xin` / `cin`): the intermediate states of `Cello.Heap.Mid` -/

inductive InnerOp where
  | pop | arem | aset | push | ins | tset | trem | clear | trunc | assign | concat
deriving Repr, DecidableEq, Inhabited

structure Inner where
  op : InnerOp
  id : Nat
  a : Int := 0               -- index / key / new length
  t : Tok := .nil
  hasT : Bool := false
  src : Option Nat := none
deriving Repr, Inhabited

/-- the op after `|` of an `xin` / `cin` line, or a plain `arem` / `concat` line: accepted exactly when the harness accepts it -/
def MState.innerParse (st : MState) (w : List String) : Option Inner :=
  match w with
  | name :: ids :: rest =>
    match (parseLong ids).bind natOf with
    | none => none
    | some id =>
      match st.objs[id]? with
      | none => none
      | some o =>
        if !(o.kind.isArr || o.kind.isMap) || o.raw || st.owned id then none else
        let tokArg (s : String) : Option Tok :=
          match parseTok s with
          | some t => if st.tokOk t && t.isObjOrNil then some t else none
          | none => none
        match name, rest with
        | "pop", [idxs] =>
          (match parseLong idxs with
           | some idx => if o.kind.isArr && 0 ≤ idx && idx < (o.el.size : Int) then some { op := .pop, id, a := idx } else none
           | none => none)
        | "arem", [idxs] =>
          (match parseLong idxs with
           | some idx =>
             if o.kind.isArr && 0 ≤ idx && idx < (o.el.size : Int) && o.vt == .X then
               let first := (o.el.findIdx? (· == o.el[idx.toNat]!)).getD idx.toNat
               some { op := .arem, id, a := (first : Int) }
             else none
           | none => none)
        | "aset", [idxs, toks] =>
          (match parseLong idxs, tokArg toks with
           | some idx, some t => if o.kind.isArr && 0 ≤ idx && idx < (o.el.size : Int) then some { op := .aset, id, a := idx, t, hasT := true } else none
           | _, _ => none)
        | "ins", [idxs, toks] =>
          -- push_at(self, x, idx): Array 0..n; List 0..n-1 (`List_At(l, n)` is out of bounds), or 0 on an empty List
          (match parseLong idxs, tokArg toks with
           | some idx, some t =>
             if o.kind.isArr && 0 ≤ idx && idx ≤ (o.el.size : Int) && !(o.kind == .L && idx == (o.el.size : Int) && idx != 0)
             then some { op := .ins, id, a := idx, t, hasT := true } else none
           | _, _ => none)
        | "push", [toks] =>
          (match tokArg toks with
           | some t => if o.kind.isArr then some { op := .push, id, t, hasT := true } else none
           | none => none)
        | "tset", [keys, toks] =>
          (match parseLong keys, tokArg toks with
           | some key, some t => if o.kind.isMap && !o.refKeys then some { op := .tset, id, a := key, t, hasT := true } else none
           | _, _ => none)
        | "trem", [keys] =>
          (match parseLong keys with
           | some key => if o.kind.isMap && !o.refKeys && (o.mapFind key).isSome then some { op := .trem, id, a := key } else none
           | none => none)
        | "clear", [] => some { op := .clear, id }
        | "trunc", [ns] =>
          (match parseLong ns with
           | some n => if o.kind.isArr && 1 ≤ n && n ≤ (o.el.size : Int) then some { op := .trunc, id, a := n } else none
           | none => none)
        | nm, [ss] =>
          if nm != "assign" && nm != "concat" then none else
          (match (parseLong ss).bind natOf with
           | some s =>
             match st.objs[s]? with
             | some os =>
               if s = id || os.raw || st.owned s then none
               else if nm = "assign" then
                 (if (o.kind.isArr && os.kind.isArr) || (o.kind.isMap && os.kind.isMap && !o.refKeys && !os.refKeys)
                  then some { op := .assign, id, src := some s } else none)
               else (if o.kind.isArr && os.kind.isArr && o.vt == os.vt then some { op := .concat, id, src := some s } else none)
             | none => none
           | none => none)
        | _, _ => none
  | _ => none

def MState.srcObj (st : MState) (q : Inner) : Option MObj := q.src.bind fun s => st.objs[s]?

/-- the `ProbeE` calls the operation makes: destructor calls, then Assign calls (`set` of an existing key of a Table: the Assign first) -/
def MState.innerCalls (st : MState) (q : Inner) (o : MObj) : Nat × Nat :=
  let x : Bool := o.vt == .X
  let n := o.el.size
  let sx : Bool := match st.srcObj q with | some os => os.vt == .X | none => false
  let m := match st.srcObj q with | some os => os.el.size | none => 0
  match q.op with
  | .pop | .arem | .trem => (if x then 1 else 0, 0)
  | .aset | .push | .ins => (0, if x then 1 else 0)
  | .tset => (if x && o.kind == .T && (o.mapFind q.a).isSome then 1 else 0, if x then 1 else 0)
  | .clear => (if x then n else 0, 0)
  | .trunc => (if x then n - q.a.toNat else 0, 0)
  | .assign => (if x then n else 0, if sx then m else 0)
  | .concat => (0, if sx then m else 0)

/-- 1: the collection at call `k` is modelled; 0: known-finding territory (the Mark instance would present freed or unconstructed
    cells: `View.ok` fails); -1: the order in which the source is iterated is not modelled -/
def MState.innerSafe (st : MState) (q : Inner) (o : MObj) (k : Nat) : Int :=
  let (nd, na) := st.innerCalls q o
  if k ≥ nd + na || q.op == .tset then 1 else
  let chained := o.kind == .L || o.kind == .E
  if k < nd then (if (q.op == .clear || q.op == .assign) && chained && k != 0 then 0 else 1) else
  let j := k - nd
  if q.op == .assign || q.op == .concat then
    if o.kind == .A then (if j + 1 == na then 1 else 0)
    else if o.kind.isMap then
      (match st.srcObj q with
       | some os => if na == 1 || (os.kind == .E && os.kt == .I) then 1 else -1
       | none => -1)
    else 1
  else 1

def MObj.entries (o : MObj) : List (Int × Tok) :=
  if o.kind.isMap then o.key.toList.zip o.el.toList else o.el.toList.map fun t => ((0 : Int), t)

def MObj.withEntries (o : MObj) (es : List (Int × Tok)) : MObj :=
  { o with el := (es.map (·.2)).toArray, key := if o.kind.isMap then (es.map (·.1)).toArray else #[] }

/-- the container when the operation has completed (the interpreter's own semantics of the op: the harness's shadow) -/
def MState.innerPost (st : MState) (q : Inner) (o : MObj) : MObj :=
  match q.op with
  | .pop | .arem => { o with el := o.el.eraseIdxIfInBounds q.a.toNat }
  | .aset => { o with el := o.el.setIfInBounds q.a.toNat q.t }
  | .push => { o with el := o.el.push q.t }
  | .ins => { o with el := o.el.insertIdxIfInBounds q.a.toNat q.t }
  | .tset =>
    (match o.mapFind q.a with
     | some i => { o with el := o.el.setIfInBounds i q.t }
     | none => { o with el := o.el.push q.t, key := o.key.push q.a })
  | .trem =>
    (match o.mapFind q.a with
     | some i =>
       let last := o.el.size - 1
       { o with el := (o.el.setIfInBounds i (o.el[last]!)).pop, key := (o.key.setIfInBounds i (o.key[last]!)).pop }
     | none => o)
  | .clear => { o with el := #[], key := #[] }
  | .trunc => { o with el := o.el.extract 0 q.a.toNat }
  | .assign => (match st.srcObj q with | some os => (st.assignObj o os).getD o | none => o)
  | .concat => (match st.srcObj q with | some os => { o with el := o.el ++ os.el } | none => o)

def midKind : Kind → Mid.Kind
  | .A => .array | .L => .list | .T => .table | _ => .tree

/-- the elements of the source in the order `X_Assign` / `X_Concat` reads them: `get(obj, i)` for a sequence, ascending keys for a Tree with
    Int keys (any other map source: the interpreter's own order, which `innerSafe` never lets a collection depend on) -/
def MObj.inOrder (os : MObj) : List (Int × Tok) :=
  if os.kind == .E && os.kt == .I then (os.entries.toArray.qsort (fun a b => a.1 < b.1)).toList else os.entries

/-- the operation on the machine of `Cello.Heap.Mid`, interpreting the statement lists of the current source -/
def MState.innerRun (st : MState) (q : Inner) (o : MObj) : Mid.Mach (Int × Tok) :=
  let es := o.entries
  let k := midKind o.kind
  let zero : Int × Tok := (0, Tok.nil)
  let found := (o.mapFind q.a).getD es.length
  let env : Mid.Env (Int × Tok) := { shape := k.shape, zero := zero }
  match q.op with
  | .pop => Mid.runOp k .popAt { env with i := q.a.toNat } es
  | .arem => Mid.runOp k .remVal { env with i := q.a.toNat } es
  | .aset => Mid.runOp k .set { env with i := q.a.toNat, src := [(0, q.t)] } es
  | .push => Mid.runOp k .push { env with i := es.length, src := [(0, q.t)] } es
  | .ins => Mid.runOp k .pushAt { env with i := q.a.toNat, src := [(0, q.t)] } es
  | .tset => Mid.runOp k (if (o.mapFind q.a).isSome then .set else .setNew) { env with i := found, src := [(q.a, q.t)] } es
  | .trem => Mid.runOp k .remKey { env with i := found } es
  | .clear => Mid.runOp k .clear env es
  | .trunc => Mid.runOp k .resize { env with m := q.a.toNat } es
  | .assign =>
    let src := match st.srcObj q with | some os => os.inOrder | none => []
    Mid.runOp k .assign { env with i := es.length + src.length, src := src } es
  | .concat =>
    let src := match st.srcObj q with | some os => os.inOrder | none => []
    Mid.runOp k .concat { env with i := es.length + src.length, src := src } es

/-- which views are calls of `ProbeE` code: the destructor of an element the target held (its type before the operation), the Assign
    instance of an element of the new type (the source's, for assign / concat) -/
def MState.hookable (st : MState) (q : Inner) (o : MObj) (v : Mid.View (Int × Tok)) : Bool :=
  let newVt := match q.op, st.srcObj q with
    | .assign, some os => os.vt
    | .concat, some os => os.vt
    | _, _ => o.vt
  match v.tag with
  | .dtor => o.vt == .X
  | .asg => newVt == .X
  | _ => false

def sameEntries (isMap : Bool) (a b : List (Int × Tok)) : Bool :=
  if isMap then
    let sa := (a.toArray.qsort (fun x y => x.1 < y.1)).toList
    let sb := (b.toArray.qsort (fun x y => x.1 < y.1)).toList
    sa == sb
  else a == b

/-- the words the caller's frame holds while the operation runs: the container, the operand -/
def Inner.operandWords (q : Inner) : List Word :=
  [addrOf q.id] ++ (if q.hasT then [tokWord q.t] else []) ++ (match q.src with | some s => [addrOf s] | none => [])

def bad (st : MState) : MState × List String := (st, ["O bad-op"])

/-- one op line (already split into words), containers of `ProbeDeep` elements excepted (`MState.step` below) -/
def MState.stepBase (st : MState) (w : List String) : MState × List String :=
  if w.length > 40 then bad st else
  match w with
  | ["mode", m] =>
    if st.started then bad st
    else if m = "full" then ({ st with full := true, started := true }, ["O mode full"])
    else if m = "exact" then ({ st with full := false, started := true }, ["O mode exact"])
    else bad st
  | "new" :: args =>
    let st := { st with started := true }
    if !st.stale.isEmpty then bad st else     -- GC_Rehash would clear the bits: which allocations resize the registry is C17's model
    match args with
    | [ids, ks, arg, wh] =>
      match (parseLong ids).bind natOf, parseKind ks, parseWhere wh with
      | some id, some (kte, rf), some slot =>
        let kind := kte.1
        if id ≥ maxObj || st.used.contains id then bad st else
        let goT (kte : Kind × Ety × Ety) (k : Nat) (bt : Option Nat) : MState × List String :=
          let (st', live) := st.doNew id kte k rf bt slot
          (st', [if st.full then s!"O new {id} live={setText live}" else s!"O new {id}"])
        let go := goT kte
        match kind with
        | .P =>
          match (parseLong arg).bind natOf with
          | some k => if k = 1 ∨ k = 2 ∨ k = 4 ∨ k = 8 then go k none else bad st
          | none => bad st
        | .B =>
          match (parseLong arg).bind natOf with
          | some t =>
            match st.objs[t]? with
            | some ot =>
              if st.owned t || st.ghost.contains t || ot.kind = .B || ot.kind = .Y || ot.kind = .Q || ot.root || st.hasIncoming t slot then bad st else go 1 (some t)
            | none => bad st
          | none => bad st
        | .Y => if arg != "-" || (st.full && !rf) then bad st else go 0 none
        | .Q =>
          match (parseLong arg).bind natOf with
          | some t =>
            match st.objs[t]? with
            | some ot =>
              if rf || ot.kind != .Y then bad st else
              let (st', live) := st.doNew id kte 1 rf none slot
              let st' := { st' with objs := st'.objs.modify id (fun o => { o with ty := some t }) }
              (st', [if st.full then s!"O new {id} live={setText live}" else s!"O new {id}"])
            | none => bad st
          | none => bad st
        | _ =>
          match parseTypes kind kte.2.1 kte.2.2 arg with
          | some (kt, vt) => goT (kind, kt, vt) (if kind = .M then 4 else if kind = .R then 1 else 0) none
          | none => bad st
      | _, _, _ => bad st
    | _ => bad st
  | "pair" :: args =>
    let st := { st with started := true }
    if !st.stale.isEmpty then bad st else
    match args with
    | [ias, ibs, wh] =>
      match (parseLong ias).bind natOf, (parseLong ibs).bind natOf, parseWhere wh with
      | some ia, some ib, some slot =>
        if ia ≥ maxObj || ib ≥ maxObj || ia = ib || st.used.contains ia || st.used.contains ib then bad st
        else if st.full && slot.isNone then bad st
        else
          let full := st.full
          let (s1, _) := ({ st with full := false }).doNew ia (.R, .R, .R) 1 false none none
          let (s2, _) := s1.doNew ib (.R, .R, .R) 1 false none slot
          let s3 := { (s2.link ib ia) with full := full }
          let (s4, live) := if full then s3.checkpoint else (s3, [])
          (s4, [if full then s!"O pair {ia} {ib} live={setText live}" else s!"O pair {ia} {ib}"])
      | _, _, _ => bad st
    | _ => bad st
  | ["store", ids, slots, toks] =>
    match (parseLong ids).bind natOf, parseLong slots, parseTok toks with
    | some id, some slot, some t =>
      match st.objs[id]? with
      | some o =>
        if !st.tokOk t then bad st
        else if !(o.kind = .P ∨ o.kind = .M ∨ o.kind = .R ∨ o.kind = .Q) ∨ slot < 0 ∨ slot ≥ (o.k : Int) then bad st
        else if o.kind = .M ∧ (!t.isObjOrNil || st.rawTok t) then bad st
        else ({ st with objs := st.objs.modify id fun o => { o with el := o.el.setIfInBounds slot.toNat t } }, ["O ok"])
      | none => bad st
    | _, _, _ => bad st
  | ["push", ids, toks] =>
    match (parseLong ids).bind natOf, parseTok toks with
    | some id, some t =>
      match st.objs[id]? with
      | some o =>
        if !o.kind.isSeq || !st.tokOk t then bad st
        else if !(t.isObj || (t = Tok.nil && o.kind ≠ .H)) then bad st
        else if o.kind = .H && st.rawTok t then bad st
        else (st.seqPush id t, ["O ok"])
      | none => bad st
    | _, _ => bad st
  | ["pop", ids, idxs] =>
    match (parseLong ids).bind natOf, parseLong idxs with
    | some id, some idx =>
      match st.objs[id]? with
      | some o =>
        if !o.kind.isSeq || idx < 0 || idx ≥ (o.el.size : Int) then bad st
        else ({ st with objs := st.objs.modify id fun o => { o with el := o.el.eraseIdxIfInBounds idx.toNat } }, ["O ok"])
      | none => bad st
    | _, _ => bad st
  | ["aset", ids, idxs, toks] =>
    match (parseLong ids).bind natOf, parseLong idxs, parseTok toks with
    | some id, some idx, some t =>
      match st.objs[id]? with
      | some o =>
        if !o.kind.isSeq || idx < 0 || idx ≥ (o.el.size : Int) || !st.tokOk t then bad st
        else if !(t.isObj || (t = Tok.nil && o.kind ≠ .H)) then bad st
        else if o.kind = .H && st.rawTok t then bad st
        else ({ st with objs := st.objs.modify id fun o => { o with el := o.el.setIfInBounds idx.toNat t } }, ["O ok"])
      | none => bad st
    | _, _, _ => bad st
  | ["tset", ids, keys, toks] =>
    match (parseLong ids).bind natOf, parseLong keys, parseTok toks with
    | some id, some key, some t =>
      match st.objs[id]? with
      | some o =>
        if !st.tokOk t || !t.isObjOrNil then bad st
        else if o.refKeys then
          (if key < 0 || !st.usable key.toNat || st.owned key.toNat then bad st else (st.mapSet id key t, ["O ok"]))
        else if o.kind.isMap then (st.mapSet id key t, ["O ok"])
        else bad st
      | none => bad st
    | _, _, _ => bad st
  | ["trem", ids, keys] =>
    match (parseLong ids).bind natOf, parseLong keys with
    | some id, some key =>
      match st.objs[id]? with
      | some o =>
        if !o.kind.isMap then bad st else
        match o.mapFind key with
        | none => bad st
        | some i =>
          if o.refKeys && (key < 0 || !st.usable key.toNat) then bad st
          else
            let last := o.el.size - 1
            let o' := { o with el := (o.el.setIfInBounds i (o.el[last]!)).pop, key := (o.key.setIfInBounds i (o.key[last]!)).pop }
            ({ st with objs := st.objs.insert id o' }, ["O ok"])
      | none => bad st
    | _, _ => bad st
  | ["tls", ks, toks] =>
    match (parseLong ks).bind natOf, parseTok toks with
    | some k, some t =>
      if k ≥ nTls || !st.tokOk t || !t.isObjOrNil then bad st
      else ({ st with tls := st.tls.setIfInBounds k (some t) }, ["O ok"])
    | _, _ => bad st
  | ["tlsrem", ks] =>
    match (parseLong ks).bind natOf with
    | some k =>
      if k ≥ nTls || (st.tls[k]?).join.isNone then bad st
      else ({ st with tls := st.tls.setIfInBounds k none }, ["O ok"])
    | none => bad st
  | ["wset", ids, ks, toks] =>
    match (parseLong ids).bind natOf, (parseLong ks).bind natOf, parseTok toks with
    | some id, some k, some t =>
      match st.objs[id]? with
      | some o =>
        if o.kind != .W || k ≥ nTls || !st.tokOk t || !t.isObjOrNil then bad st
        else (st.mapSet id (k : Int) t, ["O ok"])
      | none => bad st
    | _, _, _ => bad st
  | ["wrem", ids, ks] =>
    match (parseLong ids).bind natOf, parseLong ks with
    | some id, some key =>
      match st.objs[id]? with
      | some o =>
        if o.kind != .W then bad st else
        match o.mapFind key with
        | none => bad st
        | some i =>
          let last := o.el.size - 1
          let o' := { o with el := (o.el.setIfInBounds i (o.el[last]!)).pop, key := (o.key.setIfInBounds i (o.key[last]!)).pop }
          ({ st with objs := st.objs.insert id o' }, ["O ok"])
      | none => bad st
    | _, _ => bad st
  | ["root", js, toks] =>
    match (parseLong js).bind natOf, parseTok toks with
    | some j, some t =>
      if j ≥ nRoots || !st.tokOk t || !t.isObjOrNil then bad st
      else ({ st with roots := st.roots.setIfInBounds j t }, ["O ok"])
    | _, _ => bad st
  | ["assign", ds, ss] =>
    match (parseLong ds).bind natOf, (parseLong ss).bind natOf with
    | some d, some s =>
      match st.objs[d]?, st.objs[s]? with
      | some od, some os =>
        if d = s then bad st else
        match st.assignObj od os with
        | some od' =>
          -- cross-check inside the model: the op on the history's objects is `Obj.assignFrom` (what the theorems are about)
          let agree := Obj.beq (toObj d od') ((toObj d od).assignFrom st.heap (toObj s os))
          ({ st with objs := st.objs.insert d od' }, ["O ok", s!"R retype={if agree then "agree" else "differ"}"])
        | none => bad st
      | _, _ => bad st
    | _, _ => bad st
  | "copy" :: args =>
    let st := { st with started := true }
    if !st.stale.isEmpty then bad st else
    match args with
    | [ids, ss, wh] =>
      match (parseLong ids).bind natOf, (parseLong ss).bind natOf, parseWhere wh with
      | some id, some s, some slot =>
        if id ≥ maxObj || st.used.contains id then bad st else
        match st.objs[s]? with
        | some os =>
          if !(os.kind.isArr || os.kind.isMap || os.kind = .H) then bad st else
          let o : MObj := { os with root := false, owner := none, raw := false }
          let agree := Obj.beq (toObj id o) ((toObj s os).copyOf st.heap)
          let (st', live) := st.doNewObj id o none slot
          (st', [if st.full then s!"O copy {id} live={setText live}" else s!"O copy {id}", s!"R retype={if agree then "agree" else "differ"}"])
        | none => bad st
      | _, _, _ => bad st
    | _ => bad st
  | ["clear", ids] =>
    match (parseLong ids).bind natOf with
    | some id =>
      match st.objs[id]? with
      | some o =>
        if !(o.kind.isArr || o.kind.isMap) then bad st else
        let o' := { o with el := #[], key := #[] }
        let agree := Obj.beq (toObj id o') (toObj id o).cleared
        ({ st with objs := st.objs.insert id o' }, ["O ok", s!"R retype={if agree then "agree" else "differ"}"])
      | none => bad st
    | none => bad st
  | ["trunc", ids, ns] =>
    match (parseLong ids).bind natOf, (parseLong ns).bind natOf with
    | some id, some n =>
      match st.objs[id]? with
      | some o =>
        if o.kind.isArr then
          (if n < 1 || n > o.el.size then bad st
           else ({ st with objs := st.objs.insert id { o with el := o.el.extract 0 n } }, ["O ok"]))
        else if o.kind = .T then
          (if n < 1 || n < o.el.size || n > 4096 then bad st else (st, ["O ok"]))     -- resize(table, n): a rehash, same contents
        else bad st
      | none => bad st
    | _, _ => bad st
  | ["del", ids] =>
    match (parseLong ids).bind natOf with
    | some id =>
      if !st.usable id || st.hasIncoming id none || st.ghost.contains id || !st.stale.isEmpty then bad st
      else if ((st.objs[id]?).any fun o => o.kind == .Y && (st.full || st.objs.any (fun _ x => x.ty == some id))) then bad st
      else
        let (st', n) := st.del id (st.objs.size + 1)
        (st', [s!"O del {n}"])
    | none => bad st
  | "chain" :: args =>
    let st := { st with started := true }
    if !st.stale.isEmpty then bad st else
    match args with
    | [ids, ns, ks, wh] =>
      match (parseLong ids).bind natOf, (parseLong ns).bind natOf, chainKind ks, parseWhere wh with
      | some id, some n, some kind, some slot =>
        if n < 1 || id + n > maxObj then bad st
        else if st.full && slot.isNone then bad st
        else if (match slot with | some j => decide (j + 1 ≥ nRoots) | none => false) then bad st
        else if (List.range n).any (fun i => st.used.contains (id + i)) then bad st
        else
          let (st', live) := (List.range n).reverse.foldl (fun (acc : MState × List Nat) i =>
              let (s, _) := acc
              let (s1, live) := s.doNew (id + i) kind 1 false none (slot.map (· + i % 2))
              let s2 := if i + 1 < n then s1.link (id + i) (id + i + 1) else s1
              (s2, live)) (st, [])
          (st', [if st.full then s!"O chain {id} {n} live={setText live}" else s!"O chain {id} {n}"])
      | _, _, _, _ => bad st
    | _ => bad st
  | "xcollect" :: toks =>
    if st.full then bad st else
    let st := { st with started := true }
    let ts := toks.map parseTok
    if ts.any (fun t => match t with | some t => !st.tokOk t | none => true) then bad st else
    if !st.typesAnchored (ts.filterMap (·.map tokWord)) false then bad st else
    st.exactCollect (ts.filterMap (·.map tokWord)) "x"
  | "xraise" :: ids :: toks =>
    -- a collection during which the Mark instance of ProbeM `id` throws: the mark phase is left after the marking event of `id`
    -- (`GOp.raise`), the sweep is skipped, the bits set so far stay.  If `id` is never reached the collection completes.
    if st.full then bad st else
    let st := { st with started := true }
    match (parseLong ids).bind natOf with
    | some id =>
      match st.objs[id]? with
      | some o =>
        let ts := toks.map parseTok
        if o.kind != .M || ts.any (fun t => match t with | some t => !st.tokOk t | none => true) then bad st else
        let words := ts.filterMap (·.map tokWord)
        if !st.typesAnchored words false then bad st else
        let started := if clearFirstNow then [] else st.stale.map addrOf
        let events := markEvents Cfg.current st.heap (threadObj st) words started
        match events.idxOf? (addrOf id) with
        | some k =>
          let stale := ((events.take (k + 1) ++ started).filterMap idOfAddr).eraseDups
          -- the set of bits that stay does not depend on the order in which containers and the registry are enumerated iff the probe is
          -- first reached as a root word itself, after everything before it has been traced completely: only then is it printed
          let det : Bool := match (ts.map fun t => t == some (Tok.obj id)).idxOf? true with
            | some j => !((st.markedIds false ((ts.take j).filterMap (·.map tokWord))).1.contains id)
            | none => false
          ({ st with stale, nCollect := st.nCollect + 1 },
           [if det then s!"O xr raised marked={setText stale}" else "O xr raised marked=*"])
        | none => st.exactCollect words "xr completed"
      | none => bad st
    | none => bad st
  | ["xbox", ids, ts] =>
    -- a Box on an object that may be referenced from elsewhere: outside Box's ownership contract (`boxExclusive`)
    if st.full || !st.stale.isEmpty then bad st else
    let st := { st with started := true }
    match (parseLong ids).bind natOf, (parseLong ts).bind natOf with
    | some id, some t =>
      if id ≥ maxObj || st.used.contains id then bad st else
      match st.objs[t]? with
      | some ot =>
        if st.owned t || ot.kind = .B || ot.kind = .Y || ot.kind = .Q || ot.raw then bad st
        else
          let (st', _) := st.doNew id (.B, .R, .R) 1 false (some t) none
          (st', [s!"O new {id}"])
      | none => bad st
    | _, _ => bad st
  | ["newraw", ids, ks, arg, wh] =>
    -- a container allocated with `new_raw`: not registered, so the collector does not follow a path through it
    if st.full || !st.stale.isEmpty then bad st else
    let st := { st with started := true }
    match (parseLong ids).bind natOf, kindOfLetter ks, parseWhere wh with
    | some id, some kte, some slot =>
      if id ≥ maxObj || st.used.contains id || !(kte.1.isArr || kte.1.isMap) then bad st else
      match parseTypes kte.1 kte.2.1 kte.2.2 arg with
      | some (kt, vt) =>
        let (st', _) := st.doNewR id (kte.1, kt, vt) 0 false none slot true
        (st', [s!"O new {id}"])
      | none => bad st
    | _, _, _ => bad st
  | "xin" :: ks :: rest =>
    -- exact mode: `xin <k> <tok>* | <op>`: the k-th ProbeE destructor / Assign call of the container operation runs an exact collection
    if st.full || !st.stale.isEmpty || w.length < 4 then bad st else
    let st := { st with started := true }
    let toks := rest.takeWhile (· != "|")
    let opw := (rest.dropWhile (· != "|")).drop 1
    match (parseLong ks).bind natOf with
    | none => bad st
    | some k =>
      if k > 100000 || toks.length == rest.length then bad st else
      let ts := toks.map parseTok
      if ts.any (fun t => match t with | some t => !st.tokOk t | none => true) then bad st else
      match st.innerParse opw with
      | none => bad st
      | some q =>
        match st.objs[q.id]? with
        | none => bad st
        | some o =>
          let safe := st.innerSafe q o k
          if safe < 0 || !st.typesAnchored [] true then bad st else
          let post := st.innerPost q o
          let stPost := { st with objs := st.objs.insert q.id post }
          if safe == 0 then (stPost, ["O xin ub"]) else
          let r := st.innerRun q o
          let views := r.views.filter (st.hookable q o)
          let (nd, na) := st.innerCalls q o
          let env : Mid.Env (Int × Tok) := { shape := (midKind o.kind).shape, zero := (0, Tok.nil) }
          let midTxt := s!"R mid={if views.length == nd + na && !r.stuck && sameEntries o.kind.isMap (r.final env) post.entries then "agree" else "differ"}"
          match views[k]? with
          | none => (stPost, [s!"O xin calls={views.length} fired=0", midTxt])
          | some v =>
            if !v.ok then (stPost, ["O xin ub", midTxt]) else
            -- the container as its Mark instance presents it inside that call; the fill phase of assign already carries the source's types
            let typed : MObj := match v.tag, q.op, st.srcObj q with
              | .asg, .assign, some os => { o with kt := os.kt, vt := os.vt }
              | _, _, _ => o
            let midObj := typed.withEntries v.elems
            let words := ts.filterMap (·.map tokWord) ++ q.operandWords
            let (st1, lines) := ({ st with objs := st.objs.insert q.id midObj }).exactCollect words "x"
            ({ st1 with objs := st1.objs.insert q.id post }, lines ++ [s!"O xin calls={views.length} fired=1", midTxt])
  | "cin" :: ks :: "|" :: opw =>
    -- full mode: the k-th ProbeE call of the operation allocates until the threshold triggers the real GC_Mark / GC_Sweep
    if !st.full then bad st else
    match (parseLong ks).bind natOf with
    | none => bad st
    | some k =>
      if k > 100000 then bad st else
      match st.innerParse opw with
      | none => bad st
      | some q =>
        match st.objs[q.id]? with
        | none => bad st
        | some o =>
          let safe := st.innerSafe q o k
          if safe < 0 then bad st else
          let (nd, na) := st.innerCalls q o
          let post := st.innerPost q o
          let (st', live) := ({ st with objs := st.objs.insert q.id post }).checkpoint
          if safe == 0 then (st', [s!"O cin ub live={setText live}"])
          else ({ st' with nCollect := st.nCollect + (if k < nd + na then 1 else 0) },
                [s!"O cin calls={nd + na} fired={if k < nd + na then 1 else 0} live={setText live}"])
  | "arem" :: _ | "concat" :: _ | "ins" :: _ =>
    match st.innerParse w with
    | none => bad st
    | some q =>
      match st.objs[q.id]? with
      | none => bad st
      | some o => ({ st with objs := st.objs.insert q.id (st.innerPost q o) }, ["O ok"])
  | ["collect"] =>
    if !st.full then bad st else
    let (st', live) := st.checkpoint
    ({ st' with nCollect := st.nCollect + 1, nFreed := st.nFreed + (st.objs.size - st'.objs.size) }, [s!"O c live={setText live}"])
  | ["craise", ids] =>
    -- full mode: the real `GC_Mark` is left by an exception thrown by the Mark instance of the reachable ProbeM `id`; no sweep.  The bits
    -- that stay are not modelled here (the stack scan is conservative): the next `GC_Mark` clears them first (`clearFirstNow`).
    if !st.full then bad st else
    match (parseLong ids).bind natOf with
    | some id =>
      match st.objs[id]? with
      | some o =>
        if o.kind != .M then bad st
        else if !((st.markedIds true []).1.contains id) then bad st
        else (st, ["O craise raised"])
      | none => bad st
    | none => bad st
  | ["churn", ns] =>
    match (parseLong ns).bind natOf with
    | some n =>
      if !st.full || n > 100000 then bad st
      else
        let (st', live) := st.checkpoint
        (st', [s!"O churn live={setText live}"])
    | none => bad st
  | ["deepchild", ns, ks] =>
    match (parseLong ns).bind natOf, chainKind ks with
    | some n, some kind =>
      if n < 1 || n > 50000000 || !(kind.1 = .R ∨ kind.1 = .P ∨ kind.1 = .A ∨ kind.1 = .H) then bad st
      else (st, [s!"O deepchild {n}"])
    | _, _ => bad st
  | ["danglechild", k] => if k = "H" || k = "M" then (st, [s!"O danglechild {k}"]) else bad st
  | ["typechild", k] =>
    -- the witness of KF-C01-type-outlived on the model: `typeHeap` (x on the stack, its run-time Type referenced by x's header only; `r`: the
    -- Type root-registered; `s`: also held by a stack word), two collections of the typed history (`TState.run`)
    if !(k = "-" || k = "r" || k = "s") then bad st else
    let h : Heap := if k = "r" then (typeHeap.remove 4160).register 4160 ⟨.raw "Type" [0], true⟩ else typeHeap
    let stack : List Word := if k = "s" then [4096, 4160] else [4096]
    let s0 : TState := ⟨⟨h, .thr "Thread" (.cont "Table" []), stack, []⟩, typeTy⟩
    let first := TState.run hashSet Cfg.current clearFirstNow [.op (.base .collect)] s0
    let kept := match first with | some (s1, _) => (s1.g.heap.lookup 4160).isSome | none => false
    let second := (TState.run hashSet Cfg.current clearFirstNow [.op (.base .collect), .op (.base .collect)] s0).isSome
    (st, [s!"O typechild {k} type={if kept then "kept" else "released"} second={if second then "completed" else "failed"}"])
  | ["aliaschild", k] => if k = "A" || k = "L" then (st, [s!"O aliaschild {k}"]) else bad st
  | _ => bad st

/-! ### containers of `ProbeDeep` elements (element type `D`): the element type's Assign instance ALLOCATES

  `ProbeDeep` is a record of three pointer fields; `ProbeDeep_Assign(self, obj)` makes, for each field in turn, a fresh registered object
  that points to what the operand's field points to, and stores it in the target.  An element `o<b>` of a `D` container stands for the
  three fresh objects `b, b+1, b+2`.  The operations that assign elements are ops of their own:

    dpush <c> <b> <tok> | dins <c> <idx> <b> <tok> | daset <c> <idx> <b> <tok> | dtset <c> <key> <b> <tok>     one new element `o<b>` (operand fields = tok)
    dconcat <c> <src> <b> | dassign <c> <src> <b>                                                               copies of the elements of `src`: `o<b>`, `o<b+3>`, …

  plain, or behind `xin <k> <tok>* |` / `cin <k> |`: `k` counts the ALLOCATION POINTS of the operation (four per assigned element: in front of
  each of the three allocations, and behind the last store).  The model runs the statement lists of the current source on `Mid.DMach`; the
  collection of `xin` sees the container as the `k`-th `AView` presents it, with exactly the fresh objects that exist at that point. -/

inductive DeepOp where
  | dpush | dins | daset | dtset | dconcat | dassign
deriving Repr, DecidableEq, Inhabited

structure DInner where
  op : DeepOp
  id : Nat
  a : Int := 0
  base : Nat := 0
  t : Tok := .nil
  src : Option Nat := none
deriving Repr, Inhabited

def MState.isDeep (st : MState) (id : Nat) : Bool :=
  match st.objs[id]? with
  | some o => (o.kind.isArr || o.kind.isMap) && o.vt == .D
  | none => false

def MState.deepSrc (st : MState) (q : DInner) : Option MObj := q.src.bind fun s => st.objs[s]?

/-- the number of elements the operation assigns -/
def MState.deepCount (st : MState) (q : DInner) : Nat :=
  match q.op with
  | .dconcat | .dassign => (match st.deepSrc q with | some os => os.el.size | none => 0)
  | _ => 1

def MState.freshOk (st : MState) (base n : Nat) : Bool :=
  base + n ≤ maxObj && (List.range n).all fun i => !st.used.contains (base + i)

def MState.deepParse (st : MState) (w : List String) : Option DInner :=
  match w with
  | name :: ids :: rest =>
    match (parseLong ids).bind natOf with
    | none => none
    | some id =>
      match st.objs[id]? with
      | none => none
      | some o =>
        if !st.isDeep id || o.raw || st.owned id || !st.stale.isEmpty then none else
        let tokArg (s : String) : Option Tok :=
          match parseTok s with
          | some t => if st.tokOk t && t.isObjOrNil then some t else none
          | none => none
        let baseArg (s : String) (n : Nat) : Option Nat :=
          match (parseLong s).bind natOf with
          | some b => if st.freshOk b n then some b else none
          | none => none
        match name, rest with
        | "dpush", [bs, ts] =>
          (match baseArg bs 3, tokArg ts with
           | some b, some t => if o.kind.isArr then some { op := .dpush, id, base := b, t } else none
           | _, _ => none)
        | "dins", [idxs, bs, ts] =>
          (match parseLong idxs, baseArg bs 3, tokArg ts with
           | some idx, some b, some t =>
             if o.kind.isArr && 0 ≤ idx && idx ≤ (o.el.size : Int) && !(o.kind == .L && idx == (o.el.size : Int) && idx != 0)
             then some { op := .dins, id, a := idx, base := b, t } else none
           | _, _, _ => none)
        | "daset", [idxs, bs, ts] =>
          (match parseLong idxs, baseArg bs 3, tokArg ts with
           | some idx, some b, some t =>
             if o.kind.isArr && 0 ≤ idx && idx < (o.el.size : Int) then some { op := .daset, id, a := idx, base := b, t } else none
           | _, _, _ => none)
        | "dtset", [keys, bs, ts] =>
          (match parseLong keys, baseArg bs 3, tokArg ts with
           | some key, some b, some t => if o.kind.isMap && o.kt == .I then some { op := .dtset, id, a := key, base := b, t } else none
           | _, _, _ => none)
        | nm, [ss, bs] =>
          if nm != "dconcat" && nm != "dassign" then none else
          (match (parseLong ss).bind natOf with
           | some s =>
             match st.objs[s]? with
             | some os =>
               if s = id || os.raw || st.owned s || !st.isDeep s || !o.kind.isArr || !os.kind.isArr then none else
               (match baseArg bs (3 * os.el.size) with
                | some b => some { op := if nm = "dconcat" then .dconcat else .dassign, id, base := b, src := some s }
                | none => none)
             | none => none
           | none => none)
        | _, _ => none
  | _ => none

/-- the new elements (key, token `o<b>`) and, per element, the tokens its three fresh objects hold -/
def MState.deepNew (st : MState) (q : DInner) : List ((Int × Tok) × List Tok) :=
  match q.op with
  | .dconcat | .dassign =>
    (match st.deepSrc q with
     | some os => os.el.toList.zipIdx.map fun (t, i) =>
         (((0 : Int), Tok.obj (q.base + 3 * i)),
          match t with | .obj sb => [Tok.obj sb, Tok.obj (sb + 1), Tok.obj (sb + 2)] | _ => [Tok.nil, Tok.nil, Tok.nil])
     | none => [])
  | .dtset => [((q.a, Tok.obj q.base), [q.t, q.t, q.t])]
  | _ => [(((0 : Int), Tok.obj q.base), [q.t, q.t, q.t])]

/-- the fresh objects in allocation order: (id, the word it holds) -/
def MState.deepFresh (st : MState) (q : DInner) : List (Nat × Tok) :=
  (st.deepNew q).flatMap fun e =>
    match e.1.2 with
    | .obj b => e.2.zipIdx.map fun (t, f) => (b + f, t)
    | _ => []

def MState.addFresh (st : MState) (fr : List (Nat × Tok)) : MState :=
  fr.foldl (fun s (it : Nat × Tok) =>
    (s.doNewObj it.1 { kind := .P, k := 1, root := false, owner := none, el := #[it.2], key := #[] } none none).1) { st with full := false }

/-- the container when the operation has completed -/
def MState.deepPost (st : MState) (q : DInner) (o : MObj) : MObj :=
  let ne := (st.deepNew q).map (·.1)
  match q.op with
  | .dpush => { o with el := o.el.push (Tok.obj q.base) }
  | .dins => { o with el := o.el.insertIdxIfInBounds q.a.toNat (Tok.obj q.base) }
  | .daset => { o with el := o.el.setIfInBounds q.a.toNat (Tok.obj q.base) }
  | .dtset =>
    (match o.mapFind q.a with
     | some i => { o with el := o.el.setIfInBounds i (Tok.obj q.base) }
     | none => { o with el := o.el.push (Tok.obj q.base), key := o.key.push q.a })
  | .dconcat => { o with el := o.el ++ (ne.map (·.2)).toArray }
  | .dassign => { o with el := (ne.map (·.2)).toArray }

/-- 1: the collection at allocation point `k` is modelled; 0: known finding KF-C01-array-uninit-slots (`Array_Mark` would read slots that are not
    constructed yet); 2: known finding KF-C01-unlinked-entry-assign (the entry under construction lies outside the structure: a field that is
    already stored is presented by no Mark instance) -/
def MState.deepSafe (st : MState) (q : DInner) (o : MObj) (k : Nat) : Nat :=
  let ne := st.deepCount q
  if k ≥ 4 * ne then 1 else
  let i := k / 4
  let k' := k % 4
  match o.kind with
  | .A => if (q.op == .dconcat || q.op == .dassign) && i + 1 != ne then 0 else 1
  | .L => if q.op == .daset || k' == 0 then 1 else 2
  | .T => if k' == 0 then 1 else 2
  | _ => if (o.mapFind q.a).isSome || k' == 0 then 1 else 2

/-- full mode: a threshold collection may run at ANY allocation of the operation: only operations modelled at every allocation point are accepted -/
def MState.deepAllSafe (st : MState) (q : DInner) (o : MObj) : Bool :=
  (List.range (4 * st.deepCount q)).all fun k => st.deepSafe q o k == 1

abbrev DElem := Int × List Word

def deepD : Mid.Deep DElem where
  parts old new := (List.range 4).map fun k => (new.1, new.2.take k ++ old.2.drop k)

/-- the operation on the machine of `Cello.Heap.Mid` that records the allocation points, interpreting the statement lists of the current source -/
def MState.deepRun (st : MState) (q : DInner) (o : MObj) : Mid.DMach DElem :=
  let es : List DElem := o.entries.map fun e => (e.1, valWords .D e.2)
  let k := midKind o.kind
  let src : List DElem := (st.deepNew q).map fun e => (e.1.1, valWords .D e.1.2)
  let found := (o.mapFind q.a).getD es.length
  let env : Mid.Env DElem := { shape := k.shape, zero := (0, [0, 0, 0]), src := src }
  match q.op with
  | .dpush => Mid.runOpD deepD k .push { env with i := es.length } es
  | .dins => Mid.runOpD deepD k .pushAt { env with i := q.a.toNat } es
  | .daset => Mid.runOpD deepD k .set { env with i := q.a.toNat } es
  | .dtset => Mid.runOpD deepD k (if (o.mapFind q.a).isSome then .set else .setNew) { env with i := found } es
  | .dconcat => Mid.runOpD deepD k .concat { env with i := es.length + src.length } es
  | .dassign => Mid.runOpD deepD k .assign { env with i := es.length + src.length } es

/-- the container as its Mark instance presents it at an allocation point -/
def deepObjOf (o : MObj) (elems : List DElem) : Obj :=
  match o.kind with
  | .A => .cont "Array" (seqElems "ProbeDeep" (elems.map (·.2)))
  | .L => .cont "List" (seqElems "ProbeDeep" (elems.map (·.2)))
  | .T => .cont "Table" (mapElems o.kt.name "ProbeDeep" (elems.map fun e => (keyWords o.kt e.1, e.2)))
  | _ => .cont "Tree" (mapElems o.kt.name "ProbeDeep" (elems.map fun e => (keyWords o.kt e.1, e.2)))

def sameDElems (isMap : Bool) (a b : List DElem) : Bool :=
  if isMap then
    (a.toArray.qsort (fun x y => x.1 < y.1)).toList == (b.toArray.qsort (fun x y => x.1 < y.1)).toList
  else a == b

def DInner.operandWords (q : DInner) : List Word :=
  [addrOf q.id] ++ (match q.src with | some s => [addrOf s] | none => [tokWord q.t])

/-- the state when the operation has completed: the container, every fresh object that is not there yet -/
def MState.deepFinish (st : MState) (q : DInner) (post : MObj) (fresh : List (Nat × Tok)) : MState :=
  let st1 := { (st.addFresh fresh) with full := st.full, over := none }
  { st1 with objs := st1.objs.insert q.id post }

def MState.deepXin (st : MState) (k : Nat) (ts : List (Option Tok)) (q : DInner) (o : MObj) : MState × List String :=
  let safe := st.deepSafe q o k
  let fresh := st.deepFresh q
  let post := st.deepPost q o
  let stPost := st.deepFinish q post fresh
  if safe != 1 then (stPost, ["O xin ub"]) else
  let r := st.deepRun q o
  let n := 4 * st.deepCount q
  let env : Mid.Env DElem := { shape := (midKind o.kind).shape, zero := (0, [0, 0, 0]) }
  let postElems : List DElem := post.entries.map fun e => (e.1, valWords .D e.2)
  let midTxt := s!"R mid={if r.aviews.length == n && !r.m.stuck && sameDElems o.kind.isMap (r.m.final env) postElems then "agree" else "differ"}"
  match r.aviews[k]? with
  | none => (stPost, [s!"O xin calls={n} fired=0", midTxt])
  | some v =>
    if !v.ok then (stPost, ["O xin ub", midTxt]) else
    -- the fresh objects that exist at this allocation point: those of the elements already assigned, and `min k' 3` of the current one
    let have_ := 3 * (k / 4) + min (k % 4) 3
    let st0 := { (st.addFresh (fresh.take have_)) with over := some (q.id, deepObjOf o v.elems) }
    let words := ts.filterMap (·.map tokWord) ++ q.operandWords
    let (st1, lines) := st0.exactCollect words "x"
    ((st1.deepFinish q post (fresh.drop have_)), lines ++ [s!"O xin calls={n} fired=1", midTxt])

def MState.deepCin (st : MState) (k : Nat) (q : DInner) (o : MObj) : MState × List String :=
  let safe := st.deepSafe q o k
  let n := 4 * st.deepCount q
  let (st', live) := (st.deepFinish q (st.deepPost q o) (st.deepFresh q)).checkpoint
  if safe != 1 then (st', [s!"O cin ub live={setText live}"])
  else ({ st' with nCollect := st.nCollect + (if k < n then 1 else 0) }, [s!"O cin calls={n} fired={if k < n then 1 else 0} live={setText live}"])

/-- an op of the base interpreter that would touch a container of `ProbeDeep` elements in a way only the deep ops model: refused -/
def MState.touchesDeep (st : MState) (w : List String) : Bool :=
  let isD (s : String) : Bool := match (parseLong s).bind natOf with | some id => st.isDeep id | none => false
  match w with
  | "push" :: c :: _ | "aset" :: c :: _ | "tset" :: c :: _ | "arem" :: c :: _ | "ins" :: c :: _ => isD c
  | "assign" :: d :: s :: _ | "concat" :: d :: s :: _ => isD d || isD s
  | "copy" :: _ :: s :: _ => isD s
  | _ => false

/-! ### `walk <id>` (extension round): what the container's Mark instance hands to a recording callback — computed by running the loop terms the
    translator extracts from the current source (`CelloGen.GcWalk`, interpreted by Cello/HeapWalk.lean) on the container's block: Array / List / heap
    Tuple of `n` positions, a Table laid out densely (the number of calls of a complete loop does not depend on the layout; which slots the entries
    really occupy — first, last, wrapped — is the harness oracle's side).  `Tree_Mark` walks with `Tree_Iter_Init` / `Tree_Iter_Next` (C02 / C03). -/
def walkCalls (kind : Kind) (n : Nat) : Option Nat :=
  let inBlock (vs : List Nat) : Nat := (vs.filter (· < n)).length
  match kind with
  | .A => CelloGen.GcWalk.arrayMarkLoop.map fun L => inBlock (L.visits n) * (L.presents.filter (· == .item)).length
  | .T => CelloGen.GcWalk.tableMarkLoop.map fun L => (Walk.tablePresented L ((List.range n).map fun i => some (.raw "Int" [i], .raw "Int" [i]))).length
  | .L => CelloGen.GcWalk.listMarkLoop.map fun L => inBlock (L.visits n)
  | .H => CelloGen.GcWalk.tupleMarkLoop.map fun L => inBlock (L.visits n)
  | .E => some (2 * n)
  | _ => none

def MState.walkOp (st : MState) (ids : String) : MState × List String :=
  match (parseLong ids).bind natOf with
  | some id =>
    match st.objs[id]? with
    | some o =>
      if !(o.kind.isArr || o.kind.isMap || o.kind = .H) then bad st else
      let n := o.el.size
      (match walkCalls o.kind n with
       | some c => (st, [s!"O walk n={n} calls={c} missing={(if o.kind.isMap then 2 * n else n) - c} extra=0"])
       | none => (st, [s!"O walk n={n} calls=? (the loop of this Mark instance is outside the modelled family)"]))
    | none => bad st
  | none => bad st

/-- one op line (already split into words) -/
def MState.step (st : MState) (w : List String) : MState × List String :=
  if w.length > 40 then bad st else
  match w with
  | ["walk", "tls"] => (st, ["O walk tls missing=0 extra=0"])
  | ["walk", ids] => st.walkOp ids
  | "xin" :: ks :: rest =>
    let toks := rest.takeWhile (· != "|")
    let opw := (rest.dropWhile (· != "|")).drop 1
    (match st.deepParse opw with
     | some q =>
       if st.full || !st.stale.isEmpty then bad st else
       (match (parseLong ks).bind natOf, st.objs[q.id]? with
        | some k, some o =>
          let ts := toks.map parseTok
          if k > 100000 || ts.any (fun t => match t with | some t => !st.tokOk t | none => true) || !st.typesAnchored [] true then bad st
          else ({ st with started := true }).deepXin k ts q o
        | _, _ => bad st)
     | none => if st.touchesDeep opw || (match opw with | _ :: c :: _ => st.touchesDeep ["push", c] | _ => false) then bad st else st.stepBase w)
  | "cin" :: ks :: "|" :: opw =>
    (match st.deepParse opw with
     | some q =>
       if !st.full then bad st else
       (match (parseLong ks).bind natOf, st.objs[q.id]? with
        | some k, some o => if k > 100000 || !st.deepAllSafe q o then bad st else st.deepCin k q o
        | _, _ => bad st)
     | none => if st.touchesDeep opw || (match opw with | _ :: c :: _ => st.touchesDeep ["push", c] | _ => false) then bad st else st.stepBase w)
  | _ =>
    match st.deepParse w with
    | some q =>
      (match st.objs[q.id]? with
       | some o =>
         if st.full && !st.deepAllSafe q o then bad st else
         let st1 := st.deepFinish q (st.deepPost q o) (st.deepFresh q)
         if st.full then let (s2, live) := st1.checkpoint; (s2, [s!"O ok live={setText live}"]) else (st1, ["O ok"])
       | none => bad st)
    | none => if st.touchesDeep w then bad st else st.stepBase w

end Cello.Heap
